"""C12 — event filters select exactly the matching subsequence."""
import io
import json

from .. import core
from ..core import run_section, hs

MODULE = 'KdVerif.Props.C12'
NAMESPACE = 'KdVerif.C12'
TRUSTED = ['Model/Filters.lean written stage by stage like PyKdebugParser.kevents / os_log_events / '
           '_is_eventid_allowed; tied to the code by the correspondence sections filters-v2 / filters-mixed / filters-v3 '
           'and to the SOURCE TEXT by translation (tools/gen_pyir_fl.py -> Gen/PyIRFl, source_is_expected_ir, '
           'kevents_ir_eq_model, os_log_events_ir_eq_model, is_eventid_allowed_ir_eq_model); trusted for that: the '
           'translator and the interpreter Model/PyIRFl (section filters-ir tests them against CPython)',
           'the command-line glue in front of the filters is tied to the SOURCE TEXT as well: tools/gen_pyir_cli.py translates '
           'print_with_count, BASED_INT, the option declarations and callbacks of the seven commands of __main__.py, '
           'PyKdebugParser.__init__ and the four formatted_* maps into the IR of Model/PyIRCli on every run (cli_source_is_expected_ir, '
           'kevents_command_ir_eq_model / _eq_hand_model, table_commands_ir_eq_model, init_defaults_ir_eq_model, '
           'formatted_kevents_ir_eq_model, based_int_ir_eq_model); trusted for that: that translator and interpreter (sections cli-glue, '
           'cli-decls, cli-init, cli-formatted, cli-pwc-raise test them against click / CPython) and click\'s command-line parsing itself '
           '(the interpreter starts from the converted option values click hands to the callback)',
           'Python filter()/in/==/truthiness/and/or on ints, tuples, lists, None and str as the interpreter of Model/PyIRFl '
           'evaluates them; the stream KdBufParser(...).parse(kdebug) is the given item list (C02/C03)']
ASSUMPTIONS = ['the filter attributes of the parser object are not changed while a listing is being consumed '
               '(the lazy filter stages read them when an element is pulled)',
               'thread ids, event ids and the filter numbers are integers; negative filter values match nothing '
               '(sent to the model as out-of-range naturals)',
               'the stream is the list of objects the container parser yields (its own errors belong to C02/C03/C06)']

CLASSES = [1, 3, 4, 7, 0x25, 0x31, 0xff, 2, 5, 0xfe]              # with neighbours: 1-2-3-4-5, 0xfe-0xff
SUBBYTES = [0x00, 0x01, 0x0c, 0x40, 0xff, 0x02, 0x0d, 0xfe]         # with neighbours: 0-1-2, 0x0c-0x0d, 0xfe-0xff
TIDS = [0, 1, 7, 8, 0x1234, 2 ** 63, 2 ** 64 - 1]
NAMES = ['launchd', 'kernel_task', 'a', '', 'Finder', '42', '0', 'naïve', '-3']


def gen_eventid(rng):
    # codes at both ends of a subclass / class range (first id, last id) as often as inner ones
    code = rng.choice([0, 0, 1, 0x3fff, 0x3ffe, rng.randrange(0, 0x4000), rng.randrange(0, 0x4000)])
    return (rng.choice(CLASSES) << 24) | (rng.choice(SUBBYTES) << 16) | (code << 2)


def gen_items(rng, n, with_logs):
    items = []
    pool = []
    for i in range(n):
        if with_logs and rng.random() < 0.4:
            items.append(['L', rng.choice(TIDS), rng.choice([0, 1, 42, 7, -3, 2 ** 31]), rng.choice(NAMES), 'm%d' % i])
        elif pool and rng.random() < 0.12:            # an exact duplicate: multiplicity must be preserved
            items.append(list(rng.choice(pool)))
        else:
            eid = gen_eventid(rng)
            ev = ['E', (i + 1) * 256 + 1 + rng.randrange(0, 255), rng.choice(TIDS), eid | rng.randrange(0, 4),
                  [rng.getrandbits(64) for _ in range(4)]]
            pool.append(ev)
            items.append(ev)
    return items


def gen_cfg(rng, items):
    evs = [it for it in items if it[0] == 'E']
    present_cls = sorted({(it[3] & ~3) >> 24 for it in evs}) or [4]
    present_sub = sorted({(it[3] & ~3) >> 16 for it in evs}) or [0x040c]

    def pick_list(present, absent, big):
        r = rng.random()
        if r < 0.45:
            return []
        out = []
        for _ in range(rng.randrange(1, 4)):
            q = rng.random()
            out.append(rng.choice(present) if q < 0.7 else rng.choice(absent) if q < 0.85 else rng.choice(big))
        if rng.random() < 0.2:
            out.append(out[0])                          # a repeated entry
        return out

    classes = pick_list(present_cls, [2, 5, 0x21, 0], [256, 300, 0x0400, 2 ** 32, -1, -4])
    subs = pick_list(present_sub, [0x0101, 0x04ff, 0, 4], [65536, 0x040c00, 2 ** 40, -1])
    for lst, present in ((classes, present_cls), (subs, present_sub)):      # touching ranges: k and k + 1 / k - 1 both listed
        if lst and rng.random() < 0.35:
            nb = [v + d for v in lst for d in (1, -1) if v + d in present] or [lst[0] + rng.choice([1, -1])]
            lst.insert(rng.randrange(len(lst) + 1), rng.choice(nb))
    if classes and subs and rng.random() < 0.3:         # overlapping: a subclass inside a listed class
        subs.append((classes[0] << 8) | rng.choice(SUBBYTES) if classes[0] >= 0 else 0)
    r = rng.random()
    tid = None if r < 0.5 else 0 if r < 0.58 else rng.choice(TIDS) if r < 0.92 else rng.choice([5, -1, 2 ** 64])
    r = rng.random()
    fc_arg = None if r < 0.75 else [] if r < 0.85 else pick_list(present_cls, [2, 5], [256]) or [rng.choice(present_cls)]
    r = rng.random()
    proc = None if r < 0.5 else rng.choice(NAMES + ['1', '42', '7', '2147483648', 'nosuch'])
    return {'tid': tid, 'fc_arg': fc_arg, 'classes': classes, 'subs': subs, 'proc': proc,
            'tuple': rng.random() < 0.5}


def gen_cases(rng, tier, kind):
    n = {'v2': 700, 'stub': 500, 'v3': 150}[kind] * (1 if tier == 'quick' else 25)
    cases = []
    for k in range(n):
        size = 0 if k % 97 == 0 else rng.randrange(1, 14)
        if kind == 'v3':
            evs = gen_items(rng, rng.randrange(0, 8), False)
            lgs = [['L', rng.choice(TIDS), rng.choice([0, 1, 42, 7, 2 ** 31]), rng.choice(NAMES), 'm%d' % i]
                   for i in range(rng.randrange(0, 7))]
            items = evs + lgs
        else:
            items = gen_items(rng, size, kind == 'stub')
        cases.append({'kind': kind, 'cfg': gen_cfg(rng, items), 'items': items})
    return cases


def nat(v, big):
    """Negative numbers can match nothing: the model receives an out-of-range natural."""
    return v if v >= 0 else big + (-v)


def csv(lst, big):
    return ','.join(str(nat(v, big)) for v in lst) or '-'


def line_fn(case, cmd='filter'):
    from ..impl import record_args
    cfg = case['cfg']
    parts = [cmd,
             'N' if cfg['tid'] is None else str(nat(cfg['tid'], 2 ** 70)),
             'N' if cfg['fc_arg'] is None else csv(cfg['fc_arg'], 2 ** 70),
             csv(cfg['classes'], 2 ** 70), csv(cfg['subs'], 2 ** 70),
             'N' if cfg['proc'] is None else hs(cfg['proc'])]
    for it in case['items']:
        if it[0] == 'E':
            parts.append('E' + record_args(it[1], it[4], it[2], it[3]).hex())
        else:
            parts.append('L%d:%d:%s:%s' % (it[1], it[2], hs(it[3]), hs(it[4])))
    return ' '.join(parts)


def show_listing(objs):
    from pykdebugparser.os_log_event import OsLogEvent
    out = []
    for o in objs:
        if isinstance(o, OsLogEvent):
            out.append('%d:%d:%s:%s' % (o.thread_identifier, o.process_identifier, hs(o.process), hs(o.composed_message)))
        else:
            out.append('%d:%d:%d' % (o.timestamp, o.tid, o.debugid))
    return ' '.join(out)


def impl_fn(case):
    from .. import streams
    from ..impl import record_args
    from pykdebugparser.pykdebugparser import PyKdebugParser
    from pykdebugparser.kevent import from_kd_buf
    cfg = case['cfg']
    conv = tuple if cfg['tuple'] else list
    p = PyKdebugParser()
    p.filter_tid = cfg['tid']
    p.filter_class = conv(cfg['classes'])
    p.filter_subclass = conv(cfg['subs'])
    p.filter_process = cfg['proc']
    fc_arg = None if cfg['fc_arg'] is None else conv(cfg['fc_arg'])
    items = case['items']
    recs = [record_args(it[1], it[4], it[2], it[3]) for it in items if it[0] == 'E']
    if case['kind'] == 'v2':
        data = streams.v2_file([(7, 42, 'launchd')], recs)
        evs = list(p.kevents(io.BytesIO(data), fc_arg))
        lgs = list(p.os_log_events(io.BytesIO(data)))
    elif case['kind'] == 'v3':
        strings = []
        raw = [streams.raw_log_event(strings, it[4], it[1], it[3] or None, it[2]) for it in items if it[0] == 'L']
        data = streams.v3_file([(7, 42, 'launchd')], recs, raw, strings)
        evs = list(p.kevents(io.BytesIO(data), fc_arg))
        lgs = list(p.os_log_events(io.BytesIO(data)))
    else:
        objs = [from_kd_buf(record_args(it[1], it[4], it[2], it[3])) if it[0] == 'E'
                else streams.make_log(it[4], it[1], it[3], it[2]) for it in items]
        with streams.stub_stream(objs):
            evs = list(p.kevents(io.BytesIO(b''), fc_arg))
            lgs = list(p.os_log_events(io.BytesIO(b'')))
    return 'ok ' + show_listing(evs) + ' | ' + show_listing(lgs)


def expected(case):
    """The property stated directly: restrict the generated stream by the declarative predicate."""
    cfg = case['cfg']
    classes = set(cfg['classes'] if cfg['fc_arg'] is None else cfg['fc_arg'])
    subs = set(cfg['subs'])
    evs, lgs = [], []
    for it in case['items']:
        if it[0] == 'E':
            eid = it[3] - it[3] % 4
            if cfg['tid'] is not None and it[2] != cfg['tid']:
                continue
            if (classes or subs) and eid // 2 ** 24 not in classes and eid // 2 ** 16 not in subs:
                continue
            evs.append('%d:%d:%d' % (it[1], it[2], it[3]))
        else:
            if cfg['tid'] is not None and it[1] != cfg['tid']:
                continue
            if cfg['proc'] is not None and cfg['proc'] != it[3] and cfg['proc'] != '%d' % it[2]:
                continue
            lgs.append('%d:%d:%s:%s' % (it[1], it[2], hs(it[3]), hs(it[4])))
    return evs, lgs


def diff_kind(exp, got):
    if sorted(exp) == sorted(got):
        return 'order'
    from collections import Counter
    ce, cg = Counter(exp), Counter(got)
    if ce - cg:
        return 'missing'
    return 'extra'


def oracle(case, got):
    if not got.startswith('ok '):
        return ('filters:raises', 'listing a well-formed stream raised ' + got)
    ev_txt, _, lg_txt = got[3:].partition(' | ')
    evs, lgs = ev_txt.split(), lg_txt.split()
    if any(x.count(':') != 2 for x in evs):
        return ('filters:log-in-event-listing', 'the event listing contains a log record')
    if any(x.count(':') != 3 for x in lgs):
        return ('filters:event-in-log-listing', 'the log listing contains an event')
    exp_e, exp_l = expected(case)
    if evs != exp_e:
        k = diff_kind(exp_e, evs)
        return ('filters:events-' + k, 'event listing differs from the stream restricted by the predicate (%s): '
                'expected %s got %s' % (k, exp_e[:6], evs[:6]))
    if lgs != exp_l:
        k = diff_kind(exp_l, lgs)
        return ('filters:logs-' + k, 'log listing differs from the stream restricted by the predicate (%s): '
                'expected %s got %s' % (k, exp_l[:6], lgs[:6]))
    return None


def kind_fn(case, got):
    c = case['cfg']
    on = [n for n, f in (('tid', c['tid'] is not None), ('class', bool(c['classes'])), ('sub', bool(c['subs'])),
                         ('arg', c['fc_arg'] is not None), ('proc', c['proc'] is not None)) if f]
    return case['kind'] + ':' + ('+'.join(on) or 'none')


def nontrivial(case, got):
    """A filter is active and the selection is a proper, non-empty part of the stream."""
    if not got.startswith('ok '):
        return False
    ev_txt, _, lg_txt = got[3:].partition(' | ')
    ne = sum(1 for it in case['items'] if it[0] == 'E')
    nl = len(case['items']) - ne
    return 0 < len(ev_txt.split()) < ne or 0 < len(lg_txt.split()) < nl


# ---------------------------------------------------------------- the command-line tool sets the options

def gen_cli_cases(rng, tier):
    cases = []
    for _ in range(120 if tier == 'quick' else 3000):
        items = gen_items(rng, rng.randrange(1, 10), False)
        cfg = gen_cfg(rng, items)
        cases.append({'items': items, 'tid': cfg['tid'], 'classes': cfg['classes'], 'subs': cfg['subs'],
                      'show_tid': rng.random() < 0.5, 'hexargs': rng.random() < 0.5,
                      'tmap': [[7, 42, 'launchd'], [8, 1, 'kernel_task'], [0, 0, 'kernel_task']][:rng.randrange(0, 4)]})
    return cases


def cli_codes():
    from pykdebugparser.trace_codes import default_trace_codes
    if not hasattr(cli_codes, 'c'):
        cli_codes.c = default_trace_codes()
    return cli_codes.c


def cli_line(case):
    from ..impl import record_args
    codes = cli_codes()
    rel = sorted({it[3] & ~3 for it in case['items'] if (it[3] & ~3) in codes})
    return ' '.join(['fmtkf', 'N' if case['tid'] is None else str(nat(case['tid'], 2 ** 70)), csv(case['classes'], 2 ** 70),
                     csv(case['subs'], 2 ** 70), '111%d11' % case['show_tid'],
                     ';'.join('%d:%d:%s' % (t, p, hs(n)) for t, p, n in case['tmap']) or '-',
                     ';'.join('%d:%s' % (k, hs(codes[k])) for k in rel) or '-']
                    + [record_args(it[1], it[4], it[2], it[3]).hex() for it in case['items']])


def cli_impl(case):
    from click.testing import CliRunner
    from .. import streams
    from ..impl import record_args
    from pykdebugparser.__main__ import cli
    data = streams.v2_file([tuple(x) for x in case['tmap']], [record_args(it[1], it[4], it[2], it[3]) for it in case['items']])
    num = (lambda v: hex(v) if v >= 0 else str(v)) if case['hexargs'] else str
    args = ['kevents', '-']
    if case['tid'] is not None:
        args += ['--tid', str(case['tid'])]
    for c in case['classes']:
        args += ['-cf', num(c)]
    for c in case['subs']:
        args += ['--subclass-filters', num(c)]
    if case['show_tid']:
        args.append('--show-tid')
    r = CliRunner().invoke(cli, args, input=data)
    if r.exception is not None or r.exit_code != 0:
        return 'err ' + (core.err_name(r.exception) if r.exception is not None else 'exit%d' % r.exit_code)
    return 'ok ' + ' '.join(hs(x) for x in r.output.split('\n')[:-1])


def cli_oracle(case, got):
    """The tool prints one line per selected event, in stream order: each line starts with the event's timestamp
    and shows the thread id column exactly when asked."""
    if not got.startswith('ok '):
        return ('cli:kevents-fails', 'the kevents command failed: ' + got)
    lines = [bytes.fromhex(x if x != '-' else '').decode() for x in got[3:].split(' ')] if got != 'ok ' else []
    exp, _ = expected({'cfg': {'tid': case['tid'], 'fc_arg': None, 'classes': case['classes'], 'subs': case['subs'],
                               'proc': None}, 'items': case['items']})
    stamps = [ln.split(' ', 1)[0] for ln in lines]
    want = [e.split(':')[0] for e in exp]
    if stamps != want:
        return ('cli:kevents-' + diff_kind(want, stamps), 'printed events %s, selected by the options %s' % (stamps[:8], want[:8]))
    for ln, e in zip(lines, exp):
        tidcol = ('0x%x' % int(e.split(':')[1])).ljust(12)
        if case['show_tid'] and not ln[len(e.split(':')[0]) + 1 + 58 + 15:].startswith(tidcol):
            return ('cli:show-tid', 'the thread id column is missing from %r' % ln)
    return None


RULES = {
    'filters-v2': 'seeded event streams (0..13 records, classes/subclasses/tids from small pools so that filters hit, '
                  'exact duplicates) written as version-2 files and read by PyKdebugParser.kevents/os_log_events; '
                  'configurations: tid None/0/present/absent/negative/2^64, class and subclass lists empty / present '
                  '/ absent / >255 / >65535 / negative / repeated / overlapping, tuple vs list, explicit filter_class '
                  'argument (None, [], list); non-trivial = a proper non-empty sub-listing was selected',
    'filters-mixed': 'events and OsLogEvent objects interleaved arbitrarily, fed through a stub bound to the name '
                     'KdBufParser in pykdebugparser.pykdebugparser; process filter None / name / pid text / empty '
                     'string / absent; both listings compared',
    'cli-kevents': 'the `kevents` command of the tool (click CliRunner, dump on stdin) with --tid / -cf / -sf (decimal and '
                   'hex, repeated, negative) / --show-tid: printed lines compared with the model of formatted_kevents under '
                   'the same options',
    'filters-ir': 'the cases of filters-v2 / filters-mixed / filters-v3 once more: the methods GENERATED from the source text of '
                  'pykdebugparser.py (Gen/PyIRFl: kevents, os_log_events, _is_eventid_allowed) run by the interpreter of '
                  'Model/PyIRFl (`flir`: lazy filter stages stacked by the translated method body, each lambda evaluated in '
                  'the frame\'s final variables, Python truthiness) against the real code - tests the translator and the '
                  'interpreter, not the hand model',
    'filters-v3': 'real version-3 files (header, thread map, one events chunk, log-strings and log-events property '
                  'lists): events followed by log records, both listings compared',
}



def set_filters(p, cfg):
    """Puts the settings of `cfg` on the parser the way a caller may: by assigning new objects, or - when cfg['how'] is
    'inplace' and the attribute still is a list - by mutating the list the parser already holds (append / extend /
    clear / slice assignment).  The parser hands out plain lists (`filter_class = []`), so both are ordinary use."""
    p.filter_tid = cfg['tid']
    conv = tuple if cfg['tuple'] else list
    for attr, vals in (('filter_class', cfg['classes']), ('filter_subclass', cfg['subs'])):
        cur = getattr(p, attr)
        how = cfg.get('how', 'assign')
        if how == 'assign' or not isinstance(cur, list) or cfg['tuple']:
            setattr(p, attr, conv(vals))
        elif how == 'clear-extend':
            cur.clear()
            cur.extend(vals)
        elif how == 'slice':
            cur[:] = vals
        else:                                   # 'append': drop what is not wanted, append what is missing, keep order
            del cur[:]
            for v in vals:
                cur.append(v)


def reuse_section(rep, rng, tier):
    """One PyKdebugParser object, the same stream listed several times while the caller changes the filter
    attributes in between: every listing must be the restriction by the CURRENT settings (no verdict, table or
    generator state may survive from an earlier request)."""
    from .. import streams
    from .. import core
    from ..impl import record_args
    from pykdebugparser.pykdebugparser import PyKdebugParser
    sec = rep.section('reuse')
    sec['rule'] = ('one parser object x 3-5 successive requests on the same v2 stream with the filter attributes changed in '
                   'between (tid / class / subclass / explicit class argument; by assignment or by mutating the lists the parser holds); each listing vs the model and vs the '
                   'declarative predicate under the settings in force at that request')
    n = 120 if tier == 'quick' else 3000
    for _ in range(n):
        items = gen_items(rng, rng.randrange(4, 14), False)
        recs = [record_args(it[1], it[4], it[2], it[3]) for it in items if it[0] == 'E']
        data = streams.v2_file([(7, 42, 'launchd')], recs)
        p = PyKdebugParser()
        steps = []
        for _k in range(rng.randrange(3, 6)):
            cfg = gen_cfg(rng, items)
            cfg['proc'] = None
            cfg['how'] = rng.choice(['assign', 'assign', 'clear-extend', 'slice', 'append'])
            if cfg['how'] != 'assign' and rng.random() < 0.8:
                cfg['tuple'] = False
            steps.append(cfg)
        lines, gots, cases = [], [], []
        for cfg in steps:
            conv = tuple if cfg['tuple'] else list
            set_filters(p, cfg)
            fc_arg = None if cfg['fc_arg'] is None else conv(cfg['fc_arg'])
            case = {'kind': 'v2', 'cfg': cfg, 'items': items}
            try:
                got = 'ok ' + show_listing(list(p.kevents(io.BytesIO(data), fc_arg))) + ' | '
            except Exception as e:
                got = 'err ' + core.err_name(e)
            cases.append(case)
            gots.append(got)
            lines.append(line_fn(case))
        model = core.drive(lines)
        for case, got, m, ln in zip(cases, gots, model, lines):
            sec['cases'] += 1
            if got != m:
                sec['mismatches'] += 1
                if len(rep.first_diffs) < 10:
                    rep.first_diffs.append({'section': 'reuse', 'line': ln[:1500], 'model': m[:600], 'impl': got[:600]})
            r = oracle(case, got)
            if r:
                rep.add_failure(r[0].replace('filters:', 'filters:reuse-'), 'after earlier requests on the same parser object: '
                                + r[1], {'section': 'reuse', 'steps': steps, 'items': items, 'failing_cfg': case['cfg']})
            elif nontrivial(case, got):
                sec['distinct_nontrivial'] += 1
    if sec['mismatches']:
        rep.broken.append('correspondence:reuse (%d of %d requests differ)' % (sec['mismatches'], sec['cases']))


def run_schedule(items, cfg, reqs, order, rng=None):
    """Creates the lazy requests in order on ONE parser, then pulls one item at a time from the request named by
    `order` (a recorded schedule) or by `rng`; returns the outputs, the error names and the schedule used."""
    from .. import streams
    from .. import core
    from ..impl import record_args
    from pykdebugparser.pykdebugparser import PyKdebugParser
    recs = [record_args(it[1], it[4], it[2], it[3]) for it in items if it[0] == 'E']
    data = streams.v2_file([(7, 42, 'launchd')], recs)
    p = PyKdebugParser()
    p.filter_tid = cfg['tid']
    p.filter_class = list(cfg['classes'])
    p.filter_subclass = list(cfg['subs'])
    fc_arg = None if cfg['fc_arg'] is None else list(cfg['fc_arg'])
    gens, outs, errs = [], [], []
    for r in reqs:
        try:
            g = (p.kevents(io.BytesIO(data), fc_arg) if r == 'k' else p.traces(io.BytesIO(data)) if r == 't'
                 else p.callstacks(io.BytesIO(data)))
            gens.append(iter(g))
        except Exception:
            gens.append(None)
        outs.append([])
        errs.append(None)
    alive = [i for i, g in enumerate(gens) if g is not None]
    used = []
    pending = list(order) if order is not None else None
    while alive:
        if pending is not None:
            if not pending:
                break
            i = pending.pop(0)
            if i not in alive:
                continue
        else:
            i = rng.choice(alive)
        used.append(i)
        try:
            outs[i].append(next(gens[i]))
        except StopIteration:
            alive.remove(i)
        except Exception as e:                         # a decoder fed random words may raise: not this property's business
            errs[i] = core.err_name(e)
            alive.remove(i)
    return outs, errs, used


def schedules_section(rep, rng, tier):
    """One PyKdebugParser object, fixed filter attributes, SEVERAL lazy listings alive at once (event listings next to
    traces() / callstacks() requests, which run the event filter with helper classes added) and consumed in an
    arbitrary interleaving: every event listing must still be the restriction by the caller's settings."""
    from .. import streams
    from .. import core
    from ..impl import record_args
    from pykdebugparser.pykdebugparser import PyKdebugParser
    sec = rep.section('schedules')
    sec['rule'] = ('one parser object x 2-4 lazy requests (k = kevents, t = traces, c = callstacks) created up front on the same '
                   'v2 stream and consumed item by item in a random interleaving, filter attributes fixed; each event listing '
                   'vs the model and vs the declarative predicate (the t / c outputs are not compared here: C13)')
    n = 150 if tier == 'quick' else 4000
    for _ in range(n):
        items = gen_items(rng, rng.randrange(4, 14), False)
        cfg = gen_cfg(rng, items)
        cfg['proc'] = None
        cfg['tuple'] = False
        if not cfg['classes'] and not cfg['subs'] and rng.random() < 0.7:
            cfg['classes'] = [rng.choice([4, 4, 1, 0x25])]
        reqs = [rng.choice('kktc') for _ in range(rng.randrange(2, 5))]
        if 'k' not in reqs:
            reqs[rng.randrange(len(reqs))] = 'k'
        outs, errs, order = run_schedule(items, cfg, reqs, None, rng)
        case = {'kind': 'v2', 'cfg': cfg, 'items': items}
        ln = line_fn(case)
        m = core.drive([ln])[0]
        for i, r in enumerate(reqs):
            if r != 'k':
                continue
            sec['cases'] += 1
            got = ('ok ' + show_listing(outs[i]) + ' | ') if errs[i] is None else 'err ' + errs[i]
            if got != m:
                sec['mismatches'] += 1
                if len(rep.first_diffs) < 10:
                    rep.first_diffs.append({'section': 'schedules', 'line': ln[:1500], 'model': m[:600], 'impl': got[:600]})
            res = oracle(case, got)
            if res:
                rep.add_failure(res[0].replace('filters:', 'filters:schedule-'),
                                'with other lazy requests alive on the same parser object (requests %s, listing %d, consumption '
                                'order %s): %s' % (''.join(reqs), i, order[:40], res[1]),
                                {'section': 'schedules', 'requests': reqs, 'order': order, 'items': items, 'cfg': cfg})
            elif nontrivial(case, got):
                sec['distinct_nontrivial'] += 1
    if sec['mismatches']:
        rep.broken.append('correspondence:schedules (%d of %d listings differ)' % (sec['mismatches'], sec['cases']))


C12_METHODS = ('_is_eventid_allowed', 'kevents', 'os_log_events', 'notes')


def translation_tie(rep):
    """Is the IR translated from pykdebugparser.py the one the refinement theorems are about?  Returns whether the
    generated methods can be run (no `.unsupported` node)."""
    ans = core.drive(['flircheck'])[0]
    if ans == 'same':
        rep.notes.append('translation tie: Gen/PyIRFl (from pykdebugparser.py) = Spec/PyIRFlExpected')
        return True
    differing = ans.split(' ')[1].split(',') if ans.startswith('differs ') else [ans]
    mine = [m for m in differing if m in C12_METHODS or not ans.startswith('differs ')]
    if mine:
        rep.broken.append('theorem source_is_expected_ir: the IR that tools/gen_pyir_fl.py translates from the source text of '
                          'pykdebugparser.py (%s) is not the one of Spec/PyIRFlExpected that kevents_ir_eq_model / '
                          'os_log_events_ir_eq_model / is_eventid_allowed_ir_eq_model are proved for (%s)'
                          % (', '.join(mine), ans))
    else:
        rep.notes.append('translation tie: the methods of this property translate to Spec/PyIRFlExpected (%s: other '
                         'property)' % ans)
    return 'unsupported' not in ans


def correspondence(rep, rng, tier):
    reuse_section(rep, rng, tier)
    schedules_section(rep, rng, tier)
    runnable = translation_tie(rep)
    ir_cases = []
    for sec, kind in (('filters-v2', 'v2'), ('filters-mixed', 'stub'), ('filters-v3', 'v3')):
        cases = gen_cases(rng, tier, kind)
        ir_cases += cases if tier == 'quick' else cases[::5]
        run_section(rep, sec, cases, line_fn=line_fn, impl_fn=impl_fn, oracle_fn=oracle,
                    nontrivial_fn=nontrivial, kind_fn=kind_fn, rule=RULES[sec])
    if runnable:
        run_section(rep, 'filters-ir', ir_cases, line_fn=lambda c: line_fn(c, 'flir'), impl_fn=impl_fn, oracle_fn=oracle,
                    nontrivial_fn=nontrivial, kind_fn=kind_fn, rule=RULES['filters-ir'],
                    skip_fn=lambda m: m == 'unsupported')
    else:
        rep.notes.append('section filters-ir skipped: the translation contains .unsupported nodes')
    run_section(rep, 'cli-kevents', gen_cli_cases(rng, tier), line_fn=cli_line, impl_fn=cli_impl, oracle_fn=cli_oracle,
                nontrivial_fn=lambda c, g: g.startswith('ok ') and 0 < len(g[3:].split()) < len(c['items']),
                kind_fn=lambda c, g: 'show_tid' if c['show_tid'] else 'no_tid', rule=RULES['cli-kevents'])
    from .. import cliir
    cliir.section(rep, rng, tier, 'C12')             # the glue of __main__.py / __init__ / formatted_*, translated: all seven commands


def replay(path):
    with open(path) as fd:
        r = json.load(fd)
    if 'replay' not in r:
        print(json.dumps(r, indent=1)[:4000])
        return 1
    rp = r['replay']
    if rp.get('section') in ('cli-glue', 'cli-pwc-raise', 'cli-decls', 'cli-init', 'cli-formatted'):
        from .. import cliir
        return cliir.replay(rp, 'C12', path)
    if rp.get('section') == 'schedules':
        case = {'kind': 'v2', 'cfg': rp['cfg'], 'items': rp['items']}
        outs, errs, _ = run_schedule(rp['items'], rp['cfg'], rp['requests'], rp['order'])
        bad = 0
        print('requests:', ''.join(rp['requests']), ' schedule:', rp['order'])
        print('model:', core.drive([line_fn(case)])[0])
        for i, q in enumerate(rp['requests']):
            if q == 'k':
                got = ('ok ' + show_listing(outs[i]) + ' | ') if errs[i] is None else 'err ' + errs[i]
                res = oracle(case, got)
                print('listing %d:' % i, got, '' if not res else '<- ' + res[1])
                bad += bool(res)
        if bad:
            print(f'VIOLATION property=C12 replay={path}')
            return 1
        print('no violation on this input')
        return 0
    if rp.get('section') == 'reuse':
        from pykdebugparser.pykdebugparser import PyKdebugParser
        from .. import streams
        from ..impl import record_args
        items = rp['items']
        data = streams.v2_file([(7, 42, 'launchd')], [record_args(it[1], it[4], it[2], it[3]) for it in items if it[0] == 'E'])
        p = PyKdebugParser()
        bad = 0
        for cfg in rp['steps']:
            conv = tuple if cfg['tuple'] else list
            set_filters(p, cfg)
            fc_arg = None if cfg['fc_arg'] is None else conv(cfg['fc_arg'])
            case = {'kind': 'v2', 'cfg': cfg, 'items': items}
            try:
                got = 'ok ' + show_listing(list(p.kevents(io.BytesIO(data), fc_arg))) + ' | '
            except Exception as e:
                got = 'err ' + core.err_name(e)
            res = oracle(case, got)
            print('request under', json.dumps(cfg), '->', got, '' if not res else '<- ' + res[1])
            bad += bool(res)
        if bad:
            print(f'VIOLATION property=C12 replay={path}')
            return 1
        print('no violation on this input')
        return 0
    case = rp['case']
    fl, fi, fo = (cli_line, cli_impl, cli_oracle) if r['replay'].get('section') == 'cli-kevents' else (line_fn, impl_fn, oracle)
    if r['replay'].get('section') == 'filters-ir':
        fl = lambda c: line_fn(c, 'flir')  # noqa: E731
    try:
        got = fi(case)
    except Exception as e:
        got = 'err ' + core.err_name(e)
    res = fo(case, got)
    model = core.drive([fl(case)])[0]
    print('case :', json.dumps(case)[:2000])
    print('impl :', got)
    print('model:', model)
    if res:
        print('oracle:', res[0], '-', res[1])
        print(f'VIOLATION property=C12 replay={path}')
        return 1
    print('no violation on this input')
    return 0


LEVEL_TEXT = ('Lean theorems over the stage-by-stage model of kevents / os_log_events for all streams (events and log '
              'records interleaved) and all configurations: kevents_eq_filter, keventsWith_eq_filter, kevents_sublist, '
              'count_kevents, logs_eq_filter, events_logs_disjoint, listings_partition, filter_idempotent, '
              'filter_compose; model tied to the code by differential runs on version-2 files, version-3 files and '
              'stubbed mixed streams, and to the source text by translation: source_is_expected_ir (the IR translated from '
              'pykdebugparser.py on every run is the expected one), kevents_ir_eq_model / os_log_events_ir_eq_model / '
              'is_eventid_allowed_ir_eq_model (the translated methods, interpreted, ARE the model for every configuration, '
              'class-list argument and stream), kevents_ir_eq_filter.'
              ' The command-line glue is translated too (tools/gen_pyir_cli.py -> Gen/PyIRCli; IR + interpreter Model/PyIRCli): '
              'cli_source_is_expected_ir (print_with_count, BASED_INT, the seven commands with their option declarations, __init__, the '
              'four formatted_* maps), kevents_command_ir_eq_model (the interpreted kevents callback hands formatted_kevents a fresh parser '
              'whose attributes read as configOf / showOf of the options in force, declared defaults included, and prints through '
              'print_with_count), kevents_command_ir_eq_hand_model / kevents_command_prints_selected (= print_with_count of '
              'Format.formattedKevents under configOf: every option reaches exactly the attribute the model reads), '
              'table_commands_ir_eq_model, init_defaults_ir_eq_model, formatted_kevents_ir_eq_model, based_int_ir_eq_model.')
LEVEL_NOTE = ('Trusted: Lean kernel, the translator tools/gen_pyir_fl.py and the interpreter Model/PyIRFl (Python filter() / '
              'in / == / truthiness semantics; tested against CPython by the section filters-ir), the correspondence '
              'harness. The container parser behind the listings stays hand-modelled (its stream is the given item list). '
              'Assumes the filter attributes stay fixed while the lazy listing is consumed. Glue: trusted are tools/gen_pyir_cli.py, the '
              'interpreter Model/PyIRCli and click\'s own parsing / conversion of the command line (the interpreter starts from the '
              'converted values; int(text, 0) is modelled for ASCII texts without underscores); the meaning of the formatted_* / '
              'listing methods is a parameter of the glue theorems (instantiated with Format.formattedKevents here). Section cli-glue: '
              'real tool vs library API under the translated glue, oracle = API under the documented glue.')
TECHNIQUE = ('Lean 4 proof (filter-chain = declarative List.filter) + translation validation of kevents / os_log_events / '
             '_is_eventid_allowed + differential correspondence')
