import Driver.Cmd.Format
import KdVerif.Model.PyIRFm
import KdVerif.Gen.PyIRFm
import KdVerif.Spec.PyIRFmExpected
/-
  Commands for the translation tie of the line builders (C14): the methods GENERATED from pykdebugparser.py
  (`Gen/PyIRFm`) run by the interpreter of `Model/PyIRFm`.

  fmircheck                                  `same` | `differs <methods>` (`C14.source_is_expected_ir`)
  irfmtk / irfmtkf / irfmtq / irfmtt / irfmtc / irfmtl
                                             the commands `fmtk` … `fmtl` of Driver/Cmd/Format (same arguments, same
                                             answers), computed by `PyIRFm.runKevent` … on `Gen.PyIRFm.prog` instead of
                                             the hand model `formatKevent` …; `err <PyErr>` when the interpreted method raises
  `unsupported` when the translation contains a node outside the IR.
  None of the five wall-clock attributes is set (`TimeSet` default): `_format_timestamp` on its tick branch.
-/
open KdVerif KdVerif.Format
namespace Driver.PyIRFm
open Driver.Format KdVerif.PyIRFm

def unsupported : Bool := Gen.PyIRFm.prog.hasUnsupported || !Gen.PyIRFm.notes.isEmpty

def cmdCheck : Cmd := fun _ =>
  let g := Gen.PyIRFm.prog
  let x := KdVerif.PyIRFm.Expected.prog
  let d : List String :=
    (if g.formatTimestamp = x.formatTimestamp then [] else ["_format_timestamp"]) ++
    (if g.formatProcess = x.formatProcess then [] else ["_format_process"]) ++
    (if g.formatKevent = x.formatKevent then [] else ["_format_kevent"]) ++
    (if g.formatTrace = x.formatTrace then [] else ["_format_trace"]) ++
    (if g.formatCallstack = x.formatCallstack then [] else ["_format_callstack"]) ++
    (if g.formatLog = x.formatLog then [] else ["_format_log"]) ++
    (if Gen.PyIRFm.notes.isEmpty then [] else ["notes"])
  if d.isEmpty then "same" else
    "differs " ++ ",".intercalate d ++ (if unsupported then " unsupported" else "")

def cx (sh : Show) (c : Colour) (t : Tables) : Ctx := ⟨sh, c, t, Gen.Enums.DgbFuncQual, {}⟩

/-- all lines, or the first exception (the real `map` raises when that line is requested) -/
def okAll (l : List (Except PyErr String)) : String :=
  match l.mapM id with
  | .ok ls => okTexts ls
  | .error e => "err " ++ e.name

def okOne : Except PyErr String → String
  | .ok s => okText s
  | .error e => "err " ++ e.name

def cmdFmtK : Cmd
  | bits :: tmap :: codes :: recs =>
    if unsupported then "unsupported" else
    match parseShow bits, parseTables tmap, parseCodes codes, parseRecs recs with
    | some sh, some t, some codes, some es => okAll (es.map (runKevent Gen.PyIRFm.prog (cx sh Colour.off t) codes))
    | _, _, _, _ => "bad-op"
  | _ => "bad-op"

def cmdFmtKF : Cmd
  | tid :: cls :: subs :: bits :: tmap :: codes :: recs =>
    if unsupported then "unsupported" else
    let tid? : Option (Option Nat) := if tid = "N" then some none else tid.toNat?.map some
    match tid?, parseNatList cls, parseNatList subs, parseShow bits, parseTables tmap, parseCodes codes, parseRecs recs with
    | some tid, some cls, some subs, some sh, some t, some codes, some es =>
      let cfg : Filters.Cfg := { filterTid := tid, filterClass := cls, filterSubclass := subs }
      okAll ((Filters.kevents cfg none (es.map Filters.Item.event)).map (runKevent Gen.PyIRFm.prog (cx sh Colour.off t) codes))
    | _, _, _, _, _, _, _ => "bad-op"
  | _ => "bad-op"

def cmdFmtQ : Cmd
  | [bits, q] =>
    if unsupported then "unsupported" else
    match parseShow bits, q.toNat? with
    | some sh, some q =>
      okOne (runKevent Gen.PyIRFm.prog (cx sh Colour.off {}) []
        { timestamp := 1, data := [], values := [], tid := 2, debugid := 0, eventid := 0, qual := q })
    | _, _ => "bad-op"
  | _ => "bad-op"

def cmdFmtT : Cmd
  | bits :: tmap :: trs =>
    if unsupported then "unsupported" else
    match parseShow bits, parseTables tmap, trs.mapM parseTrace with
    | some sh, some t, some trs => okAll (trs.map (runTrace Gen.PyIRFm.prog (cx sh Colour.off t)))
    | _, _, _ => "bad-op"
  | _ => "bad-op"

def cmdFmtC : Cmd
  | bits :: tmap :: ts :: tid :: frames =>
    if unsupported then "unsupported" else
    match parseShow bits, parseTables tmap, ts.toNat?, tid.toNat?, frames.mapM parseFrame with
    | some sh, some t, some ts, some tid, some fs => okOne (runCallstack Gen.PyIRFm.prog (cx sh Colour.off t) ⟨ts, tid, fs⟩)
    | _, _, _, _, _ => "bad-op"
  | _ => "bad-op"

def cmdFmtL : Cmd
  | [col, tmap, time, tid, pid, proc, msg] =>
    if unsupported then "unsupported" else
    match parseTables tmap, stringOfHex time, tid.toNat?, pid.toInt?, stringOfHex proc, stringOfHex msg with
    | some t, some time, some tid, some pid, some proc, some msg =>
      okOne (runLog Gen.PyIRFm.prog (cx {} (if col = "1" then Colour.termcolor else Colour.off) t) time ⟨tid, proc, pid, msg⟩)
    | _, _, _, _, _, _ => "bad-op"
  | _ => "bad-op"

def commands : List (String × Cmd) :=
  [("fmircheck", cmdCheck), ("irfmtk", cmdFmtK), ("irfmtkf", cmdFmtKF), ("irfmtq", cmdFmtQ), ("irfmtt", cmdFmtT),
   ("irfmtc", cmdFmtC), ("irfmtl", cmdFmtL)]

end Driver.PyIRFm
