import Driver.Util
import KdVerif.Model.OsLog
import KdVerif.Gen.OsLog
/-
  Commands for the log-record decoder (C16).  Raw events travel as hex of a JSON document
  (UTF-8, as written by `json.dumps(..., ensure_ascii=False)`): integers, `true`/`false`, objects,
  arrays; strings carry a type prefix: `"s:<text>"` is a `str`, `"b:<hex>"` is `bytes`.
  Answers are `ok <canonical JSON>` (keys sorted, no spaces, strings `"s:…"`, bytes `"b:<hex>"`,
  enum members `"e:Class.NAME"`, flag values `"e:Class(<int>)"`, datetimes `"t:<sec>.<usec>"`,
  dataclass instances as objects with a `"$"` key) or `err <PyErrName>`.
-/
open KdVerif KdVerif.OsLog
namespace Driver.OsLog

/-! ### JSON reader (the subset the harness writes) -/

def skipWs : List Char → List Char
  | c :: cs => if c == ' ' || c == '\n' || c == '\t' || c == '\r' then skipWs cs else c :: cs
  | [] => []

def hex4 : List Char → Option (Nat × List Char)
  | a :: b :: c :: d :: rest => do
    let w ← hexVal a; let x ← hexVal b; let y ← hexVal c; let z ← hexVal d
    pure (w * 4096 + x * 256 + y * 16 + z, rest)
  | _ => none

partial def readStr (acc : List Char) : List Char → Option (String × List Char)
  | '"' :: rest => some (String.ofList acc.reverse, rest)
  | '\\' :: c :: rest =>
    match c with
    | 'n' => readStr ('\n' :: acc) rest
    | 't' => readStr ('\t' :: acc) rest
    | 'r' => readStr ('\r' :: acc) rest
    | 'b' => readStr (Char.ofNat 8 :: acc) rest
    | 'f' => readStr (Char.ofNat 12 :: acc) rest
    | '"' => readStr ('"' :: acc) rest
    | '\\' => readStr ('\\' :: acc) rest
    | '/' => readStr ('/' :: acc) rest
    | 'u' => match hex4 rest with
             | some (n, rest') => readStr (Char.ofNat n :: acc) rest'
             | none => none
    | _ => none
  | c :: rest => readStr (c :: acc) rest
  | [] => none

def readDigits (acc : Nat) (any : Bool) : List Char → Option (Nat × List Char)
  | c :: cs => if c.isDigit then readDigits (acc * 10 + (c.toNat - 48)) true cs
               else if any then some (acc, c :: cs) else none
  | [] => if any then some (acc, []) else none

def typedString (s : String) : Option PVal :=
  if s.startsWith "s:" then some (.str (s.drop 2).toString)
  else if s.startsWith "b:" then (ofHex (s.drop 2).toString).map PVal.bytes
  else none

mutual
  partial def readVal (cs : List Char) : Option (PVal × List Char) :=
    match skipWs cs with
    | '"' :: rest => do
      let (s, r) ← readStr [] rest
      let v ← typedString s
      pure (v, r)
    | '{' :: rest =>
      match skipWs rest with
      | '}' :: r => some (.dict [], r)
      | r => readObj [] r
    | '[' :: rest =>
      match skipWs rest with
      | ']' :: r => some (.list [], r)
      | r => readArr [] r
    | 't' :: 'r' :: 'u' :: 'e' :: r => some (.bool true, r)
    | 'f' :: 'a' :: 'l' :: 's' :: 'e' :: r => some (.bool false, r)
    | 'n' :: 'u' :: 'l' :: 'l' :: r => some (PVal.none, r)
    | '-' :: r => do
      let (n, r') ← readDigits 0 false r
      pure (.int (-(n : Int)), r')
    | r => do
      let (n, r') ← readDigits 0 false r
      pure (.int n, r')

  partial def readArr (acc : List PVal) (cs : List Char) : Option (PVal × List Char) := do
    let (v, r) ← readVal cs
    match skipWs r with
    | ',' :: r' => readArr (v :: acc) r'
    | ']' :: r' => some (.list (v :: acc).reverse, r')
    | _ => none

  partial def readObj (acc : List (String × PVal)) (cs : List Char) : Option (PVal × List Char) :=
    match skipWs cs with
    | '"' :: rest => do
      let (k, r) ← readStr [] rest
      match skipWs r with
      | ':' :: r1 =>
        let (v, r2) ← readVal r1
        -- a repeated key keeps its first position and takes the later value, as in Python
        let acc' := if acc.any (·.1 == k) then acc.map (fun kv => if kv.1 == k then (k, v) else kv)
                    else (k, v) :: acc
        match skipWs r2 with
        | ',' :: r3 => readObj acc' r3
        | '}' :: r3 => some (.dict acc'.reverse, r3)
        | _ => none
      | _ => none
    | _ => none
end

def readJson (s : String) : Option PVal :=
  match readVal s.toList with
  | some (v, r) => if (skipWs r).isEmpty then some v else none
  | none => none

/-! ### canonical writer -/

def hex4Of (n : Nat) : String :=
  String.ofList [hexDigit (n / 4096 % 16), hexDigit (n / 256 % 16), hexDigit (n / 16 % 16), hexDigit (n % 16)]

/-- `json.dumps(s, ensure_ascii=False)`. -/
def jsonStr (s : String) : String :=
  let body := s.toList.map fun c =>
    if c == '"' then "\\\"" else if c == '\\' then "\\\\"
    else if c == '\n' then "\\n" else if c == '\r' then "\\r" else if c == '\t' then "\\t"
    else if c.toNat == 8 then "\\b" else if c.toNat == 12 then "\\f"
    else if c.toNat < 32 then "\\u" ++ hex4Of c.toNat
    else String.singleton c
  "\"" ++ String.join body ++ "\""

def insertSorted (p : String × String) : List (String × String) → List (String × String)
  | [] => [p]
  | q :: qs => if p.1 < q.1 then p :: q :: qs else q :: insertSorted p qs

def sortPairs (l : List (String × String)) : List (String × String) := l.foldl (fun acc p => insertSorted p acc) []

partial def render : PVal → String
  | .int n => toString n
  | .str s => jsonStr ("s:" ++ s)
  | .bytes b => "\"b:" ++ toHex b ++ "\""
  | .bool b => if b then "true" else "false"
  | .dict kv => renderObj kv
  | .list xs => "[" ++ ",".intercalate (xs.map render) ++ "]"
  | .none => "null"
  | .enum c n => jsonStr s!"e:{c}.{n}"
  | .flag c v => jsonStr s!"e:{c}({v})"
  | .datetime s u => jsonStr s!"t:{s}.{u}"
  | .obj c fs => renderObj (("$", .str c) :: fs)
where
  renderObj (kv : List (String × PVal)) : String :=
    "{" ++ ",".intercalate ((sortPairs (kv.map fun p => (p.1, render p.2))).map fun p => jsonStr p.1 ++ ":" ++ p.2) ++ "}"

def answer : Except PyErr PVal → String
  | .ok v => "ok " ++ render v
  | .error e => "err " ++ e.name

/-! ### commands -/

def stringsOf : PVal → Option Strings
  | .list xs => xs.mapM fun x => match x with
      | .list [.int n, .str s] => some (n, s)
      | _ => none
  | _ => none

def jsonArg (h : String) : Option PVal := do
  let s ← stringOfHex h
  readJson s

/-- `oslog <hex json {"e": event, "s": [[index, "s:text"], …]}>`: `OsLogEvent.from_raw_log_event`. -/
def cmdOsLog : Cmd
  | [h] =>
    match jsonArg h with
    | some (.dict top) =>
      match top.lookup "e", (top.lookup "s").bind stringsOf with
      | some (.dict ev), some S => answer ((fromRawLogEvent Gen.OsLog.tables S ev).map PVal.dict)
      | _, _ => "bad-op"
    | _ => "bad-op"
  | _ => "bad-op"

/-- `oslog-dm <hex json {"d": decomposed, "s": strings}>`: `OsLogEvent.parse_decomposed`. -/
def cmdDecomposed : Cmd
  | [h] =>
    match jsonArg h with
    | some (.dict top) =>
      match top.lookup "d", (top.lookup "s").bind stringsOf with
      | some dm, some S => answer (parseDecomposed S dm)
      | _, _ => "bad-op"
    | _ => "bad-op"
  | _ => "bad-op"

/-- `traceid <int>`: `OsLogEvent.parse_trace_identifier`. -/
def cmdTraceId : Cmd
  | [w] =>
    match w.toInt? with
    | some n => answer (parseTraceIdentifier Gen.OsLog.idTables (.int n))
    | none => "bad-op"
  | _ => "bad-op"

/-- `oslog-ts <sec> <usec>`: the `unix_date` transform alone. -/
def cmdTimestamp : Cmd
  | [s, u] =>
    match s.toInt?, u.toInt? with
    | some s, some u => answer (timestamp (.dict [("sec", .int s), ("usec", .int u)]) "sec" "usec")
    | _, _ => "bad-op"
  | _ => "bad-op"

def commands : List (String × Cmd) :=
  [("oslog", cmdOsLog), ("oslog-dm", cmdDecomposed), ("traceid", cmdTraceId), ("oslog-ts", cmdTimestamp)]

end Driver.OsLog
