import Driver.Util
import KdVerif.Model.TraceCodes
import KdVerif.Gen.HandlerNames
import KdVerif.Model.PyIRTc
import KdVerif.Gen.PyIRTc
open KdVerif KdVerif.TraceCodes
namespace Driver.TraceCodes

def hexOfChars (l : List Char) : String := hexOfString (String.ofList l)

def showList (ls : List (List Char)) : String :=
  s!"ok {ls.length} " ++ ";".intercalate (ls.map hexOfChars)

def showTable (t : Table) : String :=
  let sorted := (t.toArray.qsort (fun a b => a.1 < b.1)).toList
  "ok " ++ ",".intercalate (sorted.map fun kv => s!"{kv.1}={hexOfString kv.2}")

def withText (h : String) (f : List Char → String) : String :=
  match ofHex (unDash h) with
  | none => "bad-op"
  | some _ =>
    match stringOfHex h with
    | none => "unsupported"          -- not UTF-8 (lone surrogates): outside `List Char`
    | some s => f s.toList

/-- `codes <hex text>`: `from_trace_codes_text`, dict printed sorted by key. -/
def cmdCodes : Cmd
  | [h] => withText h fun cs =>
    match parseCodesL cs with
    | .ok t => showTable t
    | .error e => s!"err {e.name}"
  | _ => "bad-op"

/-- `tcir <hex text>`: the shape GENERATED from trace_codes.py (`Gen/PyIRTc`) run by `PyIRTc.run`; answers like `codes`. -/
def cmdTcIR : Cmd
  | [h] =>
    if Gen.PyIRTc.codesFn.hasUnsupported || !Gen.PyIRTc.notes.isEmpty then "unsupported" else
    withText h fun cs =>
    match KdVerif.PyIRTc.run Gen.PyIRTc.codesFn cs with
    | .ok t => showTable t
    | .error e => s!"err {e.name}"
  | _ => "bad-op"

/-- `tcircheck`: is the generated shape the expected one (`C19.source_is_expected_shape`)? -/
def cmdTcCheck : Cmd := fun _ =>
  if Gen.PyIRTc.codesFn = KdVerif.PyIRTc.expected && Gen.PyIRTc.notes.isEmpty then "same"
  else "differs " ++ (reprStr Gen.PyIRTc.codesFn).replace "\n" " " ++ (if Gen.PyIRTc.notes.isEmpty then "" else " notes")

def cmdLines : Cmd
  | [h] => withText h fun cs => showList (splitLines cs)
  | _ => "bad-op"

def cmdSplit : Cmd
  | [h] => withText h fun cs => showList (splitWs cs)
  | _ => "bad-op"

def cmdInt16 : Cmd
  | [h] => withText h fun cs =>
    match pyInt16 cs with
    | .ok v => s!"ok {v}"
    | .error e => s!"err {e.name}"
  | _ => "bad-op"

/-- `uclass <lo> <hi>`: the code points of [lo, hi) in each class of the model. -/
def cmdUclass : Cmd
  | [lo, hi] =>
    match lo.toNat?, hi.toNat? with
    | some lo, some hi =>
      let cps := (List.range (hi - lo)).map (· + lo)
      let ws := cps.filter isSpaceCp
      let lb := cps.filter isBreakCp
      let dec := cps.filterMap fun c => (decimalCp c).map fun v => s!"{c}:{v}"
      s!"ok ws={natListC ws} lb={natListC lb} dec={",".intercalate dec}"
    | _, _ => "bad-op"
  | _ => "bad-op"

def parsePair (s : String) : Option (Int × String) :=
  match s.splitOn "=" with
  | [k, v] => do
    let k ← k.toInt?
    let v ← stringOfHex v
    pure (k, v)
  | _ => none

/-- Table argument: `d:-`, `d:k=hexname,k=hexname` (a dict, in insertion order) or `t:<hex text>`
    (a table text put through `parseCodes`). -/
def parseTable (s : String) : Option (Except PyErr Table) :=
  if s.startsWith "d:" then
    let body := (s.drop 2).toString
    if body = "-" then some (.ok [])
    else (body.splitOn ",").mapM parsePair |>.map fun ps => .ok (ps.foldl (fun t kv => t.insert kv.1 kv.2) [])
  else if s.startsWith "t:" then
    (stringOfHex (s.drop 2).toString).map parseCodes
  else none

/-- `namecol <table> <record hex>…`: the lines of `formatted_kevents` with only the name column on. -/
def cmdNameCol : Cmd
  | t :: recs =>
    match parseTable t, parseRecs recs with
    | some (.ok codes), some es => "ok " ++ ";".intercalate (es.map fun e => hexOfString (formatNameOnly codes e))
    | some (.error e), some _ => s!"err {e.name}"
    | _, _ => "bad-op"
  | _ => "bad-op"

def isHandler (n : String) : Bool := Gen.HandlerNames.handlerNames.contains n
def isTraceHandler (n : String) : Bool := Gen.HandlerNames.traceHandlerNames.contains n

def showOuts : List (Except PyErr (Option (String × List Kevent))) → Except PyErr (List String)
  | [] => .ok []
  | .error e :: _ => .error e
  | .ok o :: r =>
    match showOuts r with
    | .error e => .error e
    | .ok l => .ok ((match o with
                     | none => "-"
                     | some (n, w) => s!"{n}:{natListC (w.map (·.timestamp))}") :: l)

/-- `gate <table> <record hex>…`: per fed event `-` or `handler-name:timestamps of the window`. -/
def cmdGate : Cmd
  | t :: recs =>
    match parseTable t, parseRecs recs with
    | some (.ok codes), some es =>
      match showOuts (decoded codes isHandler isTraceHandler es) with
      | .ok l => "ok " ++ ";".intercalate l
      | .error e => s!"err {e.name}"
    | some (.error e), some _ => s!"err {e.name}"
    | _, _ => "bad-op"
  | _ => "bad-op"

/-- `decode <table> <record hex>…`: only the handler calls, in order (what `traces()` can show). -/
def cmdDecode : Cmd
  | t :: recs =>
    match parseTable t, parseRecs recs with
    | some (.ok codes), some es =>
      match showOuts (decoded codes isHandler isTraceHandler es) with
      | .ok l => "ok " ++ ";".intercalate (l.filter (· ≠ "-"))
      | .error e => s!"err {e.name}"
    | some (.error e), some _ => s!"err {e.name}"
    | _, _ => "bad-op"
  | _ => "bad-op"

def commands : List (String × Cmd) :=
  [("codes", cmdCodes), ("tcir", cmdTcIR), ("tcircheck", cmdTcCheck), ("lines", cmdLines), ("split", cmdSplit), ("int16", cmdInt16), ("uclass", cmdUclass),
   ("namecol", cmdNameCol), ("gate", cmdGate), ("decode", cmdDecode)]

end Driver.TraceCodes
