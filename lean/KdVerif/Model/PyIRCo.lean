import KdVerif.Model.Trace
/-
  The Python subset of the COMPOSITE HANDLERS that property C20 is about, as a deep embedding with a big-step interpreter —
  the companion of `Model/PyIRTr` (the ten context-table handlers of trace.py, C05) for

    perf.py   `handle_event`, `handle_thd_data`, `handle_thd_cswitch`, `handle_stk_udata`, `handle_stk_uhdr`, their
              dataclasses with `__str__`, the `handlers` dict (the `to_sampler_action` / `to_kperf_ti_state` /
              `to_callstack_flags` comprehensions are inlined at their call sites as `flagsOf`);
    mach.py   `handle_mach_vmfault` and `MachVmfault`;
    dyld.py   `handle_timing_launch_executable`, `handle_uuid_map_a`, `handle_uuid_shared_cache_a` and their dataclasses.

  `tools/gen_pyir_co.py` translates the source text into three `Program`s of this IR (`Gen/PyIRCo.lean`) on every run;
  `Props/C20` proves that the translated handlers, run by this interpreter on ANY environment, tables and non-empty window
  of four-word records, ARE `Trace.hPerfThdData`, `Trace.hPerfEvent`, `Trace.hMachVmfault`, `Trace.hDyldLaunch` of the hand
  model (same `str(trace)`, same `ktraces`, same payload `Extra`, same tables afterwards, same exception).

  What is a PARAMETER of the interpreter (its meaning is an existing model function, not translated source):
    * `nested` — `parser.parse_event_list(real_events)` of the page-fault handler: the model's `Trace.parseEventList`
      (which sends the in-range records to the GENERATED `RealFaultAddress*` decoders of `Gen/Decoders`); the attribute
      reads `.pid` / `.caller_prot` on what it returns are the model's `Trace.pidProtOf`;
    * the enum tables: `[m for m in E if m.value & x]` and `E(x)` are `Trace.enumNamesOf` / `Trace.enumNameOfValue` on the
      reflected tables `env.tables` (`Gen/Enums`); enum members are identified by (class, name), which is exact for enums
      without aliases (`C20.sampler_action_has_no_alias`);
    * `env.codes` — `parser.trace_codes`.
  Calls of one handler by another (`handle_thd_data(parser, sub_events)`, `handle_stk_udata(parser, [ev])`,
  `handle_uuid_map_a(parser, [e])`) are NOT parameters: the callee's translated body is interpreted (`callFuel`, at most
  `callDepth` calls deep).

  Values: `None`, ints (record words, ids, masks: non-negative), bool, str, bytes, a `UUID`, a `Kevent`, lists of `Kevent`s,
  the `values` tuple / a list of ints, an enum member, a list of enum members, a list of other values, a constructed
  dataclass object (class name, `ktraces`, the other fields in declaration order) and the object `parse_event_list`
  returned.  Where Python raises, the interpreter returns that exception; anything the subset does not cover is
  `.error .unmodelled`, never a guess.  An exception that escapes a handler AFTER the context tables were changed is
  `.unmodelled` as well: the model's answer type `HRes` has no place for tables beside an error (the hand model's
  `vmfaultCore` has the same convention).  Core Lean only.
-/
namespace KdVerif.PyIRCo
open KdVerif.Trace

/-- the tables of the parser these handlers write -/
inductive Table
  | threadsPids | pidsNames | tidsNames | globalStrings
  deriving DecidableEq, Repr

inductive Expr
  | none
  | int (n : Nat)
  | str (s : String)
  | var (i : Nat)                               -- a local (numbered by the translator)
  | events                                      -- the parameter `events`
  | index (e : Expr) (k : Nat)                  -- `e[k]`
  | last (e : Expr)                             -- `e[-1]`
  | attr (e : Expr) (name : String)             -- `e.<name>`
  | band (a b : Expr)                           -- `a & b`
  | toBool (e : Expr)                           -- `bool(e)`
  | ne (a b : Expr)                             -- `a != b` on ints (`==` arrives as `ite (ne …)` with swapped branches)
  | isNotNone (e : Expr)                        -- `e is not None`
  | flagsOf (cls : String) (e : Expr)           -- `[m for m in Cls if m.value & e]` (written out or through a `to_*` helper)
  | enumOf (cls : String) (e : Expr)            -- `Cls(e)`: ValueError outside the enum
  | member (cls name : String)                  -- `Cls.NAME`
  | isIn (a l : Expr)                           -- `a in l`
  | filterNamed (l : Expr) (n : String)         -- `[x for x in l if parser.trace_codes.get(x.eventid) == n]`
  | filterNamedD (l : Expr) (n : String)        -- `[x for x in l if parser.trace_codes.get(x.eventid, '') == n]`
  | filterRange (l : Expr) (lo hi : Nat)        -- `[x for x in l if lo <= x.eventid <= hi]`
  | inner (l : Expr)                            -- `l[1:-1]`
  | listOf (e : Expr)                           -- `list(e)`
  | chain (e : Expr)                            -- `list(chain.from_iterable(e))`
  | takeTo (e n : Expr)                         -- `e[:n]`
  | concat (a b : Expr)                         -- `a + b` on lists
  | sortedBy (l : Expr) (key : String)          -- `sorted(l, key=lambda x: x.<key>)`
  | uuidOf (e : Expr)                           -- `UUID(bytes=e)`
  | unsupported (src : String)
  deriving DecidableEq, Repr

/-- statement lists are right-nested `seq`; a condition is any expression, taken by its truth value; `if not c` / `a == b`
    / `x is None` have their branches swapped (never a negated condition) -/
inductive Stmt
  | skip
  | seq (a b : Stmt)
  | assign (v : Nat) (e : Expr)                                   -- `v = e`
  | construct (v : Nat) (cls : String) (ktraces : Expr) (args : List Expr)   -- `v = Cls(ktraces, args…)`
  | setField (v : Nat) (name : String) (e : Expr)                 -- `v.<name> = e`
  | store (t : Table) (k v : Expr)                                -- `parser.<t>[k] = v`
  | ite (c : Expr) (t e : Stmt)
  | call (v : Nat) (f : String) (arg : Expr)                      -- `v = f(parser, arg)`, `f` a handler of the same module
  | mapCall (v : Nat) (f : String) (src : Expr) (field : Option String)   -- `v = [f(parser, [x])(.field) for x in src]`
  | nested (v : Nat) (arg : Expr)                                 -- `v = parser.parse_event_list(arg)`
  | ret (e : Expr)
  | unsupported (src : String)
  deriving DecidableEq, Repr

/-- default values of dataclass fields -/
inductive FDefault
  | none
  | int (n : Nat)
  | str (s : String)
  deriving DecidableEq, Repr

/-- pieces of an f-string of a `__str__` -/
inductive Piece
  | lit (s : String)
  | fld (name : String)                       -- `{self.<name>}`
  | hexFld (name : String)                    -- `{hex(self.<name>)}`
  | lenFld (name : String)                    -- `{len(self.<name>)}`
  | nameFld (name : String)                   -- `{self.<name>.name}`
  | joinNames (sep name : String)             -- `{sep.join(map(lambda x: x.name, self.<name>))}` (also through a local)
  | joinHex (sep name : String)               -- `{sep.join(map(hex, self.<name>))}`
  | unsupported (src : String)
  deriving DecidableEq, Repr

/-- conditions of a `__str__` -/
inductive SCond
  | isNotNone (name : String)                 -- `self.<name> is not None`
  | truthy (name : String)                    -- `self.<name>`
  | eqInt (name : String) (n : Nat)           -- `self.<name> == n`
  | and (a b : SCond)                         -- `a and b`
  | unsupported (src : String)
  deriving DecidableEq, Repr

/-- what follows `rep = f'…'` in a `__str__`: `rep += f'…'` and `if c: …` (without `else`), possibly nested -/
inductive SStmt
  | skip
  | seq (a b : SStmt)
  | append (ps : List Piece)
  | ite (c : SCond) (body : SStmt)
  deriving DecidableEq, Repr

/-- `__str__`: `return f'…'` (`rest = skip`), or `rep = f'…'`, appends, `return rep` -/
structure StrDef where
  base : List Piece
  rest : SStmt
  deriving DecidableEq, Repr

/-- a `@dataclass`: its fields after `ktraces` with their default values, its `__str__` -/
structure ClassDef where
  name : String
  fields : List (String × Option FDefault)
  str : StrDef
  deriving DecidableEq, Repr

/-- a module-level `def name(parser, events):` -/
structure FunDef where
  name : String
  body : Stmt
  deriving DecidableEq, Repr

/-- what was translated of one module of `trace_handlers` -/
structure Program where
  classes : List ClassDef
  funs : List FunDef
  handlers : List (String × String)         -- entries of the `handlers` dict display: key -> function name
  deriving DecidableEq, Repr

/-! ### values -/

inductive Val
  | none
  | int (n : Nat)
  | bool (b : Bool)
  | str (s : String)
  | bytes (b : Bytes)
  | uuid (b : Bytes)                        -- `UUID(bytes=b)`, 16 bytes
  | kevent (e : Kevent)
  | kevents (l : List Kevent)
  | words (l : List Nat)                    -- the `values` tuple of a record / a list of ints
  | member (cls name : String)              -- an enum member
  | members (cls : String) (names : List String)   -- a list of members of one enum
  | list (l : List Val)                     -- a list of objects / of int lists
  | obj (cls : String) (ktraces : List Kevent) (fields : List Val)
  | trace (o : TraceOut)                    -- what `parser.parse_event_list` returned

def FDefault.toVal : FDefault → Val
  | .none => .none
  | .int n => .int n
  | .str s => .str s

abbrev Locals := Nat → Option Val
def Locals.empty : Locals := fun _ => Option.none
def Locals.set (l : Locals) (i : Nat) (v : Val) : Locals := fun j => if j = i then some v else l j

structure St where
  loc : Locals
  tabs : Tabs

/-- `parser.parse_event_list` as the page-fault handler sees it -/
abbrev NestedFn := Tabs → List Kevent → HRes
/-- a call `f(parser, l)` of a handler of the same module: the value it returns or the exception, and the tables afterwards -/
abbrev CallFn := String → List Kevent → Tabs → Except PyErr Val × Tabs

def findClass (P : Program) (cls : String) : Option ClassDef := P.classes.find? (·.name == cls)

/-- position of a field among the fields after `ktraces` -/
def fieldIdx (c : ClassDef) (name : String) : Option Nat := (c.fields.map (·.1)).idxOf? name

/-- `o.<name>` of a constructed object -/
def objAttr (P : Program) (cls : String) (ktraces : List Kevent) (fields : List Val) (name : String) : Except PyErr Val :=
  if name == "ktraces" then .ok (.kevents ktraces) else
  match findClass P cls with
  | Option.none => .error .unmodelled
  | some c =>
    match fieldIdx c name with
    | Option.none => .error .attributeError
    | some i => match fields[i]? with | some v => .ok v | Option.none => .error .unmodelled

/-- `e.<name>` of a `Kevent` namedtuple -/
def keventAttr (e : Kevent) (name : String) : Except PyErr Val :=
  if name == "timestamp" then .ok (.int e.timestamp)
  else if name == "data" then .ok (.bytes e.data)
  else if name == "values" then .ok (.words e.values)
  else if name == "tid" then .ok (.int e.tid)
  else if name == "debugid" then .ok (.int e.debugid)
  else if name == "eventid" then .ok (.int e.eventid)
  else if name == "func_qualifier" then .ok (.int e.qual)
  else .error .attributeError

def optNat : Option Nat → Val | some n => .int n | Option.none => .none
def optMembers (cls : String) : Option (List String) → Val | some l => .members cls l | Option.none => .none

/-- `.pid` / `.caller_prot` of the object `parse_event_list` returned: the model's `pidProtOf` -/
def traceAttr (out : TraceOut) (name : String) : Except PyErr Val :=
  if name == "pid" then (match pidProtOf out with | .error x => .error x | .ok r => .ok (optNat r.1))
  else if name == "caller_prot" then
    (match pidProtOf out with | .error x => .error x | .ok r => .ok (optMembers "VmProtection" r.2))
  else .error .unmodelled

/-- `v.<name>` -/
def attrOf (P : Program) (v : Val) (name : String) : Except PyErr Val :=
  match v with
  | .kevent x => keventAttr x name
  | .obj c k fs => objAttr P c k fs name
  | .trace o => traceAttr o name
  | .none => .error .attributeError
  | _ => .error .unmodelled

/-- the truth value of a condition -/
def truthy : Val → Except PyErr Bool
  | .none => .ok false
  | .bool b => .ok b
  | .int n => .ok (n != 0)
  | .str s => .ok (s != "")
  | .kevents l => .ok (!l.isEmpty)
  | .words l => .ok (!l.isEmpty)
  | .members _ l => .ok (!l.isEmpty)
  | .list l => .ok (!l.isEmpty)
  | _ => .error .unmodelled

/-- the int lists of a list of int lists, chained -/
def chainWords : List Val → Option (List Nat)
  | [] => some []
  | .words w :: r => (chainWords r).map (w ++ ·)
  | _ :: _ => Option.none

/-- stable insertion by key (first component) -/
def insertByKey {α : Type} (x : Nat × α) : List (Nat × α) → List (Nat × α)
  | [] => [x]
  | y :: ys => if x.1 ≤ y.1 then x :: y :: ys else y :: insertByKey x ys

/-- `sorted(l, key=…)` on (key, element) pairs -/
def sortByKey {α : Type} (l : List (Nat × α)) : List (Nat × α) := l.foldr insertByKey []

/-- the sort keys `x.<key>` of the elements, which must be ints -/
def keysOf (P : Program) (key : String) : List Val → Except PyErr (List (Nat × Val))
  | [] => .ok []
  | v :: r =>
    match attrOf P v key with
    | .error x => .error x
    | .ok (.int k) => (match keysOf P key r with | .ok ks => .ok ((k, v) :: ks) | .error x => .error x)
    | .ok _ => .error .unmodelled

def eval (P : Program) (env : Env) (events : List Kevent) (st : St) : Expr → Except PyErr Val
  | .none => .ok .none
  | .int n => .ok (.int n)
  | .str s => .ok (.str s)
  | .var i => match st.loc i with | some v => .ok v | Option.none => .error .unmodelled
  | .events => .ok (.kevents events)
  | .index e k =>
    match eval P env events st e with
    | .error x => .error x
    | .ok (.kevents l) => (match l[k]? with | some x => .ok (.kevent x) | Option.none => .error .indexError)
    | .ok (.words l) => (match l[k]? with | some x => .ok (.int x) | Option.none => .error .indexError)
    | .ok (.list l) => (match l[k]? with | some x => .ok x | Option.none => .error .indexError)
    | .ok _ => .error .unmodelled
  | .last e =>
    match eval P env events st e with
    | .error x => .error x
    | .ok (.kevents l) => (match l.getLast? with | some x => .ok (.kevent x) | Option.none => .error .indexError)
    | .ok (.words l) => (match l.getLast? with | some x => .ok (.int x) | Option.none => .error .indexError)
    | .ok (.list l) => (match l.getLast? with | some x => .ok x | Option.none => .error .indexError)
    | .ok _ => .error .unmodelled
  | .attr e name =>
    match eval P env events st e with
    | .error x => .error x
    | .ok v => attrOf P v name
  | .band a b =>
    match eval P env events st a with
    | .error x => .error x
    | .ok av =>
      match eval P env events st b with
      | .error x => .error x
      | .ok bv => match av, bv with | .int x, .int y => .ok (.int (x &&& y)) | _, _ => .error .unmodelled
  | .toBool e =>
    match eval P env events st e with
    | .error x => .error x
    | .ok (.int n) => .ok (.bool (n != 0))
    | .ok _ => .error .unmodelled
  | .ne a b =>
    match eval P env events st a with
    | .error x => .error x
    | .ok av =>
      match eval P env events st b with
      | .error x => .error x
      | .ok bv => match av, bv with | .int x, .int y => .ok (.bool (x != y)) | _, _ => .error .unmodelled
  | .isNotNone e =>
    match eval P env events st e with
    | .error x => .error x
    | .ok .none => .ok (.bool false)
    | .ok _ => .ok (.bool true)
  | .flagsOf cls e =>
    match eval P env events st e with
    | .error x => .error x
    | .ok (.int x) => .ok (.members cls (enumNamesOf env cls x))
    | .ok _ => .error .unmodelled
  | .enumOf cls e =>
    match eval P env events st e with
    | .error x => .error x
    | .ok (.int x) => (match enumNameOfValue env cls x with | some n => .ok (.member cls n) | Option.none => .error .valueError)
    | .ok _ => .error .unmodelled
  | .member cls name => .ok (.member cls name)
  | .isIn a l =>
    match eval P env events st a with
    | .error x => .error x
    | .ok av =>
      match eval P env events st l with
      | .error x => .error x
      | .ok lv =>
        match av, lv with
        | .member c n, .members c' ns => .ok (.bool (c == c' && ns.contains n))
        | _, _ => .error .unmodelled
  | .filterNamed l n =>
    match eval P env events st l with
    | .error x => .error x
    | .ok (.kevents l) => .ok (.kevents (l.filter (namedExactly env n)))
    | .ok _ => .error .unmodelled
  | .filterNamedD l n =>
    match eval P env events st l with
    | .error x => .error x
    | .ok (.kevents l) => .ok (.kevents (l.filter (namedIs env n)))
    | .ok _ => .error .unmodelled
  | .filterRange l lo hi =>
    match eval P env events st l with
    | .error x => .error x
    | .ok (.kevents l) => .ok (.kevents (l.filter fun x => decide (lo ≤ x.eventid ∧ x.eventid ≤ hi)))
    | .ok _ => .error .unmodelled
  | .inner l =>
    match eval P env events st l with
    | .error x => .error x
    | .ok (.kevents l) => .ok (.kevents ((l.drop 1).dropLast))
    | .ok _ => .error .unmodelled
  | .listOf e =>
    match eval P env events st e with
    | .error x => .error x
    | .ok (.words l) => .ok (.words l)
    | .ok (.kevents l) => .ok (.kevents l)
    | .ok (.list l) => .ok (.list l)
    | .ok _ => .error .unmodelled
  | .chain e =>
    match eval P env events st e with
    | .error x => .error x
    | .ok (.list l) => (match chainWords l with | some w => .ok (.words w) | Option.none => .error .unmodelled)
    | .ok _ => .error .unmodelled
  | .takeTo e n =>
    match eval P env events st e with
    | .error x => .error x
    | .ok ev =>
      match eval P env events st n with
      | .error x => .error x
      | .ok nv =>
        match ev, nv with
        | .words l, .int k => .ok (.words (l.take k))
        | .bytes l, .int k => .ok (.bytes (l.take k))
        | .kevents l, .int k => .ok (.kevents (l.take k))
        | .list l, .int k => .ok (.list (l.take k))
        | _, _ => .error .unmodelled
  | .concat a b =>
    match eval P env events st a with
    | .error x => .error x
    | .ok av =>
      match eval P env events st b with
      | .error x => .error x
      | .ok bv =>
        match av, bv with
        | .list x, .list y => .ok (.list (x ++ y))
        | .kevents x, .kevents y => .ok (.kevents (x ++ y))
        | .words x, .words y => .ok (.words (x ++ y))
        | _, _ => .error .unmodelled
  | .sortedBy l key =>
    match eval P env events st l with
    | .error x => .error x
    | .ok (.list l) => (match keysOf P key l with | .ok ks => .ok (.list ((sortByKey ks).map (·.2))) | .error x => .error x)
    | .ok _ => .error .unmodelled
  | .uuidOf e =>
    match eval P env events st e with
    | .error x => .error x
    | .ok (.bytes b) => if b.length = 16 then .ok (.uuid b) else .error .valueError
    | .ok _ => .error .unmodelled
  | .unsupported _ => .error .unmodelled

/-- the truth value of a condition expression -/
def evalCond (P : Program) (env : Env) (events : List Kevent) (st : St) (c : Expr) : Except PyErr Bool :=
  match eval P env events st c with
  | .error x => .error x
  | .ok v => truthy v

/-- constructor arguments, left to right -/
def evalArgs (P : Program) (env : Env) (events : List Kevent) (st : St) : List Expr → Except PyErr (List Val)
  | [] => .ok []
  | a :: as =>
    match eval P env events st a with
    | .error x => .error x
    | .ok v => match evalArgs P env events st as with | .ok fs => .ok (v :: fs) | .error x => .error x

/-- the defaults of the fields the call did not give (a field without default: TypeError) -/
def defaultsOf : List (String × Option FDefault) → Except PyErr (List Val)
  | [] => .ok []
  | (_, some d) :: r => (match defaultsOf r with | .ok ds => .ok (d.toVal :: ds) | .error x => .error x)
  | (_, Option.none) :: _ => .error .typeError

/-- `Cls(ktraces, args…)` of a dataclass -/
def mkObj (P : Program) (cls : String) (ktraces : List Kevent) (args : List Val) : Except PyErr Val :=
  match findClass P cls with
  | Option.none => .error .unmodelled
  | some c =>
    if c.fields.length < args.length then .error .typeError else
    match defaultsOf (c.fields.drop args.length) with
    | .error x => .error x
    | .ok ds => .ok (.obj cls ktraces (args ++ ds))

/-- `parser.<t>[k] = v` -/
def tableSet (t : Tabs) : Table → Nat → Val → Except PyErr Tabs
  | .threadsPids, k, .int v => .ok { t with threadsPids := t.threadsPids.set k v }
  | .pidsNames, k, .str v => .ok { t with pidsNames := t.pidsNames.set k v }
  | .tidsNames, k, .str v => .ok { t with tidsNames := t.tidsNames.set k v }
  | .globalStrings, k, .str v => .ok { t with globalStrings := t.globalStrings.set k v }
  | _, _, _ => .error .unmodelled

inductive Signal
  | normal
  | ret (v : Val)
  | err (e : PyErr)

/-- `[f(parser, [x])(.field) for x in l]`: the calls in order; the first exception ends the comprehension -/
def mapLoop (call : List Kevent → Tabs → Except PyErr Val × Tabs) (post : Val → Except PyErr Val) :
    List Kevent → Tabs → Except PyErr (List Val) × Tabs
  | [], t => (.ok [], t)
  | x :: xs, t =>
    match call [x] t with
    | (.error e, t') => (.error e, t')
    | (.ok v, t') =>
      match post v with
      | .error e => (.error e, t')
      | .ok w =>
        match mapLoop call post xs t' with
        | (.error e, t'') => (.error e, t'')
        | (.ok ws, t'') => (.ok (w :: ws), t'')

def exec (P : Program) (env : Env) (nested : NestedFn) (call : CallFn) (events : List Kevent) : Stmt → St → Signal × St
  | .skip, st => (.normal, st)
  | .seq a b, st =>
    match exec P env nested call events a st with
    | (.normal, st') => exec P env nested call events b st'
    | r => r
  | .assign v e, st =>
    match eval P env events st e with
    | .error x => (.err x, st)
    | .ok x => (.normal, { st with loc := st.loc.set v x })
  | .construct v cls k args, st =>
    match eval P env events st k with
    | .error x => (.err x, st)
    | .ok (.kevents l) =>
      (match evalArgs P env events st args with
       | .error x => (.err x, st)
       | .ok fs =>
         match mkObj P cls l fs with
         | .error x => (.err x, st)
         | .ok o => (.normal, { st with loc := st.loc.set v o }))
    | .ok _ => (.err .unmodelled, st)
  | .setField v name e, st =>
    match eval P env events st e with
    | .error x => (.err x, st)
    | .ok x =>
      match st.loc v with
      | some (.obj c k fs) =>
        (match (findClass P c).bind (fieldIdx · name) with
         | some i =>
           if i < fs.length then (.normal, { st with loc := st.loc.set v (.obj c k (fs.set i x)) })
           else (.err .unmodelled, st)
         | Option.none => (.err .unmodelled, st))
      | _ => (.err .unmodelled, st)
  | .store t k v, st =>
    -- Python evaluates the right-hand side first, then the subscript of the target
    match eval P env events st v with
    | .error x => (.err x, st)
    | .ok vv =>
      match eval P env events st k with
      | .error x => (.err x, st)
      | .ok kv =>
        match kv with
        | .int n => (match tableSet st.tabs t n vv with | .ok t' => (.normal, { st with tabs := t' }) | .error x => (.err x, st))
        | _ => (.err .unmodelled, st)
  | .ite c t e, st =>
    match evalCond P env events st c with
    | .error x => (.err x, st)
    | .ok true => exec P env nested call events t st
    | .ok false => exec P env nested call events e st
  | .call v f arg, st =>
    match eval P env events st arg with
    | .error x => (.err x, st)
    | .ok (.kevents l) =>
      (match call f l st.tabs with
       | (.error x, t') => (.err x, { st with tabs := t' })
       | (.ok r, t') => (.normal, { loc := st.loc.set v r, tabs := t' }))
    | .ok _ => (.err .unmodelled, st)
  | .mapCall v f src field, st =>
    match eval P env events st src with
    | .error x => (.err x, st)
    | .ok (.kevents l) =>
      (match mapLoop (call f) (fun r => match field with | some a => attrOf P r a | Option.none => .ok r) l st.tabs with
       | (.error x, t') => (.err x, { st with tabs := t' })
       | (.ok rs, t') => (.normal, { loc := st.loc.set v (.list rs), tabs := t' }))
    | .ok _ => (.err .unmodelled, st)
  | .nested v arg, st =>
    match eval P env events st arg with
    | .error x => (.err x, st)
    | .ok (.kevents l) =>
      (match nested st.tabs l with
       | .error x => (.err x, st)
       | .ok (Option.none, t') => (.normal, { loc := st.loc.set v .none, tabs := t' })
       | .ok (some out, t') => (.normal, { loc := st.loc.set v (.trace out), tabs := t' }))
    | .ok _ => (.err .unmodelled, st)
  | .ret e, st =>
    match eval P env events st e with
    | .error x => (.err x, st)
    | .ok v => (.ret v, st)
  | .unsupported _, st => (.err .unmodelled, st)

/-- handler calls nest at most this deep in the three modules (`handle_event` -> `handle_thd_data`); deeper: `.unmodelled` -/
def callDepth : Nat := 2

/-- `f(parser, l)` for a function of the program, calls inside it `fuel - 1` deep -/
def callFuel (P : Program) (env : Env) (nested : NestedFn) : Nat → CallFn
  | 0 => fun _ _ t => (.error .unmodelled, t)
  | fuel + 1 => fun f l t =>
    match P.funs.find? (·.name == f) with
    | Option.none => (.error .unmodelled, t)
    | some d =>
      match exec P env nested (callFuel P env nested fuel) l d.body { loc := Locals.empty, tabs := t } with
      | (.ret v, st) => (.ok v, st.tabs)
      | (.normal, st) => (.ok .none, st.tabs)
      | (.err x, st) => (.error x, st.tabs)

/-! ### `__str__` -/

def uuidText (d : Bytes) : String :=
  toHex (d.take 4) ++ "-" ++ toHex ((d.drop 4).take 2) ++ "-" ++ toHex ((d.drop 6).take 2) ++ "-"
    ++ toHex ((d.drop 8).take 2) ++ "-" ++ toHex ((d.drop 10).take 6)

/-- `format(v, '')` of a field value -/
def fmtVal : Val → Except PyErr String
  | .none => .ok "None"
  | .int n => .ok (toString n)
  | .bool true => .ok "True"
  | .bool false => .ok "False"
  | .str s => .ok s
  | .uuid b => .ok (uuidText b)
  | _ => .error .unmodelled

def renderPiece (P : Program) (cls : String) (k : List Kevent) (fs : List Val) : Piece → Except PyErr String
  | .lit s => .ok s
  | .fld n => (match objAttr P cls k fs n with | .ok v => fmtVal v | .error x => .error x)
  | .hexFld n => (match objAttr P cls k fs n with | .ok (.int v) => .ok (pyHex v) | .ok _ => .error .unmodelled | .error x => .error x)
  | .lenFld n =>
    (match objAttr P cls k fs n with
     | .ok (.words l) => .ok (toString l.length)
     | .ok (.members _ l) => .ok (toString l.length)
     | .ok (.list l) => .ok (toString l.length)
     | .ok (.kevents l) => .ok (toString l.length)
     | .ok .none => .error .typeError
     | .ok _ => .error .unmodelled
     | .error x => .error x)
  | .nameFld n =>
    (match objAttr P cls k fs n with
     | .ok (.member _ m) => .ok m
     | .ok .none => .error .attributeError
     | .ok _ => .error .unmodelled
     | .error x => .error x)
  | .joinNames sep n =>
    (match objAttr P cls k fs n with
     | .ok (.members _ l) => .ok (sep.intercalate l)
     | .ok .none => .error .typeError
     | .ok _ => .error .unmodelled
     | .error x => .error x)
  | .joinHex sep n =>
    (match objAttr P cls k fs n with
     | .ok (.words l) => .ok (sep.intercalate (l.map pyHex))
     | .ok .none => .error .typeError
     | .ok _ => .error .unmodelled
     | .error x => .error x)
  | .unsupported _ => .error .unmodelled

def renderPieces (P : Program) (cls : String) (k : List Kevent) (fs : List Val) : List Piece → Except PyErr String
  | [] => .ok ""
  | p :: r =>
    match renderPiece P cls k fs p with
    | .error x => .error x
    | .ok s => match renderPieces P cls k fs r with | .ok t => .ok (s ++ t) | .error x => .error x

def evalSCond (P : Program) (cls : String) (k : List Kevent) (fs : List Val) : SCond → Except PyErr Bool
  | .isNotNone n => (match objAttr P cls k fs n with | .ok .none => .ok false | .ok _ => .ok true | .error x => .error x)
  | .truthy n => (match objAttr P cls k fs n with | .ok v => truthy v | .error x => .error x)
  | .eqInt n m =>
    (match objAttr P cls k fs n with
     | .ok (.int v) => .ok (v == m)
     | .ok .none => .ok false
     | .ok _ => .error .unmodelled
     | .error x => .error x)
  | .and a b =>
    (match evalSCond P cls k fs a with
     | .ok true => evalSCond P cls k fs b
     | r => r)
  | .unsupported _ => .error .unmodelled

def execS (P : Program) (cls : String) (k : List Kevent) (fs : List Val) : SStmt → String → Except PyErr String
  | .skip, acc => .ok acc
  | .seq a b, acc => (match execS P cls k fs a acc with | .ok s => execS P cls k fs b s | .error x => .error x)
  | .append ps, acc => (match renderPieces P cls k fs ps with | .ok t => .ok (acc ++ t) | .error x => .error x)
  | .ite c body, acc =>
    (match evalSCond P cls k fs c with
     | .ok true => execS P cls k fs body acc
     | .ok false => .ok acc
     | .error x => .error x)

/-- `str(o)` through the translated `__str__` of its class -/
def renderObj (P : Program) (cls : String) (k : List Kevent) (fs : List Val) : Except PyErr String :=
  match findClass P cls with
  | Option.none => .error .unmodelled
  | some c =>
    match renderPieces P cls k fs c.str.base with
    | .error x => .error x
    | .ok s => execS P cls k fs c.str.rest s

/-! ### the structured payload of a composite trace (what the harness reads off the object: `pipeline.extra_of`) -/

def asOptName : Val → Option (Option String)
  | .none => some Option.none
  | .member _ n => some (some n)
  | _ => Option.none

def asOptNat : Val → Option (Option Nat)
  | .none => some Option.none
  | .int n => some (some n)
  | _ => Option.none

def asOptNames : Val → Option (Option (List String))
  | .none => some Option.none
  | .members _ l => some (some l)
  | _ => Option.none

def asOptWords : Val → Option (Option (List Nat))
  | .none => some Option.none
  | .words l => some (some l)
  | _ => Option.none

/-- `(x.load_addr, x.uuid.bytes)` of an image object -/
def imageOfVal (P : Program) : Val → Option (Nat × Bytes)
  | .obj c k fs =>
    (match objAttr P c k fs "load_addr", objAttr P c k fs "uuid" with
     | .ok (.int a), .ok (.uuid b) => some (a, b)
     | _, _ => Option.none)
  | _ => Option.none

/-- `(x.pid, x.tid)` of `th_info` -/
def thInfoOfVal (P : Program) : Val → Option (Option (Nat × Nat))
  | .none => some Option.none
  | .obj c k fs =>
    (match objAttr P c k fs "pid", objAttr P c k fs "tid" with
     | .ok (.int p), .ok (.int t) => some (some (p, t))
     | _, _ => Option.none)
  | _ => Option.none

def extraOf (P : Program) (cls : String) (k : List Kevent) (fs : List Val) : Except PyErr Extra :=
  if cls == "MachVmfault" then
    match objAttr P cls k fs "result", objAttr P cls k fs "fault_type", objAttr P cls k fs "pid",
      objAttr P cls k fs "caller_prot" with
    | .ok (.int r), .ok ft, .ok pid, .ok prot =>
      (match asOptName ft, asOptNat pid, asOptNames prot with
       | some a, some b, some c => .ok (.vmfault r a b c)
       | _, _, _ => .error .unmodelled)
    | _, _, _, _ => .error .unmodelled
  else if cls == "DyldLaunchExecutable" then
    match objAttr P cls k fs "uuid_map_a" with
    | .ok (.list l) => (match l.mapM (imageOfVal P) with | some imgs => .ok (.launch imgs) | Option.none => .error .unmodelled)
    | _ => .error .unmodelled
  else if cls == "PerfEvent" then
    match objAttr P cls k fs "th_info", objAttr P cls k fs "cs_frames", objAttr P cls k fs "cs_flags" with
    | .ok th, .ok fr, .ok fl =>
      (match thInfoOfVal P th, asOptWords fr, asOptNames fl with
       | some a, some b, some c => .ok (.perf a b c)
       | _, _, _ => .error .unmodelled)
    | _, _, _ => .error .unmodelled
  else .ok .none

/-! ### running a handler -/

/-- what the caller (`parse_event_list`, `feed`) gets from the end of a body: the returned object as (`ktraces`, `str()`,
    payload), `none` when it returns None (or falls off the end), the tables afterwards.  `t0`: the tables before. -/
def finish (P : Program) (key : String) (t0 : Tabs) : Signal × St → HRes
  | (.err x, st) => if st.tabs.same t0 then .error x else .error .unmodelled
  | (.normal, st) => .ok (Option.none, st.tabs)
  | (.ret .none, st) => .ok (Option.none, st.tabs)
  | (.ret (.obj c k fs), st) =>
    (match extraOf P c k fs with
     | .error x => .error x
     | .ok ex => .ok (some { name := key, events := k, text := renderObj P c k fs, extra := ex }, st.tabs))
  | (.ret _, _) => .error .unmodelled

/-- `f(parser, events)` for a translated function body, as the model's `HRes` -/
def runBody (P : Program) (env : Env) (nested : NestedFn) (key : String) (body : Stmt) (t : Tabs) (events : List Kevent) : HRes :=
  finish P key t (exec P env nested (callFuel P env nested callDepth) events body { loc := Locals.empty, tabs := t })

/-- `handlers[key](parser, events)`; `none`: the dict has no such key (or names a function that is not there) -/
def runHandler? (P : Program) (env : Env) (nested : NestedFn) (key : String) (t : Tabs) (events : List Kevent) : Option HRes :=
  match P.handlers.lookup key with
  | Option.none => Option.none
  | some f =>
    match P.funs.find? (·.name == f) with
    | Option.none => Option.none
    | some d => some (runBody P env nested key d.body t events)

/-- `handlers[key](parser, events)` (`parse_event_list` returns None for a name without handler) -/
def runHandler (P : Program) (env : Env) (nested : NestedFn) (key : String) (t : Tabs) (events : List Kevent) : HRes :=
  (runHandler? P env nested key t events).getD (.ok (Option.none, t))

/-- every record has its four argument words — what `from_kd_buf` produces (`args = struct.unpack('<QQQQ', args_buf)`) -/
def Words4 (events : List Kevent) : Prop := ∀ x ∈ events, x.values.length = 4

instance (events : List Kevent) : Decidable (Words4 events) := by unfold Words4; infer_instance

/-! ### the whole `TracesParser` with the composite handlers taken from translated programs

  Copies of `Trace.handleWith` … `Trace.run` in which the four names of `coNames` go to the interpreter (perf.py, mach.py,
  dyld.py each with its own program); everything else is the hand model.  `C20.run_ir_eq_model` proves
  `runVia Gen… = Trace.run`. -/

/-- the three translated modules -/
structure Programs where
  perf : Program
  mach : Program
  dyld : Program

def coNames : List String := ["PERF_Event", "PERF_THD_Data", "MACH_vmfault", "DBG_DYLD_TIMING_LAUNCH_EXECUTABLE"]

def handleVia (Ps : Programs) (nested : NestedFn) (env : Env) (t : Tabs) (name : String) (events : List Kevent) : HRes :=
  if name == "PERF_Event" || name == "PERF_THD_Data" then runHandler Ps.perf env nested name t events
  else if name == "MACH_vmfault" then runHandler Ps.mach env nested name t events
  else if name == "DBG_DYLD_TIMING_LAUNCH_EXECUTABLE" then runHandler Ps.dyld env nested name t events
  else handleWith nested env t name events

def parseEventListVia (Ps : Programs) (nested : NestedFn) (env : Env) (t : Tabs) (events : List Kevent) : HRes :=
  match events with
  | [] => .error .indexError
  | e :: _ =>
    match env.codes e.eventid with
    | Option.none => .ok (Option.none, t)
    | some name => if isHandled env name then handleVia Ps nested env t name events else .ok (Option.none, t)

def parseFuelVia (Ps : Programs) : Nat → Env → Tabs → List Kevent → HRes
  | 0, _, _, _ => .error .unmodelled
  | fuel + 1, env, t, events => parseEventListVia Ps (parseFuelVia Ps fuel env) env t events

def parseEventListViaIR (Ps : Programs) (env : Env) (t : Tabs) (events : List Kevent) : HRes :=
  parseFuelVia Ps (events.length + 1) env t events

def feedVia (Ps : Programs) (env : Env) (s : PState) (e : Kevent) : Except PyErr (Option TraceOut × PState) :=
  let (p', o) := Pairing.step env.domOf s.pairing e
  match o with
  | Option.none => .ok (Option.none, { s with pairing := p' })
  | some w =>
    match parseEventListViaIR Ps env s.tabs w with
    | .error x => .error x
    | .ok (r, t') => .ok (r, { pairing := p', tabs := t' })

def runVia (Ps : Programs) (env : Env) : PState → List Kevent → List TraceOut × Option PyErr × PState
  | s, [] => ([], Option.none, s)
  | s, e :: es =>
    match feedVia Ps env s e with
    | .error err => ([], some err, s)
    | .ok (r, s') =>
      let (outs, err, sf) := runVia Ps env s' es
      (match r with | some t => t :: outs | Option.none => outs, err, sf)

/-! ### unsupported nodes -/

def Expr.hasUnsupported : Expr → Bool
  | .unsupported _ => true
  | .index e _ | .last e | .attr e _ | .toBool e | .isNotNone e | .flagsOf _ e | .enumOf _ e | .filterNamed e _
  | .filterNamedD e _ | .filterRange e _ _ | .inner e | .listOf e | .chain e | .sortedBy e _ | .uuidOf e => e.hasUnsupported
  | .band a b | .ne a b | .isIn a b | .takeTo a b | .concat a b => a.hasUnsupported || b.hasUnsupported
  | _ => false

def Stmt.hasUnsupported : Stmt → Bool
  | .unsupported _ => true
  | .seq a b => a.hasUnsupported || b.hasUnsupported
  | .assign _ e | .setField _ _ e | .ret e | .call _ _ e | .mapCall _ _ e _ | .nested _ e => e.hasUnsupported
  | .construct _ _ k args => k.hasUnsupported || args.any (·.hasUnsupported)
  | .store _ k v => k.hasUnsupported || v.hasUnsupported
  | .ite c t e => c.hasUnsupported || t.hasUnsupported || e.hasUnsupported
  | _ => false

def piecesBad (ps : List Piece) : Bool := ps.any fun p => match p with | .unsupported _ => true | _ => false

def SCond.hasUnsupported : SCond → Bool
  | .unsupported _ => true
  | .and a b => a.hasUnsupported || b.hasUnsupported
  | _ => false

def SStmt.hasUnsupported : SStmt → Bool
  | .seq a b => a.hasUnsupported || b.hasUnsupported
  | .append ps => piecesBad ps
  | .ite c b => c.hasUnsupported || b.hasUnsupported
  | .skip => false

def Program.hasUnsupported (p : Program) : Bool :=
  p.funs.any (·.body.hasUnsupported) || p.classes.any fun c => piecesBad c.str.base || c.str.rest.hasUnsupported

end KdVerif.PyIRCo
