"""C19 \u2014 code-table text maps every 'hex-id name' line; a supplied table is honoured."""
import io
import json
import re
import struct
import sys

from .. import core
from ..core import run_section, hs

MODULE = 'KdVerif.Props.C19'
NAMESPACE = 'KdVerif.C19'
TRUSTED = ['str.splitlines / str.split() / int(s, 16) modelled by Model/TraceCodes (linesFrom, splitWs, pyInt16); '
           'tied to the interpreter by the sections lines/split/int16 and, in the thorough tier, per code point',
           'Unicode classes (white space, line boundaries, decimal digits) reflected from the running interpreter '
           'into Gen/Unicode.lean and compared with the interpreter over all 1 114 112 code points on every run',
           'handler-name sets reflected into Gen/HandlerNames.lean (only the driver uses them; the theorems are '
           'parametric in both sets)']
ASSUMPTIONS = ['texts hold no lone surrogates (Lean Char has none; such texts are counted and skipped)',
               'table keys are ints (what from_trace_codes_text produces)',
               'the handlers themselves are outside C19: the model stops at "handler <name> is called on window w" '
               '(vm-fault composite filters nested records by a hard-coded id range, see C20)']

# ---------------------------------------------------------------------------------------------------------
# Character classes as the *harness* knows them (written down from the Python documentation, not taken
# from the model; `uclass` compares the model's reflected tables with the interpreter itself).

LINE_BREAKS = ['\n', '\r', '\x0b', '\x0c', '\x1c', '\x1d', '\x1e', '\x85', '\u2028', '\u2029']
TERMINATORS = LINE_BREAKS + ['\r\n']
BLANKS = ['\t', ' ', '\x1f', '\xa0', '\u1680', '\u2000', '\u2001', '\u2002', '\u2003', '\u2004', '\u2005', '\u2006',
          '\u2007', '\u2008', '\u2009', '\u200a', '\u202f', '\u205f', '\u3000']
ALL_WS = set(BLANKS) | set(LINE_BREAKS)
ODD = ['\u200b', '\ufeff', '\x00', '\x7f', '\u0663', '\uff11', '\uff21', '\u00e9', '\u65e5', '\U0001f600', '\U0001d7d8',
       '\u180e', '\u2060', '#', '_', 'x', 'X', '+', '-', '?', '0', '1', '9', 'a', 'f', 'A', 'F', 'g', 'z']
REAL_NAMES = ['BSC_read', 'BSC_write', 'BSC_getpid', 'MACH_SCHED', 'TRACE_DATA_NEWTHREAD', 'VFS_LOOKUP',
              'TRACE_STRING_GLOBAL', 'BSC_open', 'MACH_vmfault', 'DYLD_uuid_map_a']
NAME_CHARS = 'abcdefghijklmnopqrstuvwxyzABCDEFGHIJKLMNOPQRSTUVWXYZ0123456789_#.:/()[]<>-+*"\'\\' \
             '\u00e9\u00df\u65e5\u672c\u200b\ufeff\U0001f600\u0663\x00\x7f\x01'


def has_surrogate(s):
    return any(0xd800 <= ord(c) <= 0xdfff for c in s)


# ---------------------------------------------------------------------------------------------------------
# from_trace_codes_text

def show_table(d):
    return 'ok ' + ','.join('%d=%s' % (k, hs(v)) for k, v in sorted(d.items()))


def impl_codes(case):
    from .. import impl  # noqa: F401
    from pykdebugparser.trace_codes import from_trace_codes_text
    return show_table(from_trace_codes_text(case['text']))


def rand_name(rng):
    if rng.random() < 0.4:
        return rng.choice(REAL_NAMES)
    return ''.join(rng.choice(NAME_CHARS) for _ in range(rng.randint(1, 12)))


def rand_blank(rng, lo=1, hi=3):
    return ''.join(rng.choice(BLANKS if rng.random() < 0.5 else ['\t', ' ']) for _ in range(rng.randint(lo, hi)))


def rand_id(rng, pool):
    if pool and rng.random() < 0.5:
        return rng.choice(pool)
    r = rng.random()
    if r < 0.1:
        v = rng.choice([0, 1, 0xf, 0x10, 0xffffffff, 0x40c000c, 0xfffffffc, 2 ** 32, 2 ** 64 - 1, 2 ** 70 + 5])
    elif r < 0.7:
        v = rng.getrandbits(32)
    else:
        v = rng.getrandbits(rng.randint(1, 28))
    pool.append(v)
    return v


def render_hex(rng, v, style=None):
    digs = '%x' % v
    mode = rng.choice(['lower', 'upper', 'mixed']) if style is None else style
    if mode == 'upper':
        digs = digs.upper()
    elif mode == 'mixed':
        digs = ''.join(c.upper() if rng.random() < 0.5 else c for c in digs)
    return rng.choice(['', '0x', '0X']) + '0' * rng.choice([0, 0, 0, 1, 3]) + digs


def rand_comment(rng):
    n = rng.randint(0, 10)
    alphabet = BLANKS + ODD + list(NAME_CHARS)
    return ''.join(rng.choice(alphabet) for _ in range(n))


def gen_structured(rng, n):
    """Texts of the theorem's grammar: lead? id sep name (sep comment)? terminator."""
    cases = []
    for _ in range(n):
        pool = []
        entries, text = [], ''
        k = rng.choice([0, 1, 1, 2, 3, 5, 8, 13])
        for i in range(k):
            v, name = rand_id(rng, pool), rand_name(rng)
            line = (rand_blank(rng, 0, 2) if rng.random() < 0.3 else '') + render_hex(rng, v) + rand_blank(rng) + name
            if rng.random() < 0.5:
                line += rand_blank(rng) + rand_comment(rng)
            term = rng.choice(TERMINATORS) if rng.random() < 0.6 else rng.choice(['\n', '\r\n', '\r'])
            if i == k - 1 and rng.random() < 0.4:
                term = ''
            text += line + term
            entries.append([v, name])
        cases.append({'text': text, 'entries': entries})
    return cases


def oracle_structured(case, got):
    exp = {}
    for v, name in case['entries']:
        exp[v] = name
    if got.startswith('err'):
        return ('codes:raises', 'a table text of well-formed "hex-id name [comment]" lines raised ' + got)
    if got != show_table(exp):
        keys = {int(p.split('=')[0]) for p in got[3:].split(',') if p}
        if keys - set(exp):
            return ('codes:extra-key', 'the mapping has a key that is no id of the text')
        if set(exp) - keys:
            return ('codes:missing-key', 'an id of the text is missing from the mapping')
        return ('codes:wrong-name', 'an id is not mapped to the name of its last line')
    return None


BAD_HEX = ['zz', '0xg', 'g', '12_', '_12', '1__2', '+', '-', '0x', '0X', '0x_', '0x__1', 'ff\u200b', '\u200bff',
           '1.5', '0x1p3', "'10'", '#', '# comment', '0b1g', '0o7x', 'x10', '1\x00', '--1', '+-1', '\uff21', 'ff;',
           '0x 10'.replace(' ', '\u200b'), '1\x7f']


def gen_malformed(rng, n):
    cases = []
    for _ in range(n):
        pool, lines, first = [], [], None
        for i in range(rng.randint(1, 6)):
            kind = rng.choice(['ok', 'ok', 'blank', 'one', 'one-bad', 'bad'])
            if kind == 'ok':
                line = render_hex(rng, rand_id(rng, pool)) + rand_blank(rng) + rand_name(rng)
            elif kind == 'blank':
                line, err = rand_blank(rng, 0, 2), 'IndexError'
            elif kind == 'one':
                line, err = rand_blank(rng, 0, 1) + render_hex(rng, rand_id(rng, pool)) + rand_blank(rng, 0, 1), 'IndexError'
            elif kind == 'one-bad':
                line, err = rng.choice(BAD_HEX), 'ValueError'
            else:
                line, err = rng.choice(BAD_HEX) + rand_blank(rng) + rand_name(rng), 'ValueError'
            if kind != 'ok' and first is None:
                first = err
            lines.append(line)
        text, prev = '', ''
        for l in lines:
            term = rng.choice(TERMINATORS)
            while l == '' and prev == '\r' and term[0] == '\n':    # "\r" + "" + "\n" is one boundary, not a blank line
                term = rng.choice(TERMINATORS)
            text += l + term
            prev = term
        if lines[-1].strip(''.join(ALL_WS)) and rng.random() < 0.3:
            text = text.rstrip(''.join(LINE_BREAKS))
        cases.append({'text': text, 'first_error': first})
    return cases


def oracle_malformed(case, got):
    exp = case['first_error']
    if exp is None:
        return ('codes:raises', 'well-formed lines raised ' + got) if got.startswith('err') else None
    if not got.startswith('err'):
        return ('codes:malformed-accepted', 'a text with a blank / one-token / non-hex line was accepted')
    if got != 'err ' + exp:
        return ('codes:wrong-error', f'expected {exp} from the first malformed line, got {got}')
    return None


FULLWIDTH = {str(d): chr(0xff10 + d) for d in range(10)}
ARABIC = {str(d): chr(0x660 + d) for d in range(10)}


def gen_extra(rng, n):
    """Ids that `int(s, 16)` accepts beyond the theorem's grammar: sign, underscores, non-ASCII decimal digits."""
    cases = []
    for _ in range(n):
        entries, text = [], ''
        for i in range(rng.randint(1, 5)):
            v = rng.getrandbits(rng.choice([4, 16, 32, 40]))
            digs = '0' * rng.choice([0, 1]) + ('%x' % v if rng.random() < 0.5 else '%X' % v)
            if rng.random() < 0.5:
                digs = '_'.join(digs[j:j + rng.randint(1, 3)] for j in range(0, len(digs), 3))
                digs = re.sub(r'_+', '_', digs).strip('_')
                v = int(digs.replace('_', ''), 16)
            if rng.random() < 0.3:
                m = rng.choice([FULLWIDTH, ARABIC])
                digs = ''.join(m.get(c, c) if rng.random() < 0.6 else c for c in digs)
            pre = rng.choice(['', '0x', '0X', '0x_', '0X_'])
            if pre and rng.random() < 0.1:
                pre = ARABIC['0'] + pre[1:]
            sign = rng.choice(['', '', '+', '-'])
            if sign == '-':
                v = -v
            name = rand_name(rng)
            text += sign + pre + digs + rand_blank(rng) + name + rng.choice(TERMINATORS)
            entries.append([v, name])
        cases.append({'text': text, 'entries': entries})
    return cases


def gen_random_text(rng, n):
    alphabet = BLANKS + LINE_BREAKS + ['\r\n'] + ODD + list('0123456789abcdefABCDEF') * 2 + [' ', '\n'] * 6
    out = []
    for _ in range(n):
        out.append(''.join(rng.choice(alphabet) for _ in range(rng.randint(0, 40))))
    out += ['', '\n', '\r\n', '\r', ' ', 'a b', 'a b\n', 'a b\n\n', '\na b', 'a b\r\nc d', 'a b\n\rc d', 'a b\r\r\nc d',
            'a\x1fb c', 'a\x1cb c', 'A b\na c', '\ufeffa b', 'a b\x85c d\u2028e f\u2029']
    return out


def ref_lines(text):
    """Reference `splitlines` (regular expression over the documented boundary list)."""
    parts = re.split('\r\n|[' + ''.join(LINE_BREAKS) + ']', text)
    if parts and parts[-1] == '':
        parts.pop()
    return parts


def ref_tokens(line):
    toks, cur = [], ''
    for ch in line:
        if ch in ALL_WS:
            if cur:
                toks.append(cur)
            cur = ''
        else:
            cur += ch
    if cur:
        toks.append(cur)
    return toks


HEX_RE = re.compile(r'^[+-]?(0[xX]_?)?[0-9a-fA-F]+(_[0-9a-fA-F]+)*$')


def ref_parse(text):
    """Reference reading of a table text; None where the reference does not commit itself (non-ASCII in an id)."""
    d = {}
    for line in ref_lines(text):
        toks = ref_tokens(line)
        if not toks:
            return 'err IndexError'
        if any(ord(c) > 126 for c in toks[0]):
            return None
        if not HEX_RE.match(toks[0]):
            return 'err ValueError'
        if len(toks) < 2:
            return 'err IndexError'
        t = toks[0].replace('_', '')
        sign = -1 if t[0] == '-' else 1
        t = t.lstrip('+-')
        if t[:2] in ('0x', '0X'):
            t = t[2:]
        v = 0
        for c in t:
            v = v * 16 + '0123456789abcdef'.index(c.lower())
        d[sign * v] = toks[1]
    return show_table(d)


def oracle_reference(case, got):
    exp = ref_parse(case['text'])
    if exp is None or exp == got:
        return None
    if exp.startswith('err') and not got.startswith('err'):
        return ('codes:malformed-accepted', 'a text with a blank / one-token / non-hex line was accepted')
    if got.startswith('err') and not exp.startswith('err'):
        return ('codes:raises', 'a well-formed table text raised ' + got)
    if got.startswith('err'):
        return ('codes:wrong-error', f'expected {exp}, got {got}')
    return ('codes:wrong-mapping', 'the mapping differs from the reference reading of the text')


# ---------------------------------------------------------------------------------------------------------
# interpreter primitives (the modelled, not verified, part)

def show_list(l):
    return 'ok %d %s' % (len(l), ';'.join(hs(x) for x in l))


def impl_int16(t):
    return 'ok %d' % int(t, 16)


def gen_int_strings(rng, n):
    alphabet = list('0123456789abcdefABCDEF') * 3 + list('xX__+-') * 2 + BLANKS + LINE_BREAKS + ODD
    out = list(BAD_HEX) + ['ff', ' ff ', '\x1cff', 'ff\x1f', '\x85ff\xa0', '0x_ff', '-0X_f_f', '\u0660x1\u0663', '+0', '-0',
                           '0', '00', '0_0', '0x0', '\t\n\x0b\x0c\r 1 \t\n\x0b\x0c\r', '1 1', '\u20031\u3000', '\u2003\x1c1']
    for _ in range(n):
        if rng.random() < 0.5:
            core_ = render_hex(rng, rng.getrandbits(rng.choice([4, 8, 32, 64])))
            s = rng.choice(['', ' ', '\t', '\u2003', '\x1c', '\x85']) + rng.choice(['', '', '+', '-']) + core_ \
                + rng.choice(['', ' ', '\n', '\u3000', '\x1f', '_', 'g'])
            if rng.random() < 0.3 and len(s) > 1:
                i = rng.randrange(len(s))
                s = s[:i] + rng.choice(alphabet) + s[i:]
        else:
            s = ''.join(rng.choice(alphabet) for _ in range(rng.randint(0, 8)))
        out.append(s)
    return out


# ---------------------------------------------------------------------------------------------------------
# uclass: the model's tables against the interpreter, every code point

def check_uclass(rep):
    sec = rep.section('uclass')
    sec['rule'] = ('model classes (isSpaceCp / isBreakCp / decimalCp) vs. the interpreter (str.split, str.isspace, '
                   'str.splitlines, int) for every code point 0..0x10FFFF; one case per code point')
    n = sys.maxunicode + 1
    step = 0x8000
    lines = ['uclass %d %d' % (lo, min(lo + step, n)) for lo in range(0, n, step)]
    answers = core.drive(lines)
    ws_m, lb_m, dec_m = set(), set(), {}
    for a in answers:
        m = re.match(r'ok ws=(\S*) lb=(\S*) dec=(\S*)$', a)
        if not m:
            raise core.Infra('uclass: ' + a[:200])
        ws_m.update(int(x) for x in m.group(1).split(',') if x)
        lb_m.update(int(x) for x in m.group(2).split(',') if x)
        for x in m.group(3).split(','):
            if x:
                c, v = x.split(':')
                dec_m[int(c)] = int(v)
    ws_i, lb_i, dec_i = set(), set(), {}
    for c in range(n):
        ch = chr(c)
        if ch.isspace():
            ws_i.add(c)
        if len(('a' + ch + 'b').split()) != (2 if ch.isspace() else 1):
            ws_i.add(-c - 1)                   # str.split disagrees with str.isspace: cannot happen
        if len(('a' + ch + 'b').splitlines()) == 2:
            lb_i.add(c)
        if c >= 128 and ch.isdecimal():
            dec_i[c] = int(ch, 16)
    sec['cases'] += n
    bad = len(ws_m ^ ws_i) + len(lb_m ^ lb_i) + len(set(dec_m.items()) ^ set(dec_i.items()))
    sec['distinct_nontrivial'] += len(ws_i) + len(lb_i) + len(dec_i)
    sec['dist'] = {'whitespace': len(ws_i), 'line_breaks': len(lb_i), 'decimal_digits': len(dec_i)}
    # facts the generators rely on (documented lists == interpreter)
    if {ord(c) for c in LINE_BREAKS} != lb_i or {ord(c) for c in ALL_WS} != ws_i:
        raise core.Infra('harness character lists differ from this interpreter')
    if bad:
        sec['mismatches'] += bad
        rep.broken.append(f'correspondence:uclass ({bad} code points classified differently)')
        rep.first_diffs.append({'section': 'uclass', 'ws': sorted(ws_m ^ ws_i)[:10], 'lb': sorted(lb_m ^ lb_i)[:10],
                                'dec': sorted(set(dec_m.items()) ^ set(dec_i.items()))[:10]})


def per_codepoint(rep):
    """Thorough tier: the three primitives on a probe text around every non-surrogate code point."""
    cps = [c for c in range(sys.maxunicode + 1) if not 0xd800 <= c <= 0xdfff]
    run_section(rep, 'lines-per-codepoint', ['a' + chr(c) + '\nb' + chr(c) for c in cps],
                line_fn=lambda t: 'lines ' + hs(t), impl_fn=lambda t: show_list(t.splitlines()),
                nontrivial_fn=lambda t, got: not got.startswith('ok 2 '),
                rule='"a<c>\\nb<c>".splitlines() for every code point c; non-trivial = c is a boundary')
    run_section(rep, 'split-per-codepoint', [chr(c) + 'a' + chr(c) + 'b' + chr(c) for c in cps],
                line_fn=lambda t: 'split ' + hs(t), impl_fn=lambda t: show_list(t.split()),
                nontrivial_fn=lambda t, got: got.startswith('ok 2 '),
                rule='"<c>a<c>b<c>".split() for every code point c; non-trivial = c is white space')
    run_section(rep, 'int16-per-codepoint', [chr(c) + '1' + chr(c) for c in cps] + ['1' + chr(c) for c in cps],
                line_fn=lambda t: 'int16 ' + hs(t), impl_fn=impl_int16,
                nontrivial_fn=lambda t, got: got.startswith('ok'),
                rule='int("<c>1<c>", 16) and int("1<c>", 16) for every code point c; non-trivial = accepted')


# ---------------------------------------------------------------------------------------------------------
# the pipeline under a supplied table

def v2_file(threads, records):
    """A version-2 dump written from the format description (not with the repository's constructs)."""
    out = b'\x00\x02\xaa\x55' + struct.pack('<I', len(threads)) + b'\x00' * 12 + struct.pack('<I', 1) \
        + struct.pack('<Q', 24000000) + b'\x00' * 0x100
    for tid, pid, name in threads:
        out += struct.pack('<QI', tid, pid) + name.encode().ljust(20, b'\x00')
    return out + b''.join(records)


def rec(ts, tid, debugid, args=(0, 0, 0, 0)):
    from ..impl import record_args
    return record_args(ts, list(args), tid, debugid)


def table_arg(table):
    return 'd:' + (','.join('%d=%s' % (k, hs(v)) for k, v in table) or '-')


def make_parser():
    from .. import impl  # noqa: F401
    from pykdebugparser.pykdebugparser import PyKdebugParser
    p = PyKdebugParser()
    p.color = False
    p.show_timestamp = p.show_func_qual = p.show_tid = p.show_process = p.show_args = False
    p.show_name = True
    return p


DEFAULT_IDS = [0x40c000c, 0x40c0050, 0x1400000, 0x7000004, 0x3010090]


def rand_eid(rng):
    r = rng.random()
    if r < 0.25:
        return rng.choice(DEFAULT_IDS)
    if r < 0.35:
        return rng.choice([0, 4, 0xfffffffc, 0x80000000])
    return rng.getrandbits(32) & ~3


def gen_namecol(rng, n):
    cases = []
    for _ in range(n):
        ids = [rand_eid(rng) for _ in range(rng.randint(1, 6))]
        table = []
        for i in ids:
            if rng.random() < 0.55:
                table.append([i, rand_name(rng)])
        for _ in range(rng.randint(0, 3)):                 # keys no event carries: odd, negative, huge
            table.append([rng.choice([-4, 1, 3, 2 ** 32 + 4, rng.getrandbits(32) | 1]), rand_name(rng)])
        rng.shuffle(table)
        seen, tab = set(), []
        for k, v in table:
            if k not in seen:
                seen.add(k)
                tab.append([k, v])
        recs = []
        for j in range(rng.randint(0, 8)):
            eid = rng.choice(ids) if rng.random() < 0.85 else rand_eid(rng)
            recs.append(rec(1 + j, rng.choice([1, 2, 77]), eid | rng.randrange(4)).hex())
        case = {'table': tab, 'recs': recs}
        if rng.random() < 0.3 and all(k >= 0 for k, _ in tab):
            # the table as text, through from_trace_codes_text
            case['text'] = ''.join(render_hex(rng, k) + rand_blank(rng) + v + rng.choice(TERMINATORS) for k, v in tab)
        # what else is asked of the SAME parser object between requesting the (lazy) listing and reading it
        case['later'] = rng.choice([None, None, 'traces', 'traces-unread', 'other-table', 'other-table-unread', 'bundled',
                                    'lockstep'])
        cases.append(case)
    return cases


def line_namecol(case):
    t = 't:' + hs(case['text']) if 'text' in case else table_arg(case['table'])
    return ' '.join(['namecol', t] + case['recs'])


def impl_namecol(case):
    p = make_parser()
    if 'text' in case:
        from pykdebugparser.trace_codes import from_trace_codes_text
        table = from_trace_codes_text(case['text'])
    else:
        table = {k: v for k, v in case['table']}
    data = v2_file([(1, 10, 'proc'), (2, 11, 'other')], [bytes.fromhex(r) for r in case['recs']])
    listing = p.formatted_kevents(io.BytesIO(data), table)
    later = case.get('later')
    other = {k: 'OTHER_' + v for k, v in list(table.items())[::2]}
    other[0x40c000c] = 'OTHER_read'
    keep = []                                              # unread requests stay alive while the listing is read
    try:
        if later in ('traces', 'traces-unread'):
            g = p.traces(io.BytesIO(data), {0x40c0050: 'BSC_getpid'})
            keep.append(g if later.endswith('unread') else list(g))
        elif later in ('other-table', 'other-table-unread'):
            g = p.formatted_kevents(io.BytesIO(data), other)
            keep.append(g if later.endswith('unread') else list(g))
        elif later == 'bundled':
            keep.append(list(p.formatted_kevents(io.BytesIO(data))))
    except Exception:                                      # random words in a decoder: not this property's business
        pass
    if later == 'lockstep':
        second = p.formatted_kevents(io.BytesIO(data), other)
        lines = [a for a, _b in zip(listing, second)]
    else:
        lines = list(listing)
    return 'ok ' + ';'.join(hs(l) for l in lines)


def oracle_namecol(case, got):
    table = dict((k, v) for k, v in case['table'])
    if not got.startswith('ok'):
        return ('names:raises', 'listing under a supplied table raised ' + got)
    lines = [bytes.fromhex(x if x != '-' else '').decode() for x in got[3:].split(';')] if got[3:] else []
    if len(lines) != len(case['recs']):
        return ('names:count', 'number of lines differs from the number of records')
    for r, line in zip(case['recs'], lines):
        dbg = int.from_bytes(bytes.fromhex(r)[48:52], 'little')
        eid = dbg - dbg % 4
        if eid in table:
            exp = '%s (0x%x)' % (table[eid], eid)
            if line != exp.ljust(58):
                return ('names:known-id', 'an id of the supplied table is not shown as "<name> (<hex id>)"')
        elif line != ('0x%x' % eid).ljust(58):
            return ('names:unknown-id', 'an id absent from the supplied table is not shown as bare hex')
    return None


TRACE_DOMAIN = ['TRACE_DATA_NEWTHREAD', 'TRACE_DATA_EXEC', 'TRACE_DATA_THREAD_TERMINATE', 'TRACE_DATA_THREAD_TERMINATE_PID',
                'TRACE_STRING_GLOBAL', 'TRACE_STRING_NEWTHREAD', 'TRACE_STRING_EXEC', 'TRACE_STRING_PROC_EXIT',
                'TRACE_STRING_THREADNAME', 'TRACE_STRING_THREADNAME_PREV']
SAFE = {'BSC_read': 'BscRead', 'BSC_write': 'BscWrite', 'BSC_getpid': 'BscGetpid', 'BSC_getuid': 'BscGetuid',
        'MACH_SCHED': 'MachSched', 'MACH_MKRUNNABLE': 'MachMkrunnable',
        'TRACE_DATA_NEWTHREAD': 'TraceDataNewthread', 'TRACE_DATA_EXEC': 'TraceDataExec'}
CLASS_TO_NAME = {v: k for k, v in SAFE.items()}
NOT_HANDLED = ['FOO_bar', 'BSC_read_extended', 'bsc_read', 'MACH_SCHED_x', 'TRACE_DATA', 'x']


def all_handler_names():
    from .. import impl  # noqa: F401
    from pykdebugparser import traces_parser as tp
    return sorted(tp.TracesParser({}, {}, {}).handlers.keys())


def gen_streams(rng, n, names_decodable, names_other):
    """Tables and event streams whose decoding is known by construction: per thread a sequence of
    START...END pairs (with single events inside) and single events; threads interleaved."""
    cases = []
    for _ in range(n):
        table, used = [], set()

        def fresh():
            while True:
                i = rand_eid(rng)
                if i not in used:
                    used.add(i)
                    return i
        for _ in range(rng.randint(1, 5)):
            nm = rng.choice(names_decodable)
            for _ in range(rng.choice([1, 1, 2])):
                table.append([fresh(), nm])
        for _ in range(rng.randint(0, 3)):
            table.append([fresh(), rng.choice(names_other)])
        absent = [fresh() for _ in range(rng.randint(1, 3))]
        rng.shuffle(table)
        tab = dict((k, v) for k, v in table)
        ids = [k for k, _ in table] + absent

        def dom(i):
            return i in tab and tab[i] in TRACE_DOMAIN
        threads = []
        for tid in rng.sample([1, 2, 3, 0x1234, 2 ** 40 + 1], rng.randint(1, 3)):
            items = []
            for _ in range(rng.randint(1, 4)):
                if rng.random() < 0.6:
                    items.append(('pair', rng.choice(ids), [rng.choice(ids) for _ in range(rng.choice([0, 0, 1, 2]))]))
                else:
                    items.append(('single', rng.choice(ids), []))
            evs = []                                   # (eid, qual, item index, role)
            for ii, (kind, i, inner) in enumerate(items):
                if kind == 'pair':
                    evs.append((i, 1, ii, 'start'))
                    evs += [(j, rng.choice([0, 3]), ii, 'inner') for j in inner]
                    evs.append((i, 2, ii, 'end'))
                else:
                    evs.append((i, rng.choice([0, 3]), ii, 'single'))
            threads.append((tid, items, evs))
        # random interleaving keeping each thread's order
        cursors = [0] * len(threads)
        merged = []
        while True:
            live = [t for t in range(len(threads)) if cursors[t] < len(threads[t][2])]
            if not live:
                break
            t = rng.choice(live)
            merged.append((t,) + threads[t][2][cursors[t]])
            cursors[t] += 1
        recs, expected, windows = [], [], {}
        for pos, (t, eid, qual, ii, role) in enumerate(merged):
            ts = pos + 1
            tid = threads[t][0]
            recs.append(rec(ts, tid, eid | qual, [rng.getrandbits(64) for _ in range(4)]).hex())
            decodable = eid in tab and tab[eid] in names_decodable
            if role == 'start':
                windows[(t, ii)] = [ts]
            elif role == 'inner':
                pair_id = threads[t][1][ii][1]
                if dom(eid) == dom(pair_id):
                    windows[(t, ii)].append(ts)
                if decodable:
                    expected.append([tab[eid], [ts]])
            elif role == 'end':
                w = windows.pop((t, ii)) + [ts]
                if decodable:
                    expected.append([tab[eid], w])
            elif decodable:
                expected.append([tab[eid], [ts]])
        cases.append({'table': table, 'recs': recs, 'expected': expected, 'absent': absent})
    return cases


def show_invocations(inv):
    return 'ok ' + ';'.join('%s:%s' % (n, ','.join(str(t) for t in w)) for n, w in inv)


def impl_gate(case):
    """`traces(file, table)` with every handler replaced by a recorder (which handler, which window)."""
    import pykdebugparser.pykdebugparser as pk
    log = []

    class Stub:
        def __init__(self, events):
            self.ktraces = events

    orig = pk.TracesParser

    class Recorder(orig):
        def __init__(self, *a, **kw):
            super().__init__(*a, **kw)
            for name in list(self.handlers):
                self.handlers[name] = (lambda nm: lambda parser, events: (log.append((nm, [e.timestamp for e in events])),
                                                                         Stub(events))[1])(name)
    p = make_parser()
    data = v2_file([(1, 10, 'proc')], [bytes.fromhex(r) for r in case['recs']])
    pk.TracesParser = Recorder
    try:
        n = len(list(p.traces(io.BytesIO(data), {k: v for k, v in case['table']})))
    finally:
        pk.TracesParser = orig
    if n != len(log):
        return 'err TraceCountMismatch'
    return show_invocations(log)


def impl_traces(case):
    """The real `traces(file, table)`: class of each trace (as the handler name that builds it) and its window."""
    p = make_parser()
    data = v2_file([(1, 10, 'proc')], [bytes.fromhex(r) for r in case['recs']])
    out = []
    for t in p.traces(io.BytesIO(data), {k: v for k, v in case['table']}):
        cls = type(t).__name__
        out.append((CLASS_TO_NAME.get(cls, cls), [e.timestamp for e in t.ktraces]))
    return show_invocations(out)


def oracle_traces(case, got):
    if not got.startswith('ok'):
        return ('traces:raises', 'decoding under a supplied table raised ' + got)
    exp = show_invocations([(n, w) for n, w in case['expected']])
    if got == exp:
        return None
    tab = dict((k, v) for k, v in case['table'])
    ts_id = {}
    for r in case['recs']:
        b = bytes.fromhex(r)
        dbg = int.from_bytes(b[48:52], 'little')
        ts_id[int.from_bytes(b[:8], 'little')] = dbg - dbg % 4
    got_l = [(x.split(':')[0], [int(t) for t in x.split(':')[1].split(',')]) for x in got[3:].split(';') if x]
    for n, w in got_l:
        if ts_id.get(w[0]) not in tab:
            return ('traces:unknown-id-decoded', 'an event whose id is absent from the supplied table produced a trace')
    exp_l = [(n, w) for n, w in case['expected']]
    if [(n, w[-1]) for n, w in got_l] != [(n, w[-1]) for n, w in exp_l]:
        return ('traces:table-not-honoured', 'the traces are not those the supplied table names (a re-keyed name not '
                                             'decoded, or decoded as something else)')
    return ('traces:wrong-window', 'trace windows differ from the per-table pairing')


# ---------------------------------------------------------------------------------------------------------

# ---------------------------------------------------------------------------------------------------------
# whole scenarios under a re-keyed table: decoders that look INSIDE their window (path lookups of a syscall, the
# sampler's thread-info / stack records, the image records of a launch) must find the nested records under
# whatever ids the supplied table gives their names — including a name listed under two ids.

def rekey_case(rng):
    from . import C13
    while True:
        dump = C13.gen_dump(rng, 'any')
        if dump['events']:
            break
    codes = {int(k): v for k, v in dump['codes'].items()}
    used = set(codes)

    def fresh():
        while True:
            i = rand_eid(rng)
            if i not in used and not (0x1320008 <= i <= 0x1320014):
                used.add(i)
                return i
    alias = {}
    for i, nm in codes.items():
        if 0x1320008 <= i <= 0x1320014:               # the page-fault decoder selects these by a hard-coded id range (C20)
            alias[i] = [i]
            continue
        r = rng.random()
        alias[i] = [fresh()] if r < 0.35 else [i, fresh()] if r < 0.7 else [fresh(), fresh()] if r < 0.9 else [i]
    table = [[a, codes[i]] for i, al in alias.items() for a in al]
    rng.shuffle(table)
    pick = {}
    evs = []
    for h in dump['events']:
        b = bytes.fromhex(h)
        dbg = int.from_bytes(b[48:52], 'little')
        tid = int.from_bytes(b[40:48], 'little')
        eid, q = dbg - dbg % 4, dbg % 4
        if eid in alias:
            key = (tid, eid)
            if key not in pick:
                pick[key] = rng.choice(alias[eid])
            eid = pick[key]
        evs.append((b[:48] + (eid | q).to_bytes(4, 'little') + b[52:]).hex())
    return {'tmap': dump['tmap'], 'orig_events': dump['events'], 'orig_codes': dump['codes'], 'events': evs,
            'codes': {str(k): v for k, v in table}, 'table_order': [k for k, _ in table],
            'cfg': {'tid': None, 'classes': [], 'subclasses': [], 'process': None}, 'reqs': 't'}


def rekey_line(case):
    from . import C13
    return C13.line(case)


def rekey_impl(case):
    from . import C13
    # the table is handed over in the generated order (a name listed twice: either id may come last)
    codes = {k: case['codes'][str(k)] for k in case['table_order']}
    data = C13.dump_bytes(case)
    p = C13.make_parser(case['cfg'])
    return 'ok %s ;tid=N ;fc=- ;fs=- ;proc=N ;img=%d' % (C13.request(p, 't', data, codes), len(p.dyld_addresses))


def rekey_oracle(case, got):
    """The same scenario under the bundled ids: same traces (decoder, records, text, decoded payload)."""
    from . import C13
    if not got.startswith('ok '):
        return ('traces:raises', 'decoding under a supplied table raised ' + got)
    orig = dict(case, events=case['orig_events'], codes=case['orig_codes'])
    codes0 = {int(k): v for k, v in orig['codes'].items()}
    want = C13.request(C13.make_parser(case['cfg']), 't', C13.dump_bytes(orig), codes0)
    have = C13.parse_answer(got)[0][0]
    if have != want:
        a, b = have.split(' '), want.split(' ')
        i = next((k for k, (x, y) in enumerate(zip(a, b)) if x != y), min(len(a), len(b)))
        return ('traces:table-not-honoured',
                'a scenario whose names are listed under other ids (some under two ids) decodes differently: item %d is %s, '
                'under the bundled ids %s' % (i, (a[i:i + 1] or ['<none>'])[0][:300], (b[i:i + 1] or ['<none>'])[0][:300]))
    return None


SECTIONS = {}


def translation_tie(rep):
    """Is the shape translated from trace_codes.py the one the model of from_trace_codes_text was written for?  Switches
    the mirror sections `codes*-ir` on (the generated shape under the interpreter against CPython)."""
    ans = core.drive(['tcircheck'])[0]
    if ans == 'same':
        rep.notes.append('translation tie: Gen/PyIRTc (from trace_codes.py) = PyIRTc.expected')
    else:
        rep.broken.append('theorem source_is_expected_shape: the shape that tools/gen_pyir_tc.py reads from the source text of '
                          'from_trace_codes_text is not the one from_trace_codes_text_ir_eq_model is proved for (%s)' % ans[:600])
    rep.mirror = {'codes': 'tcir'}


def correspondence(rep, rng, tier):
    big = tier != 'quick'
    translation_tie(rep)
    check_uclass(rep)
    k = 50 if big else 1

    run_section(rep, 'codes', gen_structured(rng, 1500 * k), lambda c: 'codes ' + hs(c['text']), impl_codes,
                oracle_structured, nontrivial_fn=lambda c, got: len(c['entries']) > 0,
                kind_fn=lambda c, got: 'dup' if len({e[0] for e in c['entries']}) < len(c['entries']) else 'nodup',
                rule='texts of the grammar of parse_render (lead? [0x|0X]hex blanks name [blanks comment] terminator, '
                     'all 11 terminators, all 19 blank characters, duplicates, last line optionally unterminated); '
                     'oracle = the pairs the generator intended, last wins')
    run_section(rep, 'codes-malformed', gen_malformed(rng, 600 * k), lambda c: 'codes ' + hs(c['text']), impl_codes,
                oracle_malformed, nontrivial_fn=lambda c, got: got.startswith('err'),
                kind_fn=lambda c, got: got if got.startswith('err') else 'ok',
                rule='well-formed lines mixed with blank / one-token / non-hex lines; oracle = error of the first '
                     'malformed line')
    run_section(rep, 'codes-extra', gen_extra(rng, 400 * k), lambda c: 'codes ' + hs(c['text']), impl_codes,
                oracle_structured, nontrivial_fn=lambda c, got: got.startswith('ok'),
                rule='ids with sign, underscores, 0x_ and non-ASCII decimal digits (accepted by int(s, 16))')
    texts = gen_random_text(rng, 800 * k)
    sur = ['a b\ud800', '\udfff1 x', 'a\ud800 b\n1 2']
    got_sur = core.drive(['codes ' + hs(t) for t in sur])
    rep.section('codes-random')['skipped_unsupported'] = sum(1 for g in got_sur if g == 'unsupported')
    if any(g != 'unsupported' for g in got_sur):
        rep.broken.append('correspondence:codes-random (a text with a lone surrogate was not answered `unsupported`)')
    run_section(rep, 'codes-random', [{'text': t} for t in texts], lambda c: 'codes ' + hs(c['text']), impl_codes,
                oracle_reference, nontrivial_fn=lambda c, got: got.startswith('ok') and len(got) > 3,
                kind_fn=lambda c, got: got if got.startswith('err') else 'ok',
                rule='random texts over blanks, boundaries, odd Unicode and hex digits; oracle = reference reader '
                     '(regular expressions over the documented character lists)')

    run_section(rep, 'lines', texts, lambda t: 'lines ' + hs(t), lambda t: show_list(t.splitlines()),
                nontrivial_fn=lambda t, got: not got.startswith('ok 0') and not got.startswith('ok 1 '),
                rule='str.splitlines on the random texts')
    run_section(rep, 'split', texts, lambda t: 'split ' + hs(t), lambda t: show_list(t.split()),
                nontrivial_fn=lambda t, got: not got.startswith('ok 0'), rule='str.split() on the random texts')
    run_section(rep, 'int16', gen_int_strings(rng, 1500 * k), lambda t: 'int16 ' + hs(t), impl_int16,
                nontrivial_fn=lambda t, got: got.startswith('ok'),
                kind_fn=lambda t, got: got.split()[0] + (' ' + got.split()[1] if got.startswith('err') else ''),
                rule='int(s, 16) on rendered ids with perturbations and on random strings')

    run_section(rep, 'namecol', gen_namecol(rng, 500 * k), line_namecol, impl_namecol, oracle_namecol,
                nontrivial_fn=lambda c, got: len(c['recs']) > 0,
                kind_fn=lambda c, got: 'later=%s' % c.get('later'),
                rule='formatted_kevents(v2 file, table) with only the name column on; ids in / absent from the table '
                     '(bundled ids re-named or absent), tables as dicts and as texts; between requesting the lazy listing and '
                     'reading it the same parser object is asked nothing / traces() / another listing with another table or '
                     'the bundled one (read or left unread) / a second listing read in lock step; oracle = "<name> (0x..)" '
                     '/ bare hex under the table the listing was requested with')
    names = all_handler_names()
    run_section(rep, 'gate', gen_streams(rng, 400 * k, names, NOT_HANDLED), lambda c: ' '.join(
        ['decode', table_arg(c['table'])] + c['recs']), impl_gate, oracle_traces,
                nontrivial_fn=lambda c, got: len(got) > 3,
                rule='traces(v2 file, table) with recording handlers: every handler name re-keyed to random ids, '
                     'non-handler names, absent ids; answer = handler name + window per call; oracle = by construction')
    run_section(rep, 'traces', gen_streams(rng, 400 * k, sorted(SAFE), NOT_HANDLED), lambda c: ' '.join(
        ['decode', table_arg(c['table'])] + c['recs']), impl_traces, oracle_traces,
                nontrivial_fn=lambda c, got: len(got) > 3,
                rule='the real traces(v2 file, table): BSC_read/write/getpid/getuid, MACH_SCHED/MKRUNNABLE, '
                     'TRACE_DATA_NEWTHREAD/EXEC re-keyed to random ids; answer = trace class (as handler name) + window')
    run_section(rep, 'traces-rekeyed', [rekey_case(rng) for _ in range(150 * (20 if big else 1))], rekey_line, rekey_impl,
                rekey_oracle, nontrivial_fn=lambda c, got: '|' in got, skip_fn=lambda m: 'Unmodelled' in m,
                kind_fn=lambda c, got: 'aliased' if len(c['codes']) > len(c['orig_codes']) else 'renumbered',
                rule='whole scenarios (syscalls with path lookups, sampler windows with thread-info and stack records, launch '
                     'windows with image records, page faults, strings, new-thread pairs) with every name moved to fresh ids and '
                     '~half of the names listed under TWO ids (each thread using one of them, either id last in the table): '
                     'traces vs the model and vs the same scenario under the bundled ids (decoder, records, text, payload)')
    if big:
        per_codepoint(rep)


RUNNERS = {
    'codes': (lambda c: 'codes ' + hs(c['text']), impl_codes, oracle_structured),
    'codes-malformed': (lambda c: 'codes ' + hs(c['text']), impl_codes, oracle_malformed),
    'codes-extra': (lambda c: 'codes ' + hs(c['text']), impl_codes, oracle_structured),
    'codes-random': (lambda c: 'codes ' + hs(c['text']), impl_codes, oracle_reference),
    'namecol': (line_namecol, impl_namecol, oracle_namecol),
    'gate': (lambda c: ' '.join(['decode', table_arg(c['table'])] + c['recs']), impl_gate, oracle_traces),
    'traces': (lambda c: ' '.join(['decode', table_arg(c['table'])] + c['recs']), impl_traces, oracle_traces),
    'traces-rekeyed': (rekey_line, rekey_impl, rekey_oracle),
}


def replay(path):
    with open(path) as fd:
        r = json.load(fd)
    if 'replay' not in r:
        print(json.dumps(r, indent=1)[:3000])
        return 1
    sec, case = r['replay']['section'], r['replay']['case']
    line_fn, impl_fn, oracle = RUNNERS[sec]
    try:
        got = impl_fn(case)
    except Exception as e:
        got = 'err ' + core.err_name(e)
    res = oracle(case, got)
    print('impl :', got[:2000])
    print('model:', core.drive([line_fn(case)])[0][:2000])
    if res:
        print('oracle:', res[0], '-', res[1])
        print(f'VIOLATION property=C19 replay={path}')
        return 1
    return 0


LEVEL_TEXT = ('Lean theorems over executable models of str.splitlines / str.split / int(s,16) and of '
              'from_trace_codes_text (parse_render for all entry lists of the grammar, nothing_else, error theorems), '
              'of the name column and of the feed / parse_event_list gate on top of the pairing model '
              '(unknown_id_bare_hex, known_id_named, unknown_id_not_decoded, decoded_under_any_id); the Unicode '
              'classes are reflected from the interpreter and compared with it for every code point on each run.  '
              'TRANSLATION TIE: the source text of from_trace_codes_text is read (tools/gen_pyir_tc.py, pure ast) as a shape '
              '(lines by splitlines(), tokens by split(), key int(s[0], 16) first, value s[1]); source_is_expected_shape and '
              'from_trace_codes_text_ir_eq_model: that shape, interpreted, is parseCodes for every text.')
LEVEL_NOTE = ('Trusted: Lean kernel, reflection of the Unicode classes and handler-name sets, correspondence harness; '
              'CPython string primitives are modelled, not verified; the handlers called after the gate are outside C19.')
TECHNIQUE = 'Lean 4 proof over reflected tables + translation validation of from_trace_codes_text + differential correspondence'
