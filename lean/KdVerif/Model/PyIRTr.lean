import KdVerif.Model.Trace
/-
  The Python subset of the ten CONTEXT-TABLE HANDLERS of `pykdebugparser/trace_handlers/trace.py`
  (`handle_trace_data_newthread` … `handle_trace_string_threadname_prev`), of the `__str__` methods of their dataclasses
  and of the module-level `handlers` dict, as a deep embedding with a big-step interpreter — the companion of
  `Model/PyIR` (pairing, C04), `Model/PyIRCs` (callstacks, C15) and `Model/PyIRRd` (readers, C02/C03/C06) for the
  handlers that C05 / C07 / C08 / C14 rest on.

  `tools/gen_pyir_tr.py` translates the source text into a `Program` of this IR (`Gen/PyIRTr.lean`) on every run;
  `Props/C05` proves that the translated handlers, run by this interpreter on ANY tables and any non-empty window of
  four-word records, ARE `Trace.hDataNewthread` … `Trace.hStringThreadname` of the hand model (same trace text, same
  `ktraces`, same tables afterwards, same exception, same "returned None"), and that the whole `Trace.run` with the ten
  handlers replaced by the interpreted ones is `Trace.run`.

  Values: `None`, ints (all ints of this code are non-negative: record words, ids, masks), bytes, str, bool, a `Kevent`,
  a list of `Kevent`s (`events`, `lookup_events`), the `values` tuple of a record, a constructed dataclass object (class
  name, `ktraces`, the other fields in declaration order) and the object `last_data_*.get(tid)` returns, of which — as in
  the model's `Tabs` — only `.pid` is kept.  `bytes.decode()` is the model's parameter `env.dec`;
  `.decode(errors='backslashreplace')` is modelled on valid text only, exactly as `Trace.hStringGlobal` does (invalid
  text: `.unmodelled`).  Where Python raises, the interpreter returns that exception (`events[0]` of an empty list and a
  missing word: IndexError; a missing attribute: AttributeError; a missing constructor argument: TypeError); anything the
  subset does not cover is `.error .unmodelled`, never a guess.  Core Lean only.
-/
namespace KdVerif.PyIRTr
open KdVerif.Trace

/-- the six tables of the parser the handlers read and write -/
inductive Table
  | threadsPids | pidsNames | tidsNames | globalStrings | lastDataNewthread | lastDataExec
  deriving DecidableEq, Repr

inductive Expr
  | none
  | int (n : Nat)
  | bytes (b : Bytes)
  | str (s : String)
  | var (i : Nat)                           -- a local
  | events                                  -- the parameter `events`
  | index (e : Expr) (k : Nat)              -- `e[k]` (`events[0]`, `x.values[k]`)
  | attr (e : Expr) (name : String)         -- `e.<name>`: of a record, of a constructed object, `.pid` of a pending object
  | band (a b : Expr)                       -- `a & b` (`DgbFuncQual.X.value` arrives as the reflected int)
  | dropFrom (e : Expr) (k : Nat)           -- `e[k:]`
  | cat (a b : Expr)                        -- `a + b` on bytes (`v += b` is `v = v + b`)
  | joinData (own : Expr)                   -- `b''.join([x.data for x in events if x.eventid == own])`
  | replaceNul (e : Expr)                   -- `e.replace(b'\x00', b'')`
  | decode (e : Expr)                       -- `e.decode()`
  | decodeBsr (e : Expr)                    -- `e.decode(errors='backslashreplace')`
  | isNotNone (e : Expr)                    -- `e is not None`
  | ne (a b : Expr)                         -- `a != b` on ints
  | tget (t : Table) (k : Expr)             -- `parser.<t>.get(k)`
  | tgetD (t : Table) (k d : Expr)          -- `parser.<t>.get(k, d)`
  | unsupported (src : String)
  deriving DecidableEq, Repr

/-- statement lists are right-nested `seq`; a condition is any expression, taken by its truth value; `if not c` has its
    branches swapped (never `ite (not c)`) -/
inductive Stmt
  | skip
  | seq (a b : Stmt)
  | assign (v : Nat) (e : Expr)                                   -- `v = e`
  | newList (v : Nat)                                             -- `v = []`
  | append (v : Nat) (e : Expr)                                   -- `v.append(e)`
  | construct (v : Nat) (cls : String) (ktraces : Expr) (args : List Expr)   -- `v = Cls(ktraces, args…)`
  | setField (v : Nat) (name : String) (e : Expr)                 -- `v.<name> = e`
  | store (t : Table) (k v : Expr)                                -- `parser.<t>[k] = v`
  | ite (c : Expr) (t e : Stmt)
  | forEvents (v : Nat) (body : Stmt)                             -- `for v in events: body`
  | brk
  | cont
  | ret (e : Expr)
  | unsupported (src : String)
  deriving DecidableEq, Repr

/-- values a dataclass field of this module holds -/
inductive FVal
  | none
  | int (n : Nat)
  | str (s : String)
  deriving DecidableEq, Repr

/-- pieces of an f-string: literal text, `{self.<f>}` -/
inductive Piece
  | lit (s : String)
  | fld (name : String)
  | unsupported (src : String)
  deriving DecidableEq, Repr

/-- the condition of `if …: rep += f'…'` in a `__str__` -/
inductive SCond
  | isNotNone (name : String)               -- `self.<name> is not None`
  | truthy (name : String)                  -- `self.<name>`
  | unsupported (src : String)
  deriving DecidableEq, Repr

/-- `__str__`: `return f'…'`, or `rep = f'…'`, conditional `rep += f'…'`s, `return rep` -/
structure StrDef where
  base : List Piece
  appends : List (SCond × List Piece)
  deriving DecidableEq, Repr

/-- a `@dataclass`: its fields after `ktraces` with their default values, its `__str__` -/
structure ClassDef where
  name : String
  fields : List (String × Option FVal)
  str : StrDef
  deriving DecidableEq, Repr

/-- a module-level `def name(parser, events):` -/
structure FunDef where
  name : String
  body : Stmt
  deriving DecidableEq, Repr

structure Program where
  classes : List ClassDef
  funs : List FunDef
  handlers : List (String × String)         -- the `handlers` dict display: key -> function name, in source order
  deriving DecidableEq, Repr

/-! ### values -/

structure Obj where
  cls : String
  ktraces : List Kevent
  fields : List FVal
  deriving Repr

inductive Val
  | none
  | int (n : Nat)
  | bytes (b : Bytes)
  | str (s : String)
  | bool (b : Bool)
  | kevent (e : Kevent)
  | kevents (l : List Kevent)
  | words (l : List Nat)                    -- the `values` tuple of a record
  | obj (o : Obj)
  | pending (pid : Nat)                     -- what `last_data_newthread` / `last_data_exec` hold: the object's `.pid`
  deriving Repr

def FVal.toVal : FVal → Val
  | .none => .none
  | .int n => .int n
  | .str s => .str s

def Val.toFVal : Val → Option FVal
  | .none => some .none
  | .int n => some (.int n)
  | .str s => some (.str s)
  | _ => Option.none

abbrev Locals := Nat → Option Val
def Locals.empty : Locals := fun _ => Option.none
def Locals.set (l : Locals) (i : Nat) (v : Val) : Locals := fun j => if j = i then some v else l j

structure St where
  loc : Locals
  tabs : Tabs

def findClass (P : Program) (cls : String) : Option ClassDef := P.classes.find? (·.name == cls)

/-- position of a field among the fields after `ktraces` -/
def fieldIdx (c : ClassDef) (name : String) : Option Nat := (c.fields.map (·.1)).idxOf? name

/-- `o.<name>` of a constructed object -/
def objAttr (P : Program) (o : Obj) (name : String) : Except PyErr Val :=
  if name == "ktraces" then .ok (.kevents o.ktraces) else
  match findClass P o.cls with
  | Option.none => .error .unmodelled
  | some c =>
    match fieldIdx c name with
    | Option.none => .error .attributeError
    | some i => match o.fields[i]? with | some v => .ok v.toVal | Option.none => .error .unmodelled

/-- `e.<name>` of a `Kevent` namedtuple -/
def keventAttr (e : Kevent) (name : String) : Except PyErr Val :=
  if name == "timestamp" then .ok (.int e.timestamp)
  else if name == "data" then .ok (.bytes e.data)
  else if name == "values" then .ok (.words e.values)
  else if name == "tid" then .ok (.int e.tid)
  else if name == "debugid" then .ok (.int e.debugid)
  else if name == "eventid" then .ok (.int e.eventid)
  else if name == "func_qualifier" then .ok (.int e.qual)
  else .error .attributeError

def optNat : Option Nat → Val | some n => .int n | Option.none => .none
def optStr : Option String → Val | some s => .str s | Option.none => .none
def optPending : Option Nat → Val | some p => .pending p | Option.none => .none

/-- `parser.<t>.get(k)` -/
def tableGet (t : Tabs) : Table → Nat → Val
  | .threadsPids, k => optNat (t.threadsPids.get k)
  | .pidsNames, k => optStr (t.pidsNames.get k)
  | .tidsNames, k => optStr (t.tidsNames.get k)
  | .globalStrings, k => optStr (t.globalStrings.get k)
  | .lastDataNewthread, k => optPending (t.pendingNewthread.get k)
  | .lastDataExec, k => optPending (t.pendingExec.get k)

/-- the truth value of a condition -/
def truthy : Val → Except PyErr Bool
  | .none => .ok false
  | .bool b => .ok b
  | .int n => .ok (n != 0)
  | .str s => .ok (s != "")
  | .bytes b => .ok (!b.isEmpty)
  | _ => .error .unmodelled

def eval (P : Program) (env : Env) (events : List Kevent) (st : St) : Expr → Except PyErr Val
  | .none => .ok .none
  | .int n => .ok (.int n)
  | .bytes b => .ok (.bytes b)
  | .str s => .ok (.str s)
  | .var i => match st.loc i with | some v => .ok v | Option.none => .error .unmodelled
  | .events => .ok (.kevents events)
  | .index e k =>
    match eval P env events st e with
    | .error x => .error x
    | .ok (.kevents l) => (match l[k]? with | some x => .ok (.kevent x) | Option.none => .error .indexError)
    | .ok (.words l) => (match l[k]? with | some x => .ok (.int x) | Option.none => .error .indexError)
    | .ok _ => .error .unmodelled
  | .attr e name =>
    match eval P env events st e with
    | .error x => .error x
    | .ok (.kevent x) => keventAttr x name
    | .ok (.obj o) => objAttr P o name
    | .ok (.pending p) => if name == "pid" then .ok (.int p) else .error .unmodelled
    | .ok .none => .error .attributeError
    | .ok _ => .error .unmodelled
  | .band a b =>
    match eval P env events st a with
    | .error x => .error x
    | .ok av =>
      match eval P env events st b with
      | .error x => .error x
      | .ok bv => match av, bv with | .int x, .int y => .ok (.int (x &&& y)) | _, _ => .error .unmodelled
  | .dropFrom e k =>
    match eval P env events st e with
    | .error x => .error x
    | .ok (.bytes b) => .ok (.bytes (b.drop k))
    | .ok _ => .error .unmodelled
  | .cat a b =>
    match eval P env events st a with
    | .error x => .error x
    | .ok av =>
      match eval P env events st b with
      | .error x => .error x
      | .ok bv => match av, bv with | .bytes x, .bytes y => .ok (.bytes (x ++ y)) | _, _ => .error .unmodelled
  | .joinData own =>
    match eval P env events st own with
    | .error x => .error x
    | .ok (.int o) => .ok (.bytes ((events.filter fun x => x.eventid == o).map (·.data)).flatten)
    | .ok _ => .error .unmodelled
  | .replaceNul e =>
    match eval P env events st e with
    | .error x => .error x
    | .ok (.bytes b) => .ok (.bytes (stripNul b))
    | .ok _ => .error .unmodelled
  | .decode e =>
    match eval P env events st e with
    | .error x => .error x
    | .ok (.bytes b) => (match env.dec b with | .ok s => .ok (.str s) | .error x => .error x)
    | .ok _ => .error .unmodelled
  | .decodeBsr e =>
    match eval P env events st e with
    | .error x => .error x
    | .ok (.bytes b) => (match env.dec b with | .ok s => .ok (.str s) | .error _ => .error .unmodelled)
    | .ok _ => .error .unmodelled
  | .isNotNone e =>
    match eval P env events st e with
    | .error x => .error x
    | .ok .none => .ok (.bool false)
    | .ok _ => .ok (.bool true)
  | .ne a b =>
    match eval P env events st a with
    | .error x => .error x
    | .ok av =>
      match eval P env events st b with
      | .error x => .error x
      | .ok bv => match av, bv with | .int x, .int y => .ok (.bool (x != y)) | _, _ => .error .unmodelled
  | .tget t k =>
    match eval P env events st k with
    | .error x => .error x
    | .ok (.int n) => .ok (tableGet st.tabs t n)
    | .ok _ => .error .unmodelled
  | .tgetD t k d =>
    match eval P env events st k with
    | .error x => .error x
    | .ok kv =>
      match eval P env events st d with
      | .error x => .error x
      | .ok dv =>
        match kv with
        | .int n => (match tableGet st.tabs t n with | .none => .ok dv | v => .ok v)
        | _ => .error .unmodelled
  | .unsupported _ => .error .unmodelled

/-- the truth value of a condition expression -/
def evalCond (P : Program) (env : Env) (events : List Kevent) (st : St) (c : Expr) : Except PyErr Bool :=
  match eval P env events st c with
  | .error x => .error x
  | .ok v => truthy v

/-- constructor arguments, left to right -/
def evalArgs (P : Program) (env : Env) (events : List Kevent) (st : St) : List Expr → Except PyErr (List FVal)
  | [] => .ok []
  | a :: as =>
    match eval P env events st a with
    | .error x => .error x
    | .ok v =>
      match v.toFVal with
      | Option.none => .error .unmodelled
      | some f => match evalArgs P env events st as with | .ok fs => .ok (f :: fs) | .error x => .error x

/-- the defaults of the fields the call did not give (a field without default: TypeError) -/
def defaultsOf : List (String × Option FVal) → Except PyErr (List FVal)
  | [] => .ok []
  | (_, some d) :: r => (match defaultsOf r with | .ok ds => .ok (d :: ds) | .error x => .error x)
  | (_, Option.none) :: _ => .error .typeError

/-- `Cls(ktraces, args…)` of a dataclass -/
def mkObj (P : Program) (cls : String) (ktraces : List Kevent) (args : List FVal) : Except PyErr Obj :=
  match findClass P cls with
  | Option.none => .error .unmodelled
  | some c =>
    if c.fields.length < args.length then .error .typeError else
    match defaultsOf (c.fields.drop args.length) with
    | .error x => .error x
    | .ok ds => .ok { cls := cls, ktraces := ktraces, fields := args ++ ds }

/-- `parser.<t>[k] = v` -/
def tableSet (P : Program) (t : Tabs) : Table → Nat → Val → Except PyErr Tabs
  | .threadsPids, k, .int v => .ok { t with threadsPids := t.threadsPids.set k v }
  | .pidsNames, k, .str v => .ok { t with pidsNames := t.pidsNames.set k v }
  | .tidsNames, k, .str v => .ok { t with tidsNames := t.tidsNames.set k v }
  | .globalStrings, k, .str v => .ok { t with globalStrings := t.globalStrings.set k v }
  | .lastDataNewthread, k, .obj o =>
    (match objAttr P o "pid" with
     | .ok (.int p) => .ok { t with pendingNewthread := t.pendingNewthread.set k p }
     | _ => .error .unmodelled)
  | .lastDataExec, k, .obj o =>
    (match objAttr P o "pid" with
     | .ok (.int p) => .ok { t with pendingExec := t.pendingExec.set k p }
     | _ => .error .unmodelled)
  | _, _, _ => .error .unmodelled

inductive Signal
  | normal
  | brk
  | cont
  | ret (v : Val)
  | err (e : PyErr)

/-- `for v in <records>: body` -/
def forLoop (body : St → Signal × St) (v : Nat) : List Kevent → St → Signal × St
  | [], st => (.normal, st)
  | e :: es, st =>
    match body { st with loc := st.loc.set v (.kevent e) } with
    | (.normal, st') => forLoop body v es st'
    | (.cont, st') => forLoop body v es st'
    | (.brk, st') => (.normal, st')
    | r => r

def exec (P : Program) (env : Env) (events : List Kevent) : Stmt → St → Signal × St
  | .skip, st => (.normal, st)
  | .seq a b, st =>
    match exec P env events a st with
    | (.normal, st') => exec P env events b st'
    | r => r
  | .assign v e, st =>
    match eval P env events st e with
    | .error x => (.err x, st)
    | .ok x => (.normal, { st with loc := st.loc.set v x })
  | .newList v, st => (.normal, { st with loc := st.loc.set v (.kevents []) })
  | .append v e, st =>
    match eval P env events st e with
    | .error x => (.err x, st)
    | .ok (.kevent x) =>
      (match st.loc v with
       | some (.kevents l) => (.normal, { st with loc := st.loc.set v (.kevents (l ++ [x])) })
       | _ => (.err .unmodelled, st))
    | .ok _ => (.err .unmodelled, st)
  | .construct v cls k args, st =>
    match eval P env events st k with
    | .error x => (.err x, st)
    | .ok (.kevents l) =>
      (match evalArgs P env events st args with
       | .error x => (.err x, st)
       | .ok fs =>
         match mkObj P cls l fs with
         | .error x => (.err x, st)
         | .ok o => (.normal, { st with loc := st.loc.set v (.obj o) }))
    | .ok _ => (.err .unmodelled, st)
  | .setField v name e, st =>
    match eval P env events st e with
    | .error x => (.err x, st)
    | .ok x =>
      match st.loc v, x.toFVal with
      | some (.obj o), some f =>
        (match (findClass P o.cls).bind (fieldIdx · name) with
         | some i =>
           if i < o.fields.length then (.normal, { st with loc := st.loc.set v (.obj { o with fields := o.fields.set i f }) })
           else (.err .unmodelled, st)
         | Option.none => (.err .unmodelled, st))
      | _, _ => (.err .unmodelled, st)
  | .store t k v, st =>
    -- Python evaluates the right-hand side first, then the subscript of the target
    match eval P env events st v with
    | .error x => (.err x, st)
    | .ok vv =>
      match eval P env events st k with
      | .error x => (.err x, st)
      | .ok kv =>
        match kv with
        | .int n => (match tableSet P st.tabs t n vv with | .ok t' => (.normal, { st with tabs := t' }) | .error x => (.err x, st))
        | _ => (.err .unmodelled, st)
  | .ite c t e, st =>
    match evalCond P env events st c with
    | .error x => (.err x, st)
    | .ok true => exec P env events t st
    | .ok false => exec P env events e st
  | .forEvents v body, st => forLoop (fun s => exec P env events body s) v events st
  | .brk, st => (.brk, st)
  | .cont, st => (.cont, st)
  | .ret e, st =>
    match eval P env events st e with
    | .error x => (.err x, st)
    | .ok v => (.ret v, st)
  | .unsupported _, st => (.err .unmodelled, st)

/-! ### `__str__` -/

/-- `format(v, '')` of a field value -/
def FVal.fmt : FVal → String
  | .none => "None"
  | .int n => toString n
  | .str s => s

def fieldOf (c : ClassDef) (o : Obj) (name : String) : Except PyErr FVal :=
  match fieldIdx c name with
  | Option.none => .error .attributeError
  | some i => match o.fields[i]? with | some v => .ok v | Option.none => .error .unmodelled

def renderPieces (c : ClassDef) (o : Obj) : List Piece → Except PyErr String
  | [] => .ok ""
  | .lit s :: r => (match renderPieces c o r with | .ok t => .ok (s ++ t) | .error x => .error x)
  | .fld n :: r =>
    (match fieldOf c o n with
     | .error x => .error x
     | .ok v => match renderPieces c o r with | .ok t => .ok (v.fmt ++ t) | .error x => .error x)
  | .unsupported _ :: _ => .error .unmodelled

def evalSCond (c : ClassDef) (o : Obj) : SCond → Except PyErr Bool
  | .isNotNone n => (match fieldOf c o n with | .ok .none => .ok false | .ok _ => .ok true | .error x => .error x)
  | .truthy n =>
    (match fieldOf c o n with
     | .ok .none => .ok false
     | .ok (.int k) => .ok (k != 0)
     | .ok (.str s) => .ok (s != "")
     | .error x => .error x)
  | .unsupported _ => .error .unmodelled

def renderAppends (c : ClassDef) (o : Obj) : List (SCond × List Piece) → String → Except PyErr String
  | [], acc => .ok acc
  | (cond, ps) :: r, acc =>
    match evalSCond c o cond with
    | .error x => .error x
    | .ok false => renderAppends c o r acc
    | .ok true => match renderPieces c o ps with | .ok t => renderAppends c o r (acc ++ t) | .error x => .error x

/-- `str(o)` through the translated `__str__` of its class -/
def renderObj (P : Program) (o : Obj) : Except PyErr String :=
  match findClass P o.cls with
  | Option.none => .error .unmodelled
  | some c =>
    match renderPieces c o c.str.base with
    | .error x => .error x
    | .ok s => renderAppends c o c.str.appends s

/-! ### running a handler -/

/-- what the caller (`parse_event_list`, `feed`) gets from the end of a body: the returned object as (`ktraces`, `str()`),
    `none` when it returns None (or falls off the end), the tables afterwards -/
def finish (P : Program) (key : String) : Signal × St → HRes
  | (.err x, _) => .error x
  | (.normal, st) => .ok (Option.none, st.tabs)
  | (.ret .none, st) => .ok (Option.none, st.tabs)
  | (.ret (.obj o), st) => .ok (some { name := key, events := o.ktraces, text := renderObj P o }, st.tabs)
  | (.ret _, _) => .error .unmodelled
  | (.brk, _) => .error .unmodelled
  | (.cont, _) => .error .unmodelled

/-- `f(parser, events)` for a translated function body, as the model's `HRes` -/
def runBody (P : Program) (env : Env) (key : String) (body : Stmt) (t : Tabs) (events : List Kevent) : HRes :=
  finish P key (exec P env events body { loc := Locals.empty, tabs := t })

/-- `handlers[key](parser, events)`; `none`: the dict has no such key (or names a function that is not there) -/
def runHandler? (P : Program) (env : Env) (key : String) (t : Tabs) (events : List Kevent) : Option HRes :=
  match P.handlers.lookup key with
  | Option.none => Option.none
  | some f =>
    match P.funs.find? (·.name == f) with
    | Option.none => Option.none
    | some d => some (runBody P env key d.body t events)

/-- `handlers[key](parser, events)` (`parse_event_list` returns None for a name without handler) -/
def runHandler (P : Program) (env : Env) (key : String) (t : Tabs) (events : List Kevent) : HRes :=
  (runHandler? P env key t events).getD (.ok (Option.none, t))

/-- every record has its four argument words — what `from_kd_buf` produces (`args = struct.unpack('<QQQQ', args_buf)`) -/
def Words4 (events : List Kevent) : Prop := ∀ x ∈ events, x.values.length = 4

instance (events : List Kevent) : Decidable (Words4 events) := by unfold Words4; infer_instance

/-! ### the whole `TracesParser` with the ten `trace.py` handlers taken from a translated program

  Copies of `Trace.handleWith` … `Trace.run` in which the names of `traceDomainNames` go to the interpreter; everything
  else is the hand model.  `C05.run_ir_eq_model` proves `runVia Gen.PyIRTr.prog = Trace.run`. -/

def handleVia (P : Program) (nested : Tabs → List Kevent → Except PyErr (Option TraceOut × Tabs))
    (env : Env) (t : Tabs) (name : String) (events : List Kevent) : HRes :=
  if traceDomainNames.contains name then runHandler P env name t events else handleWith nested env t name events

def parseEventListVia (P : Program) (nested : Tabs → List Kevent → Except PyErr (Option TraceOut × Tabs))
    (env : Env) (t : Tabs) (events : List Kevent) : HRes :=
  match events with
  | [] => .error .indexError
  | e :: _ =>
    match env.codes e.eventid with
    | Option.none => .ok (Option.none, t)
    | some name => if isHandled env name then handleVia P nested env t name events else .ok (Option.none, t)

def parseFuelVia (P : Program) : Nat → Env → Tabs → List Kevent → HRes
  | 0, _, _, _ => .error .unmodelled
  | fuel + 1, env, t, events => parseEventListVia P (parseFuelVia P fuel env) env t events

def parseEventListViaIR (P : Program) (env : Env) (t : Tabs) (events : List Kevent) : HRes :=
  parseFuelVia P (events.length + 1) env t events

def feedVia (P : Program) (env : Env) (s : PState) (e : Kevent) : Except PyErr (Option TraceOut × PState) :=
  let (p', o) := Pairing.step env.domOf s.pairing e
  match o with
  | Option.none => .ok (Option.none, { s with pairing := p' })
  | some w =>
    match parseEventListViaIR P env s.tabs w with
    | .error x => .error x
    | .ok (r, t') => .ok (r, { pairing := p', tabs := t' })

def runVia (P : Program) (env : Env) : PState → List Kevent → List TraceOut × Option PyErr × PState
  | s, [] => ([], Option.none, s)
  | s, e :: es =>
    match feedVia P env s e with
    | .error err => ([], some err, s)
    | .ok (r, s') =>
      let (outs, err, sf) := runVia P env s' es
      (match r with | some t => t :: outs | Option.none => outs, err, sf)

/-! ### unsupported nodes -/

def Expr.hasUnsupported : Expr → Bool
  | .unsupported _ => true
  | .index e _ | .attr e _ | .dropFrom e _ | .joinData e | .replaceNul e | .decode e | .decodeBsr e | .isNotNone e
  | .tget _ e => e.hasUnsupported
  | .band a b | .cat a b | .ne a b | .tgetD _ a b => a.hasUnsupported || b.hasUnsupported
  | _ => false

def Stmt.hasUnsupported : Stmt → Bool
  | .unsupported _ => true
  | .seq a b => a.hasUnsupported || b.hasUnsupported
  | .assign _ e | .append _ e | .setField _ _ e | .ret e => e.hasUnsupported
  | .construct _ _ k args => k.hasUnsupported || args.any (·.hasUnsupported)
  | .store _ k v => k.hasUnsupported || v.hasUnsupported
  | .ite c t e => c.hasUnsupported || t.hasUnsupported || e.hasUnsupported
  | .forEvents _ b => b.hasUnsupported
  | _ => false

def StrDef.hasUnsupported (s : StrDef) : Bool :=
  let bad : List Piece → Bool := fun ps => ps.any fun p => match p with | .unsupported _ => true | _ => false
  bad s.base || s.appends.any fun a => (match a.1 with | .unsupported _ => true | _ => false) || bad a.2

def Program.hasUnsupported (p : Program) : Bool :=
  p.funs.any (·.body.hasUnsupported) || p.classes.any (·.str.hasUnsupported)

end KdVerif.PyIRTr
