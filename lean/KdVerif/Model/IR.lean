import KdVerif.Model.Kevent
import KdVerif.Model.Enum
/-
  L5: the decoder IR.  `tools/gen_decoders.py` symbolically evaluates every handler function
  (`handle_*`) and every dataclass `__str__` of the repository into an `Expr`; `eval` gives the
  IR its meaning.  The translator is checked, not trusted blindly: the correspondence section
  `decoders` renders every generated decoder in Lean and in Python on the same windows.

  A handler becomes `fields : List Expr` (the dataclass constructor arguments after `ktraces`, with
  defaults filled in); `__str__` becomes one string-valued `Expr` over `.field i`.
-/
namespace KdVerif.IR

/-- Python values that decoders handle. -/
inductive Val
  | int (i : Int)
  | str (s : String)
  | bool (b : Bool)
  | none
  | member (cls : String) (m : EnumMember)     -- an enum member (class name kept for `str()`)
  | members (l : List EnumMember)              -- list of enum members
  | ints (l : List Int)
  deriving DecidableEq, Repr, Inhabited

/-- Host-interpreter tables (`errno.errorcode`, `signal.Signals`, `socket.AddressFamily`,
    `socket.SocketKind`, `socket.SOL_SOCKET`): a parameter, so that host (in)dependence is a theorem. -/
structure Host where
  errno : Nat → Option String
  signals : Nat → Option String
  addressFamily : Nat → Option String
  socketKind : Nat → Option String
  solSocket : Nat

inductive HostTable | errno | signals | addressFamily | socketKind
  deriving DecidableEq, Repr

def Host.table (h : Host) : HostTable → Nat → Option String
  | .errno => h.errno | .signals => h.signals | .addressFamily => h.addressFamily
  | .socketKind => h.socketKind

/-- A reassembled lookup of the window (`Vnode`): path text and vnode id. -/
structure Lookup where
  path : String
  vnodeId : Nat
  deriving DecidableEq, Repr, Inhabited

/-- What a decoder may read.  `lookups` = `parse_vnodes(events)`; `restFirst` = the first lookup of
    `[e for e in events if e not in first.ktraces]` (differs from `lookups[1]` only when records of the
    second lookup are value-equal to records of the first, finding K5). -/
structure Window where
  startArgs : List Nat
  endArgs : List Nat
  startTid : Nat
  startData : Bytes := []
  lookups : List Lookup := []
  restFirst : Option Lookup := none
  globalStrings : Nat → Option String := fun _ => none
  threadsPids : Nat → Option Nat := fun _ => none
  tidsNames : Nat → Option String := fun _ => none

inductive LookupSel
  | first            -- parse_vnode(events)
  | rest             -- parse_vnode([e for e in events if e not in first.ktraces])
  | idx (i : Int)    -- parse_vnodes(events)[i]   (IndexError when absent)
  deriving DecidableEq, Repr

inductive Helper
  | openFlags | statFlags
  deriving DecidableEq, Repr

inductive CmpOp | eq | ne | lt | le | gt | ge
  deriving DecidableEq, Repr

inductive Expr
  -- window reads
  | startArg (k : Nat) | endArg (k : Nat) | startTid
  | field (i : Nat)                               -- in `__str__`: self.<i-th field>
  -- constants
  | int (i : Int) | strLit (cs : List Nat) | bool (b : Bool) | none
  | memberConst (enum : Nat) (idx : Nat)          -- E.MEMBER (index into `members`)
  -- integer conversions
  | cInt64 (e : Expr) | cInt32 (e : Expr)
  | band (a b : Expr) | bor (a b : Expr) | shr (a b : Expr) | shl (a b : Expr)
  -- booleans
  | toBool (e : Expr) | notE (e : Expr) | cmp (op : CmpOp) (a b : Expr)
  | isNone (e : Expr) | andE (a b : Expr) | orE (a b : Expr)
  | ite (c t e : Expr)
  | inList (x l : Expr)
  -- enums
  | enumOf (enum : Nat) (e : Expr)                -- E(x), ValueError outside the enum
  | enumNameOr (enum : Nat) (e : Expr)            -- try: E(x).name except ValueError: x
  | flagsOf (enum : Nat) (e : Expr)               -- [m for m in E if m.value & x]
  | singleton (e : Expr)                          -- [member]
  | nilList                                       -- []
  | startArgsList                                 -- list(events[0].values)
  | helper (h : Helper) (e : Expr)
  | hostEnum (t : HostTable) (e : Expr)           -- Signals(x) / AddressFamily(x) / SocketKind(x)
  | hostHas (t : HostTable) (e : Expr)            -- x in errno.errorcode
  | hostGet (t : HostTable) (e : Expr)            -- errno.errorcode[x]
  | hostSolSocket
  -- context
  | lookupCount
  | lookupPath (sel : LookupSel) | lookupVnode (sel : LookupSel)
  | lookupPathOrEmpty                              -- parse_vnode(events).path : '' when no lookup
  | lookupRestPathOrEmpty
  | lookupVnodeOrZero
  | globalStr (e : Expr)                          -- parser.global_strings[x]   (KeyError)
  | globalStrGet (e d : Expr)                     -- parser.global_strings.get(x, d)
  | threadsPidsGet (e : Expr)                     -- parser.threads_pids.get(x)  (None default)
  | tidsNamesGet (e d : Expr)
  | uuidOfData                                    -- UUID(bytes=events[0].data[:16])
  | constDict (dict : Nat) (e : Expr)             -- MODULE_DICT[x]  (KeyError)
  -- strings
  | cat (a b : Expr) | strOf (e : Expr) | hexOf (e : Expr) | nameOf (e : Expr)
  | joinNames (sep : List Nat) (e : Expr) | joinHex (sep : List Nat) (e : Expr)
  | lower (e : Expr) | chrOf (e : Expr)
  | lenOf (e : Expr)
  | unsupported (src : List Nat)
  deriving DecidableEq, Repr, Inhabited

def litString (cs : List Nat) : String := String.ofList (cs.map Char.ofNat)

/-- Tables the generated decoders refer to by index. -/
structure Tables where
  enums : List EnumDef
  dicts : List (List (Nat × String))
  openAcc : List EnumMember        -- serialize_open_flags: access-mode candidates, in order
  openDefault : EnumMember         -- the for/else fallback (O_RDONLY)
  openShown : List EnumMember      -- the flags walked afterwards, in order
  statMembers : List EnumMember    -- members serialize_stat_flags iterates
  sIFMT : Nat

def wrap64 (i : Int) : Int :=
  let m := i % (2 ^ 64 : Int)
  if m < (2 ^ 63 : Int) then m else m - (2 ^ 64 : Int)

def wrap32 (i : Int) : Int :=
  let m := i % (2 ^ 32 : Int)
  if m < (2 ^ 31 : Int) then m else m - (2 ^ 32 : Int)

/-- Python `hex(i)`. -/
def pyHexInt (i : Int) : String :=
  if i < 0 then "-" ++ pyHex i.natAbs else pyHex i.toNat

/-- Python `str(v)` / f-string `{v}`. -/
def pyStr : Val → String
  | .int i => toString i
  | .str s => s
  | .bool true => "True"
  | .bool false => "False"
  | .none => "None"
  | .member cls m => cls ++ "." ++ m.name
  | .members _ => "[…]"
  | .ints _ => "[…]"

/-- Python truthiness. -/
def truthy : Val → Bool
  | .int i => i ≠ 0
  | .str s => s ≠ ""
  | .bool b => b
  | .none => false
  | .member _ _ => true
  | .members l => !l.isEmpty
  | .ints l => !l.isEmpty

def serializeOpenFlags (t : Tables) (x : Nat) : List EnumMember :=
  let acc := match t.openAcc.find? (fun m => m.value.toNat &&& x ≠ 0) with
    | some m => m
    | none => t.openDefault
  acc :: t.openShown.filter (fun m => m.value.toNat &&& x ≠ 0)

def serializeStatFlags (t : Tables) (x : Nat) : List EnumMember :=
  t.statMembers.filter fun m =>
    if m.value.toNat &&& t.sIFMT ≠ 0 then x &&& t.sIFMT = m.value.toNat
    else m.value.toNat &&& x ≠ 0

def selectLookup (w : Window) : LookupSel → Except PyErr Lookup
  | .first => match w.lookups with
    | l :: _ => .ok l
    | [] => .ok ⟨"", 0⟩
  | .rest => match w.restFirst with
    | some l => .ok l
    | none => .ok ⟨"", 0⟩
  | .idx i =>
    let n : Int := w.lookups.length
    let j := if i < 0 then i + n else i
    if 0 ≤ j ∧ j < n then
      match w.lookups[j.toNat]? with
      | some l => .ok l
      | none => .error .indexError
    else .error .indexError

def asNat (v : Val) : Except PyErr Int :=
  match v with
  | .int i => .ok i
  | .bool b => .ok (if b then 1 else 0)
  | _ => .error .typeError

def cmpInt (op : CmpOp) (a b : Int) : Bool :=
  match op with
  | .eq => a = b | .ne => a ≠ b | .lt => a < b | .le => a ≤ b | .gt => a > b | .ge => a ≥ b

def valEq : Val → Val → Bool
  | .int a, .int b => a = b
  | .int a, .bool b => a = (if b then 1 else 0)
  | .bool a, .int b => (if a then 1 else 0) = b
  | a, b => a = b

structure Ctx where
  host : Host
  tables : Tables
  win : Window
  fields : List Val := []

def bitAnd (a b : Int) : Except PyErr Int :=
  if 0 ≤ a ∧ 0 ≤ b then .ok ((a.toNat &&& b.toNat : Nat) : Int)
  else if 0 ≤ b then .ok (((a % (2 ^ 64 : Int)).toNat &&& b.toNat : Nat) : Int)   -- negative & mask < 2^64
  else .error .valueError

def eval (c : Ctx) : Expr → Except PyErr Val
  | .startArg k => match c.win.startArgs[k]? with
    | some v => .ok (.int v) | none => .error .indexError
  | .endArg k => match c.win.endArgs[k]? with
    | some v => .ok (.int v) | none => .error .indexError
  | .startTid => .ok (.int c.win.startTid)
  | .field i => match c.fields[i]? with
    | some v => .ok v | none => .error .attributeError
  | .int i => .ok (.int i)
  | .strLit cs => .ok (.str (litString cs))
  | .bool b => .ok (.bool b)
  | .none => .ok .none
  | .memberConst e i => match c.tables.enums[e]? with
    | some d => match d.members[i]? with
      | some m => .ok (.member d.name m) | none => .error .attributeError
    | none => .error .attributeError
  | .cInt64 e => do let v ← eval c e; let i ← asNat v; pure (.int (wrap64 i))
  | .cInt32 e => do let v ← eval c e; let i ← asNat v; pure (.int (wrap32 i))
  | .band a b => do
    let x ← asNat (← eval c a); let y ← asNat (← eval c b)
    let r ← bitAnd x y; pure (.int r)
  | .bor a b => do
    let x ← asNat (← eval c a); let y ← asNat (← eval c b)
    if 0 ≤ x ∧ 0 ≤ y then pure (.int ((x.toNat ||| y.toNat : Nat) : Int)) else .error .valueError
  | .shr a b => do
    let x ← asNat (← eval c a); let y ← asNat (← eval c b)
    if y < 0 then .error .valueError else pure (.int (x / (2 ^ y.toNat : Int)))
  | .shl a b => do
    let x ← asNat (← eval c a); let y ← asNat (← eval c b)
    if y < 0 then .error .valueError else pure (.int (x * (2 ^ y.toNat : Int)))
  | .toBool e => do let v ← eval c e; pure (.bool (truthy v))
  | .notE e => do let v ← eval c e; pure (.bool (!truthy v))
  | .cmp op a b => do
    let x ← eval c a; let y ← eval c b
    match op, x, y with
    | .eq, x, y => pure (.bool (valEq x y))
    | .ne, x, y => pure (.bool (!valEq x y))
    | op, x, y => do let i ← asNat x; let j ← asNat y; pure (.bool (cmpInt op i j))
  | .isNone e => do let v ← eval c e; pure (.bool (v = .none))
  | .andE a b => do let x ← eval c a; if truthy x then eval c b else pure x
  | .orE a b => do let x ← eval c a; if truthy x then pure x else eval c b
  | .ite cnd t e => do let v ← eval c cnd; if truthy v then eval c t else eval c e
  | .inList x l => do
    let xv ← eval c x; let lv ← eval c l
    match xv, lv with
    | .member _ m, .members ms => pure (.bool (ms.contains m))
    | _, _ => .error .typeError
  | .enumOf e x => do
    let i ← asNat (← eval c x)
    match c.tables.enums[e]? with
    | some d => match d.ofValue i with
      | some m => pure (.member d.name m) | none => .error .valueError
    | none => .error .attributeError
  | .enumNameOr e x => do
    let v ← eval c x
    let i ← asNat v
    match c.tables.enums[e]? with
    | some d => match d.ofValue i with
      | some m => pure (.str m.name) | none => pure v
    | none => .error .attributeError
  | .flagsOf e x => do
    let i ← asNat (← eval c x)
    match c.tables.enums[e]? with
    | some d =>
      if 0 ≤ i then pure (.members (d.flagsOf i.toNat))
      else pure (.members (d.iter.filter fun m => decide (0 ≤ m.value) && decide (((i % (2 ^ 64 : Int)).toNat &&& m.value.toNat) ≠ 0)))
    | none => .error .attributeError
  | .nilList => .ok (.members [])
  | .startArgsList => .ok (.ints (c.win.startArgs.map Int.ofNat))
  | .singleton e => do
    match ← eval c e with
    | .member _ m => pure (.members [m])
    | _ => .error .typeError
  | .helper h x => do
    let i ← asNat (← eval c x)
    if i < 0 then .error .valueError else
    match h with
    | .openFlags => pure (.members (serializeOpenFlags c.tables i.toNat))
    | .statFlags => pure (.members (serializeStatFlags c.tables i.toNat))
  | .hostEnum t x => do
    let i ← asNat (← eval c x)
    if i < 0 then .error .valueError else
    match c.host.table t i.toNat with
    | some n => pure (.member "" ⟨n, i⟩) | none => .error .valueError
  | .hostHas t x => do
    let v ← eval c x
    match v with
    | .int i => pure (.bool (decide (0 ≤ i) && (c.host.table t i.toNat).isSome))
    | _ => pure (.bool false)
  | .hostGet t x => do
    let i ← asNat (← eval c x)
    if i < 0 then .error .keyError else
    match c.host.table t i.toNat with
    | some n => pure (.str n) | none => .error .keyError
  | .hostSolSocket => .ok (.int c.host.solSocket)
  | .lookupCount => .ok (.int c.win.lookups.length)
  | .lookupPath sel => do let l ← selectLookup c.win sel; pure (.str l.path)
  | .lookupVnode sel => do let l ← selectLookup c.win sel; pure (.int l.vnodeId)
  | .lookupPathOrEmpty => do let l ← selectLookup c.win .first; pure (.str l.path)
  | .lookupRestPathOrEmpty => do let l ← selectLookup c.win .rest; pure (.str l.path)
  | .lookupVnodeOrZero => do let l ← selectLookup c.win .first; pure (.int l.vnodeId)
  | .globalStr x => do
    let i ← asNat (← eval c x)
    if i < 0 then .error .keyError else
    match c.win.globalStrings i.toNat with
    | some s => pure (.str s) | none => .error .keyError
  | .globalStrGet x d => do
    let i ← asNat (← eval c x)
    let dv ← eval c d
    if i < 0 then pure dv else
    match c.win.globalStrings i.toNat with
    | some s => pure (.str s) | none => pure dv
  | .threadsPidsGet x => do
    let i ← asNat (← eval c x)
    if i < 0 then pure .none else
    match c.win.threadsPids i.toNat with
    | some p => pure (.int p) | none => pure .none
  | .tidsNamesGet x d => do
    let i ← asNat (← eval c x)
    let dv ← eval c d
    if i < 0 then pure dv else
    match c.win.tidsNames i.toNat with
    | some s => pure (.str s) | none => pure dv
  | .uuidOfData =>
    let d := c.win.startData
    .ok (.str (toHex (d.take 4) ++ "-" ++ toHex ((d.drop 4).take 2) ++ "-" ++ toHex ((d.drop 6).take 2) ++ "-"
      ++ toHex ((d.drop 8).take 2) ++ "-" ++ toHex ((d.drop 10).take 6)))
  | .constDict dct x => do
    let i ← asNat (← eval c x)
    match c.tables.dicts[dct]? with
    | some l => match l.lookup i.toNat with
      | some s => if 0 ≤ i then pure (.str s) else .error .keyError
      | none => .error .keyError
    | none => .error .attributeError
  | .cat a b => do
    match ← eval c a with
    | .str s =>
      match ← eval c b with
      | .str t => pure (.str (s ++ t))
      | _ => .error .typeError
    | _ => .error .typeError
  | .strOf e => do let v ← eval c e; pure (.str (pyStr v))
  | .hexOf e => do
    match ← eval c e with
    | .int i => pure (.str (pyHexInt i))
    | .bool b => pure (.str (if b then "0x1" else "0x0"))
    | _ => .error .typeError
  | .nameOf e => do
    match ← eval c e with
    | .member _ m => pure (.str m.name)
    | _ => .error .attributeError
  | .joinNames sep e => do
    match ← eval c e with
    | .members l => pure (.str ((litString sep).intercalate (l.map (·.name))))
    | _ => .error .typeError
  | .joinHex sep e => do
    match ← eval c e with
    | .ints l => pure (.str ((litString sep).intercalate (l.map pyHexInt)))
    | _ => .error .typeError
  | .lower e => do
    match ← eval c e with
    | .str s => pure (.str s.toLower)
    | _ => .error .attributeError
  | .chrOf e => do
    let i ← asNat (← eval c e)
    if 0 ≤ i ∧ i < 0x110000 then pure (.str (String.singleton (Char.ofNat i.toNat))) else .error .valueError
  | .lenOf e => do
    match ← eval c e with
    | .members l => pure (.int l.length)
    | .ints l => pure (.int l.length)
    | .str s => pure (.int s.length)
    | _ => .error .typeError
  | .unsupported _ => .error .typeError

/-- `name[_nocancel](p0, p1, …)tail` split of a `__str__` expression (over `.field i`); a parameter
    may be optional (`(", " ++ p) if cond else ""`).  Emitted by the translator, re-checked in the kernel
    (`Shape.agrees`). -/
structure Shape where
  head : Expr
  params : List (Option Expr × Expr)
  tail : Expr
  deriving Repr, Inhabited

/-- One generated decoder. -/
structure Decoder where
  key : Nat                 -- Nat key of the trace name (big-endian bytes with a leading 1)
  name : String             -- trace name, e.g. "BSC_read"
  twin : Option Nat := none -- for `X_nocancel`: index of the decoder registered as `X` in the same table
  kind : Nat                -- 0: BSD syscall (BSC_*), 1: Mach trap (MSC_*), 2: other (by name prefix)
  family : Nat              -- 0 bsd, 1 dyld, 2 fsystem, 3 mach, 4 perf, 5 trace, 6 turnstile
  func : String             -- handler function name
  cls : String              -- dataclass name
  noCancel : Bool           -- registered as partial(handler, no_cancel=True)
  supported : Bool          -- false: some part is `.unsupported` (hand-modelled elsewhere)
  fields : List Expr        -- constructor arguments (after ktraces), defaults filled in
  str : Expr                -- __str__
  shape : Option Shape := none
  deriving Repr, Inhabited

def evalFields (c : Ctx) : List Expr → Except PyErr (List Val)
  | [] => .ok []
  | e :: es => do let v ← eval c e; let vs ← evalFields c es; pure (v :: vs)

/-- `str(handler(parser, events))`: fields first (the handler call), then `__str__`. -/
def render (h : Host) (t : Tables) (d : Decoder) (w : Window) : Except PyErr String := do
  let fs ← evalFields { host := h, tables := t, win := w } d.fields
  match ← eval { host := h, tables := t, win := w, fields := fs } d.str with
  | .str s => pure s
  | _ => .error .typeError

end KdVerif.IR
