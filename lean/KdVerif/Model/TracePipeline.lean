import KdVerif.Model.Filters
import KdVerif.Model.Declared
import KdVerif.Model.Callstacks
import KdVerif.Gen.Consts
/-
  L6 (C13): `PyKdebugParser.traces` / `callstacks` / `kevents` as functions on an EXPLICIT object state — the
  four filter attributes, the two shared lookup tables, the two image lists — applied to a version-2 dump
  (thread map + event records).

  Statement by statement after pykdebugparser.py:
  * `traces`: a COPY of `filter_class` (`list(self.filter_class)`) receives the helper classes (`DBG_TRACE` when any
    class/subclass filter is set and 7 is not requested; `DBG_FSYSTEM` when moreover BSD — class 4, or a subclass whose
    high byte is 4 — is requested and 3 is not); `kevents(kdebug, copy)` (`Filters.keventsWith`: thread stage, class
    stage); a fresh `TracesParser` on the shared tables, which `set_thread_map` has just refilled (`Trace.runAnnot`
    keeps, with every yielded trace, the tables as they are at that moment); the process post-filter, which reads the
    shared tables when the trace is yielded; the two helper post-filters on `ktraces[0].eventid >> 24`.
  * `callstacks`: both image lists are cleared, then `CallstacksParser.feed_generator` over `traces`.
  The generators are lazy; the model describes a request whose result is consumed to the end (or to the exception).
  Core Lean only.
-/
namespace KdVerif.TracePipeline
open KdVerif.Trace KdVerif.Filters KdVerif.Declared

/-- A dump as the parser sees it: the thread map (version 2: of the header; version 3: of the thread-map chunk) and the
    event records (version 3: of all chunks, in file order). -/
structure Dump where
  threadMap : ThreadMap
  events : List Kevent
  deriving Inhabited

/-- The attributes of a `PyKdebugParser` object that requests read or write. -/
structure Obj where
  cfg : Cfg := {}                              -- filter_tid, filter_class, filter_subclass, filter_process
  threadsPids : Dict Nat := []                 -- self.threads_pids (shared with the container parser and the decoders)
  pidsNames : Dict String := []                -- self.pids_names
  images : Callstacks.Images := Callstacks.Images.empty   -- self.dyld_addresses, self.dyld_uuids
  deriving Inhabited

/-- `add_trace_class = has_filters and DBG_TRACE not in filter_class`. -/
def addTraceClass (cfg : Cfg) : Bool :=
  (!cfg.filterClass.isEmpty || !cfg.filterSubclass.isEmpty) && !cfg.filterClass.contains Gen.Consts.DBG_TRACE

/-- `has_bsd = DBG_BSD in filter_class or any(filter(lambda sc: sc >> 8 == DBG_BSD, self.filter_subclass))`. -/
def hasBsd (cfg : Cfg) : Bool :=
  cfg.filterClass.contains Gen.Consts.DBG_BSD || cfg.filterSubclass.any (fun sc => sc >>> 8 == Gen.Consts.DBG_BSD)

/-- `add_fs_class = has_filters and has_bsd and DBG_FSYSTEM not in filter_class`. -/
def addFsClass (cfg : Cfg) : Bool :=
  (!cfg.filterClass.isEmpty || !cfg.filterSubclass.isEmpty) && hasBsd cfg
    && !cfg.filterClass.contains Gen.Consts.DBG_FSYSTEM

/-- The local `filter_class` of `traces()`: the copy with the helper classes appended. -/
def effectiveClasses (cfg : Cfg) : List Nat :=
  let fc := cfg.filterClass                                           -- filter_class = list(self.filter_class)
  let fc := if addTraceClass cfg then fc ++ [Gen.Consts.DBG_TRACE] else fc
  let fc := if addFsClass cfg then fc ++ [Gen.Consts.DBG_FSYSTEM] else fc
  fc

/-- `t.ktraces[0].eventid >> 24`. -/
def _root_.KdVerif.Trace.TraceOut.cls (o : TraceOut) : Nat := (firstOf o.events).eventid >>> 24

/-- What the class-filter commutation compares of a trace: handler name, FIRST record (the event list itself loses the
    records of other classes), payload, and text + decoded dataclass fields — the text of thread-terminate excepted (it
    shows `threads_pids`, which sampler records of class DBG_PERF write: known finding K3b). -/
def _root_.KdVerif.Trace.TraceOut.viewC (o : TraceOut) :
    String × Kevent × Option (Except PyErr String × Option (String × List IR.Val)) × Extra :=
  (o.name, firstOf o.events, if o.name == "TRACE_DATA_THREAD_TERMINATE" then none else some (o.text, o.obj), o.extra)

/-- The code table is CLOSED under the event-level filter `P` (a predicate on event ids): whatever a fed window's
    handler reads inside the window is fed too.  True of the bundled table for class lists and BSD-subclass lists with
    the helper classes of `traces()`: kernel trace records are class 7 (always fed), VFS_LOOKUP is class 3 (fed with BSD),
    the nested records of the composite traces have the class of their window's code. -/
structure ClassClosed (env : Env) (P : Nat → Bool) : Prop where
  /-- every code of the kernel trace-string/data table is fed -/
  dom : ∀ eid, env.domOf eid = true → P eid = true
  /-- when a generated decoder that looks at lookups is fed, so are the lookups -/
  lookups : ∀ eid n d, P eid = true → env.codes eid = some n → handNames.contains n = false →
    findDecoder env n = some d → usesLookups d = true → ∀ eid', env.codes eid' = some "VFS_LOOKUP" → P eid' = true
  /-- all codes named VFS_LOOKUP are fed together -/
  vfs : ∀ eid, P eid = true → env.codes eid = some "VFS_LOOKUP" → ∀ eid', env.codes eid' = some "VFS_LOOKUP" → P eid' = true
  /-- the sampler's nested records -/
  perf : ∀ eid, P eid = true → env.codes eid = some "PERF_Event" → ∀ eid' n', env.codes eid' = some n' →
    (n' = "PERF_THD_Data" ∨ n' = "PERF_STK_UHdr" ∨ n' = "PERF_STK_UData") → P eid' = true
  /-- the page fault's nested records -/
  vmfault : ∀ eid, P eid = true → env.codes eid = some "MACH_vmfault" → ∀ eid', vmfaultRange eid' = true → P eid' = true
  /-- the launch window's image records -/
  launch : ∀ eid, P eid = true → env.codes eid = some "DBG_DYLD_TIMING_LAUNCH_EXECUTABLE" → ∀ eid' n',
    env.codes eid' = some n' → (n' = "DYLD_uuid_map_a" ∨ n' = "DYLD_uuid_shared_cache_a") → P eid' = true

/-- `_filter_process_callback(trace)` on the tables as they are when the trace is yielded. -/
def processMatches (fp : String) (t : Tabs) (o : TraceOut) : Bool :=
  let pid : Int := ((t.threadsPids.get o.tid).map Int.ofNat).getD (-1)       -- self.threads_pids.get(tid, -1)
  let name : String := match t.threadsPids.get o.tid with                     -- self.pids_names.get(pid, '')
    | some p => (t.pidsNames.get p).getD ""
    | none => ""
  fp == toString pid || fp == name

/-- The three post-filter stages of `traces()`, in the order the `filter()` objects are stacked. -/
def postFilter (cfg : Cfg) (l : List (TraceOut × Tabs)) : List (TraceOut × Tabs) :=
  let l := match cfg.filterProcess with                                       -- if self.filter_process is not None:
    | some fp => l.filter fun p => processMatches fp p.2 p.1
    | none => l
  let l := if addTraceClass cfg then l.filter fun p => p.1.cls != Gen.Consts.DBG_TRACE else l
  let l := if addFsClass cfg then l.filter fun p => p.1.cls != Gen.Consts.DBG_FSYSTEM else l
  l

/-- The events `TracesParser.feed_generator` is fed: `self.kevents(kdebug, filter_class)`. -/
def fedEvents (cfg : Cfg) (d : Dump) : List Kevent :=
  keventsWith cfg (effectiveClasses cfg) (d.events.map Item.event)

/-- The state a fresh `TracesParser` starts from once `set_thread_map` has refilled the shared tables. -/
def startState (d : Dump) : Trace.PState := { pairing := Pairing.PState.empty, tabs := mapTabs d.threadMap }

/-- What a `traces()` request delivers: the traces (with the tables at their yield, for the stages downstream) and the
    exception that ended the iteration, if any. -/
structure TracesResult where
  traces : List (TraceOut × Tabs)
  err : Option PyErr

/-- `PyKdebugParser.traces(kdebug, trace_codes)` consumed to the end: result and object afterwards. -/
def traces (env : Env) (obj : Obj) (d : Dump) : TracesResult × Obj :=
  let evs := fedEvents obj.cfg d
  let r := Trace.run env (startState d) evs
  ({ traces := postFilter obj.cfg (runAnnot env (startState d) evs), err := r.2.1 },
   { obj with threadsPids := r.2.2.tabs.threadsPids, pidsNames := r.2.2.tabs.pidsNames })

/-- `PyKdebugParser.kevents(kdebug)` consumed to the end (`filter_class` argument omitted). -/
def kevents (obj : Obj) (d : Dump) : List Kevent × Obj :=
  (Filters.kevents obj.cfg none (d.events.map Item.event),
   { obj with threadsPids := (mapTabs d.threadMap).threadsPids, pidsNames := (mapTabs d.threadMap).pidsNames })

/-- What `CallstacksParser.feed_generator` does with one trace. -/
def callstackStep (st : Callstacks.Images) (o : TraceOut) :
    Except PyErr (Callstacks.Images × Option Callstacks.Callstack) :=
  match o.extra with
  | .perf _ (some frames) _ =>                      -- isinstance(trace, PerfEvent) and trace.cs_frames is not None
    match Callstacks.lookupAll st frames with
    | .error e => .error e
    | .ok fr => .ok (st, some ⟨(firstOf o.events).timestamp, o.tid, fr⟩)
  | .launch imgs =>                                 -- isinstance(trace, DyldLaunchExecutable)
    match Callstacks.insertAll st imgs with
    | .error e => .error e
    | .ok st' => .ok (st', none)
  | _ =>
    if o.name == "DYLD_uuid_map_a" then             -- isinstance(trace, DyldUuidMapA)
      match Callstacks.insertImage st (arg (firstOf o.events) 2) ((firstOf o.events).data.take 16) with
      | .error e => .error e
      | .ok st' => .ok (st', none)
    else .ok (st, none)

def callstackFeed (st : Callstacks.Images) : List TraceOut → List Callstacks.Callstack × Option PyErr × Callstacks.Images
  | [] => ([], none, st)
  | o :: rest =>
    match callstackStep st o with
    | .error e => ([], some e, st)
    | .ok (st', c) =>
      let (cs, err, sf) := callstackFeed st' rest
      (c.toList ++ cs, err, sf)

structure CallstacksResult where
  callstacks : List Callstacks.Callstack
  err : Option PyErr

/-- `PyKdebugParser.callstacks(kdebug, trace_codes)` consumed to the end. -/
def callstacks (env : Env) (obj : Obj) (d : Dump) : CallstacksResult × Obj :=
  let obj1 := { obj with images := Callstacks.Images.empty }     -- self.dyld_addresses.clear(); self.dyld_uuids.clear()
  let (tr, obj2) := traces env obj1 d
  let (cs, err, imgs) := callstackFeed obj1.images (tr.traces.map (·.1))
  -- an exception of the trace generator surfaces after the callstacks delivered before it
  ({ callstacks := cs, err := match err with | some e => some e | none => tr.err }, { obj2 with images := imgs })

/-- A request on the parser object. -/
inductive Request
  | traces (d : Dump)
  | callstacks (d : Dump)
  | kevents (d : Dump)

def perform (env : Env) (obj : Obj) : Request → Obj
  | .traces d => (traces env obj d).2
  | .callstacks d => (callstacks env obj d).2
  | .kevents d => (kevents obj d).2

/-- The object after a sequence of requests. -/
def performAll (env : Env) (obj : Obj) (rs : List Request) : Obj := rs.foldl (perform env) obj

end KdVerif.TracePipeline
