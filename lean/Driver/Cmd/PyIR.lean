import Driver.Util
import KdVerif.Model.PyIR
import KdVerif.Gen.PyIR
import KdVerif.Spec.PyIRExpected
open KdVerif
namespace Driver.PyIR
open KdVerif.PyIR

/-- `eid:name:t:h` — an entry of `trace_codes` (`name` = number of the trace name), `t` = 1 iff the name is in
    `trace_handlers`, `h` = 1 iff the name is in `self.handlers`. -/
def parseCode (s : String) : Option (Nat × Nat × Bool × Bool) :=
  match (s.splitOn ":").mapM String.toNat? with
  | some [eid, n, t, h] => some (eid, n, t != 0, h != 0)
  | _ => none

def parseCodes (s : String) : Option (List (Nat × Nat × Bool × Bool)) :=
  if s = "-" then some [] else (s.splitOn ",").mapM parseCode

def cfgOf (cs : List (Nat × Nat × Bool × Bool)) : Cfg :=
  { codes := fun eid => (cs.find? fun c => c.1 == eid).map (·.2.1)
    isTraceName := fun n => cs.any fun c => c.2.1 == n && c.2.2.1
    hasHandler := fun n => cs.any fun c => c.2.1 == n && c.2.2.2 }

def unsupported : Bool := Gen.PyIR.prog.hasUnsupported || !Gen.PyIR.notes.isEmpty

/-- One event's answer in the format of `pairg`: `-` (parse_event_list not called, `None` returned), the window
    handed to `parse_event_list` as timestamps, `*` appended when `None` came back; anything else is made visible. -/
def showEvent (before : Nat) (r : Val) (w' : World) : String :=
  let ts (l : List Kevent) := natListC (l.map (·.timestamp))
  match w'.calls.drop before, r with
  | [], .none => "-"
  | [], _ => "?unseen"
  | [l], .none => ts l ++ "*"
  | [l], .result _ v => if v = l then ts l else ts v ++ "!=" ++ ts l
  | [_], _ => "?value"
  | _, _ => "?multi"

def runShow (cfg : Cfg) : World → List Kevent → Except PyErr (List String)
  | _, [] => .ok []
  | w, e :: es =>
    match feed Gen.PyIR.prog cfg w e with
    | .error x => .error x
    | .ok (r, w') =>
      match runShow cfg w' es with
      | .ok rest => .ok (showEvent w.calls.length r w' :: rest)
      | .error x => .error x

/-- `pyir <codes> <record hex>…` : the program GENERATED from traces_parser.py (`Gen/PyIR`), run by the
    interpreter of `Model/PyIR` from empty tables; per event the answer of `pairg`.  `unsupported` when the
    translation contains a node outside the IR. -/
def cmdPyIR : Cmd
  | codes :: recs =>
    if unsupported then "unsupported" else
    match parseCodes codes, parseRecs recs with
    | some cs, some es =>
      match runShow (cfgOf cs) World.empty es with
      | .ok parts => "ok " ++ ";".intercalate parts
      | .error x => "err " ++ x.name
    | _, _ => "bad-op"
  | _ => "bad-op"

/-- `pyircheck` : is the generated program the expected one (`C04.source_is_expected_ir`)?  `same`, or `differs`
    followed by the parts that differ. -/
def cmdCheck : Cmd := fun _ =>
  let g := Gen.PyIR.prog
  let x := KdVerif.PyIR.Expected.prog
  let d : List String :=
    (if g.feed = x.feed then [] else ["feed"]) ++
    (if g.parseEventList = x.parseEventList then [] else ["parse_event_list"]) ++
    (if g.feedStart = x.feedStart then [] else ["_feed_start_event"]) ++
    (if g.feedEnd = x.feedEnd then [] else ["_feed_end_event"]) ++
    (if g.feedSingle = x.feedSingle then [] else ["_feed_single_event"]) ++
    (if g.actions = x.actions then [] else ["qualifiers_actions"]) ++
    (if Gen.PyIR.notes.isEmpty then [] else ["notes"])
  if d.isEmpty then "same" else
    "differs " ++ ",".intercalate d ++ (if unsupported then " unsupported" else "")

def commands : List (String × Cmd) := [("pyir", cmdPyIR), ("pyircheck", cmdCheck)]

end Driver.PyIR
