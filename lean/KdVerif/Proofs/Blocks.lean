import KdVerif.Model.ContainerV3
/-
  The block loop and the log loop of parse_v3 as list functions: closed forms for well-shaped blocks.
-/
namespace KdVerif
open Gen.Consts

def binariesOf (plist : Bytes → Option PView) (p : Bytes) : List Nat := ((plist p).bind (·.binaries)).getD []
def eventsOf (plist : Bytes → Option PView) (p : Bytes) : List RawLog := ((plist p).bind (·.events)).getD []
def itemsOf (plist : Bytes → Option PView) (p : Bytes) : List (Bytes × Nat) := ((plist p).bind (·.stringIndex)).getD []

/-- a block the block loop accepts: its payload loads and has the key its tag needs
    (a dyld block moreover is a non-empty dict with 'Binaries'). -/
def BlockOk (plist : Bytes → Option PView) (b : Bytes × Bytes) : Prop :=
  (b.1 = TRACEV3_DYLD_MODULES → ∃ v l, plist b.2 = some v ∧ v.binaries = some l ∧ v.isEmpty = false) ∧
  (b.1 = TRACEV3_TRACE_CODES → validUtf8 b.2 = true) ∧
  (b.1 = TRACEV3_PROCESSES → ∃ v, plist b.2 = some v) ∧
  (b.1 = TRACEV3_KERNEL_EXTENSIONS → ∃ v l, plist b.2 = some v ∧ v.binaries = some l) ∧
  (b.1 = TRACEV3_IMAGES → ∃ v, plist b.2 = some v) ∧
  (b.1 = TRACEV3_LOG_EVENTS → ∃ v l, plist b.2 = some v ∧ v.events = some l) ∧
  (b.1 = TRACEV3_LOG_STRINGS → ∃ v l, plist b.2 = some v ∧ v.stringIndex = some l)

/-- the dyld accumulator is consistent: seeded (non-empty, with a 'Binaries' list) or untouched. -/
def DyldInv (m : V3Meta) : Prop :=
  (m.dyldEmpty = true ∧ m.dyldBin = none) ∨ (m.dyldEmpty = false ∧ m.dyldBin ≠ none)

theorem tags_distinct :
    [TRACEV3_DYLD_MODULES, TRACEV3_TRACE_CODES, TRACEV3_PROCESSES, TRACEV3_KERNEL_EXTENSIONS, TRACEV3_IMAGES,
      TRACEV3_LOG_EVENTS, TRACEV3_LOG_STRINGS].Nodup := by decide

/-- effect of one accepted block on the accumulated state. -/
theorem dispatchBlock_ok (plist : Bytes → Option PView) (s : BlockState) (b : Bytes × Bytes) (hb : BlockOk plist b)
    (hi : DyldInv s.md) :
    ∃ s', dispatchBlock plist s b = .ok s' ∧ DyldInv s'.md ∧
      s'.md.header = s.md.header ∧
      s'.md.processes = (if b.1 = TRACEV3_PROCESSES then some b.2 else s.md.processes) ∧
      s'.md.images = (if b.1 = TRACEV3_IMAGES then some b.2 else s.md.images) ∧
      s'.md.kexts = s.md.kexts ++ (if b.1 = TRACEV3_KERNEL_EXTENSIONS then binariesOf plist b.2 else []) ∧
      s'.md.traceCodes = s.md.traceCodes ++ (if b.1 = TRACEV3_TRACE_CODES then b.2 else []) ∧
      s'.md.dyldBin.getD [] = s.md.dyldBin.getD [] ++ (if b.1 = TRACEV3_DYLD_MODULES then binariesOf plist b.2 else []) ∧
      s'.logEvents = s.logEvents ++ (if b.1 = TRACEV3_LOG_EVENTS then eventsOf plist b.2 else []) ∧
      s'.logStrings = (if b.1 = TRACEV3_LOG_STRINGS then invertIndex (itemsOf plist b.2) else s.logStrings) := by
  obtain ⟨h1, h2, h3, h4, h5, h6, h7⟩ := hb
  have hnd := tags_distinct
  simp only [List.nodup_cons, List.mem_cons, List.not_mem_nil, or_false, not_or, List.nodup_nil, and_true] at hnd
  obtain ⟨⟨d1, d2, d3, d4, d5, d6⟩, ⟨c2, c3, c4, c5, c6⟩, ⟨p3, p4, p5, p6⟩, ⟨k4, k5, k6⟩, ⟨i5, i6⟩, l6, _⟩ := hnd
  unfold dispatchBlock
  by_cases t1 : b.1 = TRACEV3_DYLD_MODULES
  · obtain ⟨v, l, e1, e2, e3⟩ := h1 t1
    have n2 : ¬ b.1 = TRACEV3_TRACE_CODES := fun e => d1 (t1.symm.trans e)
    have n3 : ¬ b.1 = TRACEV3_PROCESSES := fun e => d2 (t1.symm.trans e)
    have n4 : ¬ b.1 = TRACEV3_KERNEL_EXTENSIONS := fun e => d3 (t1.symm.trans e)
    have n5 : ¬ b.1 = TRACEV3_IMAGES := fun e => d4 (t1.symm.trans e)
    have n6 : ¬ b.1 = TRACEV3_LOG_EVENTS := fun e => d5 (t1.symm.trans e)
    have n7 : ¬ b.1 = TRACEV3_LOG_STRINGS := fun e => d6 (t1.symm.trans e)
    simp only [t1, if_true, e1, n2, n3, n4, n5, n6, n7, if_false, List.append_nil, binariesOf, Option.bind_some, e2,
      Option.getD_some]
    rcases hi with ⟨i1, i2⟩ | ⟨i1, i2⟩
    · simp only [i1, if_true]
      refine ⟨_, rfl, Or.inr ⟨e3, by simp [e2]⟩, rfl, ?_⟩
      simp [e2, i2, *]
    · obtain ⟨l0, hl0⟩ := Option.ne_none_iff_exists'.mp i2
      simp only [i1, Bool.false_eq_true, if_false, hl0, e2]
      refine ⟨_, rfl, Or.inr ⟨rfl, by simp⟩, rfl, ?_⟩
      simp [hl0, *]
  · simp only [t1, if_false, List.append_nil]
    by_cases t2 : b.1 = TRACEV3_TRACE_CODES
    · have n3 : ¬ b.1 = TRACEV3_PROCESSES := fun e => c2 (t2.symm.trans e)
      have n4 : ¬ b.1 = TRACEV3_KERNEL_EXTENSIONS := fun e => c3 (t2.symm.trans e)
      have n5 : ¬ b.1 = TRACEV3_IMAGES := fun e => c4 (t2.symm.trans e)
      have n6 : ¬ b.1 = TRACEV3_LOG_EVENTS := fun e => c5 (t2.symm.trans e)
      have n7 : ¬ b.1 = TRACEV3_LOG_STRINGS := fun e => c6 (t2.symm.trans e)
      simp only [t2, if_true, h2 t2]
      exact ⟨_, rfl, hi, rfl, by simp [*]⟩
    · simp only [t2, if_false, List.append_nil]
      by_cases t3 : b.1 = TRACEV3_PROCESSES
      · obtain ⟨v, e1⟩ := h3 t3
        have n4 : ¬ b.1 = TRACEV3_KERNEL_EXTENSIONS := fun e => p3 (t3.symm.trans e)
        have n5 : ¬ b.1 = TRACEV3_IMAGES := fun e => p4 (t3.symm.trans e)
        have n6 : ¬ b.1 = TRACEV3_LOG_EVENTS := fun e => p5 (t3.symm.trans e)
        have n7 : ¬ b.1 = TRACEV3_LOG_STRINGS := fun e => p6 (t3.symm.trans e)
        simp only [t3, if_true, e1]
        exact ⟨_, rfl, hi, rfl, by simp [*]⟩
      · simp only [t3, if_false]
        by_cases t4 : b.1 = TRACEV3_KERNEL_EXTENSIONS
        · obtain ⟨v, l, e1, e2⟩ := h4 t4
          have n5 : ¬ b.1 = TRACEV3_IMAGES := fun e => k4 (t4.symm.trans e)
          have n6 : ¬ b.1 = TRACEV3_LOG_EVENTS := fun e => k5 (t4.symm.trans e)
          have n7 : ¬ b.1 = TRACEV3_LOG_STRINGS := fun e => k6 (t4.symm.trans e)
          simp only [t4, if_true, e1, e2, binariesOf, Option.bind_some, Option.getD_some]
          exact ⟨_, rfl, hi, rfl, by simp [*]⟩
        · simp only [t4, if_false, List.append_nil]
          by_cases t5 : b.1 = TRACEV3_IMAGES
          · obtain ⟨v, e1⟩ := h5 t5
            have n6 : ¬ b.1 = TRACEV3_LOG_EVENTS := fun e => i5 (t5.symm.trans e)
            have n7 : ¬ b.1 = TRACEV3_LOG_STRINGS := fun e => i6 (t5.symm.trans e)
            simp only [t5, if_true, e1]
            exact ⟨_, rfl, hi, rfl, by simp [*]⟩
          · simp only [t5, if_false]
            by_cases t6 : b.1 = TRACEV3_LOG_EVENTS
            · obtain ⟨v, l, e1, e2⟩ := h6 t6
              have n7 : ¬ b.1 = TRACEV3_LOG_STRINGS := fun e => l6 (t6.symm.trans e)
              simp only [t6, if_true, e1, e2, eventsOf, Option.bind_some, Option.getD_some]
              exact ⟨_, rfl, hi, rfl, by simp [*]⟩
            · simp only [t6, if_false, List.append_nil]
              by_cases t7 : b.1 = TRACEV3_LOG_STRINGS
              · obtain ⟨v, l, e1, e2⟩ := h7 t7
                simp only [t7, if_true, e1, e2, itemsOf, Option.bind_some, Option.getD_some]
                exact ⟨_, rfl, hi, rfl, by simp⟩
              · simp only [t7, if_false]
                exact ⟨_, rfl, hi, rfl, by simp⟩

end KdVerif

namespace KdVerif
open Gen.Consts

/-- payload of the LAST block carrying `tag`. -/
def lastOf (tag : Bytes) : List (Bytes × Bytes) → Option Bytes
  | [] => none
  | b :: bs =>
    match lastOf tag bs with
    | some p => some p
    | none => if b.1 = tag then some b.2 else none

/-- what `lastOf` means: behind the chosen block no block has the tag. -/
theorem lastOf_spec (tag p : Bytes) (xs ys : List (Bytes × Bytes)) (h : ∀ y ∈ ys, y.1 ≠ tag) :
    lastOf tag (xs ++ (tag, p) :: ys) = some p := by
  have hy : lastOf tag ys = none := by
    induction ys with
    | nil => rfl
    | cons y ys ih =>
      have := ih (fun z hz => h z (by simp [hz]))
      simp [lastOf, this, h y (by simp)]
  induction xs with
  | nil => simp [lastOf, hy]
  | cons x xs ih => simp [lastOf, ih]

def orInit {α : Type} (o : Option α) (init : Option α) : Option α :=
  match o with
  | some x => some x
  | none => init

/-- all payloads of the blocks carrying `tag`, in file order. -/
def payloadsOf (tag : Bytes) (bs : List (Bytes × Bytes)) : List Bytes := (bs.filter (fun b => b.1 = tag)).map (·.2)

theorem dispatchBlocks_ok (plist : Bytes → Option PView) : ∀ (bs : List (Bytes × Bytes)) (s0 : BlockState),
    (∀ b ∈ bs, BlockOk plist b) → DyldInv s0.md →
    ∃ s, dispatchBlocks plist s0 bs = (s, none) ∧
      s.md.header = s0.md.header ∧
      s.md.processes = orInit (lastOf TRACEV3_PROCESSES bs) s0.md.processes ∧
      s.md.images = orInit (lastOf TRACEV3_IMAGES bs) s0.md.images ∧
      s.md.kexts = s0.md.kexts ++ (payloadsOf TRACEV3_KERNEL_EXTENSIONS bs).flatMap (binariesOf plist) ∧
      s.md.traceCodes = s0.md.traceCodes ++ (payloadsOf TRACEV3_TRACE_CODES bs).flatten ∧
      s.md.dyldBin.getD [] = s0.md.dyldBin.getD [] ++ (payloadsOf TRACEV3_DYLD_MODULES bs).flatMap (binariesOf plist) ∧
      s.logEvents = s0.logEvents ++ (payloadsOf TRACEV3_LOG_EVENTS bs).flatMap (eventsOf plist) ∧
      s.logStrings = (match lastOf TRACEV3_LOG_STRINGS bs with
                      | some p => invertIndex (itemsOf plist p)
                      | none => s0.logStrings)
  | [], s0, _, _ => ⟨s0, rfl, rfl, rfl, rfl, by simp [payloadsOf], by simp [payloadsOf], by simp [payloadsOf],
      by simp [payloadsOf], rfl⟩
  | b :: bs, s0, hok, hi => by
    obtain ⟨s1, e1, i1, f0, f1, f2, f3, f4, f5, f6, f7⟩ := dispatchBlock_ok plist s0 b (hok b (by simp)) hi
    obtain ⟨s, e, g0, g1, g2, g3, g4, g5, g6, g7⟩ := dispatchBlocks_ok plist bs s1 (fun x hx => hok x (by simp [hx])) i1
    refine ⟨s, by simp only [dispatchBlocks, e1, e], g0.trans f0, ?_, ?_, ?_, ?_, ?_, ?_, ?_⟩
    · rw [g1, f1]; cases h : lastOf TRACEV3_PROCESSES bs <;> simp [lastOf, orInit, h]
      split <;> rfl
    · rw [g2, f2]; cases h : lastOf TRACEV3_IMAGES bs <;> simp [lastOf, orInit, h]
      split <;> rfl
    · rw [g3, f3]; by_cases hb : b.1 = TRACEV3_KERNEL_EXTENSIONS <;> simp [payloadsOf, List.filter_cons, hb]
    · rw [g4, f4]; by_cases hb : b.1 = TRACEV3_TRACE_CODES <;> simp [payloadsOf, List.filter_cons, hb]
    · rw [g5, f5]; by_cases hb : b.1 = TRACEV3_DYLD_MODULES <;> simp [payloadsOf, List.filter_cons, hb]
    · rw [g6, f6]; by_cases hb : b.1 = TRACEV3_LOG_EVENTS <;> simp [payloadsOf, List.filter_cons, hb]
    · rw [g7, f7]; cases h : lastOf TRACEV3_LOG_STRINGS bs <;> simp [lastOf, h]
      split <;> simp_all

/-! ### the log loop -/

/-- every string a record refers to (message, process name) is in the string index. -/
def LogsResolve (strings : List (Nat × Bytes)) (es : List RawLog) : Prop :=
  ∀ e ∈ es, dictGet e.cm strings ≠ none ∧ ∀ p, e.p = some p → dictGet p strings ≠ none

def logOut (strings : List (Nat × Bytes)) (i : Nat) (e : RawLog) : LogOut :=
  ⟨i, (dictGet e.cm strings).getD [], e.tid, (e.p.bind (fun p => dictGet p strings)).getD [], e.pid.getD 0⟩

/-- the records in order, numbered from `i`. -/
def expectedLogs (strings : List (Nat × Bytes)) : Nat → List RawLog → List LogOut
  | _, [] => []
  | i, e :: es => logOut strings i e :: expectedLogs strings (i + 1) es

/-- a record naming a process and a thread extends the two tables. -/
def extendTables (t : Tables) (lo : LogOut) : Tables :=
  if lo.process ≠ [] ∧ lo.tid ≠ 0 then t.add ⟨lo.tid, lo.pid, lo.process⟩ else t

theorem logLoop_ok (strings : List (Nat × Bytes)) : ∀ (es : List RawLog) (i : Nat) (t : Tables),
    LogsResolve strings es →
    logLoop strings i t es = (expectedLogs strings i es, none, (expectedLogs strings i es).foldl extendTables t)
  | [], i, t, _ => rfl
  | e :: es, i, t, h => by
    obtain ⟨h1, h2⟩ := h e (by simp)
    obtain ⟨msg, hm⟩ := Option.ne_none_iff_exists'.mp h1
    have hf : fromRawLog strings i e = .ok (logOut strings i e) := by
      unfold fromRawLog logOut
      rw [hm]
      cases hp : e.p with
      | none => simp
      | some pk =>
        obtain ⟨pr, hpr⟩ := Option.ne_none_iff_exists'.mp (h2 pk hp)
        simp [hpr]
    have ih := logLoop_ok strings es (i + 1) (extendTables t (logOut strings i e)) (fun x hx => h x (by simp [hx]))
    simp only [logLoop, hf, expectedLogs, List.foldl_cons]
    unfold extendTables at ih ⊢
    rw [ih]

end KdVerif
