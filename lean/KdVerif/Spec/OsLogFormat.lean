import KdVerif.Model.OsLog
import KdVerif.Spec.Firehose
/-
  The raw log-record format as a specification: the 10 mandatory and 31 optional keys with the
  record field each one feeds, and what a *well-shaped* value is for each kind of key
  (hypotheses of C16.decode_subset).  Written by hand from the format, not generated.
-/
namespace KdVerif.Spec.OsLogFormat
open KdVerif.OsLog

/-- `(key, field, mandatory)` in the order the format lists them. -/
def keys : List (String × String × Bool) := [
  ("cm", "composed_message", true), ("t", "type_", true), ("s", "size", true),
  ("tid", "thread_identifier", true), ("ns", "continuous_nanoseconds_since_boot", true),
  ("mct", "mach_continuous_timestamp", true), ("b", "boot_uuid", true), ("piu", "process_image_uuid", true),
  ("ud", "unix_date", true), ("utz", "unix_timezone", true),
  ("ti", "trace_identifier", false), ("pip", "process_image_path", false), ("p", "process", false),
  ("sip", "sender_image_path", false), ("send", "sender", false), ("sio", "sender_image_offset", false),
  ("siu", "sender_image_uuid", false), ("lt", "log_type", false), ("ttl", "time_to_live", false),
  ("pid", "process_identifier", false), ("aid", "activity_identifier", false),
  ("paid", "parent_activity_identifier", false), ("tai", "transition_activity_identifier", false),
  ("sub", "subsystem", false), ("cat", "category", false), ("f", "format_string", false),
  ("cai", "creator_activity_identifier", false), ("cpui", "creator_process_unique_identifier", false),
  ("si", "signpost_identifier", false), ("sn", "signpost_name", false), ("st", "signpost_type", false),
  ("ss", "signpost_scope", false), ("lsmct", "loss_start_mach_continuous_timestamp", false),
  ("lemct", "loss_end_mach_continuous_timestamp", false), ("lsud", "loss_start_unix_date", false),
  ("leud", "loss_end_unix_date", false), ("lsutz", "loss_start_unix_timezone", false),
  ("leutz", "loss_end_unix_timezone", false), ("bt", "backtrace", false), ("lc", "loss_count", false),
  ("dm", "decomposed_message", false)]

/-! ### the enum-defined domain of trace identifiers -/

/-- Does `Cls(x)` accept `x`? -/
def refAccepts (r : EnumRef) (x : Nat) : Bool :=
  match r.kind with
  | .plain => (r.cls.ofValue x).isSome
  | .keepFlag => true
  | .strictFlag => x &&& definedBits r.cls == x

/-- The value obeys the namespace's rule: a member of the namespace's class if it has one (any byte
    when that class is an `IntFlag`), any byte when it has none. -/
def byteRule (table : List (Int × EnumRef)) (ns x : Nat) : Bool :=
  match table.lookup (ns : Int) with
  | some r => refAccepts r x
  | none => true

/-- The identifiers the format defines: a defined namespace, a type / flags byte obeying the namespace's
    rule, a defined pc style, fields that fit their bit widths.  (K4: because the source registers the
    non-flag `Enum` `FirehoseTracepointSingpostFlags` for namespace `trace`, the rule admits only its six
    single-member values there — see `C16.k4_*`.) -/
def inDomain (T : IdTables) (t : Spec.Firehose.Id) : Bool :=
  decide (t.ns < 256) && refAccepts T.nsEnum t.ns &&
  decide (t.type_ < 256) && byteRule T.types t.ns t.type_ &&
  decide (t.pcStyle < 8) && refAccepts T.pcEnum t.pcStyle &&
  decide (t.flags < 256) && byteRule T.flags t.ns t.flags &&
  decide (t.code < 2 ^ 32)

/-- The fields of a 64-bit word by the documented layout (inverse of `packId`; the two padding bits
    of byte 2 are dropped). -/
def unpackId (w : Nat) : Spec.Firehose.Id :=
  { ns := w % 256, type_ := w / 2 ^ 8 % 256,
    hasCurrentAid := w / 2 ^ 16 % 2 == 1, pcStyle := w / 2 ^ 17 % 8,
    hasUniquePid := w / 2 ^ 20 % 2 == 1, hasLargeOffset := w / 2 ^ 21 % 2 == 1,
    flags := w / 2 ^ 24 % 256, code := w / 2 ^ 32 }

/-! ### well-shaped values -/

/-- A string-table index. -/
def isIdx (S : Strings) : PVal → Bool
  | .int n => (S.lookup n).isSome
  | _ => false

def hasKeys (ks : List String) : PVal → Bool
  | .dict d => ks.all fun k => (d.lookup k).isSome
  | _ => false

/-- The optional member `k` of `d`, when present, satisfies `p`. -/
def optOk (d : Dict) (k : String) (p : PVal → Bool) : Bool :=
  match d.lookup k with
  | none => true
  | some v => p v

def tokensShaped (S : Strings) : PVal → Bool
  | .list xs => xs.all (isIdx S)
  | _ => false

/-- Placeholder: `rs`, `t`, `tn`, `ty` optional (string indices / list of them), `w` and `p` present. -/
def placeholderShaped (S : Strings) : PVal → Bool
  | .dict d => optOk d "rs" (isIdx S) && optOk d "t" (tokensShaped S) && optOk d "tn" (isIdx S) &&
      optOk d "ty" (isIdx S) && (d.lookup "w").isSome && (d.lookup "p").isSome
  | _ => false

def categoryIs (d : Dict) (n : Int) : Bool :=
  match d.lookup "c" with
  | some c => pyEqInt c n
  | none => false

/-- Argument: every member optional; `or` is a string index when the category is 2. -/
def argShaped (S : Strings) : PVal → Bool
  | .dict d => optOk d "or" fun v => !categoryIs d 2 || isIdx S v
  | _ => false

/-- Segment: any subset of `lp`, `p`, `a`. -/
def segmentShaped (S : Strings) : PVal → Bool
  | .dict d => optOk d "lp" (isIdx S) && optOk d "p" (placeholderShaped S) && optOk d "a" (argShaped S)
  | _ => false

def segmentsShaped (S : Strings) : Option PVal → Bool
  | some (.list segs) => segs.all (segmentShaped S)
  | _ => false

/-- Decomposed message: `pc` and `s` present; when `pc` is non-zero, `seg` is a list of segments. -/
def decomposedShaped (S : Strings) : PVal → Bool
  | .dict d =>
    (d.lookup "s").isSome &&
    (match d.lookup "pc" with
     | some pc => !truthy pc || segmentsShaped S (d.lookup "seg")
     | none => false)
  | _ => false

def intIn (d : Dict) (k : String) (bound : Int) : Bool :=
  match d.lookup k with
  | some (.int n) => decide (0 ≤ n) && decide (n < bound)
  | _ => false

/-- The values each transform is meant for. -/
def Shaped (T : IdTables) (S : Strings) (tr : Transform) (v : PVal) : Bool :=
  match tr with
  | .plain => true
  | .strIndex => isIdx S v
  | .enumOf e =>
    (match v with
     | .int n => decide (0 ≤ n) && refAccepts e n.toNat
     | _ => false)
  | .dictShape pairs => hasKeys (pairs.map (·.2)) v
  | .listDictShape pairs =>
    (match v with
     | .list xs => xs.all (hasKeys (pairs.map (·.2)))
     | _ => false)
  | .timestamp ks ku =>
    (match v with
     | .dict d => intIn d ks (2 ^ 32) && intIn d ku 1000000
     | _ => false)
  | .decomposed => decomposedShaped S v
  | .traceId =>
    (match v with
     | .int w => decide (0 ≤ w) && decide (w < 2 ^ 64) && inDomain T (unpackId w.toNat)
     | _ => false)
  | .unsupported _ => false

/-- Entry `e` of the chain on event `ev`: absent only if optional, present only with a well-shaped value. -/
def entryShaped (T : Tables) (S : Strings) (ev : Dict) (e : Entry) : Bool :=
  match ev.lookup e.key with
  | none => !e.required
  | some v => Shaped T.id S e.tr v

/-- The raw event has every mandatory key, and every key of the chain it has carries a well-shaped value
    (any subset of the optional keys may be present; other keys are unconstrained). -/
def eventShaped (T : Tables) (S : Strings) (ev : Dict) : Bool :=
  T.chain.all (entryShaped T S ev)

end KdVerif.Spec.OsLogFormat
