import Driver.Util
import KdVerif.Model.PyIRCn
import KdVerif.Gen.PyIRCn
import KdVerif.Spec.PyIRCnExpected
/-
  Commands for the translation tie of the construct DECLARATIONS of kd_buf_parser.py (C02, C03): the declarations
  GENERATED from the source (`Gen/PyIRCn`) compared with `Spec/PyIRCnExpected` and run by `PyIRCn.Con.parse`.

  cnircheck                 `same` | `differs <declarations> [unsupported] [notes: …]`   (`C02/C03.decl_source_is_expected_ir`)
  cnv2 <data hex>           the generated `kd_header_v2` parsed from the start of `data` (fuel: unread bytes + 1):
                            `ok n=<count> is64=<..> tick=<..> tm=<tid:pid:namehex,…> pad=<len> pos=<reader position>` | `err <name> pos=<..>`
  cntm <data hex>           the generated `kd_threadmap` parsed from the start of `data`: `ok <tid>:<pid>:<namehex> pos=…` | `err …`
  cntm3 <data hex>          the generated `kd_v3_threadmap` (fuel: unread bytes / 16 + 2): `ok tm=<…> pos=…` | `err …`
  cnad <data hex>           the generated `kd_v3_additional_data` (same fuel): `ok <taghex>:<datahex>,… pos=…` | `err …`
-/
open KdVerif
namespace Driver.PyIRCn
open KdVerif.PyIRCn

def declNames : List String :=
  ["kd_threadmap", "kd_header_v2", "kd_header_v3", "kd_v3_threadmap", "kd_v3_additional_data"]

def cmdCheck : Cmd := fun _ =>
  let g := Gen.PyIRCn.module
  let x := KdVerif.PyIRCn.Expected.module
  let names := (g.decls.map (·.1) ++ x.decls.map (·.1)).eraseDups
  let d : List String :=
    names.filter (fun n => g.decls.lookup n != x.decls.lookup n) ++
    (if g.decls.map (·.1) = x.decls.map (·.1) then [] else ["<order>"]) ++
    (if g.bplistDecode = x.bplistDecode then [] else ["BplistAdapter._decode"])
  let uns := g.decls.any (fun p => match p.2 with | .ref _ => false | c => (c.resolve (g.decls.map fun q => (q.1, Con.int32ul))).hasUnsupported)
  let notes := Gen.PyIRCn.notes
  if g = x && notes.isEmpty then "same" else
    "differs " ++ ",".intercalate (if d.isEmpty then ["-"] else d) ++ (if uns then " unsupported" else "") ++
      (if notes.isEmpty then "" else " notes: " ++ "; ".intercalate notes)

def noPlist : Bytes → Option PView := fun _ => none

def showEntry (e : ThreadEntry) : String := s!"{e.tid}:{e.pid}:{if e.name.isEmpty then "-" else toHex e.name}"

def cmdV2 : Cmd
  | [h] =>
    match ofHex (unDash h) with
    | some data =>
      let c := Gen.PyIRCn.module.decl "kd_header_v2"
      if c.hasUnsupported then "unsupported" else
      match project CVal.toHeaderV2 (c.parse ⟨noPlist, fun r => r.rest.length + 1⟩ []) (Reader.ofBytes data) with
      | (.ok x, r) =>
        let tm := if x.threadmap.isEmpty then "-" else ",".intercalate (x.threadmap.map showEntry)
        s!"ok n={x.count} is64={x.is64} tick={x.tick} tm={tm} pad={x.pad} pos={r.pos}"
      | (.error e, r) => s!"err {e.name} pos={r.pos}"
    | none => "bad-op"
  | _ => "bad-op"

def cmdTm : Cmd
  | [h] =>
    match ofHex (unDash h) with
    | some data =>
      let c := Gen.PyIRCn.module.decl "kd_threadmap"
      if c.hasUnsupported then "unsupported" else
      match project CVal.toThreadEntry (c.parse ⟨noPlist, fun r => r.rest.length + 1⟩ []) (Reader.ofBytes data) with
      | (.ok x, r) => s!"ok {showEntry x} pos={r.pos}"
      | (.error e, r) => s!"err {e.name} pos={r.pos}"
    | none => "bad-op"
  | _ => "bad-op"

def v3Env : Env := ⟨noPlist, fun r => r.rest.length / 16 + 2⟩

def hexOrDash (b : Bytes) : String := if b.isEmpty then "-" else toHex b

def cmdTm3 : Cmd
  | [h] =>
    match ofHex (unDash h) with
    | some data =>
      let c := Gen.PyIRCn.module.decl "kd_v3_threadmap"
      if c.hasUnsupported then "unsupported" else
      match project CVal.toThreadmapV3 (c.parse v3Env []) (Reader.ofBytes data) with
      | (.ok x, r) => s!"ok tm={if x.isEmpty then "-" else ",".intercalate (x.map showEntry)} pos={r.pos}"
      | (.error e, r) => s!"err {e.name} pos={r.pos}"
    | none => "bad-op"
  | _ => "bad-op"

def cmdAd : Cmd
  | [h] =>
    match ofHex (unDash h) with
    | some data =>
      let c := Gen.PyIRCn.module.decl "kd_v3_additional_data"
      if c.hasUnsupported then "unsupported" else
      match project CVal.toBlocks (c.parse v3Env []) (Reader.ofBytes data) with
      | (.ok x, r) =>
        s!"ok {if x.isEmpty then "-" else ",".intercalate (x.map fun b => hexOrDash b.1 ++ ":" ++ hexOrDash b.2)} pos={r.pos}"
      | (.error e, r) => s!"err {e.name} pos={r.pos}"
    | none => "bad-op"
  | _ => "bad-op"

def commands : List (String × Cmd) :=
  [("cnircheck", cmdCheck), ("cnv2", cmdV2), ("cntm", cmdTm), ("cntm3", cmdTm3), ("cnad", cmdAd)]

end Driver.PyIRCn
