import KdVerif.Model.Enum
/-
  L5 (C11): flag words and packed fields.  Executable models of
    * the comprehension `[m for m in <iteration> if m.value & x]` (`flagsIn`) and the helper
      functions built from it (`to_vm_prot`, `to_ast_reasons`, `serialize_access_flags`, the inline
      comprehensions of the handlers) — one `CompSite` per occurrence, generated;
    * `serialize_open_flags`, `serialize_stat_flags` (bsd.py);
    * the word split of `BscIoctl.__str__`.
  Everything is parameterised by tables; `Gen/Flags.lean` (translator, from the current source by
  `ast`) supplies the instances.  Core Lean only.
-/
namespace KdVerif

/-- `[m for m in l if m.value & x]` for a natural `x` (same test as `EnumDef.flagsOf`). -/
def flagsIn (l : List EnumMember) (x : Nat) : List EnumMember :=
  l.filter fun m => m.value.toNat &&& x ≠ 0 ∧ 0 ≤ m.value

theorem EnumDef.flagsOf_eq (e : EnumDef) (x : Nat) : e.flagsOf x = flagsIn e.iter x := rfl

/-- What the comprehension iterates: the class (`for m in E`), `list(E)`, or
    `E.__members__.values()`.  The first two skip aliases and, for `enum.Flag` classes on
    Python ≥ 3.11, multi-bit members. -/
inductive IterSrc
  | cls | listCls | membersValues
  deriving DecidableEq, Repr, Inhabited

def IterSrc.name : IterSrc → String
  | .cls => "class" | .listCls => "list(class)" | .membersValues => "__members__.values()"

/-- The special case a helper makes around its comprehension:
    `wordZero z`    – `if not flags: return [z]` (to_vm_prot, to_ast_reasons);
    `emptyResult z` – `if not result: result = [z]` (serialize_access_flags). -/
inductive ZeroCase
  | none
  | wordZero (z : EnumMember)
  | emptyResult (z : EnumMember)
  deriving DecidableEq, Repr, Inhabited

/-- One flag comprehension of the source: the function it lives in, the enum class, how it is
    iterated and what that iteration yields (reflected), and the zero case around it. -/
structure CompSite where
  func : String
  enum : EnumDef
  src : IterSrc
  iter : List EnumMember
  zero : ZeroCase
  deriving Repr, Inhabited

def CompSite.eval (s : CompSite) (x : Nat) : List EnumMember :=
  match s.zero with
  | .none => flagsIn s.iter x
  | .wordZero z => if x = 0 then [z] else flagsIn s.iter x
  | .emptyResult z => if (flagsIn s.iter x).isEmpty then [z] else flagsIn s.iter x

/-- `serialize_open_flags`: the first access-mode candidate that intersects the word (else the
    fallback member), then every member of the shown tuple that intersects the word, in order. -/
def serializeOpenFlags (acc : List EnumMember) (dflt : EnumMember) (shown : List EnumMember)
    (x : Nat) : List EnumMember :=
  (match flagsIn acc x with
   | m :: _ => m
   | [] => dflt) :: flagsIn shown x

/-- `serialize_stat_flags`: a member that intersects `typeMask` is shown iff the word's
    `fieldMask` field *equals* it; any other member iff it intersects the word. -/
def serializeStatFlags (iter : List EnumMember) (typeMask fieldMask : Nat) (x : Nat) : List EnumMember :=
  iter.filter fun m =>
    if m.value.toNat &&& typeMask ≠ 0 ∧ 0 ≤ m.value then ((x &&& fieldMask : Nat) : Int) = m.value
    else m.value.toNat &&& x ≠ 0 ∧ 0 ≤ m.value

/-- Masks and shifts of `BscIoctl.__str__`: `request & dirMask` indexes the name table,
    the other fields are `(request >> shift) & mask`. -/
structure IoctlLayout where
  dirMask : Nat
  groupShift : Nat
  groupMask : Nat
  numShift : Nat
  numMask : Nat
  lenShift : Nat
  lenMask : Nat
  deriving DecidableEq, Repr, Inhabited

structure IoctlParts where
  dir : String
  group : Nat
  num : Nat
  len : Nat
  deriving DecidableEq, Repr, Inhabited

/-- The split shown by `BscIoctl.__str__`; `IOC_REQUEST_PARAMS[…]` raises `KeyError` when the masked
    word is not a key (the lookup is the first statement, so nothing else can fail before it). -/
def splitIoctl (params : List (Nat × String)) (L : IoctlLayout) (w : Nat) : Except PyErr IoctlParts :=
  match params.lookup (w &&& L.dirMask) with
  | none => .error .keyError
  | some nm => .ok ⟨nm, (w >>> L.groupShift) &&& L.groupMask, (w >>> L.numShift) &&& L.numMask,
                    (w >>> L.lenShift) &&& L.lenMask⟩

end KdVerif
