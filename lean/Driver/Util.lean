import KdVerif.Model.Kevent
import KdVerif.Gen.Consts
/- Helpers shared by the driver command files. -/
open KdVerif
namespace Driver

abbrev Cmd := List String → String

def natList (l : List Nat) : String := " ".intercalate (l.map toString)
def natListC (l : List Nat) : String := ",".intercalate (l.map toString)

def fromKdBuf (bs : Bytes) : Except PyErr Kevent :=
  decodeWith Gen.Consts.kdBufFormat Gen.Consts.eventidMask Gen.Consts.funcMask bs

/-- "-" stands for the empty string / empty list in the protocol. -/
def unDash (s : String) : String := if s = "-" then "" else s

def parseRecs : List String → Option (List Kevent)
  | [] => some []
  | h :: t => do
    let bs ← ofHex h
    let e ← (fromKdBuf bs).toOption
    let r ← parseRecs t
    pure (e :: r)

def parseNatList (s : String) : Option (List Nat) :=
  if s = "-" then some [] else (s.splitOn ",").mapM String.toNat?

def hexOfString (s : String) : String :=
  let h := toHex (s.toUTF8.toList.map UInt8.toNat)
  if h = "" then "-" else h

def stringOfHex (h : String) : Option String := do
  let bs ← ofHex (unDash h)
  String.fromUTF8? (ByteArray.mk (bs.map UInt8.ofNat).toArray)

end Driver
