import KdVerif.Model.ContainerV3
import KdVerif.Props.C01
import KdVerif.Proofs.ContainerV2
import KdVerif.Proofs.Dict
import KdVerif.Proofs.EndToEnd
import KdVerif.Proofs.PyIRRdKd
import KdVerif.Proofs.PyIRCn
import KdVerif.Gen.PyIRCn
/-
  C02 — a version-2 dump yields exactly its records, in order, and its thread map.

  Subject: `parse plist fromKdBuf prior data` (Model/ContainerV3.parse → Model/ContainerV2.parseV2), the model of
  `KdBufParser(threads_pids, pids_names).parse(reader)` exhausted; `prior` are the contents of the two
  shared dicts (and the parser attributes) BEFORE the call.  Specification: `Spec.encodeV2`.
  Thread names are compared as UTF-8 bytes (see Spec/ContainerV2).
-/
namespace KdVerif.C02
open KdVerif Spec Reader

/-- `set_thread_map` applied to the file's thread list, starting from EMPTY tables. -/
def threadTables (ts : List V2Thread) : Tables :=
  ts.foldl (fun t e => t.add ⟨e.tid, e.pid, e.name⟩) Tables.empty

/-- K1 hypothesis: there is no record, or the first record does not begin with a zero byte. -/
def FirstByteNonZero (f : V2File) : Prop := ∀ x, f.recs.head? = some x → x.head? ≠ some 0

theorem parse_encodeV2 {ε : Type} (plist : Bytes → Option PView) (dec : Bytes → Except PyErr ε)
    (prior : PState) (f : V2File) :
    ∃ r : Reader, r.rest = v2Body f ∧
      parse plist dec prior (encodeV2 f) =
        ⟨(parseV2 dec prior.tables r).events.map .ev, (parseV2 dec prior.tables r).err,
         (parseV2 dec prior.tables r).tables, (parseV2 dec prior.tables r).tables, prior.md,
         (parseV2 dec prior.tables r).rd⟩ := by
  have h : (Reader.ofBytes (encodeV2 f)).rest = v2Magic ++ v2Body f := by
    simp [Reader.rest, Reader.ofBytes, encodeV2, v2Body]
  obtain ⟨h1, c1⟩ := read_cont h
  refine ⟨((Reader.ofBytes (encodeV2 f)).read 4).2, c1.1, ?_⟩
  have h1' : ((Reader.ofBytes (encodeV2 f)).read Gen.Consts.RAW_VERSION_SIZE).1 = Gen.Consts.RAW_VERSION2_BYTES := h1
  unfold parse
  simp only [h1', if_true]
  rfl

theorem events_map_ev {ε : Type} (l : List ε) (e : Option PyErr) (t t' : Tables) (m : V3Meta) (r : Reader) :
    (Run3.mk (l.map Out.ev) e t t' m r).events = l := by
  simp only [Run3.events]
  induction l with
  | nil => rfl
  | cons a l ih => simpa [Out.ev?] using ih

/-- **C02, events (partial: K1 hypothesis).**  For every well-formed v2 file — any thread map, any
    padding length, any list of 64-byte records — whose first record does not begin with a zero
    byte, and for ANY prior contents of the shared tables: the parser delivers exactly the records'
    decodings, in file order, nothing else (no log, no error), i.e. exactly `f.recs.length` events.

    Full statement (FALSE for the real code, see `v2_pad_eats_record`; known finding K1):
      `f.WF → (parse plist fromKdBuf prior (encodeV2 f)).events = f.recs.map specDecode`
    What is missing: the greedy zero-byte skipper `_pad` cannot tell padding from a first record
    whose first byte (low byte of the timestamp) is 0. -/
theorem v2_events_partial (plist : Bytes → Option PView) (prior : PState) (f : V2File) (wf : f.WF)
    (h0 : FirstByteNonZero f) :
    let x := parse plist fromKdBuf prior (encodeV2 f)
    x.events = f.recs.map specDecode ∧ x.outs = (f.recs.map specDecode).map .ev ∧ x.err = none
      ∧ x.events.length = f.recs.length := by
  obtain ⟨r, hr, hp⟩ := parse_encodeV2 plist fromKdBuf prior f
  have hd : ∀ x ∈ f.recs, fromKdBuf x = .ok (specDecode x) := fun x hx =>
    C01.decode_eq_spec x (wf.2.2.2.2 x hx).1 (wf.2.2.2.2 x hx).2
  obtain ⟨he, herr⟩ := parseV2_events fromKdBuf specDecode prior.tables f wf hd h0 hr
  simp only [hp, events_map_ev, he, herr, List.length_map, and_self]

/-- **C02, tables.**  For every well-formed v2 file (NO first-byte hypothesis) and ANY prior tables,
    the tables after the parse are the file's thread map filled into EMPTY tables: nothing of the
    prior contents survives. -/
theorem v2_tables (plist : Bytes → Option PView) (prior : PState) (f : V2File) (wf : f.WF) :
    (parse plist fromKdBuf prior (encodeV2 f)).tables = threadTables f.threads := by
  obtain ⟨r, hr, hp⟩ := parse_encodeV2 plist fromKdBuf prior f
  rw [hp]
  simp only [parseV2_tables fromKdBuf prior.tables f wf hr, setThreadMap, threadTables, List.foldl_map, toEntry]

/-- … and "a later entry for the same key wins": a thread id maps to the pid of the LAST thread-map
    entry with that tid (none if there is none), a pid to the name of the LAST entry with that pid. -/
theorem v2_lookup_last_wins (ts : List V2Thread) (k : Nat) :
    dictGet k (threadTables ts).threadsPids = (ts.reverse.find? (fun t => t.tid == k)).map (·.pid) ∧
    dictGet k (threadTables ts).pidsNames = (ts.reverse.find? (fun t => t.pid == k)).map (·.name) := by
  have key : ∀ (ts : List V2Thread) (t0 : Tables),
      (ts.foldl (fun t e => t.add ⟨e.tid, e.pid, e.name⟩) t0).threadsPids =
        ts.foldl (fun d e => dictSet e.tid e.pid d) t0.threadsPids ∧
      (ts.foldl (fun t e => t.add ⟨e.tid, e.pid, e.name⟩) t0).pidsNames =
        ts.foldl (fun d e => dictSet e.pid e.name d) t0.pidsNames := by
    intro ts
    induction ts with
    | nil => intro t0; exact ⟨rfl, rfl⟩
    | cons t ts ih => intro t0; simpa [List.foldl_cons, Tables.add] using ih _
  obtain ⟨k1, k2⟩ := key ts Tables.empty
  unfold threadTables
  rw [k1, k2, dictGet_foldl (fun t : V2Thread => t.tid) (·.pid), dictGet_foldl (fun t : V2Thread => t.pid) (·.name)]
  constructor
  · cases ts.reverse.find? (fun t => t.tid == k) <;> rfl
  · cases ts.reverse.find? (fun t => t.pid == k) <;> rfl

/-- successive parses by one parser object: state (tables, attributes) threaded through. -/
def parseSeq (plist : Bytes → Option PView) (prior : PState) (files : List Bytes) : PState :=
  files.foldl (fun st d => let x := parse plist fromKdBuf st d; ⟨x.tables, x.md⟩) prior

/-- **C02, no residue over histories.**  After any sequence of parses of well-formed v2 files on one
    parser object — whatever the tables held before — the tables are exactly the thread map of the
    LAST file parsed. -/
theorem v2_tables_seq (plist : Bytes → Option PView) (prior : PState) (fs : List V2File) (f : V2File)
    (wf : f.WF) :
    (parseSeq plist prior ((fs ++ [f]).map encodeV2)).tables = threadTables f.threads := by
  unfold parseSeq
  rw [List.map_append, List.foldl_append]
  simp only [List.map_cons, List.map_nil, List.foldl_cons, List.foldl_nil]
  exact v2_tables plist _ f wf

/-! ### K1: the negative witnesses -/

def k1Rec : Bytes := 0 :: 1 :: List.replicate 62 0          -- timestamp 0x100
def k1File : V2File := ⟨[], 0, [k1Rec], 1, 0⟩
def k1File2 : V2File := ⟨[], 0, [List.replicate 64 0, List.replicate 64 1], 1, 0⟩

theorem k1File_wf : k1File.WF ∧ k1File2.WF := by
  refine ⟨⟨by simp [k1File], by simp [k1File], by simp [k1File], by simp [k1File], ?_⟩,
    ⟨by simp [k1File2], by simp [k1File2], by simp [k1File2], by simp [k1File2], ?_⟩⟩
  · intro r hr
    simp only [k1File, List.mem_singleton] at hr
    subst hr
    refine ⟨by decide, ?_⟩
    intro b hb
    simp only [k1Rec, List.mem_cons, List.mem_replicate] at hb
    omega
  · intro r hr
    simp only [k1File2, List.mem_cons, List.not_mem_nil, or_false] at hr
    rcases hr with rfl | rfl
    · exact ⟨by decide, fun b hb => by simp only [List.mem_replicate] at hb; omega⟩
    · exact ⟨by decide, fun b hb => by simp only [List.mem_replicate] at hb; omega⟩

/-- **K1 (known finding), negative witness.**  Without the first-byte hypothesis the statement of
    `v2_events_partial` is false for the code as it is:
    (a) a well-formed file whose single record has timestamp 0x100: the skipper eats the record's
        leading zero byte, the stream is misaligned, NO event is delivered and the parse ends in
        `struct.error`;
    (b) a well-formed file whose first record is all zeros: that record is silently lost (the
        parse ends normally with one event instead of two). -/
theorem v2_pad_eats_record :
    (let x := parse (fun _ => none) fromKdBuf ⟨Tables.empty, {}⟩ (encodeV2 k1File)
     x.events = [] ∧ x.err = some .structError ∧ k1File.recs.map specDecode ≠ []) ∧
    (let x := parse (fun _ => none) fromKdBuf ⟨Tables.empty, {}⟩ (encodeV2 k1File2)
     x.events = [specDecode (List.replicate 64 1)] ∧ x.err = none ∧
       x.events ≠ k1File2.recs.map specDecode) := by
  decide +kernel

/-! ### non-vacuity -/

def exFile : V2File :=
  ⟨[⟨7, 100, [0x61, 0x62], [0x73, 0x72, 0x76, 0, 0xff]⟩, ⟨8, 100, [0xc3, 0xa9], []⟩, ⟨7, 200, [], [0x78]⟩], 3,
   [List.replicate 64 255, List.range 64], 1, 24000000⟩

theorem exFile_wf : exFile.WF := by
  refine ⟨by simp [exFile], ?_, by simp [exFile], by simp [exFile], ?_⟩
  · intro t ht
    simp only [exFile, List.mem_cons, List.not_mem_nil, or_false] at ht
    rcases ht with rfl | rfl | rfl <;> refine ⟨by decide, by decide, by decide, by decide, by decide⟩
  · intro r hr
    simp only [exFile, List.mem_cons, List.not_mem_nil, or_false] at hr
    rcases hr with rfl | rfl
    · exact ⟨by simp, fun b hb => by simp only [List.mem_replicate] at hb; omega⟩
    · exact ⟨by simp, fun b hb => by simp only [List.mem_range] at hb; omega⟩

/-- a concrete file with duplicate tids and pids, a multi-byte name, padding and two records meets the
    hypotheses; polluted prior tables. -/
example :
    let x := parse (fun _ => none) fromKdBuf ⟨⟨[(7, 1), (99, 2)], [(1, [0x6f])]⟩, {}⟩ (encodeV2 exFile)
    x.events = exFile.recs.map specDecode ∧ x.tables = threadTables exFile.threads :=
  ⟨(v2_events_partial _ _ exFile exFile_wf (by intro x hx; simp [exFile] at hx; subst hx; decide)).1,
   v2_tables _ _ exFile exFile_wf⟩

example : (threadTables exFile.threads).threadsPids = [(7, 200), (8, 100)] ∧
    (threadTables exFile.threads).pidsNames = [(100, [0xc3, 0xa9]), (200, [])] := by decide

/-! ### end to end: what the trace layer and the line builder receive from an encoded file (`Model/EndToEnd.lean`) -/

/-- The file's thread map as the trace layer receives it: `(tid, pid, name)` in file order, the name bytes decoded
    (`CString('utf8')`). -/
def fileThreadMap (f : V2File) : Declared.ThreadMap :=
  f.threads.map fun t => (t.tid, t.pid, EndToEnd.utf8 t.name)

theorem threadMapOf_entries (f : V2File) : EndToEnd.threadMapOf (f.threads.map toEntry) = fileThreadMap f := by
  simp only [EndToEnd.threadMapOf, fileThreadMap, List.map_map]
  rfl

/-- **C02 composed with C01, at the entry of the trace layer (partial: K1 hypothesis).**  For every well-formed v2 file
    — any thread map, any padding length, any list of 64-byte records — whose first record does not begin with a zero
    byte: what `PyKdebugParser.traces` / `formatted_traces` work on is exactly the file's thread map (every entry, in
    file order) and exactly the decodings of the file's records (C01's `specDecode`, in file order), and the container
    reader ends without an exception.

    Full statement without `FirstByteNonZero` is false for the code as it is (known finding K1, `v2_pad_eats_record`);
    the thread map half needs no such hypothesis: `e2e_threadmap_of_encoded`. -/
theorem e2e_dump_of_encoded (plist : Bytes → Option PView) (f : V2File) (wf : f.WF) (h0 : FirstByteNonZero f) :
    EndToEnd.dumpOf plist (encodeV2 f) =
      .ok ({ threadMap := EndToEnd.threadMapOf (f.threads.map toEntry), events := f.recs.map specDecode }, none) :=
  EndToEnd.dumpOf_encoded plist f wf h0

/-- the same with the thread map written out. -/
theorem e2e_dump_of_encoded' (plist : Bytes → Option PView) (f : V2File) (wf : f.WF) (h0 : FirstByteNonZero f) :
    EndToEnd.dumpOf plist (encodeV2 f) =
      .ok ({ threadMap := fileThreadMap f, events := f.recs.map specDecode }, none) := by
  rw [e2e_dump_of_encoded plist f wf h0, threadMapOf_entries]

/-- For every well-formed v2 file (NO first-byte hypothesis) the dump is readable and the trace layer receives the
    file's thread map. -/
theorem e2e_threadmap_of_encoded (plist : Bytes → Option PView) (f : V2File) (wf : f.WF) :
    ∃ d c, EndToEnd.dumpOf plist (encodeV2 f) = .ok (d, c) ∧ d.threadMap = fileThreadMap f := by
  obtain ⟨d, c, h, htm⟩ := EndToEnd.dumpOf_encoded_threadMap plist f wf
  exact ⟨d, c, h, by rw [htm, threadMapOf_entries]⟩

/-- **The lines of an encoded file.**  Under the same hypotheses the lines `formatted_traces` yields for the file's bytes
    are the lines of the line builder over `traces` of (the file's thread map, the decodings of the file's records), and
    the iteration ends with the exception of the trace layer only (rendering or decoding) — the container contributes
    neither an event nor an exception of its own. -/
theorem e2e_lines_of_encoded (env : Trace.Env) (obj : TracePipeline.Obj) (sh : Format.Show)
    (plist : Bytes → Option PView) (f : V2File) (wf : f.WF) (h0 : FirstByteNonZero f) :
    let res := (TracePipeline.traces env obj
      { threadMap := fileThreadMap f, events := f.recs.map specDecode }).1
    EndToEnd.formattedTraces env obj sh plist (encodeV2 f) =
      ((EndToEnd.formatAll sh res.traces).1,
       match (EndToEnd.formatAll sh res.traces).2 with
       | some e => some e
       | none => res.err) := by
  intro res
  have h := e2e_dump_of_encoded' plist f wf h0
  have h1 := EndToEnd.formattedTraces_lines env obj sh plist _ _ _ h
  have h2 := EndToEnd.formattedTraces_err env obj sh plist _ _ _ h
  refine Prod.ext h1 ?_
  rw [h2]
  show (match (EndToEnd.formatAll sh res.traces).2 with
        | some e => some e
        | none => match res.err with
          | some e => some e
          | none => none) = _
  cases (EndToEnd.formatAll sh res.traces).2 <;> cases res.err <;> rfl

/-! #### non-vacuity -/

/-- the example file of `Proofs/EndToEnd` (two entries for thread 7, four bytes of padding, six records) meets the
    hypotheses; its six lines. -/
example :
    EndToEnd.dumpOf EndToEnd.noPlist (encodeV2 EndToEnd.exFile) =
      .ok ({ threadMap := fileThreadMap EndToEnd.exFile, events := EndToEnd.exFile.recs.map specDecode }, none) ∧
    fileThreadMap EndToEnd.exFile = [(7, 41, "old"), (7, 42, "launchd")] :=
  ⟨e2e_dump_of_encoded' _ _ EndToEnd.exFile_wf EndToEnd.exFile_first, by decide +kernel⟩

example : EndToEnd.formattedTraces EndToEnd.exEnv {} {} EndToEnd.noPlist (encodeV2 EndToEnd.exFile) =
    (["1 launchd(42)                       Process exit name: x",
      "2 launchd(42)                       New thread 9 of parent: 50",
      "3 (50)                              Process exit name: y",
      "4 launchd(42)                       New thread of parent: new",
      "5 new(50)                           Process exit name: z",
      "6 Error: tid 8                      Process exit name: {"], none) := by
  decide +kernel

/-- K1 end to end: the file `k1File2` (first record all zeros) is well formed, the dump is readable, the thread map is
    right, but the trace layer receives ONE event instead of two. -/
example : (EndToEnd.dumpOf EndToEnd.noPlist (encodeV2 k1File2)).toOption.map (fun p => p.1.events.length) = some 1 := by
  decide +kernel

/-! ### Translation tie: the source text of `parse`, `parse_v2` and `set_thread_map`

  `tools/gen_pyir_rd.py` translates `kd_buf_parser.py` (pure `ast`) into the Python-subset IR of `Model/PyIRRd` on every
  run (`Gen/PyIRRd.lean`); `PyIRRd.exec` is a big-step interpreter over the model's positional reader (same read calls,
  same counters), with the `construct` parsers as primitives and `from_kd_buf` as a parameter. -/

/-- **The translated source is the program the refinement lemmas were proved for** (`Spec/PyIRRdExpected`, quoting the
    Python), and the translator met nothing outside the subset.  The program includes the constructor
    `KdBufParser.__init__` (`prog.init`; `C03.kd_init_ir_eq_model`). -/
theorem source_is_expected_ir : Gen.PyIRRd.prog = PyIRRd.Expected.prog ∧ Gen.PyIRRd.notes = [] := by decide

/-- **`set_thread_map`, interpreted, is `setThreadMap`**: both tables are cleared first (no residue of an earlier
    parse, whatever they held), then filled in file order, a later entry of a tid / pid overwriting an earlier one. -/
theorem set_thread_map_ir_eq_model (l : List ThreadEntry) (t : Tables) :
    PyIRRd.execTm l Gen.PyIRRd.prog.setThreadMap t = .ok (setThreadMap t l) := by
  rw [source_is_expected_ir.1]; exact PyIRRd.execTm_expected l t

/-- **`parse`, interpreted**: four bytes are read, the version-2 magic selects `parse_v2`, the version-3 magic
    `parse_v3`, anything else is the `KeyError` of the dict lookup (`none`). -/
theorem parse_dispatch_ir_eq_model (data : Bytes) :
    PyIRRd.runDispatch Gen.PyIRRd.prog.parse data =
      .ok ((if ((Reader.ofBytes data).read Gen.Consts.RAW_VERSION_SIZE).1 = Gen.Consts.RAW_VERSION2_BYTES then some .parseV2
            else if ((Reader.ofBytes data).read Gen.Consts.RAW_VERSION_SIZE).1 = Gen.Consts.RAW_VERSION3_BYTES then some .parseV3
            else none),
           ((Reader.ofBytes data).read Gen.Consts.RAW_VERSION_SIZE).2) := by
  rw [source_is_expected_ir.1]; exact PyIRRd.runDispatch_expected data

/-- **`parse_v2`, interpreted, is `parseV2`** — for EVERY reader state (any bytes, well-formed or not) and any prior
    table contents: the same events in the same order, the same final exception, the same tables, the same reader
    position and read counters (so the interpreted source makes exactly the model's `read` calls). -/
theorem parse_v2_ir_eq_model (plist : Bytes → Option PView) (prior : Tables) (hdr : Option (List Nat × Bytes))
    (r : Reader) (g : r.pos ≤ r.data.length) :
    (PyIRRd.runGen (Gen.PyIRRd.prog.params fromKdBuf plist) Gen.PyIRRd.prog.parseV2 prior hdr r).events =
        (parseV2 fromKdBuf prior r).events ∧
    (PyIRRd.runGen (Gen.PyIRRd.prog.params fromKdBuf plist) Gen.PyIRRd.prog.parseV2 prior hdr r).err =
        (parseV2 fromKdBuf prior r).err ∧
    (PyIRRd.runGen (Gen.PyIRRd.prog.params fromKdBuf plist) Gen.PyIRRd.prog.parseV2 prior hdr r).tables =
        (parseV2 fromKdBuf prior r).tables ∧
    (PyIRRd.runGen (Gen.PyIRRd.prog.params fromKdBuf plist) Gen.PyIRRd.prog.parseV2 prior hdr r).rd =
        (parseV2 fromKdBuf prior r).rd := by
  rw [source_is_expected_ir.1]
  obtain ⟨a, b, c, d, _⟩ := PyIRRd.runGen_parseV2 fromKdBuf plist PyIRRd.kd_rejectsShort PyIRRd.kd_noHang prior hdr r g
  exact ⟨a, b, c, d⟩

/-- **The subject of every C02 theorem is the interpreted source**: `parse plist fromKdBuf prior data` (what
    `v2_events_partial`, `v2_tables`, `e2e_…` speak about) equals the translated `parse` / `parse_v2` / `parse_v3` /
    `seek_until` / `set_thread_map` run by the interpreter (all of them translated whole). -/
theorem parse_is_interpreted_source (plist : Bytes → Option PView) (prior : PState) (data : Bytes) :
    parse plist fromKdBuf prior data = PyIRRd.parseVia Gen.PyIRRd.prog plist fromKdBuf prior data :=
  PyIRRd.parse_eq_parseVia_gen source_is_expected_ir plist prior data

/-- non-vacuity: the generated program, interpreted, reads a two-thread version-2 dump -/
example : ((PyIRRd.parseVia Gen.PyIRRd.prog EndToEnd.noPlist fromKdBuf ⟨Tables.empty, {}⟩ (encodeV2 exFile)).events.length,
           (PyIRRd.parseVia Gen.PyIRRd.prog EndToEnd.noPlist fromKdBuf ⟨Tables.empty, {}⟩ (encodeV2 exFile)).err) =
          (exFile.recs.length, none) := by decide +kernel

/-! ### translation tie of the construct DECLARATIONS (`kd_threadmap`, `kd_header_v2`; `Model/PyIRCn`)

The reader tie above keeps `kd_header_v2.parse_stream(reader)` as the primitive `headerV2`.  What `kd_header_v2` IS — the
module-level `Struct(…)` expression — is translated too (`tools/gen_pyir_cn.py` → `Gen/PyIRCn`) and run by `Con.parse`
over the same reader monad and the same combinators of `Model/Construct` (one combinator per construct class). -/

/-- **The translated declarations are the ones the lemmas were proved for** (`Spec/PyIRCnExpected`, quoting the Python):
    all five construct declarations of kd_buf_parser.py and `BplistAdapter._decode`; the translator met nothing outside
    the subset. -/
theorem decl_source_is_expected_ir : Gen.PyIRCn.module = PyIRCn.Expected.module ∧ Gen.PyIRCn.notes = [] := by decide

/-- **`kd_threadmap`, interpreted, is `threadEntry`** — for EVERY reader state: the declaration the source binds to
    `kd_threadmap`, run by `Con.parse` (whatever `plistlib.loads` is, whatever the fuel policy, in any context) and read
    as (tid, pid, process), gives the same entry or the same exception and leaves the same reader (position and read
    counters) as the hand model. -/
theorem kd_threadmap_decl_eq_model (env : PyIRCn.Env) (ctx : List (String × PyIRCn.CVal)) (r : Reader) :
    PyIRCn.project PyIRCn.CVal.toThreadEntry ((Gen.PyIRCn.module.decl "kd_threadmap").parse env ctx) r =
      threadEntry r := by
  rw [decl_source_is_expected_ir.1, PyIRCn.decl_kd_threadmap, PyIRCn.project_kd_threadmap]

/-- the parsed value carries nothing else: it IS the hand model's entry as a `Container` of three named fields. -/
theorem kd_threadmap_decl_value (env : PyIRCn.Env) (ctx : List (String × PyIRCn.CVal)) :
    (Gen.PyIRCn.module.decl "kd_threadmap").parse env ctx = PyIRCn.mapRM PyIRCn.ThreadEntry.toCVal threadEntry := by
  rw [decl_source_is_expected_ir.1, PyIRCn.decl_kd_threadmap, PyIRCn.parse_kd_threadmap]

/-- **`kd_header_v2`, interpreted, is `headerV2`** — for EVERY reader state: the declaration bound to `kd_header_v2`
    (with `kd_threadmap` resolved to the declaration above), run by `Con.parse` with the fuel `headerV2` gives its greedy
    range (`restFuel`: unread bytes + 1) and read as (number_of_treads, is_64bit, tick_frequency, threadmap, len(_pad)),
    gives the same header or the same exception and the same reader: the three paddings of 8 / 4 / 0x100 bytes as ONE
    read each, the array of `number_of_treads` entries, the greedy zero padding INCLUDING its rewind behind the last
    zero byte (the K1 behaviour lives in this declaration). -/
theorem kd_header_v2_decl_eq_model (plist : Bytes → Option PView) (ctx : List (String × PyIRCn.CVal)) (r : Reader) :
    PyIRCn.project PyIRCn.CVal.toHeaderV2
      ((Gen.PyIRCn.module.decl "kd_header_v2").parse ⟨plist, fun r => r.rest.length + 1⟩ ctx) r = headerV2 r := by
  rw [decl_source_is_expected_ir.1, PyIRCn.decl_kd_header_v2, PyIRCn.project_kd_header_v2]

/-- **`parse_v2` rests on the declaration**: the hand model `parseV2` (= the interpreted `parse_v2`, by
    `parse_v2_ir_eq_model`) with its primitive `headerV2` replaced by the interpreted `kd_header_v2`. -/
theorem parse_v2_rests_on_declarations {ε : Type} (dec : Bytes → Except PyErr ε) (plist : Bytes → Option PView)
    (prior : Tables) (r : Reader) :
    parseV2 dec prior r =
      match PyIRCn.project PyIRCn.CVal.toHeaderV2
          ((Gen.PyIRCn.module.decl "kd_header_v2").parse ⟨plist, fun r => r.rest.length + 1⟩ []) r with
      | (.error e, r') => ⟨[], some e, prior, r'⟩
      | (.ok h, r') =>
        let q := recordLoop dec (r'.rest.length / 64 + 2) r'
        ⟨q.1, q.2.1, setThreadMap prior h.threadmap, q.2.2⟩ := by
  rw [kd_header_v2_decl_eq_model]; rfl

/-- 32 bytes of a thread entry: tid, pid, a 20-byte name field -/
def exEntry (tid pid : Nat) (field : Bytes) : Bytes := [tid, 0, 0, 0, 0, 0, 0, 0] ++ [pid, 0, 0, 0] ++ field

/-- a version-2 header: two threads, three zero bytes of padding, then a non-zero byte -/
def exDeclHeader : Bytes :=
  [2, 0, 0, 0] ++ List.replicate 12 0xee ++ [1, 0, 0, 0] ++ [24, 0, 0, 0, 0, 0, 0, 0] ++ List.replicate 0x100 0xee ++
  exEntry 5 9 ([0x61, 0x62, 0] ++ List.replicate 17 0x7a) ++ exEntry 6 9 ([0xc3, 0xa9, 0] ++ List.replicate 17 0) ++
  [0, 0, 0] ++ [7, 0]

/-- non-vacuity: the generated `kd_header_v2`, interpreted, on concrete bytes — both entries, the three padding zeros
    consumed, the reader left ON the non-zero byte (position 351) after 16 read calls (the last one the failing
    `Const` element that the range rewinds) -/
example :
    (match PyIRCn.project PyIRCn.CVal.toHeaderV2
        ((Gen.PyIRCn.module.decl "kd_header_v2").parse ⟨EndToEnd.noPlist, fun r => r.rest.length + 1⟩ [])
        (Reader.ofBytes exDeclHeader) with
     | (.ok h, _) => some (h.count, h.is64, h.tick, h.threadmap)
     | (.error _, _) => none) =
    some (2, 1, 24, [⟨5, 9, [0x61, 0x62]⟩, ⟨6, 9, [0xc3, 0xa9]⟩]) := by decide +kernel

example :
    (match PyIRCn.project PyIRCn.CVal.toHeaderV2
        ((Gen.PyIRCn.module.decl "kd_header_v2").parse ⟨EndToEnd.noPlist, fun r => r.rest.length + 1⟩ [])
        (Reader.ofBytes exDeclHeader) with
     | (.ok h, r) => some (h.pad, r.pos, r.calls, r.got)
     | (.error _, _) => none) = some (3, 351, 16, 352) := by decide +kernel

/-- non-vacuity: a name field without NUL is the StreamError of `NullTerminated`, after the three reads of the entry -/
example :
    (match PyIRCn.project PyIRCn.CVal.toThreadEntry ((Gen.PyIRCn.module.decl "kd_threadmap").parse ⟨EndToEnd.noPlist, fun _ => 0⟩ [])
        (Reader.ofBytes (exEntry 5 9 (List.replicate 20 0x41) ++ [1, 2, 3])) with
     | (x, r) => (PyIRCn.outcome x, r.pos, r.calls)) = ((none, some .streamError), 32, 3) := by decide +kernel

/-- non-vacuity: a name that is not UTF-8 (a lone 0xff) is the model's error for StringError -/
example :
    (match PyIRCn.project PyIRCn.CVal.toThreadEntry ((Gen.PyIRCn.module.decl "kd_threadmap").parse ⟨EndToEnd.noPlist, fun _ => 0⟩ [])
        (Reader.ofBytes (exEntry 5 9 ([0xff, 0] ++ List.replicate 18 0))) with
     | (x, r) => (PyIRCn.outcome x, r.pos, r.calls)) = ((none, some .streamError), 32, 3) := by decide +kernel

/-- … and a well-formed entry is read -/
example :
    (PyIRCn.project PyIRCn.CVal.toThreadEntry ((Gen.PyIRCn.module.decl "kd_threadmap").parse ⟨EndToEnd.noPlist, fun _ => 0⟩ [])
        (Reader.ofBytes (exEntry 5 9 ([0x61, 0] ++ List.replicate 18 0xff)))).1.toOption = some ⟨5, 9, [0x61]⟩ := by decide +kernel

end KdVerif.C02
