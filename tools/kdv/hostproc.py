"""A fresh interpreter in which the host tables ARE Darwin's before the package under test is imported:
   python -m kdv.hostproc [host|darwin|scrambled] [stream|fresh|search]   (stdin: one JSON object per line; stdout: one JSON answer per line)
An in-process swap of the objects a handler module imported cannot see a table captured at import time (a module-level
tuple or dict built from errno.errorcode); replacing the tables before the import can."""
import enum
import errno
import json
import signal
import socket
import sys

from .darwin_tables import DARWIN_ERRNO, DARWIN_SIGNALS, DARWIN_AF, DARWIN_SK, DARWIN_SOL


def install_darwin():
    errno.errorcode.clear()
    errno.errorcode.update(DARWIN_ERRNO)
    signal.Signals = enum.IntEnum('Signals', {v: k for k, v in DARWIN_SIGNALS.items()})
    socket.AddressFamily = enum.IntEnum('AddressFamily', {v: k for k, v in DARWIN_AF.items()})
    socket.SocketKind = enum.IntEnum('SocketKind', {v: k for k, v in DARWIN_SK.items()})
    socket.SOL_SOCKET = DARWIN_SOL
    # the modules' own constants follow the tables, as on a Darwin host: a name Darwin does not define does not exist there
    # (socket.SOCK_NONBLOCK, AF_PACKET, errno.ERFKILL, signal.SIGPWR, …), a name it defines has Darwin's number
    import _socket
    for mods, prefix, table, enum_cls in (((socket, _socket), 'SOCK_', DARWIN_SK, socket.SocketKind),
                                          ((socket, _socket), 'AF_', DARWIN_AF, socket.AddressFamily),
                                          ((signal,), 'SIG', DARWIN_SIGNALS, signal.Signals),
                                          ((errno,), 'E', DARWIN_ERRNO, None)):
        by_name = {v: k for k, v in table.items()}
        for mod in mods:
            for name in list(vars(mod)):
                if not name.startswith(prefix) or name != name.upper() or not isinstance(getattr(mod, name), int):
                    continue
                if prefix == 'SIG' and name.startswith('SIG_'):
                    continue
                if name in by_name:
                    member = enum_cls[name] if (enum_cls is not None and mod is not _socket) else by_name[name]
                    setattr(mod, name, member)
                else:
                    delattr(mod, name)


def install_scramble():
    """Another host in every respect EXCEPT the five tables the known host readers consult (errno.errorcode, Signals,
    AddressFamily, SocketKind, SOL_SOCKET stay as they are): the plain integer constants of the modules that describe the
    platform are rotated within their name prefix (IPPROTO_*, O_*, E*, SIG*, MSG_*, …), the message functions answer
    differently, the platform names differ.  A rendering that changes under it reads something of the host that is not one
    of the known tables."""
    import importlib
    import os
    import platform
    for modname in ('socket', 'errno', 'signal', 'os', 'stat', 'fcntl', 'select', 'resource', 'termios', 'mmap', 'posix',
                    '_socket', 'tty', 'syslog', 'locale'):
        try:
            mod = importlib.import_module(modname)
        except Exception:
            continue
        groups = {}
        for name, val in list(vars(mod).items()):
            if not name[:1].isupper() or name != name.upper() or type(val) is not int:
                continue
            if modname in ('socket', '_socket') and name == 'SOL_SOCKET':
                continue
            prefix = name.split('_')[0] if '_' in name else name[:1]
            groups.setdefault(prefix, []).append(name)
        for names in groups.values():
            names.sort()
            vals = [getattr(mod, n) for n in names]
            if len(set(vals)) < 2:
                continue
            for n, v in zip(names, vals[1:] + vals[:1]):
                try:
                    setattr(mod, n, v)
                except Exception:
                    pass
    os.strerror = lambda code: 'host message %d' % code
    signal.strsignal = lambda code: 'host signal %d' % code
    platform.system = lambda: 'Darwin' if platform.uname().system != 'Darwin' else 'Linux'
    platform.machine = lambda: 'scrambled'


def main():
    """argv: [host|darwin] [stream|fresh|search]
    stream - one decoder case per line, rendered one after the other in this interpreter (the first line is rendered first
             thing, every later one after the earlier ones);
    fresh  - every line rendered in its own fork of this interpreter, in which nothing was rendered before;
    search - one request per line for kdv.neighbours.search (history dependence of renderings)."""
    host = sys.argv[1] if len(sys.argv) > 1 else 'darwin'
    mode = sys.argv[2] if len(sys.argv) > 2 else 'stream'
    if host == 'scrambled':
        install_scramble()
    elif host != 'host':
        install_darwin()
    from . import core
    from . import decoders as D
    from . import neighbours as N

    def text(c):
        try:
            if c.get('unprinted'):                # decoded as a request does that never prints the record (a process filter
                D.trace_of(c)                     # that hides it, a callstacks request): the handler runs, str() does not
                return 'decoded'
            return D.text_of(D.impl_fn(c))
        except Exception as e:
            return 'raise ' + core.err_name(e)
    out = sys.stdout
    for ln in sys.stdin:
        c = json.loads(ln)
        if mode == 'search':
            t = N.search(c)
        elif mode == 'fresh':
            t = N.in_child(lambda: text(c))
        else:
            t = text(c)
        out.write(json.dumps(t) + '\n')
        out.flush()


if __name__ == '__main__':
    main()
