import KdVerif.Spec.PyIRRdExpected
import KdVerif.Proofs.Trunc
import KdVerif.Proofs.Cost
/-
  The expected IR of the reader code (`Spec/PyIRRdExpected`), run by the interpreter of `Model/PyIRRd`, is the
  hand model of `Model/ContainerV2|V3`: `seekUntil`, `setThreadMap`, `parseV2`, the prefix of `parseV3` up to the
  end of the chunk loop, and the dispatch of `parse` — for every reader state.  Core Lean only.
-/
namespace KdVerif.PyIRRd
open Reader Expected

/-! ### reader steps -/

theorem read1_cons (r : Reader) (b : Nat) (t : Bytes) (h : r.rest = b :: t) :
    (r.read 1).1 = [b] ∧ (r.read 1).2 = r.stepBytes 1 0 ∧ (r.read 1).2.rest = t := by
  refine ⟨by simp [h], ?_, by rw [read_rest, h]; rfl⟩
  simp [Reader.read, Reader.stepBytes, h]

theorem read1_nil (r : Reader) (h : r.rest = []) : (r.read 1).1 = [] ∧ (r.read 1).2 = r.stepBytes 0 1 := by
  refine ⟨by simp [h], ?_⟩
  simp [Reader.read, Reader.stepBytes, h]

theorem stepBytes_stepBytes (r : Reader) (a k e : Nat) : (r.stepBytes a 0).stepBytes k e = r.stepBytes (a + k) e := by
  simp [Reader.stepBytes, Nat.add_assoc]

theorem stepBytes_zero (r : Reader) : r.stepBytes 0 0 = r := by
  simp [Reader.stepBytes]

theorem seekAux_shift (tag : Bytes) : ∀ (rest found : Bytes) (n : Nat),
    seekAux tag rest found (n + 1) = ((seekAux tag rest found n).1, (seekAux tag rest found n).2 + 1)
  | [], found, n => by simp [seekAux]
  | b :: t, found, n => by
    simp only [seekAux]
    split
    · rfl
    · exact seekAux_shift tag t _ (n + 1)

/-! ### seek_until -/

theorem seek_loop (tag : Bytes) : ∀ (rest : Bytes) (fuel : Nat) (found : Bytes) (st : St Unit),
    st.rd.rest = rest → rest.length + 1 ≤ fuel →
    st.env 0 = some (.bytes tag) → st.env 1 = some (.bytes found) →
    ∃ st', whileLoop (fun s => evalC s.env seekCond) (fun s => exec leafParams seekBody s) fuel st =
        ((if (seekAux tag rest found 0).1 then Signal.normal else Signal.err .eof), st') ∧
      st'.rd = st.rd.stepBytes (seekAux tag rest found 0).2 (if (seekAux tag rest found 0).1 then 0 else 1) := by
  intro rest
  induction rest with
  | nil =>
    intro fuel found st hr hf h0 h1
    obtain ⟨f, rfl⟩ : ∃ f, fuel = f + 1 := ⟨fuel - 1, by simp at hf; omega⟩
    by_cases hm : found = tag
    · refine ⟨st, ?_, ?_⟩
      · simp [whileLoop, evalC, seekCond, evalB, h0, h1, hm, seekAux]
      · simp [seekAux, hm, stepBytes_zero]
    · obtain ⟨e1, e2⟩ := read1_nil st.rd hr
      refine ⟨{ st with rd := (st.rd.read 1).2, env := st.env.set 2 (.bytes (st.rd.read 1).1) }, ?_, ?_⟩
      · simp [whileLoop, evalC, seekCond, evalB, h0, h1, hm, seekAux, seekBody, exec, evalI, hr, Env.set]
      · simp [seekAux, hm, e2]
  | cons b t ih =>
    intro fuel found st hr hf h0 h1
    obtain ⟨f, rfl⟩ : ∃ f, fuel = f + 1 := ⟨fuel - 1, by simp at hf; omega⟩
    by_cases hm : found = tag
    · refine ⟨st, ?_, ?_⟩
      · simp [whileLoop, evalC, seekCond, evalB, h0, h1, hm, seekAux]
      · simp [seekAux, hm, stepBytes_zero]
    · obtain ⟨e1, e2, e3⟩ := read1_cons st.rd b t hr
      let st1 : St Unit :=
        { st with rd := (st.rd.read 1).2,
                  env := ((st.env.set 2 (.bytes [b])).set 1 (.bytes (found.drop 1 ++ [b]))) }
      have hbody : exec leafParams seekBody st = (.normal, st1) := by
        simp [seekBody, exec, evalI, evalC, evalB, hr, Env.set, h1, st1]
      obtain ⟨st', hl, hrd⟩ := ih f (found.drop 1 ++ [b]) st1 e3 (by simp at hf; omega)
        (by simp [st1, Env.set, h0]) (by simp [st1, Env.set])
      refine ⟨st', ?_, ?_⟩
      · have hc : evalC st.env seekCond = .ok true := by simp [evalC, seekCond, evalB, h0, h1, hm]
        rw [whileLoop]
        simp only [hc, hbody, hl]
        simp [seekAux, hm, seekAux_shift]
      · rw [hrd]
        simp only [seekAux, hm, if_false, seekAux_shift, st1, e2]
        rw [stepBytes_stepBytes, Nat.add_comm]

/-- `seek_until`, interpreted, is the model's `seekUntil`: same result, same reader, same read counters. -/
theorem runSeek_expected (tag : Bytes) (r : Reader) : runSeek Expected.seekUntil tag r = KdVerif.seekUntil tag r := by
  rw [seekUntil_eq]
  let st1 : St Unit :=
    ⟨(Env.empty.set 0 (.bytes tag)).set 1 (.bytes (r.read tag.length).1), (r.read tag.length).2, Tables.empty, none, []⟩
  obtain ⟨st', hl, hrd⟩ := seek_loop tag (r.read tag.length).2.rest (loopFuel st1) (r.read tag.length).1 st1 rfl
    (by simp [loopFuel, st1]) (by simp [st1, Env.set]) (by simp [st1, Env.set])
  have hexec : exec leafParams Expected.seekUntil.body ⟨Env.empty.set 0 (.bytes tag), r, Tables.empty, none, []⟩ =
      ((if (seekAux tag (r.read tag.length).2.rest (r.read tag.length).1 0).1 then Signal.normal else Signal.err .eof), st') := by
    simp only [Expected.seekUntil, exec, evalI, evalB, Env.set, if_true]
    exact hl
  simp only [runSeek, Expected.seekUntil, ne_eq, not_true_eq_false, if_false]
  have hexec' := hexec
  simp only [Expected.seekUntil] at hexec'
  rw [hexec']
  cases hb : (seekAux tag (r.read tag.length).2.rest (r.read tag.length).1 0).1
  · simp only [hb, Bool.false_eq_true, if_false] at hrd ⊢
    rw [hrd]
  · simp only [hb, if_true] at hrd ⊢
    rw [hrd]

/-! ### set_thread_map -/

theorem storeAll_expected (t : Tables) (e : ThreadEntry) :
    storeAll t e [(.threadsPids, .tid, .pid), (.pidsNames, .pid, .process)] = .ok (t.add e) := by
  simp [storeAll, storeOne, natField, Tables.add]

theorem forThreads_expected : ∀ (l : List ThreadEntry) (t : Tables),
    forThreads [(.threadsPids, .tid, .pid), (.pidsNames, .pid, .process)] t l = .ok (l.foldl Tables.add t)
  | [], t => rfl
  | e :: es, t => by
    rw [forThreads, storeAll_expected]
    exact forThreads_expected es (t.add e)

/-- `set_thread_map`, interpreted, is the model's `setThreadMap` (clear both tables, then fill in order). -/
theorem execTm_expected (l : List ThreadEntry) (t : Tables) :
    execTm l Expected.setThreadMap t = .ok (KdVerif.setThreadMap t l) := by
  simp only [Expected.setThreadMap, execTm, forThreads_expected, KdVerif.setThreadMap]
  rfl

theorem params_seek {ε : Type} (dec : Bytes → Except PyErr ε) (plist : Bytes → Option PView) :
    (Expected.prog.params dec plist).seek = KdVerif.seekUntil := by
  funext tag r
  exact runSeek_expected tag r

theorem params_setTm {ε : Type} (dec : Bytes → Except PyErr ε) (plist : Bytes → Option PView) :
    (Expected.prog.params dec plist).setTm = KdVerif.setThreadMap := by
  funext t l
  simp [Program.params, Expected.prog, execTm_expected]

/-! ### parse: the dispatch -/

theorem find_versions (v : Bytes) :
    (List.find? (fun kv : BConst × Method => kv.1.val == v) [(.v2, .parseV2), (.v3, .parseV3)]).map (·.2) =
      if v = Gen.Consts.RAW_VERSION2_BYTES then some Method.parseV2
      else if v = Gen.Consts.RAW_VERSION3_BYTES then some Method.parseV3 else none := by
  by_cases h2 : v = Gen.Consts.RAW_VERSION2_BYTES
  · subst h2; simp [List.find?, BConst.val]
  · have b2 : (Gen.Consts.RAW_VERSION2_BYTES == v) = false := by
      rw [beq_eq_false_iff_ne]; exact fun e => h2 e.symm
    by_cases h3 : v = Gen.Consts.RAW_VERSION3_BYTES
    · subst h3; simp [List.find?, BConst.val, b2, h2]
    · have b3 : (Gen.Consts.RAW_VERSION3_BYTES == v) = false := by
        rw [beq_eq_false_iff_ne]; exact fun e => h3 e.symm
      simp [List.find?, BConst.val, b2, b3, h2, h3]

theorem runDispatch_expected (data : Bytes) :
    runDispatch Expected.parse data =
      .ok ((if ((Reader.ofBytes data).read Gen.Consts.RAW_VERSION_SIZE).1 = Gen.Consts.RAW_VERSION2_BYTES then some Method.parseV2
            else if ((Reader.ofBytes data).read Gen.Consts.RAW_VERSION_SIZE).1 = Gen.Consts.RAW_VERSION3_BYTES then some Method.parseV3
            else none),
           ((Reader.ofBytes data).read Gen.Consts.RAW_VERSION_SIZE).2) := by
  simp only [runDispatch, Expected.parse, evalI, IConst.val]
  rw [find_versions]

/-! ### parse_v2 -/

def sigOf : Option PyErr → Signal
  | none => .normal
  | some e => .err e

theorem record_loop {ε : Type} (P : Params ε) : ∀ (g f : Nat) (st : St ε), g ≤ f →
    (recordLoop P.dec g st.rd).2.1 ≠ some .hang →
    ∃ st', whileLoop (fun s => evalC s.env .tt) (fun s => exec P recordBody s) f st =
        (sigOf (recordLoop P.dec g st.rd).2.1, st') ∧
      st'.rd = (recordLoop P.dec g st.rd).2.2 ∧ st'.outs = st.outs ++ (recordLoop P.dec g st.rd).1 ∧
      st'.tables = st.tables ∧ st'.hdr = st.hdr
  | 0, f, st, _, h => by simp [recordLoop] at h
  | g + 1, f, st, hgf, h => by
    obtain ⟨f', rfl⟩ : ∃ f', f = f' + 1 := ⟨f - 1, by omega⟩
    have hk : evalI st.env (.const .keventSize) = .ok 64 := rfl
    by_cases hp : (st.rd.read 64).1 = []
    · refine ⟨{ st with rd := (st.rd.read 64).2, env := st.env.set 1 (.bytes (st.rd.read 64).1) }, ?_, ?_⟩
      · simp only [whileLoop, evalC, recordBody, exec, hk, evalB, Env.set, if_true, hp, decide_true, recordLoop, sigOf]
      · simp only [recordLoop, hp, if_true, List.append_nil, and_self]
    · cases hd : P.dec (st.rd.read 64).1 with
      | error e =>
        refine ⟨{ st with rd := (st.rd.read 64).2, env := st.env.set 1 (.bytes (st.rd.read 64).1) }, ?_, ?_⟩
        · simp only [whileLoop, evalC, recordBody, exec, hk, evalB, Env.set, if_true, hp, decide_false, recordLoop,
            if_false, hd, sigOf]
        · simp only [recordLoop, hp, if_false, hd, List.append_nil, and_self]
      | ok ev =>
        let st2 : St ε :=
          { st with rd := (st.rd.read 64).2, env := st.env.set 1 (.bytes (st.rd.read 64).1), outs := st.outs ++ [ev] }
        have hbody : exec P recordBody st = (.normal, st2) := by
          simp only [recordBody, exec, hk, evalC, evalB, Env.set, if_true, hp, decide_false, hd, st2]
        have hrec : recordLoop P.dec (g + 1) st.rd =
            (ev :: (recordLoop P.dec g (st.rd.read 64).2).1, (recordLoop P.dec g (st.rd.read 64).2).2.1,
              (recordLoop P.dec g (st.rd.read 64).2).2.2) := by
          simp only [recordLoop, hp, if_false, hd]
        rw [hrec] at h ⊢
        obtain ⟨st', hl, h1, h2, h3, h4⟩ := record_loop P g f' st2 (by omega) h
        refine ⟨st', ?_, h1, ?_, h3, h4⟩
        · rw [whileLoop]
          simp only [evalC, hbody]
          exact hl
        · rw [h2]; simp [st2]

/-- `parse_v2`, interpreted, is the model's `parseV2`: same events, same final exception, same tables, same reader
    (position and read counters) — for every reader state and every record decoder that rejects short records. -/
theorem runGen_parseV2 {ε : Type} (dec : Bytes → Except PyErr ε) (plist : Bytes → Option PView)
    (hdec : RejectsShort dec) (hnh : NoHangDec dec) (prior : Tables) (hdr : Option (List Nat × Bytes)) (r : Reader)
    (g : Good r) :
    let x := runGen (Expected.prog.params dec plist) Expected.parseV2 prior hdr r
    let y := KdVerif.parseV2 dec prior r
    x.events = y.events ∧ x.err = y.err ∧ x.tables = y.tables ∧ x.rd = y.rd ∧ x.hdr = hdr := by
  intro x y
  have hx : x = runGen (Expected.prog.params dec plist) Expected.parseV2 prior hdr r := rfl
  have hy : y = KdVerif.parseV2 dec prior r := rfl
  obtain ⟨s1, _⟩ := linA_headerV2 r g
  cases hh : headerV2 r with
  | mk res r1 =>
  rw [hh] at s1
  cases res with
  | error e =>
    have : x = ⟨[], some e, prior, hdr, r1⟩ := by
      rw [hx]; simp [runGen, Expected.parseV2, exec, execPrim, hh]
    rw [this, hy]; simp [KdVerif.parseV2, hh]
  | ok h =>
    let st1 : St ε :=
      ⟨Env.empty.set 0 (.tmap h.threadmap), r1, KdVerif.setThreadMap prior h.threadmap, hdr, []⟩
    have hnohang : (recordLoop dec (r1.rest.length / 64 + 2) st1.rd).2.1 ≠ some .hang := by
      apply recordLoop_nohang dec hdec hnh _ _ s1.good
      simp only [st1, Reader.rest, List.length_drop]
      have := s1.good
      omega
    obtain ⟨st', hl, h1, h2, h3, h4⟩ := record_loop (Expected.prog.params dec plist) (r1.rest.length / 64 + 2)
      (loopFuel st1) st1 (by simp only [loopFuel, st1]; omega) hnohang
    simp only [show (Expected.prog.params dec plist).dec = dec from rfl] at hl h1 h2
    have hexec : exec (Expected.prog.params dec plist) Expected.parseV2 ⟨Env.empty, r, prior, hdr, []⟩ =
        (sigOf (recordLoop dec (r1.rest.length / 64 + 2) r1).2.1, st') := by
      simp only [Expected.parseV2, exec, execPrim, hh, Env.set, if_true, params_setTm]
      exact hl
    rw [hx, hy]
    simp only [runGen, hexec, KdVerif.parseV2, hh]
    cases hq : (recordLoop dec (r1.rest.length / 64 + 2) r1).2.1 with
    | none => simp only [sigOf]; simp [h1, h2, h3, h4, st1, hq]
    | some e => simp only [sigOf]; simp [h1, h2, h3, h4, st1, hq]

/-! ### parse_v3: the chunk loop -/

theorem exec_seq_normal {ε : Type} (P : Params ε) (a b : Stmt) (st st1 : St ε) (h : exec P a st = (.normal, st1)) :
    exec P (.seq a b) st = exec P b st1 := by
  rw [exec, h]

theorem exec_seq_err {ε : Type} (P : Params ε) (a b : Stmt) (st st1 : St ε) (e : PyErr)
    (h : exec P a st = (.err e, st1)) : exec P (.seq a b) st = (.err e, st1) := by
  rw [exec, h]

/-- the body of `for _ in range(size // KEVENT_SIZE)` -/
def recBody : Stmt := .seq (.read 2 (.const .keventSize)) (.yieldKd (.var 2))

theorem records_n {ε : Type} (P : Params ε) : ∀ (n : Nat) (st : St ε),
    ∃ st', forLoop (fun s => exec P recBody s) n st = (sigOf (recordsN P.dec n st.rd).2.1, st') ∧
      st'.rd = (recordsN P.dec n st.rd).2.2 ∧ st'.outs = st.outs ++ (recordsN P.dec n st.rd).1 ∧
      st'.tables = st.tables ∧ st'.hdr = st.hdr ∧ st'.env 1 = st.env 1
  | 0, st => ⟨st, by simp [forLoop, recordsN, sigOf]⟩
  | n + 1, st => by
    have hk : evalI st.env (.const .keventSize) = .ok Gen.Consts.keventSize := rfl
    cases hd : P.dec (st.rd.read Gen.Consts.keventSize).1 with
    | error e =>
      have hrec : recordsN P.dec (n + 1) st.rd = ([], some e, (st.rd.read Gen.Consts.keventSize).2) := by
        simp only [recordsN, hd]
      rw [hrec]
      refine ⟨{ st with rd := (st.rd.read Gen.Consts.keventSize).2,
                        env := st.env.set 2 (.bytes (st.rd.read Gen.Consts.keventSize).1) }, ?_, rfl, ?_, rfl, rfl, ?_⟩
      · simp only [forLoop, recBody, exec, hk, evalB, Env.set, if_true, hd, sigOf]
      · simp only [List.append_nil]
      · simp [Env.set]
    | ok ev =>
      have hrec : recordsN P.dec (n + 1) st.rd =
          (ev :: (recordsN P.dec n (st.rd.read Gen.Consts.keventSize).2).1,
            (recordsN P.dec n (st.rd.read Gen.Consts.keventSize).2).2.1,
            (recordsN P.dec n (st.rd.read Gen.Consts.keventSize).2).2.2) := by
        simp only [recordsN, hd]
      rw [hrec]
      let st2 : St ε :=
        { st with rd := (st.rd.read Gen.Consts.keventSize).2,
                  env := st.env.set 2 (.bytes (st.rd.read Gen.Consts.keventSize).1), outs := st.outs ++ [ev] }
      have hbody : exec P recBody st = (.normal, st2) := by
        simp only [recBody, exec, hk, evalB, Env.set, if_true, hd, st2]
      obtain ⟨st', hl, h1, h2, h3, h4, h5⟩ := records_n P n st2
      refine ⟨st', ?_, h1, ?_, h3, h4, ?_⟩
      · rw [forLoop]; simp only [hbody]; exact hl
      · rw [h2]; simp [st2]
      · rw [h5]; simp [st2, Env.set]

/-- one iteration of the chunk loop -/
theorem chunk_body {ε : Type} (P : Params ε) (hseek : P.seek = KdVerif.seekUntil) (st : St ε) :
    match KdVerif.seekUntil Gen.Consts.TRACEV3_EVENTS_TAG st.rd with
    | (.error e, r1) => ∃ st', exec P chunkBody st = (.err e, st') ∧ st'.rd = r1 ∧ st'.outs = st.outs ∧
        st'.tables = st.tables ∧ st'.hdr = st.hdr
    | (.ok _, r1) =>
      match int64ul r1 with
      | (.error e, r2) => ∃ st', exec P chunkBody st = (.err e, st') ∧ st'.rd = r2 ∧ st'.outs = st.outs ∧
          st'.tables = st.tables ∧ st'.hdr = st.hdr
      | (.ok size, r2) =>
        match (recordsN P.dec (size / Gen.Consts.keventSize) (r2.read 8).2).2.1 with
        | some e => ∃ st', exec P chunkBody st = (.err e, st') ∧
            st'.rd = (recordsN P.dec (size / Gen.Consts.keventSize) (r2.read 8).2).2.2 ∧
            st'.outs = st.outs ++ (recordsN P.dec (size / Gen.Consts.keventSize) (r2.read 8).2).1 ∧
            st'.tables = st.tables ∧ st'.hdr = st.hdr
        | none => ∃ st', exec P chunkBody st =
              ((if ((recordsN P.dec (size / Gen.Consts.keventSize) (r2.read 8).2).2.2.read
                    Gen.Consts.TRACEV3_MORE_EVENTS.length).1 = Gen.Consts.TRACEV3_MORE_EVENTS
                then Signal.normal else Signal.brk), st') ∧
            st'.rd = ((recordsN P.dec (size / Gen.Consts.keventSize) (r2.read 8).2).2.2.read
                    Gen.Consts.TRACEV3_MORE_EVENTS.length).2 ∧
            st'.outs = st.outs ++ (recordsN P.dec (size / Gen.Consts.keventSize) (r2.read 8).2).1 ∧
            st'.tables = st.tables ∧ st'.hdr = st.hdr := by
  cases hs : KdVerif.seekUntil Gen.Consts.TRACEV3_EVENTS_TAG st.rd with
  | mk res1 r1 =>
  cases res1 with
  | error e =>
    refine ⟨{ st with rd := r1 }, ?_, rfl, rfl, rfl, rfl⟩
    simp only [chunkBody, exec, evalB, BConst.val, hseek, hs]
  | ok u =>
    have h1 : exec P (.callSeek (.const .eventsTag)) st = (.normal, { st with rd := r1 }) := by
      simp only [exec, evalB, BConst.val, hseek, hs]
    dsimp only
    cases hi : int64ul r1 with
    | mk res2 r2 =>
    cases res2 with
    | error e =>
      refine ⟨{ st with rd := r2 }, ?_, rfl, rfl, rfl, rfl⟩
      rw [chunkBody, exec_seq_normal _ _ _ _ _ h1]
      simp only [exec, execPrim, hi]
    | ok size =>
      dsimp only
      let st2 : St ε := { st with rd := r2, env := st.env.set 1 (.int size) }
      have h2 : exec P (.prim .int64ul 1) { st with rd := r1 } = (.normal, st2) := by
        simp only [exec, execPrim, hi, st2]
      let st3 : St ε := { st2 with rd := (r2.read 8).2 }
      have h3 : exec P (.readDrop (.lit 8)) st2 = (.normal, st3) := by
        simp only [exec, evalI, st3, st2]
      have hn : evalI st3.env (.div (.var 1) (.const .keventSize)) = .ok (size / Gen.Consts.keventSize) := by
        simp [evalI, st3, st2, Env.set, IConst.val, Gen.Consts.keventSize]
      obtain ⟨st4, hl, r4, o4, t4, d4, e4⟩ := records_n P (size / Gen.Consts.keventSize) st3
      have hrd3 : st3.rd = (r2.read 8).2 := rfl
      rw [hrd3] at hl r4 o4
      have h4 : exec P chunkRecords st3 =
          (sigOf (recordsN P.dec (size / Gen.Consts.keventSize) (r2.read 8).2).2.1, st4) := by
        simp only [chunkRecords, exec, hn]
        exact hl
      cases hq : (recordsN P.dec (size / Gen.Consts.keventSize) (r2.read 8).2).2.1 with
      | some e =>
        dsimp only
        refine ⟨st4, ?_, r4, by rw [o4], by rw [t4], by rw [d4]⟩
        rw [chunkBody, exec_seq_normal _ _ _ _ _ h1, exec_seq_normal _ _ _ _ _ h2, exec_seq_normal _ _ _ _ _ h3]
        rw [hq] at h4
        exact exec_seq_err _ _ _ _ _ _ h4
      | none =>
        dsimp only
        rw [hq] at h4
        let st5 : St ε :=
          { st4 with rd := (st4.rd.read Gen.Consts.TRACEV3_MORE_EVENTS.length).2,
                     env := st4.env.set 3 (.bytes (st4.rd.read Gen.Consts.TRACEV3_MORE_EVENTS.length).1) }
        refine ⟨st5, ?_, by simp only [st5, r4], by simp only [st5, o4]; rfl, by simp only [st5, t4]; rfl,
          by simp only [st5, d4]; rfl⟩
        rw [chunkBody, exec_seq_normal _ _ _ _ _ h1, exec_seq_normal _ _ _ _ _ h2, exec_seq_normal _ _ _ _ _ h3,
          exec_seq_normal _ _ _ _ _ h4]
        have h5 : exec P (.read 3 (.len (.const .moreEvents))) st4 = (.normal, st5) := by
          simp only [exec, evalI, evalB, BConst.val, st5]
        rw [exec_seq_normal _ _ _ _ _ h5, ← r4]
        by_cases hm : (st4.rd.read Gen.Consts.TRACEV3_MORE_EVENTS.length).1 = Gen.Consts.TRACEV3_MORE_EVENTS
        · have hc : evalC st5.env (.ne (.var 3) (.const .moreEvents)) = .ok false := by
            simp only [evalC, evalB, BConst.val, st5, Env.set, if_true, hm, ne_eq, not_true_eq_false, decide_false]
          rw [exec, hc, if_pos hm]; rfl
        · have hc : evalC st5.env (.ne (.var 3) (.const .moreEvents)) = .ok true := by
            simp only [evalC, evalB, BConst.val, st5, Env.set, if_true, ne_eq, hm, not_false_eq_true, decide_true]
          rw [exec, hc, if_neg hm]; rfl

theorem chunk_loop {ε : Type} (P : Params ε) (hseek : P.seek = KdVerif.seekUntil) :
    ∀ (g f : Nat) (st : St ε), g ≤ f → (chunkLoop P.dec g st.rd).2.1 ≠ some .hang →
    ∃ st', whileLoop (fun s => evalC s.env .tt) (fun s => exec P chunkBody s) f st =
        (sigOf (chunkLoop P.dec g st.rd).2.1, st') ∧
      st'.rd = (chunkLoop P.dec g st.rd).2.2 ∧ st'.outs = st.outs ++ (chunkLoop P.dec g st.rd).1 ∧
      st'.tables = st.tables ∧ st'.hdr = st.hdr
  | 0, f, st, _, h => by simp [chunkLoop] at h
  | g + 1, f, st, hgf, h => by
    obtain ⟨f', rfl⟩ : ∃ f', f = f' + 1 := ⟨f - 1, by omega⟩
    have hb := chunk_body P hseek st
    rw [chunkLoop] at h ⊢
    cases hs : KdVerif.seekUntil Gen.Consts.TRACEV3_EVENTS_TAG st.rd with
    | mk res1 r1 =>
    rw [hs] at hb h
    cases res1 with
    | error e =>
      dsimp only at hb h ⊢
      obtain ⟨st', he, h1, h2, h3, h4⟩ := hb
      refine ⟨st', ?_, h1, by rw [h2]; simp, h3, h4⟩
      rw [whileLoop]; simp only [evalC, he, sigOf]
    | ok u =>
      dsimp only at hb h ⊢
      cases hi : int64ul r1 with
      | mk res2 r2 =>
      rw [hi] at hb h
      cases res2 with
      | error e =>
        dsimp only at hb h ⊢
        obtain ⟨st', he, h1, h2, h3, h4⟩ := hb
        refine ⟨st', ?_, h1, by rw [h2]; simp, h3, h4⟩
        rw [whileLoop]; simp only [evalC, he, sigOf]
      | ok size =>
        dsimp only at hb h ⊢
        cases hq : (recordsN P.dec (size / Gen.Consts.keventSize) (r2.read 8).2).2.1 with
        | some e =>
          rw [hq] at hb h
          dsimp only at hb h ⊢
          obtain ⟨st', he, h1, h2, h3, h4⟩ := hb
          refine ⟨st', ?_, h1, h2, h3, h4⟩
          rw [whileLoop]; simp only [evalC, he, sigOf]
        | none =>
          rw [hq] at hb h
          dsimp only at hb h ⊢
          obtain ⟨st1, he, h1, h2, h3, h4⟩ := hb
          by_cases hm : ((recordsN P.dec (size / Gen.Consts.keventSize) (r2.read 8).2).2.2.read
              Gen.Consts.TRACEV3_MORE_EVENTS.length).1 = Gen.Consts.TRACEV3_MORE_EVENTS
          · rw [if_pos hm] at he h ⊢
            dsimp only at h ⊢
            rw [← h1] at h ⊢
            obtain ⟨st', hl, k1, k2, k3, k4⟩ := chunk_loop P hseek g f' st1 (by omega) h
            refine ⟨st', ?_, k1, ?_, by rw [k3, h3], by rw [k4, h4]⟩
            · rw [whileLoop]; simp only [evalC, he]; exact hl
            · rw [k2, h2, List.append_assoc]
          · rw [if_neg hm] at he ⊢
            dsimp only
            refine ⟨st1, ?_, h1, h2, h3, h4⟩
            rw [whileLoop]; simp only [evalC, he, sigOf]

/-! ### parse_v3 up to the end of the chunk loop -/

theorem threadmapV3_steps (r : Reader) :
    threadmapV3 r =
      match KdVerif.seekUntil Gen.Consts.TRACEV3_STACKSHOT_END (r.read (8 - Gen.Consts.RAW_VERSION_SIZE)).2 with
      | (.error e, ra) => (.error e, ra)
      | (.ok _, ra) =>
        match KdVerif.seekUntil Gen.Consts.TRACEV3_THREADMAP_TAG ra with
        | (.error e, rb) => (.error e, rb)
        | (.ok _, rb) =>
          match prefixedBytes rb with
          | (.error e, rc) => (.error e, rc)
          | (.ok p, rc) => (.ok (greedyEntries p), rc) := by
  unfold threadmapV3
  have h0 : readPlain (8 - Gen.Consts.RAW_VERSION_SIZE) r =
      (.ok (r.read (8 - Gen.Consts.RAW_VERSION_SIZE)).1, (r.read (8 - Gen.Consts.RAW_VERSION_SIZE)).2) := rfl
  rw [RM.bind_ok h0]
  cases ha : KdVerif.seekUntil Gen.Consts.TRACEV3_STACKSHOT_END (r.read (8 - Gen.Consts.RAW_VERSION_SIZE)).2 with
  | mk res ra =>
  cases res with
  | error e => rw [RM.bind_err ha]
  | ok u =>
    rw [RM.bind_ok ha]
    dsimp only
    cases hb : KdVerif.seekUntil Gen.Consts.TRACEV3_THREADMAP_TAG ra with
    | mk res rb =>
    cases res with
    | error e => rw [RM.bind_err hb]
    | ok u =>
      rw [RM.bind_ok hb]
      dsimp only
      cases hc : prefixedBytes rb with
      | mk res rc =>
      cases res with
      | error e => rw [RM.bind_err hc]
      | ok p => rw [RM.bind_ok hc]; rfl

/-- the statements of `parse_v3` behind the header, as one sequence -/
def v3AfterHeader : Stmt :=
  .seq (.readDrop (.sub (.lit 8) (.const .rawVersionSize)))
    (.seq (.callSeek (.const .stackshotEnd))
      (.seq (.callSeek (.const .threadmapTag))
        (.seq (.prim .threadmapV3 0)
          (.seq (.setThreadMap 0)
            (.while .tt chunkBody)))))

theorem parseV3_eq : Expected.parseV3 = .seq (.prim .headerV3 0) v3AfterHeader := rfl

/-- `parse_v3` up to the end of its chunk loop, interpreted, followed by the hand-modelled tail
    (`reader.seek(-8, 1)`, the additional-data blocks, the log records) is the model's `parseV3`. -/
theorem parseV3_via_ir {ε : Type} (plist : Bytes → Option PView) (dec : Bytes → Except PyErr ε)
    (hdec : RejectsShort dec) (hnh : NoHangDec dec) (prior : PState) (r : Reader) (g : Good r) :
    KdVerif.parseV3 plist dec prior r =
      (match (runGen (Expected.prog.params dec plist) Expected.parseV3 prior.tables prior.md.header r).err with
       | some e =>
         ⟨(runGen (Expected.prog.params dec plist) Expected.parseV3 prior.tables prior.md.header r).events.map .ev,
          some e,
          (runGen (Expected.prog.params dec plist) Expected.parseV3 prior.tables prior.md.header r).tables,
          (runGen (Expected.prog.params dec plist) Expected.parseV3 prior.tables prior.md.header r).tables,
          { prior.md with header :=
              (runGen (Expected.prog.params dec plist) Expected.parseV3 prior.tables prior.md.header r).hdr },
          (runGen (Expected.prog.params dec plist) Expected.parseV3 prior.tables prior.md.header r).rd⟩
       | none =>
         tailV3 plist
          (runGen (Expected.prog.params dec plist) Expected.parseV3 prior.tables prior.md.header r).events
          (runGen (Expected.prog.params dec plist) Expected.parseV3 prior.tables prior.md.header r).tables
          { prior.md with header :=
              (runGen (Expected.prog.params dec plist) Expected.parseV3 prior.tables prior.md.header r).hdr }
          (runGen (Expected.prog.params dec plist) Expected.parseV3 prior.tables prior.md.header r).rd) := by
  have hP : (Expected.prog.params dec plist).plist = plist := rfl
  have hD : (Expected.prog.params dec plist).dec = dec := rfl
  obtain ⟨s1, _⟩ := linA_headerV3 plist r g
  unfold KdVerif.parseV3
  cases hh : headerV3 plist r with
  | mk res r1 =>
  rw [hh] at s1
  cases res with
  | error e =>
    have hx : runGen (Expected.prog.params dec plist) Expected.parseV3 prior.tables prior.md.header r =
        ⟨[], some e, prior.tables, prior.md.header, r1⟩ := by
      simp only [runGen, parseV3_eq, exec, execPrim, hP, hh]
    rw [hx]
    rfl
  | ok h =>
    dsimp only
    let st1 : St ε := ⟨Env.empty, r1, prior.tables, some h, []⟩
    have e1 : exec (Expected.prog.params dec plist) (.prim .headerV3 0) ⟨Env.empty, r, prior.tables, prior.md.header, []⟩ =
        (.normal, st1) := by
      simp only [exec, execPrim, hP, hh, st1]
    have hrun : ∀ (sig : Signal) (st' : St ε),
        exec (Expected.prog.params dec plist) v3AfterHeader st1 = (sig, st') →
        exec (Expected.prog.params dec plist) Expected.parseV3 ⟨Env.empty, r, prior.tables, prior.md.header, []⟩ =
          (sig, st') := by
      intro sig st' hs
      rw [parseV3_eq, exec_seq_normal _ _ _ _ _ e1, hs]
    obtain ⟨s2, _⟩ := linA_threadmapV3 r1 s1.good
    have hsteps := threadmapV3_steps r1
    -- the four statements that make up `threadmapV3`
    have e2 : exec (Expected.prog.params dec plist) (.readDrop (.sub (.lit 8) (.const .rawVersionSize))) st1 =
        (.normal, { st1 with rd := (r1.read (8 - Gen.Consts.RAW_VERSION_SIZE)).2 }) := by
      simp [exec, evalI, IConst.val, Gen.Consts.RAW_VERSION_SIZE, st1]
    cases ha : KdVerif.seekUntil Gen.Consts.TRACEV3_STACKSHOT_END (r1.read (8 - Gen.Consts.RAW_VERSION_SIZE)).2 with
    | mk resa ra =>
    rw [ha] at hsteps
    cases resa with
    | error e =>
      dsimp only at hsteps
      have hx := hrun (.err e) { st1 with rd := ra } (by
        rw [v3AfterHeader, exec_seq_normal _ _ _ _ _ e2]
        apply exec_seq_err
        simp only [exec, evalB, BConst.val, params_seek, ha])
      simp only [runGen, hx, hsteps]
      rfl
    | ok ua =>
      dsimp only at hsteps
      have e3 : exec (Expected.prog.params dec plist) (.callSeek (.const .stackshotEnd))
          { st1 with rd := (r1.read (8 - Gen.Consts.RAW_VERSION_SIZE)).2 } = (.normal, { st1 with rd := ra }) := by
        simp only [exec, evalB, BConst.val, params_seek, ha]
      cases hb : KdVerif.seekUntil Gen.Consts.TRACEV3_THREADMAP_TAG ra with
      | mk resb rb =>
      rw [hb] at hsteps
      cases resb with
      | error e =>
        dsimp only at hsteps
        have hx := hrun (.err e) { st1 with rd := rb } (by
          rw [v3AfterHeader, exec_seq_normal _ _ _ _ _ e2, exec_seq_normal _ _ _ _ _ e3]
          apply exec_seq_err
          simp only [exec, evalB, BConst.val, params_seek, hb])
        simp only [runGen, hx, hsteps]
        rfl
      | ok ub =>
        dsimp only at hsteps
        have e4 : exec (Expected.prog.params dec plist) (.callSeek (.const .threadmapTag)) { st1 with rd := ra } =
            (.normal, { st1 with rd := rb }) := by
          simp only [exec, evalB, BConst.val, params_seek, hb]
        cases hc : prefixedBytes rb with
        | mk resc rc =>
        rw [hc] at hsteps
        cases resc with
        | error e =>
          dsimp only at hsteps
          have hx := hrun (.err e) { st1 with rd := rc } (by
            rw [v3AfterHeader, exec_seq_normal _ _ _ _ _ e2, exec_seq_normal _ _ _ _ _ e3,
              exec_seq_normal _ _ _ _ _ e4]
            apply exec_seq_err
            simp only [exec, execPrim, hc])
          simp only [runGen, hx, hsteps]
          rfl
        | ok payload =>
          dsimp only at hsteps
          rw [hsteps] at s2 ⊢
          dsimp only at s2 ⊢
          let st5 : St ε := { st1 with rd := rc, env := Env.empty.set 0 (.tmap (greedyEntries payload)) }
          have e5 : exec (Expected.prog.params dec plist) (.prim .threadmapV3 0) { st1 with rd := rb } =
              (.normal, st5) := by
            simp only [exec, execPrim, hc, st5, st1]
          let st6 : St ε := { st5 with tables := KdVerif.setThreadMap prior.tables (greedyEntries payload) }
          have e6 : exec (Expected.prog.params dec plist) (.setThreadMap 0) st5 = (.normal, st6) := by
            simp only [exec, st5, st6, st1, Env.set, if_true, params_setTm]
          have hnohang : (chunkLoop (Expected.prog.params dec plist).dec (rc.rest.length / 16 + 2) st6.rd).2.1 ≠ some .hang := by
            apply chunkLoop_nohang dec hdec hnh _ _ s2.good
            simp only [Reader.rest, List.length_drop]
            have := s2.good
            omega
          obtain ⟨st', hl, k1, k2, k3, k4⟩ := chunk_loop (Expected.prog.params dec plist) (params_seek dec plist)
            (rc.rest.length / 16 + 2) (loopFuel st6) st6 (by simp only [loopFuel, st6, st5]; omega) hnohang
          simp only [hD] at hl k1 k2
          have hx := hrun _ st' (by
            rw [v3AfterHeader, exec_seq_normal _ _ _ _ _ e2, exec_seq_normal _ _ _ _ _ e3,
              exec_seq_normal _ _ _ _ _ e4, exec_seq_normal _ _ _ _ _ e5, exec_seq_normal _ _ _ _ _ e6]
            rw [exec]
            exact hl)
          have hrd6 : st6.rd = rc := rfl
          rw [hrd6] at hx k1 k2
          cases hq : (chunkLoop dec (rc.rest.length / 16 + 2) rc).2.1 with
          | some e =>
            rw [hq] at hx
            simp only [runGen, hx, sigOf, k1, k2, k3, k4, st6, st5, st1, List.nil_append]
          | none =>
            rw [hq] at hx
            simp only [runGen, hx, sigOf, k1, k2, k3, k4, st6, st5, st1, List.nil_append]

/-! ### the whole parse -/

/-- **`KdBufParser.parse(reader)`, exhausted, is the interpreted source** (dispatch, `parse_v2` entirely,
    `parse_v3` up to the end of its chunk loop, `seek_until`, `set_thread_map`) followed by the hand-modelled tail of
    `parse_v3` — for every byte string and every prior parser state. -/
theorem parse_eq_parseVia {ε : Type} (plist : Bytes → Option PView) (dec : Bytes → Except PyErr ε)
    (hdec : RejectsShort dec) (hnh : NoHangDec dec) (prior : PState) (data : Bytes) :
    KdVerif.parse plist dec prior data = parseVia Expected.prog plist dec prior data := by
  have g0 : Good (Reader.ofBytes data) := Nat.zero_le _
  have g1 : Good ((Reader.ofBytes data).read Gen.Consts.RAW_VERSION_SIZE).2 :=
    (step_read _ Gen.Consts.RAW_VERSION_SIZE g0).good
  unfold KdVerif.parse parseVia
  have hd : Expected.prog.parse = Expected.parse := rfl
  rw [hd, runDispatch_expected]
  by_cases h2 : ((Reader.ofBytes data).read Gen.Consts.RAW_VERSION_SIZE).1 = Gen.Consts.RAW_VERSION2_BYTES
  · simp only [h2, if_true]
    obtain ⟨a, b, c, d, _⟩ := runGen_parseV2 dec plist hdec hnh prior.tables prior.md.header _ g1
    simp only [viaV2]
    have hp : Expected.prog.parseV2 = Expected.parseV2 := rfl
    rw [hp, a, b, c, d]
  · simp only [h2, if_false]
    by_cases h3 : ((Reader.ofBytes data).read Gen.Consts.RAW_VERSION_SIZE).1 = Gen.Consts.RAW_VERSION3_BYTES
    · simp only [h3, if_true]
      rw [parseV3_via_ir plist dec hdec hnh prior _ g1]
      rfl
    · simp only [h3, if_false]

end KdVerif.PyIRRd
