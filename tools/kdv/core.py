"""Check pipeline shared by all properties: regen -> lake build -> axiom audit -> correspondence ->
failing-input search -> evidence / VIOLATION / KNOWN-FINDING reporting.  See DESIGN.md §2.2."""
import fcntl
import hashlib
import json
import os
import random
import re
import subprocess
import sys
import time

VERIF = os.path.dirname(os.path.dirname(os.path.dirname(os.path.abspath(__file__))))
LEAN = os.path.join(VERIF, 'lean')
TOOLS = os.path.join(VERIF, 'tools')
EVIDENCE = os.path.join(VERIF, 'evidence')
REPLAYS = os.path.join(EVIDENCE, 'replays')
if os.environ.get('VERIF_SCRATCH_EVIDENCE'):      # runs against a scratch tree (tools/seedtest.py) must not rewrite the evidence of /repo
    EVIDENCE = os.environ['VERIF_SCRATCH_EVIDENCE']
REPO = os.environ.get('REPO_DIR', '/repo')
DRIVER = os.path.join(LEAN, '.lake', 'build', 'bin', 'kddrv')
PY = '/venv/bin/python'
ALLOWED_AXIOMS = {'propext', 'Classical.choice', 'Quot.sound'}
FORBIDDEN = re.compile(r'\bsorry\b|\badmit\b|^\s*axiom\s|native_decide|bv_decide|implemented_by|\bunsafe\s|maxHeartbeats\s+0\b')

if REPO not in sys.path:
    sys.path.insert(0, REPO)


class Infra(Exception):
    """Infrastructure failure: exit 2, never a VIOLATION."""


def log(*a):
    print(*a, file=sys.stderr, flush=True)


class Lock:
    def __enter__(self):
        self.fd = open(os.path.join(LEAN, '.verif.lock'), 'w')
        fcntl.flock(self.fd, fcntl.LOCK_EX)
        return self

    def __exit__(self, *a):
        fcntl.flock(self.fd, fcntl.LOCK_UN)
        self.fd.close()


def run(cmd, cwd=None, timeout=3600, env=None, input=None):
    e = dict(os.environ)
    e['REPO_DIR'] = REPO
    if env:
        e.update(env)
    p = subprocess.run(cmd, cwd=cwd, capture_output=True, text=True, timeout=timeout, env=e, input=input)
    return p.returncode, p.stdout, p.stderr


def regen():
    rc, out, err = run([PY, os.path.join(TOOLS, 'translate.py')], timeout=600)
    if rc != 0:
        return {'ok': False, 'error': (out + err)[-4000:]}
    try:
        info = json.loads(out.strip().splitlines()[-1])
    except Exception:
        info = {}
    info['ok'] = True
    return info


def lake_build(targets, clean=False):
    if clean:
        run(['lake', 'clean'], cwd=LEAN)
    t0 = time.time()
    rc, out, err = run(['lake', 'build'] + targets, cwd=LEAN, timeout=3600)
    return {'ok': rc == 0, 'wall_s': round(time.time() - t0, 1), 'log': (out + err)[-6000:] if rc != 0 else ''}


def strip_comments(text):
    text = re.sub(r'/-.*?-/', '', text, flags=re.S)
    return re.sub(r'--.*', '', text)


def lean_closure(module):
    """Source files of `module` and everything under KdVerif it imports (transitively)."""
    seen, todo = [], [module]
    while todo:
        m = todo.pop()
        if m in seen:
            continue
        path = os.path.join(LEAN, *m.split('.')) + '.lean'
        if not os.path.exists(path):
            continue
        seen.append(m)
        with open(path) as fd:
            for line in fd:
                mm = re.match(r'\s*import\s+((?:KdVerif|Driver)\.[\w.]+)', line)
                if mm:
                    todo.append(mm.group(1))
    return seen


def forbidden_tokens(module):
    hits = []
    for m in lean_closure(module):
        path = os.path.join(LEAN, *m.split('.')) + '.lean'
        with open(path) as fd:
            text = strip_comments(fd.read())
        for i, line in enumerate(text.splitlines(), 1):
            if FORBIDDEN.search(line):
                hits.append(f'{m}: {line.strip()[:120]}')
    return hits


def theorems_of(module, namespace):
    path = os.path.join(LEAN, *module.split('.')) + '.lean'
    with open(path) as fd:
        text = strip_comments(fd.read())
    names = re.findall(r'^\s*(?:protected\s+)?theorem\s+([\w.\'?!]+)', text, flags=re.M)
    examples = len(re.findall(r'^\s*example\b', text, flags=re.M))
    return [f'{namespace}.{n}' for n in names], examples


def audit(module, namespace):
    """#print axioms for every theorem of the property module; returns per-theorem axiom lists."""
    thms, examples = theorems_of(module, namespace)
    src = f'import {module}\n' + ''.join(f'#print axioms {t}\n' for t in thms)
    tmp = os.path.join(LEAN, '.audit_%s_%d.lean' % (module.replace('.', '_'), os.getpid()))
    with open(tmp, 'w') as fd:
        fd.write(src)
    try:
        rc, out, err = run(['lake', 'env', 'lean', tmp], cwd=LEAN, timeout=1200)
    finally:
        os.unlink(tmp)
    res = {}
    text = out + err
    for t in thms:
        m = re.search(r"'%s' depends on axioms: \[(.*?)\]" % re.escape(t), text, flags=re.S)
        if m:
            res[t] = sorted(a.strip() for a in m.group(1).split(',') if a.strip())
        elif re.search(r"'%s' does not depend on any axioms" % re.escape(t), text):
            res[t] = []
        else:
            res[t] = None
    bad = {t: a for t, a in res.items() if a is None or not set(a) <= ALLOWED_AXIOMS}
    return {'ok': rc == 0 and not bad, 'theorems': res, 'bad': bad, 'examples': examples,
            'log': text[-3000:] if (rc != 0 or bad) else ''}


def drive(lines, timeout=3600):
    """Pipe protocol lines through the compiled Lean driver; returns the list of answer lines."""
    if not os.path.exists(DRIVER):
        raise Infra('driver not built: ' + DRIVER)
    data = '\n'.join(lines) + '\n'
    p = subprocess.run([DRIVER], input=data, capture_output=True, text=True, timeout=timeout)
    if p.returncode != 0:
        raise Infra('driver crashed: ' + p.stderr[-2000:])
    out = p.stdout.split('\n')
    if out and out[-1] == '':
        out.pop()
    if len(out) != len(lines):
        raise Infra(f'driver answered {len(out)} lines for {len(lines)} operations')
    return out


def hx(b: bytes) -> str:
    return b.hex()


def hs(s: str) -> str:
    """Texts travel as hex of their UTF-8 encoding (surrogates escaped)."""
    return s.encode('utf-8', 'surrogatepass').hex() or '-'


def err_name(exc) -> str:
    import struct
    table = [(IndexError, 'IndexError'), (KeyError, 'KeyError'), (UnicodeError, 'UnicodeError'),
             (ValueError, 'ValueError'), (AttributeError, 'AttributeError'), (TypeError, 'TypeError'),
             (struct.error, 'StructError'), (EOFError, 'EOF')]
    try:
        import construct
        if isinstance(exc, construct.ConstructError):
            return 'StreamError'
    except ImportError:
        pass
    for cls, nm in table:
        if isinstance(exc, cls):
            return nm
    return type(exc).__name__


class Findings:
    def __init__(self):
        path = os.path.join(VERIF, 'known_findings.json')
        self.entries = []
        if os.path.exists(path):
            with open(path) as fd:
                self.entries = json.load(fd).get('findings', [])

    def known(self, prop, signature):
        for e in self.entries:
            if e.get('status') == 'known' and e['property'] == prop and e['signature'] == signature:
                return e
        return None

    def for_property(self, prop):
        return [e for e in self.entries if e.get('status') == 'known' and e['property'] == prop]


class Report:
    """Collects what a run covered and what failed; writes evidence and prints the verdict lines."""

    def __init__(self, prop, tier, seed):
        self.prop, self.tier, self.seed = prop, tier, seed
        self.t0 = time.time()
        self.broken = []         # names of proof obligations / correspondence sections that no longer check
        self.failures = []       # dict(signature, what, replay) from the failing-input search on the real code
        self.sections = {}       # name -> counters
        self.samples = []
        self.obligations = 0
        self.discharged = 0
        self.theorems = {}
        self.notes = []
        self.assumptions = []
        self.trusted = []
        self.checker_cmd = ''
        self.first_diffs = []

    def section(self, name):
        return self.sections.setdefault(name, {'cases': 0, 'mismatches': 0, 'distinct_nontrivial': 0, 'dist': {}})

    def add_failure(self, signature, what, replay):
        self.failures.append({'signature': signature, 'what': what, 'replay': replay})

    def finish(self):
        findings = Findings()
        os.makedirs(REPLAYS, exist_ok=True)
        known_lines, violations = [], []
        seen_sig = set()
        for f in self.failures:
            if f['signature'] in seen_sig:
                continue
            seen_sig.add(f['signature'])
            k = findings.known(self.prop, f['signature'])
            if k:
                known_lines.append(f"KNOWN-FINDING: property={self.prop} {k['id']} {k['description']}")
            else:
                violations.append(f)
        out_lines = []
        nviol = 0
        if violations:
            for f in violations[:5]:
                h = hashlib.sha1(json.dumps(f['replay'], sort_keys=True, default=str).encode()).hexdigest()[:10]
                path = os.path.join(REPLAYS, f'{self.prop}-{h}.json')
                with open(path, 'w') as fd:
                    json.dump({'property': self.prop, 'signature': f['signature'], 'what': f['what'],
                               'replay': f['replay'], 'broken': self.broken, 'seed': self.seed}, fd, indent=1,
                              default=str)
                out_lines.append(f'VIOLATION property={self.prop} replay={os.path.relpath(path, VERIF)}')
                nviol += 1
        elif self.broken:
            h = hashlib.sha1(json.dumps(self.broken, default=str).encode()).hexdigest()[:10]
            path = os.path.join(REPLAYS, f'{self.prop}-{h}.json')
            with open(path, 'w') as fd:
                json.dump({'property': self.prop, 'no_failing_input_found': True,
                           'no_longer_checks': self.broken, 'first_diffs': self.first_diffs[:10],
                           'seed': self.seed}, fd, indent=1, default=str)
            out_lines.append(
                f'VIOLATION property={self.prop} replay={os.path.relpath(path, VERIF)} no-failing-input-found')
            nviol += 1
        evaluations = sum(s['cases'] for s in self.sections.values())
        distinct = sum(s['distinct_nontrivial'] for s in self.sections.values())
        ev = {
            'property_id': self.prop, 'tier': self.tier, 'seed': self.seed, 'level': 'proof',
            'coverage': {
                'obligations': max(self.obligations, 1), 'discharged': max(self.discharged, 0),
                'checker_cmd': self.checker_cmd,
                'trusted_base': self.trusted,
                'theorems': self.theorems,
                'evaluations': evaluations, 'distinct_nontrivial': distinct,
                'rule': 'correspondence cases (model driver vs. real code on the same input) per section; '
                        'distinct_nontrivial counts distinct inputs that exercise a non-default branch '
                        '(per-section rule in sections.*.rule)',
                'sections': self.sections, 'samples': self.samples[:12],
                'broken': self.broken, 'known_findings_reproduced': known_lines,
                'notes': self.notes,
            },
            'assumptions': self.assumptions,
            'wall_s': round(time.time() - self.t0, 2),
            'violations': nviol,
        }
        os.makedirs(EVIDENCE, exist_ok=True)
        with open(os.path.join(EVIDENCE, f'{self.prop}.json'), 'w') as fd:
            json.dump(ev, fd, indent=1, default=str)
        for l in known_lines:
            print(l)
        for l in out_lines:
            print(l)
        if not out_lines:
            print(f'OK property={self.prop} tier={self.tier} obligations={self.obligations} '
                  f'discharged={self.discharged} correspondence_cases={evaluations} wall={ev["wall_s"]}s')
        return 1 if out_lines else 0


def distinct_count(items):
    return len({json.dumps(i, sort_keys=True, default=str) for i in items})


def run_section(rep, name, cases, line_fn, impl_fn, oracle_fn=None, nontrivial_fn=None, rule='', kind_fn=None,
                sample_fn=None, skip_fn=None):
    """One correspondence section.  cases: JSON-able objects.  line_fn(case) -> protocol line for the Lean
    driver; impl_fn(case) -> canonical answer computed by the real code; oracle_fn(case, impl_answer) ->
    None | (signature, description): the property stated directly on the implementation's answer
    (the failing-input search).  A model/implementation difference marks the section broken."""
    sec = rep.section(name)
    sec['rule'] = rule
    lines = [line_fn(c) for c in cases]
    model = drive(lines) if lines else []
    nontrivial = set()
    gots = []
    for c, line, m in zip(cases, lines, model):
        try:
            got = impl_fn(c)
        except Exception as e:  # the harness itself must not die on an implementation exception
            got = 'err ' + err_name(e)
        gots.append(got)
        sec['cases'] += 1
        skipped = bool(skip_fn and skip_fn(m))
        if skipped:                         # the model declares the input outside its domain: counted, not compared
            sec['dist']['skipped-unmodelled'] = sec['dist'].get('skipped-unmodelled', 0) + 1
            if oracle_fn:                   # … but the property is still checked on the implementation's answer
                r = oracle_fn(c, got)
                if r:
                    rep.add_failure(r[0], r[1], {'section': name, 'case': c, 'line': line[:4000], 'impl': got[:2000]})
            continue
        if kind_fn:
            k = kind_fn(c, got)
            sec['dist'][k] = sec['dist'].get(k, 0) + 1
        if nontrivial_fn is None or nontrivial_fn(c, got):
            nontrivial.add(hashlib.sha1(line.encode()).hexdigest())
        if m != got:
            sec['mismatches'] += 1
            if len(rep.first_diffs) < 10:
                rep.first_diffs.append({'section': name, 'line': line[:2000], 'model': m[:2000], 'impl': got[:2000]})
        if oracle_fn:
            r = oracle_fn(c, got)
            if r:
                rep.add_failure(r[0], r[1], {'section': name, 'case': c, 'line': line[:4000], 'impl': got[:2000]})
    sec['distinct_nontrivial'] += len(nontrivial)
    if sec['mismatches']:
        rep.broken.append(f'correspondence:{name} ({sec["mismatches"]} of {sec["cases"]} cases differ)')
    mirror_section(rep, name, lines, gots, skip_fn)
    if cases and len(rep.samples) < 12:
        i = len(cases) // 2
        rep.samples.append({'section': name, 'line': lines[i][:300], 'answer': model[i][:300]}
                           if sample_fn is None else sample_fn(cases[i]))


def mirror_section(rep, name, lines, gots, skip_fn=None):
    """Translation ties: when the check module registered `rep.mirror = {command: command through the GENERATED IR}`, the
    lines of a section that use such a command are driven a second time through the interpreter of the translated source
    and compared with the SAME answers of the real code (section `<name>-ir`): this tests the translator and the
    interpreter against CPython, not the hand model.  `unsupported` answers (the translation left the subset) are counted,
    not compared."""
    mirror = getattr(rep, 'mirror', None)
    if not mirror or not lines:
        return
    idx = [i for i, l in enumerate(lines) if l.split(' ', 1)[0] in mirror]
    if not idx:
        return
    lines2 = []
    for i in idx:
        head, _, tail = lines[i].partition(' ')
        lines2.append(mirror[head] + (' ' + tail if tail else ''))
    model2 = drive(lines2)
    sec = rep.section(name + '-ir')
    sec['rule'] = ('the cases of section `%s` through the program GENERATED from the source (interpreter of the Python-subset IR) '
                   'against the same answers of the real code' % name)
    for i, l2, m2 in zip(idx, lines2, model2):
        sec['cases'] += 1
        if m2 == 'unsupported':
            sec['dist']['unsupported'] = sec['dist'].get('unsupported', 0) + 1
            continue
        if skip_fn and skip_fn(m2):
            sec['dist']['skipped-unmodelled'] = sec['dist'].get('skipped-unmodelled', 0) + 1
            continue
        sec['distinct_nontrivial'] += 1
        if m2 != gots[i]:
            sec['mismatches'] += 1
            if len(rep.first_diffs) < 10:
                rep.first_diffs.append({'section': name + '-ir', 'line': l2[:2000], 'model': m2[:2000], 'impl': gots[i][:2000]})
    if sec['mismatches'] and not any(b.startswith(f'correspondence:{name}-ir') for b in rep.broken):
        rep.broken.append(f'correspondence:{name}-ir ({sec["mismatches"]} of {sec["cases"]} cases differ)')


def run_code_section(rep, name, cases, oracle_fn, rule='', kind_fn=None, nontrivial_fn=None):
    """A section judged on the implementation alone (inputs too long for a protocol line of the model driver, or an entry
    point the driver has no command for).  oracle_fn(case) -> None | (signature, description[, smaller case for the replay]).
    Counted in the evidence like a correspondence section; `rule` says what is run and what is demanded."""
    sec = rep.section(name)
    sec['rule'] = rule
    sec['code_only'] = True
    nontrivial = set()
    for c in cases:
        sec['cases'] += 1
        if kind_fn:
            k = kind_fn(c)
            sec['dist'][k] = sec['dist'].get(k, 0) + 1
        if nontrivial_fn is None or nontrivial_fn(c):
            nontrivial.add(json.dumps(c, sort_keys=True, default=str))
        r = oracle_fn(c)
        if r:
            rep.add_failure(r[0], r[1], {'section': name, 'case': r[2] if len(r) > 2 else c})
    sec['distinct_nontrivial'] += len(nontrivial)
