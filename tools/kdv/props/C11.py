"""C11 — flag words and packed fields decode to exactly the names of the bits set; the ioctl split is the
exact inverse of Darwin's _IOC packing.

Sections (model driver vs. the real code on the same input, plus an oracle that never looks at the model):
  helpers  – the helper functions called directly (to_vm_prot, to_ast_reasons, to_thread_state,
             to_sampler_action, to_kperf_ti_state, to_callstack_flags, to_rtld_flags, serialize_access_flags)
  open     – serialize_open_flags        stat – serialize_stat_flags
  traces   – str(trace) of decoders that use them (events through TracesParser.feed_generator)
  ioctl    – str(BscIoctl) on structured request words; ioctl-trace – the same through BSC_ioctl events
  decoders-history – neighbour windows of every decoder that shows a word symbolically, rendered back to back: the text of
             a window must not depend on what the interpreter rendered before (tools/kdv/neighbours.py)

The oracle's reference is the dicts below: Darwin's constants, copied into this module by hand (the same
published header values as lean/KdVerif/Spec/Darwin.lean, but held here so that the failing-input search
does not depend on Lean or on the repository's own enum values)."""
import itertools
import json
import re

from .. import core
from ..core import run_section

MODULE = 'KdVerif.Props.C11'
NAMESPACE = 'KdVerif.C11'
TRUSTED = ['Spec/Darwin.lean: Darwin reference constants and _IOC packing, written by hand from the headers '
           '(fcntl.h, _s_ifmt.h/stat.h, unistd.h, socket.h, vm_prot.h, kern/ast.h, kern/thread.h, kperf/*.h, '
           'dlfcn.h, ioccom.h)',
           'tools/gen_flags.py: AST shapes of serialize_open_flags / serialize_stat_flags / the flag comprehensions '
           '/ BscIoctl.__str__ -> Gen/Flags.lean (unknown shapes are listed and stop the build); tied by the '
           'sections helpers/open/stat/traces/ioctl',
           'enum iteration (`for m in E`, `list(E)`, `E.__members__.values()`) reflected from the running interpreter']
ASSUMPTIONS = ['flag words are naturals (they come out of struct.unpack as unsigned 64-bit values)']

# ------------------------------------------------------------------------------------------------
# Darwin reference (oracle side)

O_FLAGS = {'O_RDONLY': 0x0, 'O_WRONLY': 0x1, 'O_RDWR': 0x2, 'O_ACCMODE': 0x3, 'O_NONBLOCK': 0x4, 'O_NDELAY': 0x4,
           'O_APPEND': 0x8,
           'O_SHLOCK': 0x10, 'O_EXLOCK': 0x20, 'O_ASYNC': 0x40, 'O_FSYNC': 0x80, 'O_SYNC': 0x80, 'O_NOFOLLOW': 0x100,
           'O_CREAT': 0x200, 'O_TRUNC': 0x400, 'O_EXCL': 0x800, 'O_EVTONLY': 0x8000, 'O_NOCTTY': 0x20000,
           'O_DIRECTORY': 0x100000, 'O_SYMLINK': 0x200000, 'O_DSYNC': 0x400000, 'O_CLOEXEC': 0x1000000}
S_IFMT = 0o170000
FILE_TYPES = {'S_IFIFO': 0o010000, 'S_IFCHR': 0o020000, 'S_IFDIR': 0o040000, 'S_IFBLK': 0o060000,
              'S_IFREG': 0o100000, 'S_IFLNK': 0o120000, 'S_IFSOCK': 0o140000}
MODE_BITS = {'S_IXOTH': 0o1, 'S_IWOTH': 0o2, 'S_IROTH': 0o4, 'S_IXGRP': 0o10, 'S_IWGRP': 0o20, 'S_IRGRP': 0o40,
             'S_IXUSR': 0o100, 'S_IWUSR': 0o200, 'S_IRUSR': 0o400, 'S_ISVTX': 0o1000, 'S_ISTXT': 0o1000,
             'S_ISGID': 0o2000, 'S_ISUID': 0o4000}
ACCESS = {'F_OK': 0, 'X_OK': 1, 'W_OK': 2, 'R_OK': 4}
MSG = {'MSG_OOB': 0x1, 'MSG_PEEK': 0x2, 'MSG_DONTROUTE': 0x4, 'MSG_EOR': 0x8, 'MSG_TRUNC': 0x10, 'MSG_CTRUNC': 0x20,
       'MSG_WAITALL': 0x40, 'MSG_DONTWAIT': 0x80, 'MSG_EOF': 0x100, 'MSG_WAITSTREAM': 0x200, 'MSG_FLUSH': 0x400,
       'MSG_HOLD': 0x800, 'MSG_SEND': 0x1000, 'MSG_HAVEMORE': 0x2000, 'MSG_RCVMORE': 0x4000, 'MSG_COMPAT': 0x8000,
       'MSG_NEEDSA': 0x10000, 'MSG_NBIO': 0x20000, 'MSG_SKIPCFIL': 0x40000, 'MSG_NOSIGNAL': 0x80000,
       'MSG_USEUPCALL': 0x80000000}
LOCK = {'LOCK_SH': 1, 'LOCK_EX': 2, 'LOCK_NB': 4, 'LOCK_UN': 8}
FILE_FLAGS = {'UF_NODUMP': 0x1, 'UF_IMMUTABLE': 0x2, 'UF_APPEND': 0x4, 'UF_OPAQUE': 0x8, 'UF_COMPRESSED': 0x20,
              'UF_TRACKED': 0x40, 'UF_DATAVAULT': 0x80, 'UF_HIDDEN': 0x8000, 'SF_ARCHIVED': 0x10000,
              'SF_IMMUTABLE': 0x20000, 'SF_APPEND': 0x40000, 'SF_RESTRICTED': 0x80000, 'SF_NOUNLINK': 0x100000}
VM_PROT = {'VM_PROT_NONE': 0, 'VM_PROT_READ': 1, 'VM_PROT_WRITE': 2, 'VM_PROT_EXECUTE': 4, 'VM_PROT_NO_CHANGE': 8,
           'VM_PROT_COPY': 0x10, 'VM_PROT_WANTS_COPY': 0x10, 'VM_PROT_TRUSTED': 0x20, 'VM_PROT_IS_MASK': 0x40,
           'VM_PROT_STRIP_READ': 0x80}
AST = {'AST_NONE': 0, 'AST_PREEMPT': 0x1, 'AST_QUANTUM': 0x2, 'AST_URGENT': 0x4, 'AST_HANDOFF': 0x8, 'AST_YIELD': 0x10,
       'AST_APC': 0x20, 'AST_LEDGER': 0x40, 'AST_BSD': 0x80, 'AST_KPERF': 0x100, 'AST_MACF': 0x200,
       'AST_RESET_PCS': 0x400, 'AST_ARCADE': 0x800, 'AST_GUARD': 0x1000, 'AST_TELEMETRY_USER': 0x2000,
       'AST_TELEMETRY_KERNEL': 0x4000, 'AST_TELEMETRY_PMI': 0x8000, 'AST_SFI': 0x10000, 'AST_DTRACE': 0x20000,
       'AST_TELEMETRY_IO': 0x40000, 'AST_KEVENT': 0x80000, 'AST_REBALANCE': 0x100000, 'AST_UNQUIESCE': 0x200000}
TH_STATE = {'TH_WAIT': 0x1, 'TH_SUSP': 0x2, 'TH_RUN': 0x4, 'TH_UNINT': 0x8, 'TH_TERMINATE': 0x10, 'TH_TERMINATE2': 0x20,
            'TH_WAIT_REPORT': 0x40, 'TH_IDLE': 0x80}
SAMPLER = {n: 1 << i for i, n in enumerate(
    ['SAMPLER_TH_INFO', 'SAMPLER_TH_SNAPSHOT', 'SAMPLER_KSTACK', 'SAMPLER_USTACK', 'SAMPLER_PMC_THREAD',
     'SAMPLER_PMC_CPU', 'SAMPLER_PMC_CONFIG', 'SAMPLER_MEMINFO', 'SAMPLER_TH_SCHEDULING', 'SAMPLER_TH_DISPATCH',
     'SAMPLER_TK_SNAPSHOT', 'SAMPLER_SYS_MEM', 'SAMPLER_TH_INSCYC', 'SAMPLER_TK_INFO'])}
KPERF_TI = {n: 1 << i for i, n in enumerate(
    ['KPERF_TI_RUNNING', 'KPERF_TI_RUNNABLE', 'KPERF_TI_WAIT', 'KPERF_TI_UNINT', 'KPERF_TI_SUSP',
     'KPERF_TI_TERMINATE', 'KPERF_TI_IDLE'])}
CALLSTACK = {'CALLSTACK_VALID': 0x1, 'CALLSTACK_DEFERRED': 0x2, 'CALLSTACK_64BIT': 0x4, 'CALLSTACK_KERNEL': 0x8,
             'CALLSTACK_TRUNCATED': 0x10, 'CALLSTACK_CONTINUATION': 0x20, 'CALLSTACK_KERNEL_WORDS': 0x40,
             'CALLSTACK_TRANSLATED': 0x80, 'CALLSTACK_FIXUP_PC': 0x100}
RTLD = {'RTLD_LAZY': 0x1, 'RTLD_NOW': 0x2, 'RTLD_LOCAL': 0x4, 'RTLD_GLOBAL': 0x8, 'RTLD_NOLOAD': 0x10,
        'RTLD_NODELETE': 0x80, 'RTLD_FIRST': 0x100}
IOC_DIRS = {0x20000000: 'IOC_VOID', 0x40000000: 'IOC_OUT', 0x80000000: 'IOC_IN', 0xc0000000: 'IOC_IN | IOC_OUT'}
IOC_DIRMASK = 0xe0000000
IOCPARM_MASK = 0x1fff


def ioc(direction, group, num, length):
    """Darwin's _IOC (ioccom.h)."""
    return direction | ((length & IOCPARM_MASK) << 16) | (group << 8) | num


# family -> (reference, repository module, enum class name, zero rule: None | 'word' | 'empty')
FAMILIES = {
    'access': (ACCESS, 'bsd', 'BscAccessFlags', 'empty'),
    'msg': (MSG, 'bsd', 'SocketMsgFlags', None),
    'lock': (LOCK, 'bsd', 'FlockOperation', None),
    'fileflags': (FILE_FLAGS, 'bsd', 'BscChangeableFlags', None),
    'vmprot': (VM_PROT, 'mach', 'VmProtection', 'word'),
    'ast': (AST, 'mach', 'AsynchronousSystemTrapsReason', 'word'),
    'thstate': (TH_STATE, 'mach', 'ThreadState', None),
    'sampler': (SAMPLER, 'perf', 'SamplerAction', None),
    'kperfti': (KPERF_TI, 'perf', 'KperfTiState', None),
    'callstack': (CALLSTACK, 'perf', 'CallstackFlag', None),
    'rtld': (RTLD, 'dyld', 'RtldFlag', None),
}
# helper function (module, name) -> (model site, family)
HELPERS = {
    'serialize_access_flags': ('bsd', 'bsd.serialize_access_flags', 'access'),
    'to_vm_prot': ('mach', 'mach.to_vm_prot', 'vmprot'),
    'to_ast_reasons': ('mach', 'mach.to_ast_reasons', 'ast'),
    'to_thread_state': ('mach', 'mach.to_thread_state', 'thstate'),
    'to_sampler_action': ('perf', 'perf.to_sampler_action', 'sampler'),
    'to_kperf_ti_state': ('perf', 'perf.to_kperf_ti_state', 'kperfti'),
    'to_callstack_flags': ('perf', 'perf.to_callstack_flags', 'callstack'),
    'to_rtld_flags': ('dyld', 'dyld.to_rtld_flags', 'rtld'),
}
M64 = (1 << 64) - 1


def mods():
    from .. import impl  # noqa: F401  (puts REPO_DIR first on sys.path and checks the import origin)
    from pykdebugparser.trace_handlers import bsd, mach, perf, dyld
    return {'bsd': bsd, 'mach': mach, 'perf': perf, 'dyld': dyld}


def declared(family):
    ref, mod, cls, _ = FAMILIES[family]
    c = getattr(mods()[mod], cls, None)
    return dict((k, m.value) for k, m in c.__members__.items()) if c is not None else {}


_decl_cache = {}


def decl(family_or_cls):
    if family_or_cls not in _decl_cache:
        if family_or_cls in FAMILIES:
            _decl_cache[family_or_cls] = declared(family_or_cls)
        else:
            c = getattr(mods()['bsd'], family_or_cls, None)
            _decl_cache[family_or_cls] = dict((k, m.value) for k, m in c.__members__.items()) if c else {}
    return _decl_cache[family_or_cls]


def show(names):
    return 'ok ' + (','.join(names) if names else '-')


def names_of(answer):
    body = answer[3:]
    return [] if body == '-' else body.split(',')


# ------------------------------------------------------------------------------------------------
# oracles: the property stated on the implementation's answer, from the reference dicts by bit tests

def value_of(name, ref, own):
    """Reference value of a shown name; a name the reference does not list is 'unchecked': its own value is used."""
    if name in ref:
        return ref[name]
    return own.get(name)


def oracle_family(family, v, answer, tag):
    ref, _, _, zero = FAMILIES[family]
    own = decl(family)
    if not answer.startswith('ok '):
        return (f'{tag}:raises', f'{family} word {v:#x}: {answer}')
    shown = names_of(answer)
    if len(set(shown)) != len(shown):
        return (f'{tag}:duplicate-name', f'{family} word {v:#x} shows a name twice: {shown}')
    declared_bits = [(n, val) for n, val in ref.items() if n in own and val]
    for n in shown:
        val = value_of(n, ref, own)
        if val is None:
            return (f'{tag}:undeclared-name', f'{family} word {v:#x} shows {n}, which is no member')
        if val == 0:
            if zero == 'word' and v == 0:
                continue
            if zero == 'empty' and not any(val2 & v for _, val2 in declared_bits):
                continue
            return (f'{tag}:zero-member-for-nonzero-word', f'{family} word {v:#x} shows {n} (value 0)')
        if not (val & v):
            return (f'{tag}:name-without-bit',
                    f'{family} word {v:#x} shows {n} (Darwin value {val:#x}), but that bit is not set')
    shown_vals = {value_of(n, ref, own) for n in shown}      # an alias is shown under its canonical name
    for n, val in declared_bits:
        if val & (val - 1) == 0 and (val & v) and val not in shown_vals:
            return (f'{tag}:set-bit-not-shown', f'{family} word {v:#x} has bit {val:#x} set but does not show {n}')
    if v == 0 and zero:
        zn = [n for n, val in ref.items() if val == 0 and n in own]
        if zn and shown != zn[:1]:
            return (f'{tag}:zero-word', f'{family} word 0 shows {shown}, expected {zn[:1]}')
    return None


def oracle_open(v, answer, tag='open'):
    own = decl('BscOpenFlags')
    if not answer.startswith('ok '):
        return (f'{tag}:raises', f'open flags {v:#x}: {answer}')
    shown = names_of(answer)
    if len(set(shown)) != len(shown):
        return (f'{tag}:duplicate-name', f'open flags {v:#x} show a name twice: {shown}')
    acc, rest = [], []
    for n in shown:
        val = value_of(n, O_FLAGS, own)
        if val is None:
            return (f'{tag}:undeclared-name', f'open flags {v:#x} show {n}, which is no member')
        (acc if val <= 3 else rest).append((n, val))
    if len(acc) != 1:
        return (f'{tag}:accmode-count', f'open flags {v:#x} show {len(acc)} access-mode names: {shown}')
    want = {0: 'O_RDONLY', 1: 'O_WRONLY', 2: 'O_RDWR'}.get(v & 3)
    if want is not None and acc[0][0] != want:
        return (f'{tag}:accmode-name', f'open flags {v:#x}: access mode {v & 3} shown as {acc[0][0]}, expected {want}')
    for n, val in rest:
        if not (val & v):
            return (f'{tag}:name-without-bit', f'open flags {v:#x} show {n} ({val:#x}) but that bit is not set')
    shown_vals = {val for _, val in rest}
    for n, val in O_FLAGS.items():
        if n in own and val > 3 and val & (val - 1) == 0 and (val & v) and val not in shown_vals:
            return (f'{tag}:set-bit-not-shown', f'open flags {v:#x} have bit {val:#x} set but do not show {n}')
    return None


def oracle_stat(v, answer, tag='stat'):
    own = decl('StatFlags')
    if not answer.startswith('ok '):
        return (f'{tag}:raises', f'mode {v:#o}: {answer}')
    shown = names_of(answer)
    if len(set(shown)) != len(shown):
        return (f'{tag}:duplicate-name', f'mode {v:#o} shows a name twice: {shown}')
    types = []
    for n in shown:
        if n in FILE_TYPES:
            types.append(n)
            continue
        val = value_of(n, MODE_BITS, own)
        if val is None:
            return (f'{tag}:undeclared-name', f'mode {v:#o} shows {n}, which is no member')
        if val & S_IFMT:
            types.append(n)       # a file-type name the reference does not know: checked by count below
            continue
        if not (val & v):
            return (f'{tag}:name-without-bit', f'mode {v:#o} shows {n} ({val:#o}) but that bit is not set')
    shown_vals = {value_of(n, MODE_BITS, own) for n in shown if n not in FILE_TYPES}
    for n, val in MODE_BITS.items():
        if n in own and (val & v) and val not in shown_vals:
            return (f'{tag}:set-bit-not-shown', f'mode {v:#o} has bit {val:#o} set but does not show {n}')
    fld = v & S_IFMT
    want = [n for n, t in FILE_TYPES.items() if t == fld and n in own]
    if fld in FILE_TYPES.values():
        if types != want:
            return (f'{tag}:file-type', f'mode {v:#o}: file type field {fld:#o} shown as {types}, expected {want}')
    elif types:
        return (f'{tag}:file-type', f'mode {v:#o}: field {fld:#o} is no Darwin file type but {types} is shown')
    return None


def oracle_ioctl(case, answer, tag='ioctl'):
    d3, length, group, num, hi = case
    w = (hi << 32) | (d3 << 29) | (length << 16) | (group << 8) | num
    d = w & IOC_DIRMASK
    if d not in IOC_DIRS:
        return None                       # no Darwin macro builds such a word: unconstrained
    assert ioc(d, group, num, length) == w & 0xffffffff
    if not answer.startswith('ok '):
        return (f'{tag}:raises-on-defined-direction',
                f'request {w:#x} = _IOC({IOC_DIRS[d]}, {group}, {num}, {length}) raised {answer[4:]}')
    f = answer.split()
    got = (bytes.fromhex(f[1]).decode(), int(f[2]), int(f[3]), int(f[4]))
    if got != (IOC_DIRS[d], group, num, length):
        return (f'{tag}:not-inverse-of-IOC',
                f'request {w:#x} = _IOC({IOC_DIRS[d]}, {group}, {num}, {length}) shown as {got}')
    return None


# ------------------------------------------------------------------------------------------------
# word generators

def single_bits():
    return [1 << i for i in range(64)]


def subsets(bits, rng, limit):
    """All subsets of the declared bits if there are at most `limit`, else `limit` random ones."""
    bits = sorted(set(bits))
    if 1 << len(bits) <= limit:
        out = []
        for r in range(len(bits) + 1):
            for c in itertools.combinations(bits, r):
                out.append(sum(c))
        return out
    out = [0, sum(bits)]
    for _ in range(limit - 2):
        out.append(sum(b for b in bits if rng.random() < 0.5))
    return out


def family_words(family, rng, tier):
    ref = FAMILIES[family][0]
    own = decl(family)
    bits = [v for v in list(ref.values()) + list(own.values()) if isinstance(v, int) and v > 0]
    limit = 1 << (10 if tier == 'quick' else 14)
    words = subsets(bits, rng, limit) + single_bits() + [0, M64, M64 ^ sum(set(bits)) & M64]
    words += [rng.getrandbits(64) for _ in range(200 if tier == 'quick' else 3000)]
    declared_mask = 0
    for b in bits:
        declared_mask |= b
    for _ in range(100 if tier == 'quick' else 2000):       # declared bits plus one stray undeclared bit
        words.append((rng.getrandbits(64) & declared_mask) | (1 << rng.randrange(64)))
    return words


def open_words(rng, tier):
    shown_bits = sorted({v for v in list(O_FLAGS.values()) + list(decl('BscOpenFlags').values()) if v > 3})
    out = []
    if tier == 'quick':
        low = [b for b in shown_bits if b <= 0x1000000][:16]
        for acc in range(4):
            out += [acc | w for w in subsets(low[:8], rng, 256)]
            out += [acc | b for b in shown_bits] + [acc | sum(shown_bits)]
            out += [acc | (rng.getrandbits(64) & ~3) for _ in range(150)]
    else:
        for acc in range(4):
            out += [acc | w for w in subsets(shown_bits, rng, 1 << 17)]
            out += [acc | (rng.getrandbits(64) & ~3) for _ in range(5000)]
    out += single_bits() + [0, M64] + [rng.getrandbits(64) for _ in range(200)]
    return out


def stat_words(rng, tier):
    perms = sorted(set(MODE_BITS.values()))
    out = []
    for fld in range(16):                                     # every value of the 4-bit file-type field
        base = fld << 12
        if tier == 'quick':
            out += [base, base | 0o7777] + [base | b for b in perms]
            out += [base | rng.getrandbits(12) for _ in range(40)]
            out += [base | rng.getrandbits(12) | (rng.getrandbits(48) << 16) for _ in range(10)]
        else:
            out += [base | p for p in range(4096)]            # × every subset of the twelve mode bits
            out += [base | rng.getrandbits(12) | (rng.getrandbits(48) << 16) for _ in range(200)]
    out += single_bits() + [0, M64] + [rng.getrandbits(64) for _ in range(200)]
    return out


def pick(rng, universe, n, must):
    s = set(must)
    while len(s) < n:
        s.add(rng.choice(universe))
    return sorted(s)


def ioctl_cases(rng, tier):
    """Structured request words: all eight direction patterns × lengths (incl. ≥ 4096) × groups × numbers."""
    if tier == 'quick':
        nl, ng, nn = 32, 16, 16                               # 8*32*16*16 = 2^16
    else:
        nl, ng, nn = 128, 64, 64                              # 8*128*64*64 = 2^22
    lens = pick(rng, range(8192), nl, [0, 1, 2, 4, 8, 16, 255, 256, 4095, 4096, 4097, 6000, 8190, 8191])
    groups = pick(rng, range(256), ng, [0, 1, 0x27, 0x5c, ord('t'), ord('f'), ord('i'), 0x7f, 0x80, 0xff])
    nums = pick(rng, range(256), nn, [0, 1, 2, 104, 127, 128, 254, 255])
    for d3 in range(8):
        for ln in lens:
            for g in groups:
                for n in nums:
                    yield [d3, ln, g, n, 0]


def ioctl_extra(rng, n):
    """Random words, some with bits above bit 31 (the request argument is a 64-bit trace word)."""
    out = []
    for i in range(n):
        hi = rng.getrandbits(32) if i % 2 else 0
        out.append([rng.randrange(8), rng.randrange(8192), rng.randrange(256), rng.randrange(256), hi])
    return out


def ioctl_word(case):
    d3, length, group, num, hi = case
    return (hi << 32) | (d3 << 29) | (length << 16) | (group << 8) | num


# ------------------------------------------------------------------------------------------------
# implementation side

def call_helper(name, v):
    mod = mods()[HELPERS[name][0]]
    return show([m.name for m in getattr(mod, name)(v)])


def impl_ioctl(case):
    bsd = mods()['bsd']
    w = ioctl_word(case)
    text = str(bsd.BscIoctl([], 3, w, 0x10, ''))
    m = re.search(r"/\* _IOC\((.*), '(.)', (\d+), (\d+)\) \*/", text, flags=re.S)
    if not m or not text.startswith(f'ioctl(3, {hex(w)} /* '):
        return 'unparsable ' + text.encode('utf-8', 'surrogatepass').hex()
    return 'ok %s %d %s %s' % (core.hs(m.group(1)), ord(m.group(2)), m.group(3), m.group(4))


_tp = {}


def trace_env():
    if not _tp:
        from .. import impl
        from pykdebugparser.trace_codes import default_trace_codes
        from pykdebugparser.traces_parser import TracesParser
        from pykdebugparser.kevent import from_kd_buf
        codes = default_trace_codes()
        inv = {}
        for k, nm in codes.items():
            inv.setdefault(nm, k)
        _tp.update(codes=codes, inv=inv, TracesParser=TracesParser, from_kd_buf=from_kd_buf,
                   record_args=impl.record_args)
    return _tp


class RendersDifferently(Exception):
    pass


def run_trace(name, paired, start, end=(0, 5, 0, 0), tid=0x1234, parser=None):
    """Feed one START/END window (or one unpaired record) of the named trace point; returns str(trace).  `parser`: a
    TracesParser that already decoded other windows (a dump is decoded by ONE parser); default a new one."""
    t = trace_env()
    eid = t['inv'][name]
    mk = lambda ts, args, q: t['from_kd_buf'](t['record_args'](ts, list(args), tid, eid | q))  # noqa: E731
    evs = [mk(10, start, 1), mk(20, end, 2)] if paired else [mk(10, start, 0)]
    objs = list((parser or t['TracesParser'](t['codes'], {}, {})).feed_generator(evs))
    out = [str(x) for x in objs]
    if len(out) != 1:
        raise ValueError('expected one trace, got %d' % len(out))
    again = str(objs[0])
    if again != out[0]:                                # the names of a decoded word do not wear off
        raise RendersDifferently('%r the first time, %r the second time' % (out[0], again))
    return out[0]


def split_names(text):
    return [] if text in ('', '0') else text.split(' | ')


# key -> (trace point, paired, args builder(v), effective word(v), regex for the names, model line(word), oracle)
def _args(i, v, base=(3, 0, 0, 0)):
    a = list(base)
    a[i] = v
    return a


TRACES = {
    'open': ('BSC_open', True, lambda v: _args(1, v), lambda v: v, r'^open\("", (.*)\), fd: 5$',
             lambda w: f'openflags {w}', lambda w, a: oracle_open(w, a, 'trace-open')),
    'fchmod': ('BSC_fchmod', True, lambda v: _args(1, v), lambda v: v, r'^fchmod\(3, (.*)\)$',
               lambda w: f'statflags {w}', lambda w, a: oracle_stat(w, a, 'trace-fchmod')),
    'access': ('BSC_access', True, lambda v: _args(1, v), lambda v: v, r'^access\("", (.*)\)$',
               lambda w: f'flags bsd.serialize_access_flags {w}',
               lambda w, a: oracle_family('access', w, a, 'trace-access')),
    'recvfrom': ('BSC_recvfrom', True, lambda v: _args(3, v, (3, 0x20, 7, 0)), lambda v: v,
                 r'^recvfrom\(3, 0x20, 7, (.*)\), count: 5$',
                 lambda w: f'flags bsd.handle_recvfrom {w}', lambda w, a: oracle_family('msg', w, a, 'trace-recvfrom')),
    'chflags': ('BSC_chflags', True, lambda v: _args(1, v), lambda v: v, r'^chflags\("", (.*)\)$',
                lambda w: f'flags bsd.handle_chflags {w}', lambda w, a: oracle_family('fileflags', w, a, 'trace-chflags')),
    'fchflags': ('BSC_fchflags', True, lambda v: _args(1, v), lambda v: v, r'^fchflags\(3, (.*)\)$',
                 lambda w: f'flags bsd.handle_fchflags {w}',
                 lambda w, a: oracle_family('fileflags', w, a, 'trace-fchflags')),
    'flock': ('BSC_sys_flock', True, lambda v: _args(1, v), lambda v: v, r'^flock\(3, (.*)\)$',
              lambda w: f'flags bsd.handle_sys_flock {w}', lambda w, a: oracle_family('lock', w, a, 'trace-flock')),
    'sched': ('MACH_SCHED', False, lambda v: _args(0, v, (0, 9, 0, 0)), lambda v: v, r'^MACH_SCHED, to: 9, reason: (.*)$',
              lambda w: f'flags mach.to_ast_reasons {w}', lambda w, a: oracle_family('ast', w, a, 'trace-sched')),
    'block': ('MACH_BLOCK', False, lambda v: _args(0, v, (0, 9, 0, 0)), lambda v: v,
              r'^MACH_BLOCK, reason: (.*), continuation: 0x9$',
              lambda w: f'flags mach.to_ast_reasons {w}', lambda w, a: oracle_family('ast', w, a, 'trace-block')),
    'dispatch-reason': ('MACH_DISPATCH', False, lambda v: _args(1, v, (9, 0, 4, 0)), lambda v: v,
                        r'^MACH_DISPATCH, tid: 9, reason: (.*), state: TH_RUN$',
                        lambda w: f'flags mach.to_ast_reasons {w}',
                        lambda w, a: oracle_family('ast', w, a, 'trace-dispatch')),
    'dispatch-state': ('MACH_DISPATCH', False, lambda v: _args(2, v, (9, 1, 0, 0)), lambda v: v,
                       r'^MACH_DISPATCH, tid: 9, reason: AST_PREEMPT, state: (.*)$',
                       lambda w: f'flags mach.to_thread_state {w}',
                       lambda w, a: oracle_family('thstate', w, a, 'trace-dispatch')),
    'fault-prot': ('RealFaultAddressInternal', False,
                   lambda v: _args(1, ((v & 0xff) << 8) | 2 | (((v >> 8) & 0xffffffffffff) << 16), (0x1000, 0, 0, 4)),
                   lambda v: v & 0xff, r'^RealFaultAddressInternal, vaddr: 0x1000, vm_prot: (.*), type: DBG_PAGEIN_FAULT, pid: 4$',
                   lambda w: f'flags mach.to_vm_prot {w}', lambda w, a: oracle_family('vmprot', w, a, 'trace-fault')),
    'perf-event': ('PERF_Event', False, lambda v: _args(0, v, (0, 9, 0, 0)), lambda v: v,
                   r'^PERF_Event, sample_what: (.*), actionid: 9$',
                   lambda w: f'flags perf.to_sampler_action {w}',
                   lambda w, a: oracle_family('sampler', w, a, 'trace-perf-event')),
    'thd-data': ('PERF_THD_Data', False, lambda v: _args(3, v, (4, 9, 0x30, 0)), lambda v: v & 0xffff,
                 r'^PERF_THD_Data, pid: 4, tid: 9, dq_addr: 0x30, runmode: (.*)$',
                 lambda w: f'flags perf.to_kperf_ti_state {w}',
                 lambda w, a: oracle_family('kperfti', w, a, 'trace-thd-data')),
    'stk-uhdr': ('PERF_STK_UHdr', False, lambda v: _args(0, v, (0, 9, 0, 0)), lambda v: v,
                 r'^PERF_STK_UHdr, flags: (.*), frames count: 9$',
                 lambda w: f'flags perf.to_callstack_flags {w}',
                 lambda w, a: oracle_family('callstack', w, a, 'trace-stk-uhdr')),
    'dlopen': ('DBG_DYLD_TIMING_DLOPEN', True, lambda v: _args(2, v, (0, 0, 0, 0)), lambda v: v,
               r'^dlopen\("", (.*)\), handle: 0x5$',
               lambda w: f'flags dyld.to_rtld_flags {w}', lambda w, a: oracle_family('rtld', w, a, 'trace-dlopen')),
}
TRACE_FAMILY = {'open': None, 'fchmod': None, 'access': 'access', 'recvfrom': 'msg', 'chflags': 'fileflags',
                'fchflags': 'fileflags', 'flock': 'lock', 'sched': 'ast', 'block': 'ast', 'dispatch-reason': 'ast',
                'dispatch-state': 'thstate', 'fault-prot': 'vmprot', 'perf-event': 'sampler', 'thd-data': 'kperfti',
                'stk-uhdr': 'callstack', 'dlopen': 'rtld'}


_shared_parsers = {}


def shared_parser(name):
    if name not in _shared_parsers:
        t = trace_env()
        _shared_parsers[name] = t['TracesParser'](t['codes'], {}, {})
    return _shared_parsers[name]


def impl_trace(case, shared=False):
    key, v = case
    name, paired, build, _, rx, _, _ = TRACES[key]
    text = run_trace(name, paired, build(v), parser=shared_parser(name) if shared else None)
    m = re.match(rx, text, flags=re.S)
    if not m:
        return 'unparsable ' + core.hs(text)
    return show(split_names(m.group(1)))


def impl_ioctl_trace(case):
    w = ioctl_word(case)
    text = run_trace('BSC_ioctl', True, (3, w, 0x10, 0), end=(0, 0, 0, 0))
    m = re.search(r"/\* _IOC\((.*), '(.)', (\d+), (\d+)\) \*/", text, flags=re.S)
    if not m or not text.startswith(f'ioctl(3, {hex(w)} /* '):
        return 'unparsable ' + core.hs(text)
    return 'ok %s %d %s %s' % (core.hs(m.group(1)), ord(m.group(2)), m.group(3), m.group(4))


# ------------------------------------------------------------------------------------------------

def unchecked_members():
    """Declared members the reference tables do not list (reported, never a violation)."""
    out = {}
    for fam, (ref, _, cls, _) in FAMILIES.items():
        miss = [n for n in decl(fam) if n not in ref]
        if miss:
            out[cls] = miss
    for cls, ref in (('BscOpenFlags', O_FLAGS), ('StatFlags', dict(MODE_BITS, **FILE_TYPES))):
        miss = [n for n in decl(cls) if n not in ref]
        if miss:
            out[cls] = miss
    return out


def chunks(it, n):
    buf = []
    for x in it:
        buf.append(x)
        if len(buf) >= n:
            yield buf
            buf = []
    if buf:
        yield buf


def correspondence(rep, rng, tier):
    ok_nonempty = lambda c, got: got.startswith('ok ') and got != 'ok -'  # noqa: E731
    # the model's site list, for the evidence; sites this module does not exercise are named
    try:
        sites = core.drive(['sites'])[0]
        listed = [s.split(':')[0] for s in sites[3:].split(';')] if sites.startswith('ok ') else []
    except core.Infra:
        raise
    exercised = {v[1] for v in HELPERS.values()} | {'bsd.handle_recvfrom', 'bsd.handle_chflags',
                                                   'bsd.handle_fchflags', 'bsd.handle_sys_flock'}
    rep.notes.append('comprehension sites in the source: ' + ', '.join(listed))
    extra = [s for s in listed if s not in exercised]
    if extra:
        rep.notes.append('sites covered by theorems but not exercised by a correspondence section: ' + ', '.join(extra))
    un = unchecked_members()
    rep.notes.append('members absent from the Darwin reference (unchecked values): ' + (json.dumps(un) if un else 'none'))

    # helpers called directly
    cases = []
    for name, (_, site, fam) in HELPERS.items():
        cases += [[name, w] for w in family_words(fam, rng, tier)]
    run_section(rep, 'helpers', cases,
                line_fn=lambda c: f'flags {HELPERS[c[0]][1]} {c[1]}',
                impl_fn=lambda c: call_helper(c[0], c[1]),
                oracle_fn=lambda c, got: oracle_family(HELPERS[c[0]][2], c[1], got, c[0]),
                nontrivial_fn=ok_nonempty, kind_fn=lambda c, got: c[0],
                rule='per helper: every subset of the declared bits (all if ≤ 2^10 quick / 2^14 thorough, else that many '
                     'random subsets), every single bit 0..63, 0, 2^64-1, complement of the declared bits, random 64-bit '
                     'words, declared bits plus one stray bit; non-trivial = distinct (helper, word) showing a name')

    def open_impl(w):
        return show([m.name for m in mods()['bsd'].serialize_open_flags(w)])

    def stat_impl(w):
        return show([m.name for m in mods()['bsd'].serialize_stat_flags(w)])

    run_section(rep, 'open', open_words(rng, tier), line_fn=lambda w: f'openflags {w}', impl_fn=open_impl,
                oracle_fn=lambda w, got: oracle_open(w, got), nontrivial_fn=lambda w, got: got.count(',') >= 1,
                kind_fn=lambda w, got: 'accmode%d' % (w & 3),
                rule='4 access-mode values × subsets of the flag bits outside the field (thorough: all 2^17 subsets of the '
                     'reference+declared bits), single bits, random words; non-trivial = shows a flag besides the mode')
    run_section(rep, 'stat', stat_words(rng, tier), line_fn=lambda w: f'statflags {w}', impl_fn=stat_impl,
                oracle_fn=lambda w, got: oracle_stat(w, got), nontrivial_fn=ok_nonempty,
                kind_fn=lambda w, got: 'type%02d' % ((w & S_IFMT) >> 12),
                rule='all 16 values of the file-type field × mode bits (thorough: all 4096 subsets), stray high bits, '
                     'single bits, random words; non-trivial = shows a name')

    # decoders through the parser
    tcases = []
    for key in TRACES:
        fam = TRACE_FAMILY[key]
        if key == 'open':
            words = open_words(rng, 'quick')
        elif key == 'fchmod':
            words = stat_words(rng, 'quick')
        else:
            words = family_words(fam, rng, 'quick')
        if tier == 'quick':
            words = [words[i] for i in sorted(rng.sample(range(len(words)), min(len(words), 150)))] + [0, 1, M64]
            if fam is not None:      # small families: every subset of the declared bits also through the parser
                ref = FAMILIES[fam][0]
                bits = [b for b in set(ref.values()) | set(decl(fam).values()) if b > 0]
                if len(bits) <= 8:
                    words += subsets(bits, rng, 256)
        tcases += [[key, w] for w in words]

    def trace_line(c):
        key, v = c
        return TRACES[key][5](TRACES[key][3](v))

    def trace_oracle(c, got):
        key, v = c
        if got.startswith('unparsable'):
            return (f'trace-{key}:unparsable', 'str(trace) does not have the expected layout: ' + got[:200])
        if 'RendersDifferently' in got:
            return (f'trace-{key}:renders-differently', 'the names shown for word %#x change between two renderings of the '
                    'same trace object (a one-shot iterator in the decoded field?)' % TRACES[key][3](v))
        return TRACES[key][6](TRACES[key][3](v), got)
    run_section(rep, 'traces', tcases, line_fn=trace_line, impl_fn=impl_trace, oracle_fn=trace_oracle,
                nontrivial_fn=ok_nonempty, kind_fn=lambda c, got: c[0],
                rule='str(trace) of BSC_open, BSC_fchmod, BSC_access, BSC_recvfrom, BSC_chflags, BSC_fchflags, BSC_sys_flock, '
                     'MACH_SCHED, MACH_BLOCK, MACH_DISPATCH (reason, state), RealFaultAddressInternal, PERF_Event, '
                     'PERF_THD_Data, PERF_STK_UHdr, DBG_DYLD_TIMING_DLOPEN: events built with record_args and fed through '
                     'TracesParser.feed_generator; the names are cut out of the text and compared with the model of '
                     'the helper on the argument word the handler passes')

    # the same trace points, all windows of a trace point through ONE parser, each word between two renderings of a neighbour
    scases = []
    for key in TRACES:
        ws = [v for k, v in tcases if k == key]
        for v in (ws if tier != 'quick' else rng.sample(ws, min(len(ws), 50))):
            v2 = v ^ (1 << rng.choice((0, 1, 3, 7, 8, 9, 16, 32, 40, 63)))
            scases += [[key, v2], [key, v], [key, v2]]
    _shared_parsers.clear()
    run_section(rep, 'traces-one-parser', scases, line_fn=trace_line, impl_fn=lambda c: impl_trace(c, shared=True),
                oracle_fn=trace_oracle, nontrivial_fn=ok_nonempty, kind_fn=lambda c, got: c[0],
                rule='the trace points of `traces`, every window of a trace point fed to ONE TracesParser (as the windows of a dump '
                     'are), each word between two renderings of a one-bit neighbour (bit 0, 1, 3, 7, 8, 9, 16, 32, 40 or 63 '
                     'flipped); same oracle as `traces`: the names shown are those of the bits of the window\'s own word')

    # ioctl request words
    kind = lambda c, got: 'dir%d%s' % (c[0], '-len>=4096' if c[1] >= 4096 else '')  # noqa: E731
    for chunk in chunks(itertools.chain(ioctl_cases(rng, tier), ioctl_extra(rng, 2000 if tier == 'quick' else 50000)),
                        1 << 17):
        run_section(rep, 'ioctl', chunk, line_fn=lambda c: f'ioctl {ioctl_word(c)}', impl_fn=impl_ioctl,
                    oracle_fn=oracle_ioctl, nontrivial_fn=lambda c, got: got.startswith('ok '), kind_fn=kind,
                    rule='str(BscIoctl) on (direction bits 0..7) × lengths (0,1,…,4095,4096,4097,…,8191 + random) × groups × '
                         'numbers: 2^16 words quick / 2^22 thorough, plus random words with bits above bit 31; '
                         'non-trivial = distinct words that are shown (no KeyError)')
    icases = [c for c in ioctl_extra(rng, 300 if tier == 'quick' else 5000)]
    icases += [[d3, ln, g, 1, 0] for d3 in range(8) for ln in (0, 8, 4095, 4096, 8191) for g in (0x27, ord('t'), 0xff)]
    run_section(rep, 'ioctl-trace', icases, line_fn=lambda c: f'ioctl {ioctl_word(c)}', impl_fn=impl_ioctl_trace,
                oracle_fn=lambda c, got: oracle_ioctl(c, got, 'trace-ioctl'),
                nontrivial_fn=lambda c, got: got.startswith('ok '), kind_fn=kind,
                rule='the same through BSC_ioctl START/END events and TracesParser.feed_generator')
    # the names shown are a function of the word: neighbour windows rendered back to back, for every decoder that shows a
    # word symbolically (tools/kdv/neighbours.py; oracle: same text as first thing in a fresh interpreter)
    from .. import neighbours
    neighbours.history_section(rep, rng, tier, 'decoders-history', select='symbolic')
    # a broken `ioctl` section appears once per chunk: keep one entry
    seen, uniq = set(), []
    for b in rep.broken:
        k = b.split(' (')[0]
        if k not in seen:
            seen.add(k)
            uniq.append(b)
    rep.broken[:] = uniq
    from .. import decoders as _D
    _D.late_render_section(rep, rng, tier, 'C11')       # what a trace shows is its own word, whatever was decoded after it
    from .. import scenhist
    scenhist.section(rep, rng, tier, 'C11')
    scenhist.parser_history_section(rep, rng, tier, 'C11')


def replay(path):
    with open(path) as fd:
        r = json.load(fd)
    if r.get('no_failing_input_found'):
        print('no failing input was found; no longer checks:', r.get('no_longer_checks'))
        for d in r.get('first_diffs', []):
            print(' section %s: %s\n   model: %s\n   impl : %s' % (d['section'], d['line'], d['model'], d['impl']))
        return 1
    rp = r['replay']
    if rp.get('section') in ('scenario-history', 'parser-history'):
        from .. import scenhist
        bad, lines = (scenhist.replay if rp['section'] == 'scenario-history' else scenhist.replay_parser_history)(rp)
        print('\n'.join(lines))
        if bad:
            print(f'VIOLATION property=C11 replay={path}')
        return 1 if bad else 0
    if rp.get('section') == 'late-render':
        from .. import decoders as _D
        bad, lines = _D.replay_late_render(rp)
        print('\n'.join(lines))
        if bad:
            print(f'VIOLATION property=C11 replay={path}')
        return 1 if bad else 0
    sec, case = rp['section'], rp['case']
    if sec.startswith('decoders-history'):
        from .. import neighbours
        bad, lines = neighbours.replay(rp)
        print('\n'.join(lines))
        if bad:
            print(f'VIOLATION property=C11 replay={path}')
        return 1 if bad else 0
    if sec == 'helpers':
        got, line = call_helper(case[0], case[1]), f'flags {HELPERS[case[0]][1]} {case[1]}'
        res = oracle_family(HELPERS[case[0]][2], case[1], got, case[0])
    elif sec == 'open':
        got, line = show([m.name for m in mods()['bsd'].serialize_open_flags(case)]), f'openflags {case}'
        res = oracle_open(case, got)
    elif sec == 'stat':
        got, line = show([m.name for m in mods()['bsd'].serialize_stat_flags(case)]), f'statflags {case}'
        res = oracle_stat(case, got)
    elif sec in ('traces', 'traces-one-parser'):
        try:
            got = impl_trace(case)
        except Exception as e:
            got = 'err ' + core.err_name(e)
        key, v = case
        line = TRACES[key][5](TRACES[key][3](v))
        res = (f'trace-{key}:unparsable', got) if got.startswith('unparsable') else TRACES[key][6](TRACES[key][3](v), got)
    elif sec in ('ioctl', 'ioctl-trace'):
        try:
            got = impl_ioctl(case) if sec == 'ioctl' else impl_ioctl_trace(case)
        except Exception as e:
            got = 'err ' + core.err_name(e)
        line = f'ioctl {ioctl_word(case)}'
        res = oracle_ioctl(case, got, 'ioctl' if sec == 'ioctl' else 'trace-ioctl')
    else:
        print('unknown section', sec)
        return 2
    print('input:', sec, case)
    print('impl :', got)
    try:
        print('model:', core.drive([line])[0])
    except core.Infra as e:
        print('model: <driver unavailable: %s>' % e)
    if res:
        print('oracle:', res[0], '-', res[1])
        print(f'VIOLATION property=C11 replay={path}')
        return 1
    return 0


LEVEL_TEXT = ('Lean theorems for all words over the executable models of the flag comprehensions, serialize_open_flags, '
              'serialize_stat_flags and the ioctl split, instantiated with tables the translator extracts from the '
              'current source (members walked, iteration source, masks, shifts, zero cases): shown_sound, '
              'shown_complete, singlebit_tables, zero_cases, accmode_name, filetype_name, values_match_darwin '
              '(against hand-written Darwin reference tables), ioc_inverse, ioc_total_on_defined_directions, '
              'ioc_keyerror_iff, ioc_repack; re-checked on every run; tied to the code by differential runs of the '
              'helpers, of str(trace) of sixteen decoder fields and of 2^16 / 2^22 structured ioctl words.')
LEVEL_NOTE = ('Trusted: Lean kernel, Spec/Darwin.lean (reference constants reproduced from the headers\' published '
              'values), tools/gen_flags.py, the correspondence harness. Access-mode field value 3 (O_ACCMODE) is '
              'unconstrained by the property; the theorem records what the code does (O_RDWR). F_OK is shown '
              'whenever no declared access bit is set (also for words with only undeclared bits).')
TECHNIQUE = 'Lean 4 proof over AST/reflection-generated tables + differential correspondence'
