import KdVerif.Model.Construct
/-
  L2: `KdBufParser.set_thread_map` and `KdBufParser.parse_v2` (kd_buf_parser.py).
  The record decoder `dec` (= `from_kd_buf`) is a parameter; generators are modelled as
  (events delivered before the first exception, final outcome, tables, reader with counters).
-/
namespace KdVerif

/-! ### Python dicts with integer keys: insertion-ordered association lists with unique keys -/

def dictSet {β : Type} (k : Nat) (v : β) (l : List (Nat × β)) : List (Nat × β) :=
  if l.any (fun p => p.1 == k) then l.map (fun p => if p.1 == k then (k, v) else p) else l ++ [(k, v)]

def dictGet {β : Type} (k : Nat) (l : List (Nat × β)) : Option β :=
  (l.find? (fun p => p.1 == k)).map (·.2)

/-- The two tables shared by the container parser, the trace parser and the formatter. -/
structure Tables where
  threadsPids : List (Nat × Nat)
  pidsNames : List (Nat × Bytes)
  deriving Repr, DecidableEq

def Tables.empty : Tables := ⟨[], []⟩

def Tables.add (t : Tables) (e : ThreadEntry) : Tables :=
  ⟨dictSet e.tid e.pid t.threadsPids, dictSet e.pid e.name t.pidsNames⟩

/-- `set_thread_map`: `clear()` both dicts, then fill in file order. -/
def setThreadMap (_prior : Tables) (tm : List ThreadEntry) : Tables :=
  tm.foldl Tables.add Tables.empty

structure HeaderV2 where
  count : Nat
  is64 : Nat
  tick : Nat
  threadmap : List ThreadEntry
  pad : Nat
  deriving Repr

/-- fuel for a loop whose every iteration consumes at least one byte (not a read). -/
def restFuel : RM Nat := fun r => (.ok (r.rest.length + 1), r)

/-- `kd_header_v2.parse_stream(reader)`. -/
def headerV2 : RM HeaderV2 := do
  let n ← int32ul
  padding 8
  padding 4
  let is64 ← int32ul
  let tick ← int64ul
  padding 0x100
  let tm ← arrayN threadEntry n
  let fuel ← restFuel
  let pad ← greedyRange constZeroByte fuel
  pure ⟨n, is64, tick, tm, pad.length⟩

/-- What a run of the generator delivered. -/
structure Run (ε : Type) where
  events : List ε
  err : Option PyErr          -- `none`: the generator was exhausted normally
  tables : Tables
  rd : Reader

/-- `while True: buf = reader.read(64); if not buf: break; yield from_kd_buf(buf)`. -/
def recordLoop {ε : Type} (dec : Bytes → Except PyErr ε) : Nat → Reader → List ε × Option PyErr × Reader
  | 0, r => ([], some .hang, r)
  | fuel + 1, r =>
    let p := r.read 64
    if p.1 = [] then ([], none, p.2)
    else match dec p.1 with
      | .error e => ([], some e, p.2)
      | .ok ev =>
        let q := recordLoop dec fuel p.2
        (ev :: q.1, q.2.1, q.2.2)

/-- `parse_v2(reader)` (the reader stands just behind the 4 magic bytes). -/
def parseV2 {ε : Type} (dec : Bytes → Except PyErr ε) (prior : Tables) (r : Reader) : Run ε :=
  match headerV2 r with
  | (.error e, r') => ⟨[], some e, prior, r'⟩
  | (.ok h, r') =>
    let t := setThreadMap prior h.threadmap
    let q := recordLoop dec (r'.rest.length / 64 + 2) r'
    ⟨q.1, q.2.1, t, q.2.2⟩

end KdVerif
