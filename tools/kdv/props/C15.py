"""C15 — callstacks take the sampled frames and attribute each to the right image.

Scenarios are trees: a *block* is a START record, children, an END record (a PERF_Event sample, a
DBG_DYLD_TIMING_LAUNCH_EXECUTABLE window, or a DYLD_uuid_map_a START/END pair); a *leaf* is one record.
Records are emitted depth-first.  The oracle walks the same tree and computes the expected callstacks from
the scenario alone (which images were announced before each sample ends, which stack-data words belong to
the sample) — no bisect, no Lean model."""
import io
import json
import struct

from .. import core
from ..core import run_section

MODULE = 'KdVerif.Props.C15'
NAMESPACE = 'KdVerif.C15'
TRUSTED = ['Model/Callstacks.insertImage / lookupAll / step / feedFrom (the whole feed_generator: trace loop, isinstance dispatch, '
           'frame loop, yield, self.insert_image calls) and "a request starts from empty lists" are tied to the source text of '
           'callstacks_parser.py (__init__, insert_image, feed_generator) and of PyKdebugParser.callstacks by translation '
           '(tools/gen_pyir.py -> Gen/PyIRCs, source_is_expected_ir, insert_image_ir_eq_model, frame_loop_ir_eq_model, '
           'feed_generator_ir_eq_model, callstacks_request_ir_eq_model); trusted for that: the translator and the interpreter '
           'Model/PyIRCs (sections callstacks-ir, feed-generator-ir, request-ir, streams-ir, requests-ir test them against '
           'CPython)',
           'the trace objects feed_generator dispatches on (PerfEvent.ktraces / cs_frames, DyldUuidMapA.load_addr / uuid, '
           'DyldLaunchExecutable.uuid_map_a) are modelled by PyIRCs.Trace; which object a window becomes (handle_event, the '
           'dyld handlers) stays hand-modelled (Model/Callstacks.itemOf / csFrames / sortByAddr, PyIRCs.traceOf), tied by the '
           'sections streams / requests',
           'bisect.bisect (C implementation) modelled by Model/Callstacks.bisect (lo/hi loop on an arbitrary list), '
           'tied by the correspondence section `bisect`',
           'list.insert, list.clear, `in`, sorted(key=) modelled by pyInsert / [] / List membership / a stable insertion sort',
           'uuid.UUID(bytes=…) treated as the identity on 16 bytes',
           'the stream of windows handed to the handlers is Model/Pairing (C04); which handler a window gets is '
           'decided by the code name of its first record (Model/Callstacks.itemOf), tied by section `streams`']
ASSUMPTIONS = ['every request starts from empty image lists (PyKdebugParser.callstacks clears them; a bare '
               'CallstacksParser is given two empty lists)',
               'requests on one PyKdebugParser object are consumed one after the other (the generators share the '
               'two list objects)']

M64 = (1 << 64) - 1
NAMES = ['PERF_Event', 'PERF_STK_UHdr', 'PERF_STK_UData', 'DYLD_uuid_map_a', 'DYLD_uuid_shared_cache_a',
         'DBG_DYLD_TIMING_LAUNCH_EXECUTABLE']
NOISE = ['PERF_THD_Data', 'DYLD_uuid_map_b', 'DYLD_uuid_unmap_a', 'UNKNOWN']
BLOCK_EID = {'sample': 'PERF_Event', 'launch': 'DBG_DYLD_TIMING_LAUNCH_EXECUTABLE', 'mapwin': 'DYLD_uuid_map_a'}
TIDS_C = [0x101, 0x102, 0x103]      # ordinary threads
TIDS_A = [0x201]                    # threads that see END records without a START
TIDS_B = [0x301, 0x302]             # threads that see START records that are never closed

_ctx = {}


def ctx():
    """Event ids looked up by name in the real default_trace_codes() (inverted), once per process."""
    if _ctx:
        return _ctx
    from .. import impl  # noqa: F401  (puts REPO_DIR first on sys.path and checks the import origin)
    from pykdebugparser.trace_codes import default_trace_codes
    from pykdebugparser.trace_handlers.trace import handlers as trace_handlers
    codes = default_trace_codes()
    inv = {}
    for eid, name in codes.items():
        inv.setdefault(name, []).append(eid)
    for n in NAMES + NOISE[:-1]:
        if not inv.get(n):
            raise core.Infra('code name %s not in default_trace_codes()' % n)
    unknown = next(e for e in range(0xEE000000, 0xEF000000, 4) if e not in codes)
    _ctx['codes'] = codes
    _ctx['ids'] = {n: sorted(inv[n]) for n in NAMES + NOISE[:-1]}
    _ctx['ids']['UNKNOWN'] = [unknown]
    _ctx['groups'] = '/'.join(','.join(str(e) for e in _ctx['ids'][n]) for n in NAMES)
    doms = sorted(e for e, n in codes.items() if n in trace_handlers)
    _ctx['doms'] = ','.join(str(e) for e in doms) or '-'
    return _ctx


# ------------------------------------------------------------------------------------------------ scenarios

def uuid_args(u):
    return [int.from_bytes(u[:8], 'little'), int.from_bytes(u[8:], 'little')]


class Gen:
    def __init__(self, rng, size):
        self.rng = rng
        self.size = size
        self.n = 0
        r = rng
        # a small pool of load addresses: adjacent, far apart, extreme
        base = r.choice([0, 1, 0x1000, 0x100000000, r.randrange(1 << 40), M64 - 8])
        pool = {base, min(base + 1, M64), min(base + 2, M64)}
        for _ in range(r.randrange(1, 6)):
            pool.add(r.choice([r.randrange(0, 64), r.randrange(1 << 32), r.randrange(1 << 64), M64, 0,
                               min(base + r.randrange(1, 0x4000), M64)]))
        self.pool = sorted(pool)

    def ts(self):
        self.n += 1
        return self.n * 256 + self.rng.randrange(1, 256)     # low byte never zero (first record of a v2 file)

    def addr(self):
        r = self.rng
        return r.choice(self.pool) if r.random() < 0.9 else r.randrange(1 << 64)

    def frame(self):
        r = self.rng
        a = r.choice(self.pool)
        return r.choice([max(a - 1, 0), a, min(a + 1, M64), a, min(a + r.randrange(0x1000), M64), 0, M64,
                         r.randrange(1 << 64)])

    def uuid(self):
        return self.rng.randbytes(16)

    def leaf(self, name, tid, q, args):
        return {'n': name, 'ts': self.ts(), 'tid': tid, 'q': q, 'a': list(args)}

    def image_leaf(self, name, tid, q=None):
        r = self.rng
        if q is None:
            q = r.choice([0, 0, 0, 3]) if name == 'DYLD_uuid_map_a' else r.choice([0, 0, 0, 3, 1, 2])
        return self.leaf(name, tid, q, uuid_args(self.uuid()) + [self.addr(), r.randrange(1 << 32)])

    def noise(self, tid):
        r = self.rng
        name = r.choice(NOISE)
        return self.leaf(name, tid, r.choice([0, 0, 3, 1, 2]), [r.randrange(1 << 64) for _ in range(4)])

    def other_tid(self, tid):
        return self.rng.choice([t for t in TIDS_C + TIDS_B if t != tid])

    def children(self, kind, tid, depth, open_):
        """Children of a block of `kind` on `tid` (or of the top level: kind None)."""
        r = self.rng
        out = []
        if kind == 'sample':
            out += self.stack_records(tid)
        count = r.randrange(0, self.size) if kind != 'sample' else r.randrange(0, 3)
        for _ in range(count):
            out.append(self.node(kind, tid, depth, open_))
        if kind == 'sample' and r.random() < 0.15:
            r.shuffle(out)
        return out

    def stack_records(self, tid):
        """Header / data records of one sample: counts above, at and below the data supplied, several headers,
        no header, records of another thread in between."""
        r = self.rng
        nrec = r.choice([0, 1, 1, 2, 2, 3, 5])
        words = [self.frame() for _ in range(4 * nrec)]
        total = len(words)
        n = r.choice([0, 1, max(total - 1, 0), total, total, total + 1, total + 5, max(total - 3, 0), M64,
                      r.randrange(0, total + 2)])
        recs = []
        hq = lambda: r.choice([0, 0, 0, 3, 1, 2])
        mode = r.random()
        if mode > 0.12:                                      # a header (else none)
            recs.append(self.leaf('PERF_STK_UHdr', tid, hq(), [r.randrange(1 << 9), n, r.randrange(4), 0]))
        for i in range(nrec):
            if r.random() < 0.15:                            # another thread's stack data in between
                recs.append(self.leaf('PERF_STK_UData', self.other_tid(tid), 0, [self.frame() for _ in range(4)]))
            if r.random() < 0.1:
                recs.append(self.leaf('PERF_STK_UHdr', self.other_tid(tid), 0, [1, r.randrange(9), 0, 0]))
            recs.append(self.leaf('PERF_STK_UData', tid, hq(), words[4 * i:4 * i + 4]))
        if mode > 0.85:                                      # a second header: the first one counts
            recs.insert(r.randrange(1, len(recs) + 1),
                        self.leaf('PERF_STK_UHdr', tid, hq(), [0, r.randrange(0, total + 3), 0, 0]))
        if 0.12 < mode < 0.2 and len(recs) > 1:              # header after (some of) the data
            recs.append(recs.pop(0))
        return recs

    def block(self, kind, tid, depth, open_):
        r = self.rng
        name = BLOCK_EID[kind]
        if kind == 'sample':
            flags = r.choice([8, 8, 8, 9, 0xf, 0x3fff, 8 | r.randrange(1 << 14), r.randrange(1 << 14) & ~8, 0, 7,
                              8 + (1 << 32), r.randrange(1 << 64)])
            sargs = [flags, r.randrange(16), 0, 0]
            eargs = [r.choice([8, 0, flags]), 0, 0, 0]
        elif kind == 'launch':
            sargs = [0, r.randrange(1 << 48), 0, 0]
            eargs = [0, 0, 0, 0]
        else:   # a DYLD_uuid_map_a START … END pair: the START's words count, the END's are a decoy
            sargs = uuid_args(self.uuid()) + [self.addr(), 1]
            eargs = uuid_args(self.uuid()) + [self.addr(), 2]
        start = self.leaf(name, tid, 1, sargs)
        kids = self.children(kind, tid, depth + 1, open_ | {(kind, tid)})
        end = self.leaf(name, tid, 2, eargs)
        return {'b': kind, 's': start, 'e': end, 'c': kids}

    def node(self, kind, tid, depth, open_):
        """One child of a block of `kind` on `tid` (top level: kind None, tid None)."""
        r = self.rng
        here = tid if tid is not None and r.random() < 0.8 else r.choice(TIDS_C + TIDS_B)
        x = r.random()
        if x < 0.30:
            return self.image_leaf('DYLD_uuid_map_a', here)
        if x < 0.42:
            return self.image_leaf('DYLD_uuid_shared_cache_a', here)
        if x < 0.50:
            return self.noise(here)
        if x < 0.54:                                         # END without START (ignored by the pairing)
            k = r.choice(list(BLOCK_EID))
            t = r.choice(TIDS_A)
            if (k, t) not in open_:
                return self.leaf(BLOCK_EID[k], t, 2, uuid_args(self.uuid()) + [self.addr(), 0])
            return self.noise(here)
        if x < 0.58:                                         # START that is never closed
            k = r.choice(list(BLOCK_EID))
            t = r.choice(TIDS_B)
            if (k, t) not in open_:
                return self.leaf(BLOCK_EID[k], t, 1, [8] + uuid_args(self.uuid())[:1] + [self.addr(), 0])
            return self.noise(here)
        if x < 0.64:                                         # single-record sample / launch (no window)
            k = r.choice(['PERF_Event', 'DBG_DYLD_TIMING_LAUNCH_EXECUTABLE'])
            return self.leaf(k, here, r.choice([0, 3]), [8, 2, self.addr(), 0])
        if x < 0.70 and kind != 'sample':
            return self.leaf(r.choice(['PERF_STK_UHdr', 'PERF_STK_UData']), here, r.choice([0, 3, 1, 2]),
                             [self.frame() for _ in range(4)])
        if depth >= 3:
            return self.image_leaf('DYLD_uuid_map_a', here)
        k = r.choice(['sample', 'sample', 'sample', 'launch', 'launch', 'mapwin'])
        t = here if r.random() < 0.7 else r.choice(TIDS_C + TIDS_B)
        if (k, t) in open_:
            cands = [(k2, t2) for k2 in BLOCK_EID for t2 in TIDS_C + TIDS_B if (k2, t2) not in open_]
            k, t = r.choice(cands)
        return self.block(k, t, depth, open_)

    def scenario(self):
        r = self.rng
        nodes = [self.node(None, None, 0, frozenset()) for _ in range(r.randrange(1, self.size + 2))]
        if r.random() < 0.7:       # end with a sample that probes every boundary of the address pool
            nodes.append(self.probe(r.choice(TIDS_C)))
        return nodes

    def probe(self, tid):
        r = self.rng
        frames = []
        for a in self.pool:
            frames += [max(a - 1, 0), a, min(a + 1, M64)]
        frames += [0, M64]
        while len(frames) % 4:
            frames.append(self.frame())
        start = self.leaf('PERF_Event', tid, 1, [8, 0, 0, 0])
        kids = [self.leaf('PERF_STK_UHdr', tid, 0, [1, len(frames), 0, 0])]
        kids += [self.leaf('PERF_STK_UData', tid, 0, frames[i:i + 4]) for i in range(0, len(frames), 4)]
        end = self.leaf('PERF_Event', tid, 2, [0, 0, 0, 0])
        return {'b': 'sample', 's': start, 'e': end, 'c': kids}


def gen_announce_case(rng):
    """Plain announcement sequences (duplicates, permutations of the same set) followed by a probing sample."""
    g = Gen(rng, 3)
    anns = [(a, g.uuid()) for a in g.pool for _ in range(rng.choice([1, 1, 2]))]
    rng.shuffle(anns)
    nodes = []
    for a, u in anns:
        kind = rng.choice(['DYLD_uuid_map_a'] * 3 + ['launch'])
        if kind == 'launch':
            tid = rng.choice(TIDS_C)
            kids = [g.leaf('DYLD_uuid_shared_cache_a', tid, 0, uuid_args(u) + [a, 0])]
            if rng.random() < 0.5:
                kids.append(g.leaf('DYLD_uuid_shared_cache_a', tid, 0, uuid_args(g.uuid()) + [rng.choice(g.pool), 0]))
            nodes.append({'b': 'launch', 's': g.leaf(BLOCK_EID['launch'], tid, 1, [0, 1, 0, 0]),
                          'e': g.leaf(BLOCK_EID['launch'], tid, 2, [0, 0, 0, 0]), 'c': kids})
        else:
            nodes.append(g.leaf(kind, rng.choice(TIDS_C), 0, uuid_args(u) + [a, 0]))
        if rng.random() < 0.3:
            nodes.append(g.probe(rng.choice(TIDS_C)))
    nodes.append(g.probe(rng.choice(TIDS_C)))
    return nodes


def flat(node):
    """Records of a subtree in emission order."""
    if 'b' not in node:
        return [node]
    out = [node['s']]
    for c in node['c']:
        out += flat(c)
    out.append(node['e'])
    return out


def flat_all(nodes):
    out = []
    for n in nodes:
        out += flat(n)
    return out


def rec_bytes(r):
    from ..impl import record_args
    c = ctx()
    eid = c['ids'][r['n']][0]
    return record_args(r['ts'], r['a'], r['tid'], eid | r['q'])


def uuid_of(r):
    return (r['a'][0].to_bytes(8, 'little') + r['a'][1].to_bytes(8, 'little')).hex()


# --------------------------------------------------------------------------------------------------- oracle

def expected(nodes):
    """The callstacks the property demands, from the scenario alone.  Returns a list of
    (timestamp, tid, [(frame, uuid-hex | None, offset | None)])."""
    first = {}          # load address -> uuid of its first announcement
    out = []
    # An END record whose (thread, code) has no START pending belongs to no window at all.
    pending, orphan = set(), set()
    for r in flat_all(nodes):
        key = (r['tid'], r['n'])
        if r['q'] == 1:
            pending.add(key)
        elif r['q'] == 2:
            if key in pending:
                pending.discard(key)
            else:
                orphan.add(r['ts'])

    def announce(a, u):
        if a not in first:
            first[a] = u

    def attribute(f):
        below = [a for a in first if a <= f]
        if not below:
            return (f, None, None)
        a = max(below)
        return (f, first[a], f - a)

    def walk(node):
        if 'b' not in node:
            if node['n'] == 'DYLD_uuid_map_a' and node['q'] in (0, 3):
                announce(node['a'][2], uuid_of(node))
            return
        for c in node['c']:
            walk(c)
        tid = node['s']['tid']
        window = [r for r in flat(node) if r['tid'] == tid and r['ts'] not in orphan]
        if node['b'] == 'mapwin':
            announce(node['s']['a'][2], uuid_of(node['s']))
        elif node['b'] == 'launch':
            for nm in ('DYLD_uuid_map_a', 'DYLD_uuid_shared_cache_a'):     # equal addresses: map records first,
                for r in window:                                             # each kind in stream order
                    if r['n'] == nm:
                        announce(r['a'][2], uuid_of(r))
        else:
            hdrs = [r for r in window if r['n'] == 'PERF_STK_UHdr']
            if node['s']['a'][0] & 8 and hdrs:
                words = []
                for r in window:
                    if r['n'] == 'PERF_STK_UData':
                        words += r['a']
                n = hdrs[0]['a'][1]
                frames = words[:n] if n < len(words) else words
                out.append((node['s']['ts'], tid, [attribute(f) for f in frames]))

    for n in nodes:
        walk(n)
    return out


def parse_answer(ans):
    """'ok ts/tid/f,f:uuid:off;…' -> list of (ts, tid, [(frame, uuid, off)])."""
    body = ans[3:]
    if body == '-':
        return []
    res = []
    for c in body.split(';'):
        ts, tid, fr = c.split('/')
        frames = []
        for f in fr.split(',') if fr else []:
            p = f.split(':')
            frames.append((int(p[0]), None, None) if len(p) == 1 else (int(p[0]), p[1], int(p[2])))
        res.append((int(ts), int(tid), frames))
    return res


def compare(nodes, ans, what=''):
    if not ans.startswith('ok '):
        return ('callstack:raises', f'{what}the callstack generator raised {ans}')
    got = parse_answer(ans)
    exp = expected(nodes)
    if len(got) != len(exp):
        return ('callstack:count', f'{what}{len(got)} callstacks for {len(exp)} qualifying user-stack samples')
    for i, (g, e) in enumerate(zip(got, exp)):
        if g[:2] != e[:2]:
            return ('callstack:stamp', f'{what}callstack {i} stamped {g[:2]}, its START record is {e[:2]}')
        if [f[0] for f in g[2]] != [f[0] for f in e[2]]:
            return ('callstack:frames', f'{what}callstack {i}: frames {[f[0] for f in g[2]]} but the first N words of '
                                        f'the stack-data records are {[f[0] for f in e[2]]}')
        for j, (gf, ef) in enumerate(zip(g[2], e[2])):
            if gf[1] != ef[1]:
                return ('callstack:wrong-image', f'{what}callstack {i} frame {j} ({gf[0]:#x}) attributed to image '
                                                 f'{gf[1]}, the greatest announced load address not above it belongs '
                                                 f'to {ef[1]}')
            if gf[2] != ef[2]:
                return ('callstack:offset', f'{what}callstack {i} frame {j} ({gf[0]:#x}) offset {gf[2]}, expected {ef[2]}')
    return None


# ------------------------------------------------------------------------------------------- implementation

def show_callstacks(cs):
    if not cs:
        return 'ok -'
    out = []
    for c in cs:
        frames = []
        for f in c.frames:
            frames.append(str(f.address) if f.uuid is None else '%d:%s:%d' % (f.address, f.uuid.bytes.hex(), f.offset))
        out.append('%d/%d/%s' % (c.timestamp, c.tid, ','.join(frames)))
    return 'ok ' + ';'.join(out)


def impl_stream(nodes):
    c = ctx()
    from pykdebugparser.callstacks_parser import CallstacksParser
    from pykdebugparser.kevent import from_kd_buf
    from pykdebugparser.traces_parser import TracesParser
    events = [from_kd_buf(rec_bytes(r)) for r in flat_all(nodes)]
    tp = TracesParser(c['codes'], {}, {})
    return show_callstacks(list(CallstacksParser([], []).feed_generator(tp.feed_generator(iter(events)))))


def v2_file(nodes, threads):
    """A raw version-2 dump written independently of the repository's construct layout."""
    recs = flat_all(nodes)
    out = b'\x00\x02\xaa\x55' + struct.pack('<I', len(threads)) + b'\x00' * 12 + struct.pack('<I', 1) \
        + struct.pack('<Q', 24000000) + b'\x00' * 0x100
    for tid, pid, name in threads:
        out += struct.pack('<QI', tid, pid) + name.encode().ljust(20, b'\x00')
    return out + b''.join(rec_bytes(r) for r in recs)


def impl_requests(case):
    from pykdebugparser.pykdebugparser import PyKdebugParser
    p = PyKdebugParser() if case['same'] else None
    res = []
    for nodes in case['reqs']:
        q = p if p is not None else PyKdebugParser()
        try:
            res.append(show_callstacks(list(q.callstacks(io.BytesIO(v2_file(nodes, case['threads']))))))
        except Exception as e:
            res.append('err ' + core.err_name(e))
    return ' | '.join(res)


def oracle_held_request(case):
    """callstacks() is lazy: an earlier request on the same PyKdebugParser may be unread, partly read and still referenced,
    or closed when the next one is made.  The next request's callstacks must be those of ITS dump alone."""
    from pykdebugparser.pykdebugparser import PyKdebugParser
    p = PyKdebugParser()
    a, b = case['reqs']
    g1 = p.callstacks(io.BytesIO(v2_file(a, case['threads'])))
    try:
        if case['first'] == 'partial':
            for _ in range(case['k']):
                next(g1, None)
        elif case['first'] == 'closed':
            next(g1, None)
            g1.close()
        elif case['first'] == 'full':
            list(g1)
    except Exception:
        pass
    try:
        ans = show_callstacks(list(p.callstacks(io.BytesIO(v2_file(b, case['threads'])))))
    except Exception as e:
        ans = 'err ' + core.err_name(e)
    keep = g1                                          # the first request is still referenced while the second is read
    r = compare(b, ans, what='second request on a parser whose first request is %s: ' % case['first'])
    del keep
    if r and r[0] in ('callstack:wrong-image', 'callstack:offset'):
        return ('callstack:stale-images', r[1] + ' (images of the earlier, %s request)' % case['first'], case)
    return (r[0], r[1], case) if r else None


def oracle_stream(nodes, got):
    return compare(nodes, got)


def oracle_requests(case, got):
    parts = got.split(' | ')
    for i, (nodes, ans) in enumerate(zip(case['reqs'], parts)):
        r = compare(nodes, ans, what=f'request {i + 1} of {len(parts)} on one parser object: ')
        if r:
            if i > 0 and r[0] in ('callstack:wrong-image', 'callstack:offset'):
                return ('callstack:stale-images', r[1] + ' (images of an earlier request?)')
            return r
    return None


def line_stream(nodes):
    c = ctx()
    return 'cs %s %s %s' % (c['groups'], c['doms'], ' '.join(rec_bytes(r).hex() for r in flat_all(nodes)))


def line_requests(case):
    c = ctx()
    return 'cs %s %s %s' % (c['groups'], c['doms'],
                            ' | '.join(' '.join(rec_bytes(r).hex() for r in flat_all(n)) for n in case['reqs']))


def impl_bisect(case):
    from .. import impl  # noqa: F401
    import pykdebugparser.callstacks_parser as cp
    return 'ok %d' % cp.bisect(list(case['l']), case['x'])


def oracle_bisect(case, got):
    l, x = case['l'], case['x']
    if any(l[i] > l[i + 1] for i in range(len(l) - 1)):
        return None
    if not got.startswith('ok '):
        return ('bisect:raises', 'bisect raised ' + got)
    if int(got[3:]) != sum(1 for v in l if v <= x):
        return ('bisect:not-upper-bound', f'bisect({l}, {x}) = {got[3:]}: not the number of elements <= x')
    return None


def line_bisect(case):
    return 'bisect %s %d' % (','.join(str(v) for v in case['l']) or '-', case['x'])


def gen_bisect(rng, n):
    cases = []
    for i in range(n):
        ln = rng.choice([0, 1, 2, 3, 4, 5, 7, 8, 9, 16, 17, rng.randrange(0, 40)])
        hi = rng.choice([3, 10, 1 << 64])
        l = [rng.randrange(hi) for _ in range(ln)]
        if i % 4:
            l.sort()
        x = rng.choice(l + [0]) + rng.choice([-1, 0, 0, 1]) if rng.random() < 0.8 else rng.randrange(hi)
        cases.append({'l': l, 'x': max(x, 0)})
    return cases


def has_attributed(ans):
    return ans.startswith('ok ') and ':' in ans


def kind_of(ans):
    if not ans.startswith('ok'):
        return 'raises'
    if ans == 'ok -':
        return 'no-callstack'
    return 'attributed-frames' if ':' in ans else 'only-unattributed-frames'


# ------------------------------------------------------------------------------------------------ translation tie

def gen_ir_case(rng):
    """Announcements (address, 1-2 uuid bytes) over a small pool with repeats / adjacent / extreme addresses, and frames
    below / at / between / above them."""
    base = rng.choice([0, 1, 0x1000, 0x100000000, rng.randrange(1 << 40), M64 - 8])
    pool = sorted({min(base + d, M64) for d in (0, 1, 2, 0x10, 0x1000)} | {rng.randrange(1 << 64), 0, M64})
    anns = [[rng.choice(pool), bytes(rng.randrange(256) for _ in range(rng.choice([1, 2]))).hex()]
            for _ in range(rng.randrange(0, 9))]
    frames = []
    for _ in range(rng.randrange(0, 10)):
        a = rng.choice(pool)
        frames.append(max(0, min(M64, a + rng.choice([-1, 0, 0, 1, 7, rng.randrange(1 << 20)]))))
    return {'anns': anns, 'frames': frames}


def line_ir(case):
    return 'csir %s %s' % (','.join('%d:%s' % (a, u) for a, u in case['anns']) or '-',
                           ','.join(str(f) for f in case['frames']) or '-')


def impl_ir(case):
    """The real CallstacksParser through its two public methods only."""
    import types
    from .. import impl  # noqa: F401
    from pykdebugparser.callstacks_parser import CallstacksParser
    from pykdebugparser.trace_handlers.perf import PerfEvent
    p = CallstacksParser([], [])
    for a, u in case['anns']:
        r = p.insert_image(a, bytes.fromhex(u))
        if r is not None:
            return 'err insert_image-returned-a-value'
    ev = PerfEvent(ktraces=[types.SimpleNamespace(timestamp=7, tid=9)], sample_what=[], actionid=0,
                   cs_frames=list(case['frames']))
    out = list(p.feed_generator([ev]))
    if len(out) != 1 or out[0].timestamp != 7 or out[0].tid != 9:
        return 'err not-one-callstack'
    fr = ','.join(str(f.address) if f.uuid is None and f.offset is None
                  else '%d:%s:%d' % (f.address, f.uuid.hex(), f.offset) for f in out[0].frames)
    return 'ok %s|%s|%s' % (','.join(str(a) for a in p.dyld_addresses), ','.join(u.hex() for u in p.dyld_uuids), fr)


def oracle_ir(case, got):
    """Directly from the announcements: the image of a frame is the first-announced identity of the greatest announced
    address <= frame."""
    first = {}
    for a, u in case['anns']:
        first.setdefault(a, u)
    exp = []
    for f in case['frames']:
        below = [a for a in first if a <= f]
        exp.append(str(f) if not below else '%d:%s:%d' % (f, first[max(below)], f - max(below)))
    addrs = sorted(first)
    want = 'ok %s|%s|%s' % (','.join(map(str, addrs)), ','.join(first[a] for a in addrs), ','.join(exp))
    if got != want:
        return ('callstack:wrong-image' if got.startswith('ok') else 'callstack:raises',
                'announcements %s, frames %s: expected %s, got %s' % (case['anns'], case['frames'], want, got))
    return None


# ---- the whole feed_generator / PyKdebugParser.callstacks on hand-made trace objects

def gen_feed_case(rng, request=False):
    """Trace objects for CallstacksParser.feed_generator: image announcements over a small pool (descending runs, repeats,
    adjacent / extreme addresses), launches (sorted or not, with repeats), samples with frames below / at / above the
    addresses, samples whose cs_frames is None, other traces; ktraces with SEVERAL records of different time / thread.
    `lists`: what the two lists hold at the start (empty, a valid table, or — feed only — lists of unequal length)."""
    base = rng.choice([0, 1, 0x1000, 0x100000000, rng.randrange(1 << 40), M64 - 0x2000])
    pool = sorted({min(base + d, M64) for d in (0, 1, 2, 0x10, 0x1000)} | {rng.randrange(1 << 64), 0, M64})
    uid = lambda: bytes(rng.randrange(256) for _ in range(rng.choice([1, 2]))).hex()   # noqa: E731
    n = [0]

    def kts():
        out = []
        for _ in range(rng.choice([1, 2, 2, 3])):
            n[0] += 1
            out.append([n[0] * 16 + rng.randrange(16), rng.choice([7, 8, 9, 0x101, n[0] + 0x200])])
        return out

    def frames():
        out = []
        for _ in range(rng.randrange(0, 7)):
            a = rng.choice(pool)
            out.append(max(0, min(M64, a + rng.choice([-1, 0, 0, 1, 7, rng.randrange(1 << 20)]))))
        return out

    traces = []
    if rng.random() < 0.5:
        traces.append(['s', kts(), frames()])                       # a sample before anything is announced
    desc = sorted(rng.sample(pool, rng.randrange(0, len(pool))), reverse=True)
    if rng.random() < 0.5:
        traces += [['i', a, uid()] for a in desc]                   # a descending run
    for _ in range(rng.randrange(0, 9)):
        x = rng.random()
        if x < 0.35:
            traces.append(['i', rng.choice(pool), uid()])
        elif x < 0.65:
            traces.append(['s', kts(), frames()])
        elif x < 0.73:
            traces.append(['s', kts(), None])
        elif x < 0.88:
            imgs = [[rng.choice(pool), uid()] for _ in range(rng.randrange(0, 5))]
            if rng.random() < 0.6:
                imgs.sort(key=lambda p: p[0])
            traces.append(['l', imgs])
        else:
            traces.append(['o'])
    if rng.random() < 0.7:
        probe = []
        for a in rng.sample(pool, min(len(pool), 3)):
            probe += [max(a - 1, 0), a, min(a + 1, M64)]
        traces.append(['s', kts(), probe])
    if rng.random() < 0.02:
        traces.append(['s', [], frames()])                          # a PerfEvent without records: ktraces[0] raises
    y = rng.random()
    if y < (0.35 if request else 0.65):
        lists = [[], []]
    elif y < (1.0 if request else 0.88):
        have = sorted(rng.sample(pool, rng.randrange(1, 4))) if rng.random() < 0.7 else \
            sorted({max(0, f - 1) for t in traces if t[0] == 's' and t[2] for f in t[2][:2]} or {3})
        lists = [have, [uid() for _ in have]]
    else:
        have = sorted(rng.sample(pool, rng.randrange(1, 4)))
        lists = [have, [uid() for _ in have[:rng.randrange(0, len(have))]]]
    case = {'lists': lists, 'traces': traces}
    if request:
        case['codes'] = rng.choice([None, None, {'1': 'X'}])
    return case


def _trace_text(t):
    if t[0] == 'o':
        return 'o'
    if t[0] == 'i':
        return 'i:%d:%s' % (t[1], t[2])
    if t[0] == 'l':
        return 'l:' + (','.join('%d.%s' % (a, u) for a, u in t[1]) or '-')
    fr = 'N' if t[2] is None else (','.join(str(f) for f in t[2]) or '-')
    return 's:%s:%s' % (','.join('%d.%d' % (a, b) for a, b in t[1]) or '-', fr)


def _lists_text(lists):
    return '%s|%s' % (','.join(str(a) for a in lists[0]) or '-', ','.join(lists[1]) or '-')


def line_feed(case):
    return 'csfeed %s %s' % (_lists_text(case['lists']), ';'.join(_trace_text(t) for t in case['traces']) or '-')


def line_request(case):
    return 'csreq %s %s' % (_lists_text(case['lists']), ';'.join(_trace_text(t) for t in case['traces']) or '-')


def trace_objects(case):
    """The real classes of trace_handlers (bytes stand for the UUID objects: they are only stored)."""
    import types
    from .. import impl  # noqa: F401
    from pykdebugparser.trace_handlers.dyld import (DyldLaunchExecutable, DyldUuidMapA, DyldUuidMapB,
                                                    DyldUuidSharedCacheA)
    from pykdebugparser.trace_handlers.perf import PerfEvent, PerfThdData
    out = []
    for i, t in enumerate(case['traces']):
        if t[0] == 's':
            out.append(PerfEvent(ktraces=[types.SimpleNamespace(timestamp=a, tid=b) for a, b in t[1]], sample_what=[],
                                 actionid=0, cs_frames=None if t[2] is None else list(t[2])))
        elif t[0] == 'i':
            out.append(DyldUuidMapA(ktraces=[], uuid=bytes.fromhex(t[2]), load_addr=t[1], fsid=0))
        elif t[0] == 'l':
            imgs = [(DyldUuidSharedCacheA if j % 2 else DyldUuidMapA)(ktraces=[], uuid=bytes.fromhex(u), load_addr=a, fsid=0)
                    for j, (a, u) in enumerate(t[1])]
            out.append(DyldLaunchExecutable(ktraces=[], main_executable_mh=0, uuid_map_a=imgs))
        else:
            out.append([DyldUuidMapB(ktraces=[], fid_objno=1, fid_generation=2),
                        DyldUuidSharedCacheA(ktraces=[], uuid=b'\x01', load_addr=5, fsid=0),
                        PerfThdData(ktraces=[], pid=1, tid=2, dq_addr=3, runmode=[])][i % 3])
    return out


def _show_elem(x):
    return x.hex() if isinstance(x, (bytes, bytearray)) else str(x)


def _show_cs(c):
    fr = ','.join(str(f.address) if f.uuid is None and f.offset is None
                  else '%d:%s:%d' % (f.address, _show_elem(f.uuid), f.offset) for f in c.frames)
    return '%d/%d/%s' % (c.timestamp, c.tid, fr)


def _consume(gen, addrs, uuids):
    got = []
    try:
        for c in gen:
            got.append(_show_cs(c))
    except Exception as e:
        return 'err %s after %s' % (core.err_name(e), ';'.join(got) or '-')
    return 'ok %s %s|%s' % (';'.join(got) or '-', ','.join(_show_elem(a) for a in addrs) or '-',
                            ','.join(_show_elem(u) for u in uuids) or '-')


def impl_feed(case):
    """The real CallstacksParser.feed_generator on two list objects, over real trace objects, consumed lazily."""
    from .. import impl  # noqa: F401
    from pykdebugparser.callstacks_parser import CallstacksParser
    addrs, uuids = list(case['lists'][0]), [bytes.fromhex(u) for u in case['lists'][1]]
    return _consume(CallstacksParser(addrs, uuids).feed_generator(iter(trace_objects(case))), addrs, uuids)


def impl_request(case):
    """The real PyKdebugParser.callstacks on an object whose two lists hold what an earlier request left; `traces` is
    replaced ON THE INSTANCE by a function that hands out the trace objects (and records its arguments)."""
    from .. import impl  # noqa: F401
    from pykdebugparser.pykdebugparser import PyKdebugParser
    p = PyKdebugParser()
    p.dyld_addresses.extend(case['lists'][0])
    p.dyld_uuids.extend(bytes.fromhex(u) for u in case['lists'][1])
    objs = trace_objects(case)
    seen = []

    def traces(kdebug, trace_codes=None):
        seen.append((kdebug, trace_codes))
        return iter(objs)
    p.traces = traces
    stream = io.BytesIO(b'')
    codes = case.get('codes')
    g = p.callstacks(stream, codes) if codes is not None else p.callstacks(stream)
    ans = _consume(g, p.dyld_addresses, p.dyld_uuids)
    if len(seen) != 1 or seen[0][0] is not stream or seen[0][1] is not codes:
        return 'err traces-not-called-once-with-(kdebug, trace_codes)'
    return ans


def expected_feed(case, from_empty):
    """What the property demands, from the case alone (no bisect): every frame of a qualifying sample goes to the FIRST
    identity of the greatest load address announced so far (or present at the start) that is not above it; the callstack is
    stamped by the sample's FIRST record; the lists end as the sorted addresses with their first identities.
    None: the input is outside the property (lists of unequal length at the start, a sample without records)."""
    addrs, uuids = ([], []) if from_empty else case['lists']
    if len(addrs) != len(uuids) or any(a >= b for a, b in zip(addrs, addrs[1:])):
        return None
    first = dict(zip(addrs, uuids))
    out = []
    for t in case['traces']:
        if t[0] == 'i':
            first.setdefault(t[1], t[2])
        elif t[0] == 'l':
            for a, u in t[1]:
                first.setdefault(a, u)
        elif t[0] == 's' and t[2] is not None:
            if not t[1]:
                return None
            fr = []
            for f in t[2]:
                below = [a for a in first if a <= f]
                fr.append(str(f) if not below else '%d:%s:%d' % (f, first[max(below)], f - max(below)))
            out.append('%d/%d/%s' % (t[1][0][0], t[1][0][1], ','.join(fr)))
    keys = sorted(first)
    return out, ','.join(str(a) for a in keys) or '-', ','.join(first[a] for a in keys) or '-'


def _oracle_feed(case, got, from_empty, what):
    exp = expected_feed(case, from_empty)
    if exp is None:
        return None
    cs, addrs, uuids = exp
    if not got.startswith('ok '):
        return ('callstack:raises', '%s raised: %s (traces %s, lists %s)' % (what, got, case['traces'], case['lists']))
    body, _, lists = got[3:].rpartition(' ')
    have = [] if body == '-' else body.split(';')
    if len(have) != len(cs):
        return ('callstack:count', '%s: %d callstacks for %d samples with frames (traces %s)'
                % (what, len(have), len(cs), case['traces']))
    for i, (h, e) in enumerate(zip(have, cs)):
        if h.split('/')[:2] != e.split('/')[:2]:
            return ('callstack:stamp', '%s: callstack %d is stamped %s, the first record of its sample is %s (traces %s)'
                    % (what, i, '/'.join(h.split('/')[:2]), '/'.join(e.split('/')[:2]), case['traces']))
        if h != e:
            sig = 'callstack:stale-images' if (from_empty and case['lists'][0]) else 'callstack:wrong-image'
            return (sig, '%s: callstack %d is %s, expected %s (lists at the start %s, traces %s)'
                    % (what, i, h, e, case['lists'], case['traces']))
    if lists != addrs + '|' + uuids:
        return ('callstack:image-lists', '%s: the two lists end as %s, the announced addresses with their first identities are '
                '%s|%s (lists at the start %s, traces %s)' % (what, lists, addrs, uuids, case['lists'], case['traces']))
    return None


def oracle_feed(case, got):
    return _oracle_feed(case, got, False, 'CallstacksParser(lists).feed_generator(traces)')


def oracle_request(case, got):
    if got.startswith('err traces-not-called'):
        return ('callstack:request-arguments', 'callstacks(kdebug, trace_codes) did not call self.traces(kdebug, trace_codes) '
                'exactly once with its own two arguments')
    return _oracle_feed(case, got, True, 'PyKdebugParser.callstacks() on an object holding the images of an earlier request')


def kind_feed(case, got):
    if not got.startswith('ok'):
        return 'raises'
    return ('launch+' if any(t[0] == 'l' and t[1] for t in case['traces']) else '') + \
        ('attributed' if ':' in got.split(' ')[1] else 'unattributed')


def translation_tie(rep):
    ans = core.drive(['csircheck'])[0]
    if ans == 'same':
        rep.notes.append('translation tie: Gen/PyIRCs (from callstacks_parser.py and PyKdebugParser.callstacks) = '
                         'Spec/PyIRCsExpected')
        return True
    rep.broken.append('theorem source_is_expected_ir: the IR that tools/gen_pyir.py translates from the source text of '
                      'callstacks_parser.py (__init__, insert_image, the whole feed_generator and its frame loop) and of '
                      'PyKdebugParser.callstacks is not the one of Spec/PyIRCsExpected that insert_image_ir_eq_model / '
                      'frame_loop_ir_eq_model / feed_generator_ir_eq_model / callstacks_request_ir_eq_model are proved for (%s)'
                      % ans)
    return 'unsupported' not in ans


def correspondence(rep, rng, tier):
    thorough = tier != 'quick'
    ctx()
    tie = translation_tie(rep)
    if tie:
        run_section(rep, 'callstacks-ir', [gen_ir_case(rng) for _ in range(20000 if thorough else 1500)],
                    line_ir, impl_ir, oracle_ir, skip_fn=lambda m: m == 'unsupported',
                    nontrivial_fn=lambda c, got: got.startswith('ok') and ':' in got.split('|')[-1],
                    kind_fn=lambda c, got: 'attributed' if ':' in got.split('|')[-1] else 'unattributed',
                    rule='the blocks GENERATED from callstacks_parser.py (Gen/PyIRCs: insert_image, frame loop) run by the '
                         'interpreter of Model/PyIRCs (`csir`) vs. the real CallstacksParser.insert_image / feed_generator '
                         'on a hand-made PerfEvent: announcements with repeated / adjacent / extreme addresses, frames '
                         'below / at / above them; non-trivial = at least one attributed frame')
    else:
        rep.notes.append('section callstacks-ir skipped: the translation contains .unsupported nodes')
    # the whole feed_generator / callstacks(): the oracles are code-only, so the sections run (and search) even when the
    # translation left the subset (the driver then answers `unsupported`: counted, not compared)
    run_section(rep, 'feed-generator-ir', [gen_feed_case(rng) for _ in range(20000 if thorough else 1500)],
                line_feed, impl_feed, oracle_feed, skip_fn=lambda m: m == 'unsupported',
                nontrivial_fn=lambda c, got: got.startswith('ok') and ':' in got.split(' ')[1],
                kind_fn=kind_feed,
                rule='the WHOLE feed_generator GENERATED from callstacks_parser.py (Gen/PyIRCs.feedGenerator, its '
                     'self.insert_image calls answered by the generated insert_image) run by the interpreter of Model/PyIRCs '
                     '(`csfeed`) vs. the real CallstacksParser(lists).feed_generator(iter(trace objects)) consumed lazily: real '
                     'PerfEvent (several ktraces of different time / thread; cs_frames a list or None) / DyldUuidMapA / '
                     'DyldLaunchExecutable / other dataclass instances; lists empty, a valid table, or of unequal length '
                     '(IndexError after the callstacks delivered before it); compared: callstacks in order, final lists, '
                     'exception; non-trivial = at least one attributed frame')
    run_section(rep, 'request-ir', [gen_feed_case(rng, request=True) for _ in range(8000 if thorough else 600)],
                line_request, impl_request, oracle_request, skip_fn=lambda m: m == 'unsupported',
                nontrivial_fn=lambda c, got: got.startswith('ok') and ':' in got.split(' ')[1] and bool(c['lists'][0]),
                kind_fn=lambda c, got: ('stale-lists-' if c['lists'][0] else 'empty-lists-') + kind_feed(c, got),
                rule='PyKdebugParser.callstacks GENERATED from pykdebugparser.py (Gen/PyIRCs.callstacks + __init__ + '
                     'feedGenerator, `csreq`) vs. the real PyKdebugParser().callstacks(kdebug[, trace_codes]) on an object '
                     'whose two lists hold the images of an earlier request, self.traces replaced on the instance by a '
                     'function handing out real trace objects; compared: callstacks, the OBJECT\'s two lists afterwards; '
                     'non-trivial = stale lists at the start and an attributed frame')
    if tie:
        rep.mirror = {'cs': 'csgen'}
    run_section(rep, 'bisect', gen_bisect(rng, 60000 if thorough else 3000), line_bisect, impl_bisect, oracle_bisect,
                nontrivial_fn=lambda c, got: len(c['l']) > 1,
                kind_fn=lambda c, got: 'sorted' if all(a <= b for a, b in zip(c['l'], c['l'][1:])) else 'unsorted',
                rule='the name `bisect` bound in callstacks_parser vs. the lo/hi loop model on sorted and unsorted '
                     'lists with duplicates, x below/at/above elements; non-trivial = lists of length > 1')
    n = 40000 if thorough else 2500
    streams = []
    for i in range(n):
        streams.append(gen_announce_case(rng) if i % 4 == 0 else Gen(rng, rng.choice([2, 4, 6])).scenario())
    run_section(rep, 'streams', streams, line_stream, impl_stream, oracle_stream,
                nontrivial_fn=lambda c, got: has_attributed(got),
                kind_fn=lambda c, got: kind_of(got),
                rule='CallstacksParser([], []).feed_generator(TracesParser(default_trace_codes(), {}, {})'
                     '.feed_generator(events)) vs. Model callstacksOf on generated scenario trees: uuid_map_a records '
                     '(single, START/END pairs, duplicates, adjacent/equal/extreme addresses), launch windows with '
                     'map_a/shared_cache_a records, PERF_Event windows (header count above/at/below the data, several '
                     'or no header, flag bit absent, foreign-thread records, nesting), frames below/at/above every load '
                     'address; non-trivial = at least one attributed frame')
    m = 9000 if thorough else 600
    reqs = []
    for i in range(m):
        a = gen_announce_case(rng) if i % 3 == 0 else Gen(rng, rng.choice([2, 4])).scenario()
        b = gen_announce_case(rng) if i % 3 == 1 else Gen(rng, rng.choice([2, 4])).scenario()
        threads = [[t, rng.randrange(1, 500), rng.choice(['launchd', 'a', 'proc-%d' % t])]
                   for t in rng.sample(TIDS_C + TIDS_A + TIDS_B, rng.randrange(0, 5))]
        mode = i % 3
        reqs.append({'same': mode != 2, 'reqs': [a, a] if mode == 0 else [a, b], 'threads': threads})
    run_section(rep, 'requests', reqs, line_requests, impl_requests, oracle_requests,
                nontrivial_fn=lambda c, got: all(has_attributed(p) for p in got.split(' | ')),
                kind_fn=lambda c, got: ('same-dump-twice' if c['reqs'][0] is c['reqs'][1] or c['reqs'][0] == c['reqs'][1]
                                        else 'two-dumps') + ('' if c['same'] else '-two-parsers'),
                rule='PyKdebugParser().callstacks(BytesIO(v2 file)) twice on one parser object (same dump twice / two '
                     'different dumps) and on two parser objects vs. the model run per request from empty lists; '
                     'non-trivial = both requests attribute frames')
    core.run_code_section(rep, 'requests-held', held_cases(rng, 4000 if thorough else 300), oracle_held_request,
                          kind_fn=lambda c: c['first'],
                          rule='code-only section: a callstacks() request on ONE PyKdebugParser while an earlier request is unread / '
                               'partly read and still referenced / closed / fully read: the callstacks of the second request are '
                               'those of its own dump (images announced in its own stream only)')


def held_cases(rng, n):
    out = []
    for i in range(n):
        a = gen_announce_case(rng) if i % 2 == 0 else Gen(rng, rng.choice([2, 4])).scenario()
        b = Gen(rng, rng.choice([2, 4])).scenario() if i % 3 else gen_announce_case(rng)
        threads = [[t, rng.randrange(1, 500), 'p%d' % t] for t in rng.sample(TIDS_C + TIDS_A + TIDS_B, rng.randrange(0, 4))]
        out.append({'reqs': [a, b], 'threads': threads, 'first': rng.choice(['unread', 'partial', 'partial', 'closed', 'full']),
                    'k': rng.randrange(1, 4)})
    return out


def replay(path):
    with open(path) as fd:
        r = json.load(fd)
    if 'replay' not in r:
        print(json.dumps(r, indent=1)[:4000])
        return 1
    sec, case = r['replay']['section'], r['replay']['case']
    if sec == 'requests-held':
        res = oracle_held_request(case)
        print('first request %s, then a second request on the same PyKdebugParser' % case['first'])
        print('oracle:', res[:2] if res else None)
        if res:
            print(f'VIOLATION property=C15 replay={path}')
            return 1
        return 0
    sec = sec[:-3] if sec in ('streams-ir', 'requests-ir') else sec
    line_fn, impl_fn, oracle_fn = {'bisect': (line_bisect, impl_bisect, oracle_bisect),
                                   'callstacks-ir': (line_ir, impl_ir, oracle_ir),
                                   'feed-generator-ir': (line_feed, impl_feed, oracle_feed),
                                   'request-ir': (line_request, impl_request, oracle_request),
                                   'streams': (line_stream, impl_stream, oracle_stream),
                                   'requests': (line_requests, impl_requests, oracle_requests)}[sec]
    try:
        got = impl_fn(case)
    except Exception as e:
        got = 'err ' + core.err_name(e)
    model = core.drive([line_fn(case)])[0]
    res = oracle_fn(case, got)
    print('impl :', got[:3000])
    print('model:', model[:3000])
    if res:
        print('oracle:', res[0], '-', res[1][:1000])
        print(f'VIOLATION property=C15 replay={path}')
        return 1
    return 0


LEVEL_TEXT = ('Lean theorems over the model of CallstacksParser / handle_event / handle_timing_launch_executable for '
              'all announcement sequences and all streams (insert_sorted, lookup_greatest_le, insert_order_independent, '
              'first_identity_kept, frames_spec, callstacks_spec); bisect is modelled as the lo/hi loop on arbitrary '
              'lists and proved to be the upper bound on sorted ones; the model is tied to the code by differential '
              'runs through TracesParser + CallstacksParser and through PyKdebugParser.callstacks on v2 dumps.  '
              'TRANSLATION TIE: the source text of CallstacksParser.__init__, insert_image and the WHOLE feed_generator '
              '(`for trace in generator`, the three-way isinstance dispatch with `and … is not None`, the frame loop, the '
              'yield of Callstack(ktraces[0].timestamp, ktraces[0].tid, frames), the self.insert_image calls, the launch '
              'loop) and of PyKdebugParser.callstacks (two clear() calls, the construction on exactly the two list objects, '
              'the returned generator over self.traces(kdebug, trace_codes)) is translated on every run (tools/gen_pyir.py, '
              'pure ast) into a deep embedding of the Python subset they use (Model/PyIRCs, bisect as a primitive = the '
              'modelled bisect, a generator = values yielded + outcome); source_is_expected_ir: the generated terms are those '
              'of Spec/PyIRCsExpected; insert_image_ir_eq_model / frame_loop_ir_eq_model / feed_generator_ir_eq_model: '
              'interpreted on ANY pair of lists and ANY list of traces they are Callstacks.insertImage / lookupAll / feedFrom '
              '(same callstacks in the same order, same final lists, same exception after the same callstacks); '
              'callstacks_request_ir_eq_model / callstacks_request_is_feed: a request, whatever the lists held, is the '
              'translated feed_generator run from EMPTY lists = Callstacks.feed of its own traces.')
LEVEL_NOTE = ('Trusted: Lean kernel, correspondence harness, reflected SamplerAction enum; bisect/list.insert/list.clear/sorted/'
              'uuid.UUID are modelled, not verified; for the translation tie the translator tools/gen_pyir.py and the '
              'interpreter Model/PyIRCs (tested against CPython by the sections callstacks-ir, feed-generator-ir, request-ir '
              'on real trace objects and, mirrored through `csgen`, streams-ir / requests-ir on whole record streams); '
              'handle_event and the dyld handlers (which trace object a window becomes), TracesParser / self.traces() as the '
              'source of the traces stay hand-modelled (tied by sections streams / requests). Windows come from the pairing '
              'model (C04).')
TECHNIQUE = ('Lean 4 proof (invariant + refinement to a declarative attribution) + translation validation of '
             'CallstacksParser (whole) and PyKdebugParser.callstacks + differential correspondence')
