import KdVerif.Spec.PyIRCsExpected
import KdVerif.Model.Callstacks
/-
  The expected IR of `insert_image`, of the frame loop, of the whole `feed_generator` and of `PyKdebugParser.callstacks`
  (`Spec/PyIRCsExpected`), run by the interpreter of `Model/PyIRCs`, is `Callstacks.insertImage` / `Callstacks.lookupAll` /
  `Callstacks.step` iterated — for every pair of lists and every list of traces, with the same exception where the model
  has one.  Core Lean only.
-/
namespace KdVerif.PyIRCs
open Callstacks

theorem run_insertImage (st : Images) (a : Nat) (u : Uuid) :
    run Expected.insertImage [.int a, .uuid u] st =
      match Callstacks.insertImage st a u with
      | .ok st' => .ok (.none, st')
      | .error e => .error e := by
  by_cases hm : a ∈ st.addrs
  · simp [run, Expected.insertImage, exec, eval, Env.ofArgs, hm, Callstacks.insertImage]
  · cases hb : Callstacks.bisect st.addrs a with
    | error e => simp [run, Expected.insertImage, exec, eval, Env.ofArgs, hm, Callstacks.insertImage, hb]
    | ok i =>
      simp [run, Expected.insertImage, exec, eval, Env.ofArgs, Env.set, hm, Callstacks.insertImage, hb, pyInsertPos]

/-- `self.insert_image(a, u)` answered by the expected `insert_image` is the model's `insertImage`. -/
theorem callInsertImage_expected (st : Images) (a : Nat) (u : Uuid) :
    callInsertImage Expected.insertImage (.int a) (.uuid u) st = Callstacks.insertImage st a u := by
  unfold callInsertImage
  rw [run_insertImage]
  cases Callstacks.insertImage st a u <;> rfl

theorem pyIndex_pred {α : Type} (l : List α) (i : Nat) (hi : i ≠ 0) : pyIndex l ((i : Int) - 1) = l[i - 1]? := by
  have h0 : (0 : Int) ≤ (i : Int) - 1 := by omega
  have h1 : ((i : Int) - 1).toNat = i - 1 := by omega
  unfold pyIndex
  rw [if_pos h0, h1]

/-- One iteration of the frame loop, wherever its three locals are numbered: `lookupFrame`'s frame is appended to
    `frames`; nothing else but `index_` is written; no value is yielded; the lists are untouched. -/
theorem exec_frameBodyAt (call : Val → Val → Images → Except PyErr Images) (fs fr ix : Nat) (hfi : fs ≠ ix) (hri : fr ≠ ix)
    (env : Env) (st : Images) (f : Nat) (acc : List FrameV)
    (h1 : env fs = some (.frames acc)) (h2 : env fr = some (.int f)) :
    match lookupFrame st f with
    | .error e => exec call (Expected.frameBodyAt fs fr ix) env st = ([], .error e)
    | .ok frm => ∃ env', env' fs = some (.frames (acc ++ [ofFrame frm])) ∧ (∀ j, j ≠ fs → j ≠ ix → env' j = env j) ∧
        exec call (Expected.frameBodyAt fs fr ix) env st = ([], .ok (.normal, env', st)) := by
  have hfi' : ¬ fs = ix := hfi
  have hri' : ¬ fr = ix := hri
  cases hb : Callstacks.bisect st.addrs f with
  | error e => simp [lookupFrame, hb, Expected.frameBodyAt, exec, eval, h2]
  | ok i =>
    by_cases hi : i = 0
    · subst hi
      simp only [lookupFrame, hb, if_true]
      refine ⟨((env.set ix (.int (-1))).set fs (.frames (acc ++ [⟨f, Option.none, Option.none⟩]))), ?_, ?_, ?_⟩
      · simp [Env.set, ofFrame]
      · intro j hj hk; simp [Env.set, hj, hk]
      · simp [Expected.frameBodyAt, exec, eval, h2, hb, Env.set, h1, hfi', hri']
    · have hgt : ((i : Int) - 1 > -1) := by omega
      simp only [lookupFrame, hb, hi, if_false]
      cases hu : st.uuids[i - 1]? with
      | none =>
        simp [Expected.frameBodyAt, exec, eval, h2, hb, Env.set, hgt, pyIndex_pred _ _ hi, hu, hri']
      | some u =>
        cases ha : st.addrs[i - 1]? with
        | none =>
          simp [Expected.frameBodyAt, exec, eval, h2, hb, Env.set, hgt, pyIndex_pred _ _ hi, hu, ha, hri']
        | some a =>
          refine ⟨((env.set ix (.int ((i : Int) - 1))).set fs
            (.frames (acc ++ [⟨f, some u, some ((f : Int) - (a : Int))⟩]))), ?_, ?_, ?_⟩
          · simp [Env.set, ofFrame]
          · intro j hj hk; simp [Env.set, hj, hk]
          · simp [Expected.frameBodyAt, exec, eval, h2, hb, Env.set, hgt, pyIndex_pred _ _ hi, hu, ha, h1, hfi', hri']

/-- The frame loop over any `cs_frames`: `lookupAll`'s frames are appended; only the loop's own three locals are written. -/
theorem forLoop_framesAt (call : Val → Val → Images → Except PyErr Images) (fs fr ix : Nat) (hfi : fs ≠ ix) (hri : fr ≠ ix)
    (hfr : fs ≠ fr) (st : Images) (cs : List Nat) : ∀ (env : Env) (acc : List FrameV),
    env fs = some (.frames acc) →
    match lookupAll st cs with
    | .error e => forLoop (fun env st => exec call (Expected.frameBodyAt fs fr ix) env st) fr
        (cs.map (fun (k : Nat) => Val.int (k : Int))) env st = ([], .error e)
    | .ok frs => ∃ env', env' fs = some (.frames (acc ++ frs.map ofFrame)) ∧
        (∀ j, j ≠ fs → j ≠ fr → j ≠ ix → env' j = env j) ∧
        forLoop (fun env st => exec call (Expected.frameBodyAt fs fr ix) env st) fr
          (cs.map (fun (k : Nat) => Val.int (k : Int))) env st = ([], .ok (.normal, env', st)) := by
  induction cs with
  | nil => intro env acc h; exact ⟨env, by simpa [lookupAll] using h, fun _ _ _ _ => rfl, rfl⟩
  | cons f fs' ih =>
    intro env acc h
    have hb := exec_frameBodyAt call fs fr ix hfi hri (env.set fr (.int f)) st f acc
      (by simpa [Env.set, hfr] using h) (by simp [Env.set])
    cases hl : lookupFrame st f with
    | error e =>
      rw [hl] at hb
      simp [lookupAll, hl, forLoop, hb]
    | ok frm =>
      rw [hl] at hb
      obtain ⟨env1, h1, hp1, he⟩ := hb
      have := ih env1 (acc ++ [ofFrame frm]) h1
      cases hr : lookupAll st fs' with
      | error e =>
        rw [hr] at this
        simp [lookupAll, hl, hr, forLoop, he, this]
      | ok frs =>
        rw [hr] at this
        obtain ⟨env2, h2, hp2, he2⟩ := this
        simp only [lookupAll, hl, hr]
        refine ⟨env2, by simpa using h2, ?_, by simp [forLoop, he, he2]⟩
        intro j hj hk hx
        rw [hp2 j hj hk hx, hp1 j hj hx]
        simp [Env.set, hk]

theorem exec_forIn (call : Val → Val → Images → Except PyErr Images) (v : Nat) (it : Expr) (body next : Stmt)
    (env : Env) (st : Images) :
    exec call (.forIn v it body next) env st =
      match eval st env it with
      | .error x => ([], .error x)
      | .ok iv =>
        match items iv with
        | Option.none => ([], .error (if iv = .none then .typeError else .unmodelled))
        | some (l, err) =>
          match forLoop (fun env st => exec call body env st) v l env st with
          | (o, .error e) => (o, .error e)
          | (o, .ok (.ret r, env', st')) => (o, .ok (.ret r, env', st'))
          | (o, .ok (.normal, env', st')) =>
            match err with
            | some e => (o, .error e)
            | Option.none => ((o ++ (exec call next env' st').1), (exec call next env' st').2) := by
  rw [exec]; rfl

theorem run_frameLoop (st : Images) (kts : List KT) (cs : List Nat) :
    run Expected.frameLoop [.trace (.sample kts (some cs))] st =
      match lookupAll st cs with
      | .ok frs => .ok (.frames (frs.map ofFrame), st)
      | .error e => .error e := by
  have h := forLoop_framesAt noCall 1 2 3 (by decide) (by decide) (by decide) st cs
    ((Env.ofArgs [.trace (.sample kts (some cs))]).set 1 (.frames [])) [] (by simp [Env.set])
  have hit : eval st ((Env.ofArgs [.trace (.sample kts (some cs))]).set 1 (.frames [])) (.csFrames (.var 0))
      = .ok (.nats cs) := by
    simp [eval, Env.set, Env.ofArgs]
  simp only [run, Expected.frameLoop, Expected.frameBody, List.length_cons, List.length_nil, ne_eq, not_true_eq_false,
    if_false]
  rw [exec, exec_forIn]
  simp only [hit, items]
  cases hl : lookupAll st cs with
  | error e => rw [hl] at h; simp [h]
  | ok frs =>
    rw [hl] at h
    obtain ⟨env', h1, _, he⟩ := h
    simp [he, exec, eval, h1]

/-! ### the whole `feed_generator` -/

/-- One iteration of `for trace in generator`, stated on the trace object: the three-way dispatch in terms of the model's
    `lookupAll` / `insertImage` / `insertAll` (a sample's callstack is stamped by `ktraces[0]`, read AFTER the frames
    were looked up). -/
def stepTrace (st : Images) : Trace → Except PyErr (Images × Option CallstackV)
  | .sample kts (some cs) =>
    match lookupAll st cs with
    | .error e => .error e
    | .ok frs =>
      match kts with
      | [] => .error .indexError
      | k :: _ => .ok (st, some ⟨k.timestamp, k.tid, frs.map ofFrame⟩)
  | .sample _ Option.none => .ok (st, Option.none)
  | .image a u =>
    match Callstacks.insertImage st a u with
    | .error e => .error e
    | .ok st' => .ok (st', Option.none)
  | .launch imgs =>
    match insertAll st imgs with
    | .error e => .error e
    | .ok st' => .ok (st', Option.none)
  | .other => .ok (st, Option.none)

/-- `stepTrace` iterated: the callstacks delivered, then the final lists or the exception. -/
def feedTrace (st : Images) : List Trace → GenRes
  | [] => ([], .ok st)
  | t :: ts =>
    match stepTrace st t with
    | .error e => ([], .error e)
    | .ok (st', o) => ((o.toList.map Val.callstack) ++ (feedTrace st' ts).1, (feedTrace st' ts).2)

/-- the generator's own exception surfaces when everything it delivered was consumed without one -/
def thenRaise (err : Option PyErr) (r : GenRes) : GenRes :=
  match r.2, err with
  | .ok _, some e => (r.1, .error e)
  | _, _ => r

/-- the model's step on an item is `stepTrace` on the trace object of the item -/
theorem stepTrace_traceOf (st : Images) (it : Item) :
    stepTrace st (traceOf it) =
      match step st it with
      | .error e => .error e
      | .ok (st', o) => .ok (st', o.map ofCallstack) := by
  cases it with
  | sample first rest =>
    simp only [traceOf, step]
    cases hc : csFrames first rest with
    | none => simp [stepTrace]
    | some cs =>
      simp only [stepTrace, List.map_cons]
      cases lookupAll st cs <;> simp [ofCallstack]
  | image a u =>
    simp only [traceOf, step, stepTrace]
    cases Callstacks.insertImage st a u <;> simp
  | launch imgs =>
    simp only [traceOf, step, stepTrace]
    cases insertAll st (sortByAddr imgs) <;> simp
  | other => simp [traceOf, step, stepTrace]

/-- the launch loop `for image in trace.uuid_map_a: self.insert_image(image.load_addr, image.uuid)` is `insertAll` -/
theorem forLoop_launch (imgs : List (Nat × Uuid)) : ∀ (env : Env) (st : Images),
    match insertAll st imgs with
    | .error e => forLoop (fun env st => exec (callInsertImage Expected.insertImage)
        (.callInsert (.loadAddr (.var 5)) (.uuidOf (.var 5)) .done) env st) 5
        (imgs.map (fun p => Val.img p.1 p.2)) env st = ([], .error e)
    | .ok st' => ∃ env', forLoop (fun env st => exec (callInsertImage Expected.insertImage)
        (.callInsert (.loadAddr (.var 5)) (.uuidOf (.var 5)) .done) env st) 5
        (imgs.map (fun p => Val.img p.1 p.2)) env st = ([], .ok (.normal, env', st')) := by
  induction imgs with
  | nil => intro env st; exact ⟨env, rfl⟩
  | cons p rest ih =>
    intro env st
    obtain ⟨a, u⟩ := p
    have hb : exec (callInsertImage Expected.insertImage) (.callInsert (.loadAddr (.var 5)) (.uuidOf (.var 5)) .done)
        (env.set 5 (.img a u)) st =
        match Callstacks.insertImage st a u with
        | .error e => ([], .error e)
        | .ok st' => ([], .ok (.normal, env.set 5 (.img a u), st')) := by
      simp only [exec, eval, Env.set, if_true, callInsertImage_expected]
      cases Callstacks.insertImage st a u <;> rfl
    cases hi : Callstacks.insertImage st a u with
    | error e =>
      rw [hi] at hb
      simp only [insertAll, hi, List.map_cons, forLoop, hb]
    | ok st1 =>
      rw [hi] at hb
      have := ih (env.set 5 (.img a u)) st1
      simp only [insertAll, hi, List.map_cons, forLoop, hb]
      cases hr : insertAll st1 rest with
      | error e => rw [hr] at this; simp [this]
      | ok st2 =>
        rw [hr] at this
        obtain ⟨env', he⟩ := this
        exact ⟨env', by simp [he]⟩

/-- the branch of a qualifying sample -/
theorem exec_sampleBranch (call : Val → Val → Images → Except PyErr Images) (env : Env) (st : Images) (kts : List KT)
    (cs : List Nat) (h : env 1 = some (.trace (.sample kts (some cs)))) :
    match stepTrace st (.sample kts (some cs)) with
    | .error e => exec call Expected.sampleBranch env st = ([], .error e)
    | .ok (st', o) => ∃ env', exec call Expected.sampleBranch env st =
        (o.toList.map Val.callstack, .ok (.normal, env', st')) := by
  have hl := forLoop_framesAt call 2 3 4 (by decide) (by decide) (by decide) st cs (env.set 2 (.frames [])) []
    (by simp [Env.set])
  have hit : eval st (env.set 2 (.frames [])) (.csFrames (.var 1)) = .ok (.nats cs) := by
    simp [eval, Env.set, h]
  simp only [Expected.sampleBranch, stepTrace]
  rw [exec, exec_forIn]
  simp only [hit, items]
  cases hla : lookupAll st cs with
  | error e => rw [hla] at hl; simp [hl]
  | ok frs =>
    rw [hla] at hl
    obtain ⟨env', h1, hp, he⟩ := hl
    have h1' : env' 1 = some (.trace (.sample kts (some cs))) := by
      rw [hp 1 (by decide) (by decide) (by decide)]; simpa [Env.set] using h
    cases kts with
    | nil => simp [he, exec, eval, h1', pyIndex]
    | cons k rest =>
      exact ⟨env', by simp [he, exec, eval, h1', h1, pyIndex]⟩

/-- the body of `for trace in generator` on any trace is `stepTrace` -/
theorem exec_traceBody (env : Env) (st : Images) (t : Trace) (h : env 1 = some (.trace t)) :
    match stepTrace st t with
    | .error e => exec (callInsertImage Expected.insertImage) Expected.traceBody env st = ([], .error e)
    | .ok (st', o) => ∃ env', exec (callInsertImage Expected.insertImage) Expected.traceBody env st =
        (o.toList.map Val.callstack, .ok (.normal, env', st')) := by
  cases t with
  | sample kts cs =>
    cases cs with
    | none => exact ⟨env, by simp [Expected.traceBody, exec, eval, h, Trace.isA]⟩
    | some cs =>
      have hs := exec_sampleBranch (callInsertImage Expected.insertImage) env st kts cs h
      have hc : exec (callInsertImage Expected.insertImage) Expected.traceBody env st =
          exec (callInsertImage Expected.insertImage) Expected.sampleBranch env st := by
        simp [Expected.traceBody, exec, eval, h, Trace.isA]
      rw [hc]; exact hs
  | image a u =>
    simp only [stepTrace]
    have hc : exec (callInsertImage Expected.insertImage) Expected.traceBody env st =
        match Callstacks.insertImage st a u with
        | .error e => ([], .error e)
        | .ok st' => ([], .ok (.normal, env, st')) := by
      simp only [Expected.traceBody, exec, eval, h, Trace.isA, callInsertImage_expected]
      cases Callstacks.insertImage st a u <;> rfl
    rw [hc]
    cases Callstacks.insertImage st a u with
    | error e => rfl
    | ok st' => exact ⟨env, rfl⟩
  | launch imgs =>
    simp only [stepTrace]
    have hl := forLoop_launch imgs env st
    have hc : exec (callInsertImage Expected.insertImage) Expected.traceBody env st =
        exec (callInsertImage Expected.insertImage) Expected.launchBranch env st := by
      simp [Expected.traceBody, exec, eval, h, Trace.isA]
    have hit : eval st env (.uuidMapA (.var 1)) = .ok (.imgs imgs) := by simp [eval, h]
    rw [hc, Expected.launchBranch, exec_forIn]
    simp only [hit, items]
    cases hi : insertAll st imgs with
    | error e => rw [hi] at hl; rw [hl]
    | ok st' =>
      rw [hi] at hl
      obtain ⟨env', he⟩ := hl
      exact ⟨env', by rw [he]; simp [exec]⟩
  | other => exact ⟨env, by simp [Expected.traceBody, exec, eval, h, Trace.isA]⟩

/-- the loop over the traces is `feedTrace` -/
theorem forLoop_traces (ts : List Trace) : ∀ (env : Env) (st : Images),
    match (feedTrace st ts).2 with
    | .error e => forLoop (fun env st => exec (callInsertImage Expected.insertImage) Expected.traceBody env st) 1
        (ts.map Val.trace) env st = ((feedTrace st ts).1, .error e)
    | .ok st' => ∃ env', forLoop (fun env st => exec (callInsertImage Expected.insertImage) Expected.traceBody env st) 1
        (ts.map Val.trace) env st = ((feedTrace st ts).1, .ok (.normal, env', st')) := by
  induction ts with
  | nil => intro env st; exact ⟨env, rfl⟩
  | cons t rest ih =>
    intro env st
    have hb := exec_traceBody (env.set 1 (.trace t)) st t (by simp [Env.set])
    simp only [feedTrace, List.map_cons, forLoop]
    cases hs : stepTrace st t with
    | error e => rw [hs] at hb; simp [hb]
    | ok p =>
      obtain ⟨st1, o⟩ := p
      rw [hs] at hb
      obtain ⟨env1, he⟩ := hb
      have := ih env1 st1
      simp only [he]
      cases hr : (feedTrace st1 rest).2 with
      | error e => rw [hr] at this; simp [this]
      | ok st2 =>
        rw [hr] at this
        obtain ⟨env2, he2⟩ := this
        exact ⟨env2, by simp [he2]⟩

/-- **The expected `feed_generator`, interpreted, is `feedTrace`** — for every list of traces, every exception of the
    trace generator, every pair of lists. -/
theorem runFeed_expected (ts : List Trace) (err : Option PyErr) (st : Images) :
    runFeed Expected.prog ts err st = thenRaise err (feedTrace st ts) := by
  have h := forLoop_traces ts (Env.ofArgs [.gen ts err]) st
  have hit : eval st (Env.ofArgs [.gen ts err]) (.var 0) = .ok (.gen ts err) := by simp [eval, Env.ofArgs]
  simp only [runFeed, runGen, Expected.prog, Expected.feedGenerator, List.length_cons, List.length_nil, ne_eq,
    not_true_eq_false, if_false]
  rw [exec_forIn]
  simp only [hit, items]
  cases hr : (feedTrace st ts).2 with
  | error e =>
    rw [hr] at h
    rw [h]
    cases err <;> simp [thenRaise, hr] <;> exact Prod.ext rfl hr.symm
  | ok st' =>
    rw [hr] at h
    obtain ⟨env', he⟩ := h
    rw [he]
    cases err with
    | none => simp [thenRaise, hr, exec, eval]; exact Prod.ext rfl hr.symm
    | some e => simp [thenRaise, hr]

/-! ### `PyKdebugParser.callstacks` -/

/-- **A request starts from EMPTY image lists**: whatever the object's two lists hold when `callstacks()` is called,
    the expected body clears both, builds the parser on exactly these two list objects, and the result is the expected
    `feed_generator` over the request's traces run from `Images.empty`. -/
theorem runRequest_expected (ts : List Trace) (err : Option PyErr) (st : Images) :
    runRequest Expected.prog ts err st = runFeed Expected.prog ts err Images.empty := by
  simp [runRequest, Expected.prog, Expected.callstacks, execReq, runInit, Expected.init, ParserObj.set, Images.empty]

/-! ### from the trace objects back to the model's items -/

/-- `feedTrace` on the trace objects of a list of items, against `Callstacks.feedFrom`: where the model delivers, the
    same callstacks and the same final lists; where it raises, the same exception, after exactly the callstacks the model
    delivers for the items before the failing one. -/
theorem feedTrace_traceOf (s : List Item) : ∀ (st : Images),
    match feedFrom st s with
    | .ok (st', cs) => feedTrace st (s.map traceOf) = (cs.map (fun c => Val.callstack (ofCallstack c)), .ok st')
    | .error e => ∃ pre it post st₁ cs, s = pre ++ it :: post ∧ feedFrom st pre = .ok (st₁, cs) ∧
        step st₁ it = .error e ∧
        feedTrace st (s.map traceOf) = (cs.map (fun c => Val.callstack (ofCallstack c)), .error e) := by
  induction s with
  | nil => intro st; simp [feedFrom, feedTrace]
  | cons it rest ih =>
    intro st
    have hs := stepTrace_traceOf st it
    cases hst : step st it with
    | error e =>
      rw [hst] at hs
      simp only [feedFrom, hst]
      exact ⟨[], it, rest, st, [], rfl, rfl, hst, by simp [feedTrace, hs]⟩
    | ok p =>
      obtain ⟨st1, o⟩ := p
      rw [hst] at hs
      have := ih st1
      simp only [feedFrom, hst]
      cases hr : feedFrom st1 rest with
      | error e =>
        rw [hr] at this
        obtain ⟨pre, it', post, st₁, cs, e1, e2, e3, e4⟩ := this
        refine ⟨it :: pre, it', post, st₁, o.toList ++ cs, by simp [e1], by simp [feedFrom, hst, e2], e3, ?_⟩
        simp only [List.map_cons, feedTrace, hs, e4]
        cases o <;> simp
      | ok q =>
        obtain ⟨st2, cs⟩ := q
        rw [hr] at this
        simp only [List.map_cons, feedTrace, hs, this]
        cases o <;> simp

end KdVerif.PyIRCs
