import KdVerif.Model.Bytes
/-
  L2: a positional reader over a byte string, the way `io.BytesIO` behaves for the calls
  the container parser makes (`read(n)`, `tell()`, `seek(p)`, `seek(-8, 1)`), with READ COUNTERS:
  `calls` = number of `read` calls, `got` = bytes returned, `req` = bytes requested.
  `RM α` is the "reader monad with exceptions": the reader state SURVIVES an exception
  (so that the counters of a failing parse can be stated and compared with the real code).
-/
namespace KdVerif

structure Reader where
  data : Bytes
  pos : Nat := 0
  calls : Nat := 0
  got : Nat := 0
  req : Nat := 0
  deriving Repr, DecidableEq

namespace Reader

def ofBytes (d : Bytes) : Reader := { data := d }

/-- The unread suffix. -/
def rest (r : Reader) : Bytes := r.data.drop r.pos

/-- `stream.read(n)`: up to `n` bytes, fewer (possibly none) at end of file; never fails. -/
def read (r : Reader) (n : Nat) : Bytes × Reader :=
  let out := r.rest.take n
  (out, { r with pos := r.pos + out.length, calls := r.calls + 1, got := r.got + out.length,
                 req := r.req + n })

/-- `stream.seek(p)` (absolute). -/
def seekTo (r : Reader) (p : Nat) : Reader := { r with pos := p }

/-- `n` successful `read(1)` calls in a row, plus `extra` calls that returned nothing. -/
def stepBytes (r : Reader) (n extra : Nat) : Reader :=
  { r with pos := r.pos + n, calls := r.calls + n + extra, got := r.got + n, req := r.req + n + extra }

/-- a `read` call that raised before reading anything. -/
def bump (r : Reader) : Reader := { r with calls := r.calls + 1 }

/-- work done by reading so far: one unit per call plus one per byte returned. -/
def cost (r : Reader) : Nat := r.calls + r.got

end Reader

/-- Reader computations that may raise; the reader state is kept when they do. -/
abbrev RM (α : Type) := Reader → Except PyErr α × Reader

namespace RM

@[inline] def pure' {α : Type} (a : α) : RM α := fun r => (.ok a, r)

@[inline] def bind' {α β : Type} (m : RM α) (f : α → RM β) : RM β := fun r =>
  match m r with
  | (.ok a, r') => f a r'
  | (.error e, r') => (.error e, r')

@[inline] def throw' {α : Type} (e : PyErr) : RM α := fun r => (.error e, r)

instance : Monad RM where
  pure := pure'
  bind := bind'

end RM

/-- `stream.read(n)` called directly by the parser (short reads are not an error). -/
def readPlain (n : Nat) : RM Bytes := fun r => let p := r.read n; (.ok p.1, p.2)

/-- `sys.maxsize + 1`: `BytesIO.read(n)` raises OverflowError for `n ≥ 2^63` ("cannot fit 'int' into an
    index-sized integer") without reading anything. -/
def ssizeLimit : Nat := 9223372036854775808

/-- construct's `stream_read`: a short read raises `StreamError` (after consuming what was there); so does
    any exception of `stream.read` itself — the OverflowError for a length field ≥ 2^63 (one call, nothing
    read, position unchanged). -/
def readExact (n : Nat) : RM Bytes := fun r =>
  if ssizeLimit ≤ n then (.error .streamError, r.bump)
  else
    let p := r.read n
    if p.1.length = n then (.ok p.1, p.2) else (.error .streamError, p.2)

def tell : RM Nat := fun r => (.ok r.pos, r)

def seekTo (p : Nat) : RM Unit := fun r => (.ok (), r.seekTo p)

/-- `reader.seek(-k, 1)`: for a relative seek BytesIO clamps a negative target to 0 (checked on
    CPython 3.12: `BytesIO(b'abcdef')` at 3, `seek(-8, 1)` → 0) — truncated subtraction. -/
def seekBack (k : Nat) : RM Unit := fun r => (.ok (), r.seekTo (r.pos - k))

end KdVerif
