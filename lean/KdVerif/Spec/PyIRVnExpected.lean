import KdVerif.Model.PyIRVn
/-
  The IR the proofs of `Proofs/PyIRVn` were done for: a hand-written copy of what `tools/gen_pyir_vn.py` produces
  from `pykdebugparser/traces_parser.py` (`vnode_generator`, `parse_vnodes`, `parse_vnode`), in the translator's normal
  form: locals numbered by first binding after the parameters (`self` is not counted), `path += x` as
  `path = path + x`, the statements after an `if` pushed into both branches, `DgbFuncQual.X.value` replaced by the
  enum's value, falling off the end as `return None`.
  `C08.source_is_expected_ir` states that the generated program IS these terms.  Core Lean only.
-/
namespace KdVerif.PyIRVn.Expected
open KdVerif.PyIRVn Expr Stmt

/-- `b''` -/
def emptyBytes : Expr := bytes []

/-- the end of the loop body (events = v0, path = v1, vnodeid = v2, lookup_events = v3, event = v4)
```python
            if event.func_qualifier & DgbFuncQual.DBG_FUNC_END.value:                       # .value = 2
                yield Vnode(lookup_events, vnodeid, path.replace(b'\x00', b'').decode())
                path = b''
                vnodeid = 0
                lookup_events = []
```
-/
def endTest : Stmt :=
  ite (band (field .funcQualifier (var 4)) (int 2))
    (yield (mkVnode (var 3) (var 2) (decode (replace (var 1) [0] [])))
      (assign 1 emptyBytes (assign 2 (int 0) (assign 3 emptyList done))))
    done

/-- the loop body
```python
            lookup_events.append(event)
            if event.func_qualifier & DgbFuncQual.DBG_FUNC_START.value:                     # .value = 1
                vnodeid = event.values[0]
                path += event.data[8:]
            else:
                path += event.data
            <endTest>
```
-/
def loopBody : Stmt :=
  append 3 (var 4)
    (ite (band (field .funcQualifier (var 4)) (int 1))
      (assign 2 (index (field .values (var 4)) (int 0))
        (assign 1 (add (var 1) (sliceFrom (field .data (var 4)) 8)) endTest))
      (assign 1 (add (var 1) (field .data (var 4))) endTest))

/--
```python
    @staticmethod
    def vnode_generator(events):                                                           # events = v0
        path = b''                                                                         # path = v1
        vnodeid = 0                                                                        # vnodeid = v2
        lookup_events = []                                                                 # lookup_events = v3
        for event in events:                                                               # event = v4
            <loopBody>
```
-/
def vnodeGenerator : FnDef :=
  { params := 1, isGen := true
    body := assign 1 emptyBytes (assign 2 (int 0) (assign 3 emptyList (forIn 4 (var 0) loopBody (ret none)))) }

/-- `[e for e in events if self.trace_codes.get(e.eventid) == 'VFS_LOOKUP']`  (events = v0, e = v1) -/
def lookupsOnly : Expr :=
  listComp 1 (var 0) (eq (codeGet (field .eventid (var 1))) (str "VFS_LOOKUP"))

/--
```python
    def parse_vnodes(self, events):
        return list(self.vnode_generator([e for e in events if self.trace_codes.get(e.eventid) == 'VFS_LOOKUP']))
```
-/
def parseVnodes : FnDef :=
  { params := 1, isGen := false, body := ret (list (call .vnodeGenerator lookupsOnly)) }

/--
```python
    def parse_vnode(self, events):
        try:
            return self.parse_vnodes(events)[0]
        except IndexError:
            return Vnode([], 0, '')
```
-/
def parseVnode : FnDef :=
  { params := 1, isGen := false
    body := tryExcept (ret (index (call .parseVnodes (var 0)) (int 0))) .indexError
              (ret (mkVnode emptyList (int 0) (str ""))) (ret none) }

def prog : Prog := { vnodeGenerator := vnodeGenerator, parseVnodes := parseVnodes, parseVnode := parseVnode }

end KdVerif.PyIRVn.Expected
