import KdVerif.Model.PyIROl
/-
  The IR the proofs of `Proofs/PyIROl` were done for: a hand-written copy of what `tools/gen_pyir_ol.py` produces from
  `pykdebugparser/os_log_event.py` (statement lists as right-nested `seq`, `if` without `else` with `skip`, parameters after
  `cls` numbered first, then locals and comprehension variables by first binding, `'k' not in e` as `not (hasKey …)`, a dict
  display as `dictAdd` chain, keyword arguments of a dataclass constructor as a dict display in written order).
  `C16.source_is_expected_ir` states that the generated program IS this term.  Core Lean only.
-/
namespace KdVerif.PyIROl.Expected
open KdVerif.PyIROl Expr Stmt

/-! ### `parse_decomposed_segment` -/

/-- `if '<k>' in <B>: v['<name>'] = log_strings[<B>['<k>']]` (`log_strings` is parameter 1) -/
def optStr (v : Nat) (name : String) (B : Expr) (k : String) : Stmt :=
  ite (hasKey k B) (setKey v name (strAt (var 1) (key B k))) skip

/-- `if '<k>' in <B>: v['<name>'] = <B>['<k>']` -/
def optPlain (v : Nat) (name : String) (B : Expr) (k : String) : Stmt :=
  ite (hasKey k B) (setKey v name (key B k)) skip

/-- `segment['p']` -/
def segP : Expr := key (var 0) "p"
/-- `segment['a']` -/
def segA : Expr := key (var 0) "a"

/--
```python
            parsed_placeholder = {}                                                         # v3
            if 'rs' in segment['p']:
                parsed_placeholder['raw_string'] = log_strings[segment['p']['rs']]
            if 't' in segment['p'] and segment['p']['t']:
                parsed_placeholder['tokens'] = [log_strings[token] for token in segment['p']['t']]   # token = v4
            if 'tn' in segment['p']:
                parsed_placeholder['type_namespace'] = log_strings[segment['p']['tn']]
            if 'ty' in segment['p']:
                parsed_placeholder['type'] = log_strings[segment['p']['ty']]
            parsed_placeholder['width'] = segment['p']['w']
            parsed_placeholder['precision'] = segment['p']['p']
            parsed_segment['placeholder'] = parsed_placeholder
```
-/
def tokensBlock : Stmt :=
  ite (and (hasKey "t" segP) (key segP "t"))
    (setKey 3 "tokens" (listComp 4 (strAt (var 1) (var 4)) (key segP "t"))) skip

def placeholderTail : Stmt :=
  seq (setKey 3 "width" (key segP "w"))
    (seq (setKey 3 "precision" (key segP "p"))
      (setKey 2 "placeholder" (var 3)))

def placeholderBlock : Stmt :=
  seq (assign 3 dictEmpty)
    (seq (optStr 3 "raw_string" segP "rs")
      (seq tokensBlock
        (seq (optStr 3 "type_namespace" segP "tn")
          (seq (optStr 3 "type" segP "ty") placeholderTail))))

/--
```python
            parsed_arg = {}                                                                 # v5
            if 'a' in segment['a']:
                parsed_arg['availability'] = segment['a']['a']
            if 'p' in segment['a']:
                parsed_arg['privacy'] = segment['a']['p']
            if 'c' in segment['a']:
                parsed_arg['category'] = segment['a']['c']
            if parsed_arg.get('category') == 1:
                if 'sc' in segment['a']:
                    parsed_arg['scalar_category'] = segment['a']['sc']
                if 'st' in segment['a']:
                    parsed_arg['scalar_type'] = segment['a']['st']
            if 'availability' not in parsed_arg or parsed_arg['availability'] == 3:
                if 'or' in segment['a']:
                    if parsed_arg.get('category') == 2:
                        parsed_arg['object_representation'] = log_strings[segment['a']['or']]
                    else:
                        parsed_arg['object_representation'] = segment['a']['or']
            parsed_segment['arg'] = parsed_arg
```
-/
def scalarBlock : Stmt :=
  ite (eqInt (get (var 5) "category") 1)
    (seq (optPlain 5 "scalar_category" segA "sc") (optPlain 5 "scalar_type" segA "st")) skip

def objectBlock : Stmt :=
  ite (or (not (hasKey "availability" (var 5))) (eqInt (key (var 5) "availability") 3))
    (ite (hasKey "or" segA)
      (ite (eqInt (get (var 5) "category") 2)
        (setKey 5 "object_representation" (strAt (var 1) (key segA "or")))
        (setKey 5 "object_representation" (key segA "or")))
      skip)
    skip

def argBlock : Stmt :=
  seq (assign 5 dictEmpty)
    (seq (optPlain 5 "availability" segA "a")
      (seq (optPlain 5 "privacy" segA "p")
        (seq (optPlain 5 "category" segA "c")
          (seq scalarBlock
            (seq objectBlock
              (setKey 2 "arg" (var 5)))))))

/--
```python
    @classmethod
    def parse_decomposed_segment(cls, segment, log_strings):                                # v0, v1
        parsed_segment = {}                                                                 # v2
        if 'lp' in segment:
            parsed_segment['literal_prefix'] = log_strings[segment['lp']]
        if 'p' in segment:
            …placeholderBlock…
        if 'a' in segment:
            …argBlock…
        return parsed_segment
```
-/
def segmentBody : Stmt :=
  seq (assign 2 dictEmpty)
    (seq (optStr 2 "literal_prefix" (var 0) "lp")
      (seq (ite (hasKey "p" (var 0)) placeholderBlock skip)
        (seq (ite (hasKey "a" (var 0)) argBlock skip)
          (ret (var 2)))))

def parseDecomposedSegment : FunDef := { name := "parse_decomposed_segment", params := 2, body := segmentBody }

/-! ### `parse_decomposed` -/

/--
```python
    @classmethod
    def parse_decomposed(cls, decomposed, log_strings):                                     # v0, v1
        parsed_decomposed = {'placeholder_count': decomposed['pc'], 'state': decomposed['s']}   # v2
        if not parsed_decomposed['placeholder_count']:
            return parsed_decomposed
        parsed_decomposed['segments'] = [cls.parse_decomposed_segment(seg, log_strings) for seg in decomposed['seg']]  # seg = v3
        return parsed_decomposed
```
-/
def decomposedBody : Stmt :=
  seq (assign 2 (dictAdd (dictAdd dictEmpty "placeholder_count" (key (var 0) "pc")) "state" (key (var 0) "s")))
    (seq (ite (not (key (var 2) "placeholder_count")) (ret (var 2)) skip)
      (seq (setKey 2 "segments" (listComp 3 (call2 "parse_decomposed_segment" (var 3) (var 1)) (key (var 0) "seg")))
        (ret (var 2))))

def parseDecomposed : FunDef := { name := "parse_decomposed", params := 2, body := decomposedBody }

/-! ### `parse_trace_identifier` -/

/-- `trace_id.type_` -/
def idType : Expr := attr (var 1) "type_"
/-- `trace_id.trace_flags.<name>` -/
def idFlag (name : String) : Expr := attr (attr (var 1) "trace_flags") name

/--
```python
        if trace_namespace in tracepoint_types:
            type_ = tracepoint_types[trace_namespace](trace_id.type_)                       # type_ = v3
        elif trace_namespace == FirehoseTracepointNamespace.signpost:
            type_ = FirehoseTracepointSignpostType(trace_id.type_ & 0xc0) | FirehoseTracepointSignpostType(
                trace_id.type_ & 0x3f)
        else:
            type_ = trace_id.type_
```
-/
def typeBlock : Stmt :=
  ite (inTable (var 2) "tracepoint_types")
    (assign 3 (tableCall "tracepoint_types" (var 2) idType))
    (ite (isMember (var 2) "FirehoseTracepointNamespace" "signpost")
      (assign 3 (bor (enumCall "FirehoseTracepointSignpostType" (band idType 0xc0))
                     (enumCall "FirehoseTracepointSignpostType" (band idType 0x3f))))
      (assign 3 idType))

/--
```python
        return TraceIdentifier(
            namespace=trace_namespace,
            type_=type_,
            has_large_offset=trace_id.trace_flags.has_large_offset,
            has_unique_pid=trace_id.trace_flags.has_unique_pid,
            pc_style=FirehoseTracepointFlagsPcStyle(trace_id.trace_flags.pc_style),
            has_current_aid=trace_id.trace_flags.has_current_aid,
            flags=tracepoint_flags[trace_namespace](
                trace_id.flags) if trace_namespace in tracepoint_flags else None,
            code=trace_id.code,
        )
```
-/
def idKeywords : Expr :=
  dictAdd (dictAdd (dictAdd (dictAdd (dictAdd (dictAdd (dictAdd (dictAdd dictEmpty
    "namespace" (var 2))
    "type_" (var 3))
    "has_large_offset" (idFlag "has_large_offset"))
    "has_unique_pid" (idFlag "has_unique_pid"))
    "pc_style" (enumCall "FirehoseTracepointFlagsPcStyle" (idFlag "pc_style")))
    "has_current_aid" (idFlag "has_current_aid"))
    "flags" (ifExp (inTable (var 2) "tracepoint_flags")
              (tableCall "tracepoint_flags" (var 2) (attr (var 1) "flags")) none))
    "code" (attr (var 1) "code")

/--
```python
    @classmethod
    def parse_trace_identifier(cls, trace_identifier):                                      # v0
        trace_id = firehose_tracepoint_id.parse(Int64ul.build(trace_identifier))            # v1
        trace_namespace = FirehoseTracepointNamespace(trace_id.namespace)                   # v2
        …typeBlock…
        return TraceIdentifier(…idKeywords…)
```
-/
def traceIdBody : Stmt :=
  seq (assign 1 (parseWord "firehose_tracepoint_id" "Int64ul" (var 0)))
    (seq (assign 2 (enumCall "FirehoseTracepointNamespace" (attr (var 1) "namespace")))
      (seq typeBlock
        (ret (construct "TraceIdentifier" idKeywords))))

def parseTraceIdentifier : FunDef := { name := "parse_trace_identifier", params := 1, body := traceIdBody }

/--
```python
@dataclass
class TraceIdentifier:
    namespace: FirehoseTracepointNamespace
    type_: enum.Enum
    has_large_offset: bool
    has_unique_pid: bool
    pc_style: FirehoseTracepointFlagsPcStyle
    has_current_aid: bool
    flags: None
    code: int
```
-/
def clsTraceIdentifier : ClassDef :=
  { name := "TraceIdentifier"
    fields := ["namespace", "type_", "has_large_offset", "has_unique_pid", "pc_style", "has_current_aid", "flags", "code"] }

/-- the three methods in source order, the dataclass they construct -/
def prog : Program :=
  { classes := [clsTraceIdentifier], funs := [parseTraceIdentifier, parseDecomposed, parseDecomposedSegment] }

end KdVerif.PyIROl.Expected
