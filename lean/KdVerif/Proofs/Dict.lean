import KdVerif.Model.ContainerV2
/- Lookup laws of the association-list model of Python dicts, and "later entry wins" for folds. -/
namespace KdVerif

theorem dictGet_cons {β : Type} (k : Nat) (p : Nat × β) (l : List (Nat × β)) :
    dictGet k (p :: l) = if p.1 = k then some p.2 else dictGet k l := by
  unfold dictGet
  by_cases h : p.1 = k <;> simp [List.find?_cons, h]

theorem dictGet_nil {β : Type} (k : Nat) : dictGet k ([] : List (Nat × β)) = none := rfl

theorem dictGet_none_of_any_false {β : Type} (k : Nat) (l : List (Nat × β))
    (h : l.any (fun p => p.1 == k) = false) : dictGet k l = none := by
  induction l with
  | nil => rfl
  | cons p l ih =>
    simp only [List.any_cons, Bool.or_eq_false_iff, beq_eq_false_iff_ne, ne_eq] at h
    rw [dictGet_cons, if_neg h.1, ih h.2]

theorem dictGet_map_ne {β : Type} (k k' : Nat) (v : β) (l : List (Nat × β)) (hk : k ≠ k') :
    dictGet k (l.map (fun p => if p.1 == k' then (k', v) else p)) = dictGet k l := by
  induction l with
  | nil => rfl
  | cons p l ih =>
    rw [List.map_cons, dictGet_cons, dictGet_cons, ih]
    by_cases hp : p.1 = k'
    · have h1 : ¬ k' = k := fun e => hk e.symm
      have h2 : ¬ p.1 = k := fun e => hk (e.symm.trans hp)
      simp [hp, h1, h2]
    · simp [hp]

theorem dictGet_map_eq {β : Type} (k' : Nat) (v : β) (l : List (Nat × β))
    (ha : l.any (fun p => p.1 == k') = true) :
    dictGet k' (l.map (fun p => if p.1 == k' then (k', v) else p)) = some v := by
  induction l with
  | nil => simp at ha
  | cons p l ih =>
    rw [List.map_cons, dictGet_cons]
    by_cases hp : p.1 = k'
    · simp [hp]
    · have ha' : l.any (fun p => p.1 == k') = true := by
        simp only [List.any_cons, Bool.or_eq_true, beq_iff_eq] at ha
        rcases ha with h | h
        · exact absurd h hp
        · exact h
      have hb : (p.1 == k') = false := by simpa using hp
      simp only [hb, Bool.false_eq_true, if_false, hp]
      exact ih ha'

theorem dictGet_append_single {β : Type} (k k' : Nat) (v : β) (l : List (Nat × β)) :
    dictGet k (l ++ [(k', v)]) = match dictGet k l with
      | some x => some x
      | none => if k' = k then some v else none := by
  induction l with
  | nil => simp [dictGet_cons, dictGet_nil]
  | cons p l ih =>
    rw [List.cons_append, dictGet_cons, dictGet_cons, ih]
    by_cases hp : p.1 = k <;> simp [hp]

theorem dictGet_dictSet {β : Type} (k k' : Nat) (v : β) (l : List (Nat × β)) :
    dictGet k (dictSet k' v l) = if k = k' then some v else dictGet k l := by
  unfold dictSet
  by_cases ha : l.any (fun p => p.1 == k') = true
  · rw [if_pos ha]
    by_cases hk : k = k'
    · subst hk; rw [dictGet_map_eq k v l ha, if_pos rfl]
    · rw [dictGet_map_ne k k' v l hk, if_neg hk]
  · rw [if_neg ha, dictGet_append_single]
    have ha' : l.any (fun p => p.1 == k') = false := Bool.eq_false_iff.mpr ha
    by_cases hk : k = k'
    · subst hk; rw [dictGet_none_of_any_false k l ha']
    · have : ¬ k' = k := fun e => hk e.symm
      rw [if_neg hk]
      cases dictGet k l <;> simp [this]

theorem foldl_snoc_ind {α : Type} {P : List α → Prop} (nil : P [])
    (snoc : ∀ l a, P l → P (l ++ [a])) (l : List α) : P l := by
  have : ∀ l : List α, P l.reverse := by
    intro l
    induction l with
    | nil => exact nil
    | cons a l ih => rw [List.reverse_cons]; exact snoc _ _ ih
  simpa using this l.reverse

/-- looking a key up after filling a dict in order: the LAST entry with that key, else what was there. -/
theorem dictGet_foldl {α β : Type} (key : α → Nat) (val : α → β) (es : List α) (init : List (Nat × β)) (k : Nat) :
    dictGet k (es.foldl (fun d e => dictSet (key e) (val e) d) init) =
      match es.reverse.find? (fun e => key e == k) with
      | some e => some (val e)
      | none => dictGet k init := by
  induction es using foldl_snoc_ind with
  | nil => rfl
  | snoc es e ih =>
    rw [List.foldl_append, List.foldl_cons, List.foldl_nil, dictGet_dictSet, List.reverse_append]
    by_cases hk : key e = k
    · simp [hk]
    · have : ¬ k = key e := fun h => hk h.symm
      rw [if_neg this, ih]
      simp [hk]

end KdVerif
