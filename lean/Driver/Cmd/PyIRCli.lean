import Driver.Util
import KdVerif.Model.PyIRCli
import KdVerif.Gen.PyIRCli
import KdVerif.Spec.PyIRCliExpected
/-
  Commands for the translation tie of the command-line glue (C06 / C12 / C13 / C14): the terms GENERATED from
  `pykdebugparser/__main__.py` and from `PyKdebugParser.__init__` / `formatted_*` (`Gen/PyIRCli`) run by the interpreter of
  `Model/PyIRCli`.

  cliircheck                         `same` | `differs <terms>[ unsupported]` (`cli_source_is_expected_ir`)
  clidecls <cmd>                     `ok <param>;<A|O>;<kind>;<default>;<0|1 multiple>;<hex spelling>,… …`   one entry per declaration
  cliinit                            `ok <attr>=<val> …`   the object the generated `__init__` builds (attributes in source order)
  cliglue <cmd> <name>=<val>…        what the generated callback does with the options the user gave:
                                       `usage` (click rejects) | `err <PyErr>` (the callback raises before any call) |
                                       `call <method> <count> <attr>=<val> …` (the object handed to `parser.<method>(dump)`, sorted by
                                       attribute, and the count handed to `print_with_count`) |
                                       `table <attr> <indent>` (a table command: `json.dumps(parser.<attr>, indent=…)`)
  clirun <cmd> <name>=<val>… | <item>… | <exc>
                                     the generated callback on an ABSTRACT generator (whatever method it calls delivers the items,
                                     then raises `<exc>` unless `-`): `usage` | `ran <printed items,…> | <exc or ->`
  clipwc <count> <exc> <item>…       the generated `print_with_count` alone: `ok <printed items,…> | <exc or ->`
  cliconv <hex text>                 `BASED_INT` on the text: `ok <n>` | `err ValueError` | `err Unmodelled`
  clifmt <method> <N|C>              the generated `formatted_x` called without / with a code table, on a probe:
                                       `ok <formatter> <extra args,…> <source> <args,…>` | `err <PyErr>`
  values: `N` None, `b0` / `b1`, `i<int>`, `s<hex text>`, `t<ints,…>` tuple (`t-` empty), `l<ints,…>` list, `d` `{}`, `f` the dump.
  `unsupported` when the term in question contains a node outside the IR.
-/
open KdVerif KdVerif.PyIRCli
namespace Driver.PyIRCli

def commandOf (name : String) : Option Command := Gen.PyIRCli.commands.find? (·.name = name)

def notesBad : Bool := !Gen.PyIRCli.notes.isEmpty

def cmdCheck : Cmd := fun _ =>
  let d : List String :=
    (if Gen.PyIRCli.printWithCount = Expected.printWithCount then [] else ["print_with_count"]) ++
    (if Gen.PyIRCli.basedInt = Expected.basedInt then [] else ["BASED_INT"]) ++
    (if Gen.PyIRCli.kevents = Expected.kevents then [] else ["kevents"]) ++
    (if Gen.PyIRCli.traces = Expected.traces then [] else ["traces"]) ++
    (if Gen.PyIRCli.callstacks = Expected.callstacks then [] else ["callstacks"]) ++
    (if Gen.PyIRCli.processes = Expected.processes then [] else ["processes"]) ++
    (if Gen.PyIRCli.kexts = Expected.kexts then [] else ["kexts"]) ++
    (if Gen.PyIRCli.images = Expected.images then [] else ["images"]) ++
    (if Gen.PyIRCli.logs = Expected.logs then [] else ["logs"]) ++
    (if Gen.PyIRCli.init = Expected.init then [] else ["__init__"]) ++
    (if Gen.PyIRCli.formattedKevents = Expected.formattedKevents then [] else ["formatted_kevents"]) ++
    (if Gen.PyIRCli.formattedTraces = Expected.formattedTraces then [] else ["formatted_traces"]) ++
    (if Gen.PyIRCli.formattedCallstacks = Expected.formattedCallstacks then [] else ["formatted_callstacks"]) ++
    (if Gen.PyIRCli.formattedLogs = Expected.formattedLogs then [] else ["formatted_logs"]) ++
    (if Gen.PyIRCli.pwcNotes.isEmpty then [] else ["pwc-notes"]) ++
    (if Gen.PyIRCli.notes.isEmpty then [] else ["notes"])
  let unsupported := Gen.PyIRCli.printWithCount.body.hasUnsupported || Gen.PyIRCli.commands.any Command.hasUnsupported ||
    Gen.PyIRCli.init.any (fun p => p.2.isUnsupported) || Gen.PyIRCli.prog.formatted.any (fun p => p.2.hasUnsupported)
  if d.isEmpty then "same" else "differs " ++ ",".intercalate d ++ (if unsupported then " unsupported" else "")

def intsText (xs : List Int) : String := if xs.isEmpty then "-" else ",".intercalate (xs.map toString)

def showVal : Val → String
  | .none => "N"
  | .bool b => if b then "b1" else "b0"
  | .int n => "i" ++ toString n
  | .str s => "s" ++ hexOfString s
  | .tuple xs => "t" ++ intsText xs
  | .list xs => "l" ++ intsText xs
  | .dict => "d"
  | .file => "f"

def parseInts (s : String) : Option (List Int) :=
  if s = "-" then some [] else (s.splitOn ",").mapM String.toInt?

def parseVal (s : String) : Option Val :=
  match s.toList with
  | ['N'] => some .none
  | ['b', '0'] => some (.bool false)
  | ['b', '1'] => some (.bool true)
  | 'i' :: r => (String.ofList r).toInt?.map .int
  | 's' :: r => (stringOfHex (String.ofList r)).map .str
  | 't' :: r => (parseInts (String.ofList r)).map .tuple
  | 'l' :: r => (parseInts (String.ofList r)).map .list
  | _ => none

def parseArg (s : String) : Option (String × Option Val) :=
  match s.splitOn "=" with
  | [k, v] => (parseVal v).map fun x => (k, some x)
  | _ => none

def showKind : Kind → String
  | .int => "int" | .basedInt => "basedInt" | .str => "str" | .flag => "flag"
  | .file m => "file:" ++ m
  | .unsupported _ => "unsupported"

def showDecl (d : Decl) : String :=
  ";".intercalate [d.param, if d.isArgument then "A" else "O", showKind d.kind, showVal d.default,
    if d.multiple then "1" else "0", ",".intercalate (d.flags.map hexOfString)]

def cmdDecls : Cmd
  | [name] =>
    match commandOf name with
    | some c => "ok " ++ " ".intercalate (c.decls.map showDecl)
    | none => "bad-op"
  | _ => "bad-op"

def showObj (o : Obj) : String := " ".intercalate (o.map fun p => p.1 ++ "=" ++ showVal p.2)

def insertSorted (p : String × Val) : Obj → Obj
  | [] => [p]
  | q :: r => if p.1 < q.1 then p :: q :: r else q :: insertSorted p r

def sortObj (o : Obj) : Obj := o.foldr insertSorted []

def cmdInit : Cmd := fun _ =>
  if Gen.PyIRCli.init.any (fun p => p.2.isUnsupported) then "unsupported" else
  match initObj Gen.PyIRCli.init [] with
  | .ok o => "ok " ++ showObj o
  | .error e => "err " ++ e.name

def errOf (s : String) : Option (Option PyErr) :=
  if s = "-" then some none
  else ([PyErr.indexError, .keyError, .valueError, .attributeError, .typeError, .unicodeError, .structError, .streamError,
         .eof, .hang, .unmodelled].find? (·.name = s)).map some

def excText : Option PyErr → String
  | none => "-"
  | some e => e.name

/-- the methods deliver nothing: only the call itself is of interest -/
def glueWorld : World Unit Unit :=
  { formatted := fun _ _ _ => ([], none)
    parseAll := fun _ => .ok ()
    jsonDumps := fun _ a n => .ok (a ++ " " ++ toString n) }

def cmdGlue : Cmd
  | name :: rest =>
    match commandOf name, rest.mapM parseArg with
    | some c, some args =>
      if c.hasUnsupported || Gen.PyIRCli.printWithCount.body.hasUnsupported ||
         Gen.PyIRCli.init.any (fun p => p.2.isUnsupported) then "unsupported" else
      match runSt Gen.PyIRCli.prog glueWorld c args () with
      | none => "usage"
      | some (s, some e) => if s.calls.isEmpty && s.out.isEmpty then "err " ++ e.name else "err-late " ++ e.name
      | some (s, none) =>
        match s.calls, s.out with
        | [(m, o, cnt)], [] => "call " ++ m ++ " " ++ toString cnt ++ " " ++ showObj (sortObj o)
        | [], [t] => "table " ++ t
        | _, _ => "other"
    | _, _ => "bad-op"
  | _ => "bad-op"

/-- whatever method is called delivers the given items and ends the given way -/
def runWorld : World (List String × Option PyErr) Unit :=
  { formatted := fun _ _ d => d
    parseAll := fun d => match d.2 with | some e => .error e | none => .ok ()
    jsonDumps := fun _ a n => .ok (a ++ ":" ++ toString n) }

def splitBar (l : List String) : List String × List String :=
  (l.takeWhile (· ≠ "|"), (l.dropWhile (· ≠ "|")).drop 1)

def cmdRun : Cmd
  | name :: rest =>
    let (opts, r1) := splitBar rest
    let (items, r2) := splitBar r1
    match commandOf name, opts.mapM parseArg, r2 with
    | some c, some args, [exc] =>
      (match errOf exc with
       | none => "bad-op"
       | some err =>
         if c.hasUnsupported || Gen.PyIRCli.printWithCount.body.hasUnsupported ||
            Gen.PyIRCli.init.any (fun p => p.2.isUnsupported) then "unsupported" else
         match run Gen.PyIRCli.prog runWorld c args (items, err) with
         | .usage => "usage"
         | .ran printed e => "ran " ++ (if printed.isEmpty then "-" else ",".intercalate printed) ++ " | " ++ excText e)
    | _, _, _ => "bad-op"
  | _ => "bad-op"

def cmdPwc : Cmd
  | cnt :: exc :: items =>
    match cnt.toInt?, errOf exc with
    | some c, some err =>
      if Gen.PyIRCli.printWithCount.body.hasUnsupported then "unsupported" else
      let r := runPwc Gen.PyIRCli.printWithCount (items, err) c
      "ok " ++ (if r.1.isEmpty then "-" else ",".intercalate r.1) ++ " | " ++ excText r.2
    | _, _ => "bad-op"
  | _ => "bad-op"

def cmdConv : Cmd
  | [h] =>
    match stringOfHex h with
    | some t =>
      (match Gen.PyIRCli.basedInt.apply t with
       | .ok n => "ok " ++ toString n
       | .error e => "err " ++ e.name)
    | none => "bad-op"
  | _ => "bad-op"

def showArg : ArgVal Unit → String
  | .kdebug => "kdebug"
  | .none => "None"
  | .codes _ => "codes"
  | .defaultCodes => "default"

def argsText (l : List (ArgVal Unit)) : String := if l.isEmpty then "-" else ",".intercalate (l.map showArg)

/-- a probe: the source delivers one item naming itself and its arguments, the formatter answers with its own name and
    arguments in front -/
def probeMethods : Methods Unit String Unit :=
  { source := fun m _ args _ => ([m ++ " " ++ argsText args], none)
    formatter := fun m _ x args => .ok (m ++ " " ++ argsText args ++ " " ++ x) }

def cmdFmt : Cmd
  | [m, tc] =>
    match Gen.PyIRCli.prog.formatted.lookup m with
    | some f =>
      if f.hasUnsupported then "unsupported" else
      (match runFormatted probeMethods f [] (if tc = "C" then some () else none) () with
       | ([line], none) => "ok " ++ line
       | (_, some e) => "err " ++ e.name
       | _ => "other")
    | none => "bad-op"
  | _ => "bad-op"

def commands : List (String × Cmd) :=
  [("cliircheck", cmdCheck), ("clidecls", cmdDecls), ("cliinit", cmdInit), ("cliglue", cmdGlue), ("clirun", cmdRun),
   ("clipwc", cmdPwc), ("cliconv", cmdConv), ("clifmt", cmdFmt)]

end Driver.PyIRCli
