"""C06 — truncated dumps: parsing terminates and reports a prefix of the full result."""
import contextlib
import io
import json

from .. import core
from ..core import run_section
from .. import containers as ct
from . import C02 as c02

MODULE = 'KdVerif.Props.C06'
NAMESPACE = 'KdVerif.C06'
TRUSTED = ['Model/Reader + Model/Construct + Model/ContainerV2/V3 as models of BytesIO / construct / kd_buf_parser.py, tied by '
           'running EVERY cut offset of a corpus of generated v2 and v3 dumps (thorough) / a stratified subset (quick) through '
           'the real parser under a counting reader: outcome kind, number and checksum of events, read calls, bytes returned and '
           'bytes requested must all agree with the model; dumps longer than the reader\'s blocks, cut at the block edges (trunc-blocks, sizes '
           'from tools/kdv/readprobe.py), are judged on the code alone',
           'Model/Pipeline (filter/map stages, print_with_count) tied by sections pipeline and pwc; print_with_count also tied to the '
           'SOURCE TEXT: tools/gen_pyir_cli.py translates the loop of __main__.py into the statement IR of Model/PyIRCli on every run '
           '(cli_source_is_expected_ir, print_with_count_ir_eq_model: the interpreted loop prints printWithCount and lets the '
           'generator\'s exception out exactly when it asks for an item that is not there); trusted for that: the translator and '
           'the interpreter (section cli-pwc-raise tests them against CPython on generators that raise while producing item k)',
           'from_kd_buf rejects anything but 64 bytes (C01.decode_rejects_other_lengths)']
from .. import rdir as _rdir  # noqa: E402
TRUSTED = TRUSTED + [_rdir.TRUSTED]
ASSUMPTIONS = ['bytes objects hold values 0..255',
               'the read bound is on read calls + bytes RETURNED; bytes requested are not bounded by the length '
               '(Prefixed(Int64ul) requests whatever the length field says)',
               'the trace/callstack stages are covered by the generic feed_generator theorem (feedGen_prefix / traces_causal); '
               'their concrete step functions belong to C04/C15']

READ_A, READ_B = 5, 67          # reads_linear: calls + got <= 5 * len + 67


def digest(k, res):
    return '%d:%s:%d:%d:%d:%d:%d' % (k, ct.show_err(res.err), len(res.events), ct.ev_sum(res.events), res.rd.calls,
                                     res.rd.got, res.rd.req)


def impl_trunc(c):
    data = bytes.fromhex(c['hex'])
    out = []
    for k in c['ks']:
        res = ct.run_impl(data[:k], budget=10 * k + 1000, watchdog=20)
        out.append(digest(k, res))
    return ' '.join(out)


def line_trunc(c):
    return 'trunc - - %s %s %s' % (c.get('plists', '-'), c['hex'] or '-', ','.join(map(str, c['ks'])))


def record_ends(c):
    """end offsets of the complete records of a generated dump (None for arbitrary byte strings)."""
    return c.get('rec_ends')


def judge_cut(k, total, res, full_keys, ncomplete=None, expected=None, data=None):
    """The property on ONE cut, on the implementation's run alone: terminates within the read budget, reads linearly,
    delivers a prefix of the complete dump's events compared on ALL fields, and nothing fabricated: never more events than
    complete records inside the cut, every event the decoding of its record (`expected`, generated dumps) / of 64 consecutive
    bytes of the cut input in ascending order (`data`, any byte string)."""
    if isinstance(res.err, ct.Watchdog):
        return ('trunc:hang', 'cut at %d of %d: the parser does not return (watchdog)' % (k, total))
    if isinstance(res.err, ct.Budget):
        return ('trunc:read-budget', 'cut at %d of %d: more than 10*len+1000 read work' % (k, total))
    if res.rd.calls + res.rd.got > READ_A * k + READ_B:
        return ('trunc:reads-not-linear', 'cut at %d: %d calls + %d bytes returned > %d*len+%d'
                % (k, res.rd.calls, res.rd.got, READ_A, READ_B))
    ev = [ct.ev_key(e) for e in res.events]
    if ev != full_keys[:len(ev)]:
        i = next((i for i, (a, b) in enumerate(zip(ev, full_keys)) if a != b), min(len(ev), len(full_keys)))
        return ('trunc:not-a-prefix', 'cut at %d of %d: events are not a prefix of the complete dump\'s events '
                                      '(%d vs %d events, first difference at event %d)' % (k, total, len(ev), len(full_keys), i))
    if ncomplete is not None and len(ev) > ncomplete:
        return ('trunc:fabricated', 'cut at %d: %d events but only %d complete records inside the cut' % (k, len(ev), ncomplete))
    if expected is not None and ev != expected[:len(ev)]:
        i = next(i for i, (a, b) in enumerate(zip(ev, expected)) if a != b)
        return ('trunc:fabricated', 'cut at %d: event %d is not the decoding of record %d of the dump' % (k, i, i))
    if data is not None:
        bad = ct.not_from_input(res.events, data[:k])
        if bad:
            return ('trunc:fabricated', 'cut at %d: event %d: %s' % (k, bad[0], bad[1]))
    return None


def oracle_trunc(c, got):
    """The property on the implementation alone: termination within the read budget, linear reading, prefix of the
    full dump's events (all fields), nothing fabricated."""
    data = bytes.fromhex(c['hex'])
    full = ct.run_impl(data, budget=10 * len(data) + 1000)
    if isinstance(full.err, (ct.Budget, ct.Watchdog)):
        return ('trunc:no-termination', 'the complete dump does not terminate within the read budget: %r' % full.err)
    full_keys = [ct.ev_key(e) for e in full.events]
    ends = record_ends(c)
    expected = None if ends is None else [ct.dec_rec(data[e - 64:e]) for e in ends]
    for k in c['ks']:
        res = ct.run_impl(data[:k], budget=10 * k + 1000, watchdog=20)
        r = judge_cut(k, len(data), res, full_keys, None if ends is None else sum(1 for e in ends if e <= k), expected, data)
        if r:
            return r
    return None


def batches(ks, n=48):
    return [ks[i:i + n] for i in range(0, len(ks), n)]


def offsets(rng, length, tier, marks=()):
    if tier != 'quick':
        return list(range(length + 1))
    ks = set([0, 1, 3, 4, 5, 8, length, max(length - 1, 0), max(length - 7, 0), max(length - 8, 0), max(length - 9, 0)])
    for m in marks:                       # around every structural boundary
        for d in (-1, 0, 1, 7, 8):
            if 0 <= m + d <= length:
                ks.add(m + d)
    for _ in range(40):
        ks.add(rng.randrange(length + 1))
    return sorted(ks)


def v2_case_set(rng, tier):
    cases = []
    nfiles = 15 if tier == 'quick' else 40
    for i in range(nfiles):
        f = c02.gen_file(rng, small=True)
        f['recs'] = f['recs'] or [c02.gen_record(rng, 'nonzero').hex()]
        data = c02.file_bytes(f)
        p0 = 288 + 32 * len(f['threads']) + f['pad']
        ends = [p0 + 64 * (j + 1) for j in range(len(f['recs']))]
        marks = [4, 8, 32, 288, 288 + 32 * len(f['threads']), p0] + ends
        for ks in batches(offsets(rng, len(data), tier, marks)):
            cases.append({'hex': data.hex(), 'ks': ks, 'rec_ends': ends, 'kind': 'v2'})
    return cases


def v3_layout(f):
    """end offsets of the records and structural marks of a generated v3 dump."""
    data = ct.v3_bytes(f)
    ends, marks = [], []
    pos = 0
    for c in f['chunks']:
        for r in c['recs']:
            i = data.find(bytes.fromhex(r), pos)
            # records are searched from the previous record's end; generated gaps never contain a whole record
            ends.append(i + 64)
            pos = i + 64
        marks.append(pos)
    for t in (ct.STACKSHOT_END, ct.TAG_THREADMAP, ct.TAG_EVENTS, ct.TAG_MORE):
        i = data.find(t)
        while i >= 0 and len(marks) < 60:
            marks.append(i)
            marks.append(i + len(t))
            i = data.find(t, i + 1)
    return data, ends, marks


def v3_case_set(rng, tier):
    cases = []
    nfiles = 30 if tier == 'quick' else 80
    for i in range(nfiles):
        f = ct.gen_v3(rng, small=True, blocks=(i % 3 != 0))
        # distinct records so that their offsets can be located
        seen = set()
        for c in f['chunks']:
            for j, r in enumerate(c['recs']):
                while r in seen:
                    r = rng.randbytes(64).hex()
                seen.add(r)
                c['recs'][j] = r
        data, ends, marks = v3_layout(f)
        pl = ct.v3_plists(f)
        for ks in batches(offsets(rng, len(data), tier, marks)):
            cases.append({'hex': data.hex(), 'ks': ks, 'rec_ends': ends, 'plists': pl, 'kind': 'v3'})
    return cases


def garbage_case_set(rng, tier):
    """arbitrary byte strings behind a magic, and mutated valid dumps (the theorems are for EVERY byte string)."""
    cases = []
    n = 300 if tier == 'quick' else 3000
    for i in range(n):
        kind = rng.randrange(6)
        pl = '-'
        if kind == 0:
            data = ct.V2_MAGIC + rng.randbytes(rng.randrange(0, 500))
        elif kind == 1:
            data = ct.V3_MAGIC + rng.randbytes(rng.randrange(0, 300))
        elif kind == 2:      # v3 made of tags and small integers: scanners and loops get far
            parts = [ct.V3_MAGIC, bytes(60), (0).to_bytes(8, 'little'), bytes(4)]
            for _ in range(rng.randrange(1, 14)):
                parts.append(rng.choice(ct.ALL_TAGS + [rng.randrange(0, 300).to_bytes(8, 'little'), bytes(8), rng.randbytes(5),
                                                       rng.randbytes(64), bytes(32)]))
            data = b''.join(parts)
        elif kind == 3:      # huge size field: the chunk loop must stop at the first short record
            f = ct.gen_v3(rng, small=True, blocks=False)
            b = bytearray(ct.v3_bytes(f))
            i0 = bytes(b).find(ct.TAG_EVENTS, 68)
            b[i0 + 8:i0 + 16] = rng.choice([(1 << 64) - 1, 1 << 40, 64 * 1000]).to_bytes(8, 'little')
            data = bytes(b)
            pl = ct.v3_plists(f)
        else:                # byte flips in a valid dump
            if rng.random() < 0.5:
                f = ct.gen_v3(rng, small=True)
                b = bytearray(ct.v3_bytes(f))
                pl = ct.v3_plists(f)
                # plist payloads are opaque to the model (looked up by exact bytes): flips stay outside them
                ncpu = len(f['cpu']) // 2
                nblk = sum(16 + len(x['payload']) // 2 + (-(8 + len(x['payload']) // 2) % 8 if x['padded'] else 0)
                           for x in f['blocks'])
                allowed = list(range(4, 72)) + list(range(72 + ncpu, len(b) - nblk))
            else:
                b = bytearray(c02.file_bytes(c02.gen_file(rng, small=True)))
                allowed = list(range(4, len(b)))
            for _ in range(rng.randrange(1, 5)):
                b[rng.choice(allowed)] = rng.randrange(256)
            data = bytes(b)
        ks = sorted(set([len(data)] + [rng.randrange(len(data) + 1) for _ in range(10 if tier == 'quick' else 30)]))
        cases.append({'hex': data.hex(), 'ks': ks, 'plists': pl, 'kind': 'g%d' % kind})
    return cases


# ------------------------------------------------------------------------------------------- cuts at the reader's block edges

EDGE_D = [-63, -33, -32, -8, -1, 0, 1, 7, 8, 31, 33, 63, 64, 65, 64 * 2 + 9, 64 * 5 + 40]


def edge_cuts(rng, bases, lo, length, extra=6):
    """cut offsets around every base (a block edge): +-1..63, the edge itself, a few records behind it; random non-aligned
    offsets behind the first edge; the end of the dump and offsets just in front of it."""
    ks = {length, length - 1, length - 37, length - 64 - 5}
    for b in bases:
        for d in EDGE_D:
            ks.add(b + d)
    first = min([b for b in bases if lo < b < length], default=None)
    if first is not None:
        for _ in range(extra):
            ks.add(rng.randrange(first, length + 1) | rng.randrange(1, 64))
    return sorted(k for k in ks if lo <= k <= length)


def block_case_set(rng, tier, sizes):
    """For every block size B the reader may work with: version-2 and version-3 dumps whose record area is longer than 2B
    (B above 2 MiB: longer than B), cut around the block edges counted from the start of the record area and from the start
    of the file; a version-3 dump whose stackshot filler is longer than B, cut around the edge inside the filler."""
    cases = []
    for B, origin in sizes:
        span = 2 * B if B <= (2 << 20) else B
        n = span // 64 + 9
        for v in (2, 3):
            seed = rng.randrange(1 << 30)
            if v == 2:
                rc = {'v': 2, 'seed': seed, 'threads': rng.randrange(0, 4), 'pad': rng.choice([0, 0, 3, 64]), 'n': n}
            else:
                rc = {'v': 3, 'seed': seed, 'threads': rng.randrange(0, 4), 'trail': rng.choice([0, 5]),
                      'filler': {'len': rng.randrange(0, 40), 'seed': seed}, 'gap1': {'len': rng.randrange(0, 9), 'seed': seed},
                      'chunks': [{'gap': {'len': rng.randrange(0, 9), 'seed': seed}, 'n': n, 'extra': rng.choice([0, 0, 17])},
                                 {'gap': {'len': 2, 'seed': seed}, 'n': 3, 'extra': 0}]}
            data, info = ct.big_bytes(rc)
            start = info['areas'][0][0]
            bases = [start + B, start + 2 * B, B, 2 * B]
            ks = edge_cuts(rng, bases, start, len(data))
            if B > (256 << 10) and tier != 'quick':      # the big ones: every second edge offset
                ks = [k for i, k in enumerate(ks) if i % 2 == 0 or k % 64 in (1, 63)]
            cases.append({'rc': rc, 'ks': ks, 'B': B, 'origin': origin, 'kind': 'v%d-records' % v})
        seed = rng.randrange(1 << 30)
        rc = {'v': 3, 'seed': seed, 'threads': 2, 'filler': {'len': B + 70, 'style': rng.choice(['hi', 'zero', 'near']), 'seed': seed},
              'gap1': {'len': 3, 'seed': seed}, 'chunks': [{'gap': {'len': 0}, 'n': 3, 'extra': 0}]}
        data, info = ct.big_bytes(rc)
        ks = edge_cuts(rng, [info['scan0'] + B, B], info['scan0'], len(data), extra=2)
        cases.append({'rc': rc, 'ks': ks, 'B': B, 'origin': origin, 'kind': 'v3-filler'})
    return cases


def oracle_blocks(c):
    data, info = ct.big_bytes(c['rc'])
    full = ct.run_impl(data, budget=10 * len(data) + 1000, watchdog=120)
    if isinstance(full.err, (ct.Budget, ct.Watchdog)):
        return ('trunc:no-termination', 'the complete dump (%d bytes) does not terminate within the read budget: %r'
                % (len(data), full.err))
    full_keys = [ct.ev_key(e) for e in full.events]
    expected, _ = ct.recipe_expected(info)
    for k in c['ks']:
        res = ct.run_impl(data[:k], budget=10 * k + 1000, watchdog=120)
        r = judge_cut(k, len(data), res, full_keys, ct.complete_records(info, k), expected)
        if r:
            return r[0], r[1] + ' [records start at %d, block size aimed at %d (%s)]' % (
                info['areas'][0][0], c['B'], c.get('origin', '?')), dict(c, ks=[k])
    return None


# ------------------------------------------------------------------------------------------- pipeline / print_with_count

def formatted(data, cfg):
    from pykdebugparser.pykdebugparser import PyKdebugParser
    p = PyKdebugParser()
    p.color = False
    p.filter_tid = cfg.get('tid')
    p.filter_class = cfg.get('classes', [])
    p.show_tid = cfg.get('show_tid', False)
    lines = []

    def go():
        try:
            for ln in p.formatted_kevents(io.BytesIO(data), trace_codes={}):
                lines.append(ln)
        except Exception:
            pass
    ct.guarded(go, 20)
    return lines


def oracle_pipeline(c, got):
    data = bytes.fromhex(c['hex'])
    cfg = c['cfg']
    full = formatted(data, cfg)
    for k in c['ks']:
        cut = formatted(data[:k], cfg)
        if cut != full[:len(cut)]:
            return ('pipeline:not-a-prefix', 'cut at %d: formatted lines are not a prefix of the complete dump\'s lines' % k)
    return None


def impl_pwc(c):
    from pykdebugparser.__main__ import print_with_count
    buf = io.StringIO()
    with contextlib.redirect_stdout(buf):
        print_with_count(iter(range(c['n'])), c['count'])
    out = buf.getvalue().split('\n')[:-1]
    return 'ok ' + ','.join(out)


def oracle_pwc(c, got):
    exp = list(range(c['n'])) if c['count'] < 0 else list(range(c['n']))[:c['count']]
    if got != 'ok ' + ','.join(map(str, exp)):
        return ('pwc:lines', 'print_with_count(range(%d), %d) printed %s' % (c['n'], c['count'], got[:80]))
    return None


C_SYNTAX = ['io; sync worker(2)', 'pool{3}', 'a;b', 'x{', '}', 'int f(int a)', 'void main()', '/* c', 'c */', '// n', '#if 0',
            '#endif', 'if (x) {', 'else', 'case 1:', 'struct s', 'return;', 'L"w', "'c", '"s', 'a\\', '0x1f', '1.5e3', 'goto l;',
            'l:', '@', '$', 'static int g(void)', 'typedef', 'enum e {', '};', 'do', 'while (1);', 'x = y', 'f(a, b);', '??=',
            'asm(', 'u8"', "R\"(", 'unsigned long long h(', ';', '{', '()', 'name (', 'int']


def coloured_cuts_section(rep, rng, tier):
    """The prefix statement of C06 is about the LINES the tool prints, and by default it prints them coloured: a line already
    printed may not depend on records that come later.  Dumps whose free-text fields (thread names, paths, global strings)
    are pieces of C syntax — what the highlighter's lexer keeps state about: statement ends, braces, declarators, comments,
    strings, preprocessor lines — are cut at record boundaries and in between; with colour ON the lines of the cut dump must
    be a prefix of the lines of the whole dump, and with colour off as well (oracle on the code alone; pygments is outside the
    model)."""
    import io
    from .. import pipeline as PL
    from pykdebugparser.pykdebugparser import PyKdebugParser
    sec = rep.section('coloured-cuts')
    sec['rule'] = ('v2 dumps of 12-90 trace-producing records whose texts are C-syntax fragments (%d pieces, joined in pairs), '
                   'formatted_traces with colour on / off, cut behind every k-th record and at unaligned offsets: lines(cut) '
                   'must be a prefix of lines(whole)' % len(C_SYNTAX))
    n_dumps = 6 if tier == 'quick' else 60

    def text():
        return ' '.join(rng.choice(C_SYNTAX) for _ in range(rng.choice([1, 2, 2, 3])))[:60]

    def lines_of(data, codes, colour):
        p = PyKdebugParser()
        p.color = colour
        out, err = [], '-'
        try:
            for ln in p.formatted_traces(io.BytesIO(data), codes):
                out.append(ln)
        except Exception as e:
            err = core.err_name(e)
        return out, err

    for d in range(n_dumps):
        s = PL.Stream(rng)
        s.ts = 256 * rng.randrange(1, 1000)
        tids = [5, 6, 7]
        for _ in range(rng.choice([12, 30, 70, 90]) if d % 2 else rng.randrange(12, 40)):
            tid = rng.choice(tids)
            k = rng.random()
            if k < 0.45:
                s.threadname(tid, text()[:31])
            elif k < 0.65:
                s.gstring(tid, rng.randrange(0, 9), text()[:15])
            elif k < 0.82:
                s.syscall('BSC_open', tid, [0, 0, 0, 0], [0, 3, 0, 0], [(text(), rng.randrange(1, 1 << 30))])
            elif k < 0.92:
                # records that re-name the process of a thread later in the dump, with names of every length a string record
                # can carry (a thread-map name cannot exceed 19 bytes, these can reach 32): a line printed earlier may not change
                nm = (text() + 'x' * 32)[:rng.choice([1, 8, 19, 20, 27, 30, 31, 32])]
                if rng.random() < 0.5:
                    s.exec_(tid, rng.choice([42, 43, 77]), nm)
                else:
                    s.newthread(tid, rng.choice(tids), rng.choice([42, 43, 77]), nm)
            else:
                s.ev('MACH_SCHED', 0, tid, [0, 1, 2, 3])
        recs = s.recs
        if recs[0][0] == 0:
            recs = [bytes([1]) + recs[0][1:]] + recs[1:]
        whole = PL.v2_bytes([(5, 42, 'launchd'), (6, 42, 'launchd')], recs, 0)
        hdr = len(whole) - 64 * len(recs)
        codes = PL.restricted_codes(recs, extra=('VFS_LOOKUP',))
        step = max(1, len(recs) // (5 if tier == 'quick' else 16))
        cuts = sorted({hdr + 64 * i for i in range(0, len(recs) + 1, step)} | {hdr + 64 * rng.randrange(len(recs)) + rng.randrange(1, 64)
                                                                           for _ in range(2)})
        for colour in (True, False):
            full, ferr = lines_of(whole, codes, colour)
            for k in cuts:
                sec['cases'] += 1
                part, _ = lines_of(whole[:k], codes, colour)
                if part != full[:len(part)]:
                    i = next((j for j, (a, b) in enumerate(zip(part, full)) if a != b), min(len(part), len(full)))
                    rep.add_failure('trunc:coloured-line-depends-on-later-records' if colour else 'trunc:line-depends-on-later-records',
                                    'dump of %d records cut at byte %d of %d (colour %s): line %d of the cut dump is %r, of the whole '
                                    'dump %r' % (len(recs), k, len(whole), 'on' if colour else 'off', i,
                                                 (part[i:i + 1] or ['<none>'])[0][:160], (full[i:i + 1] or ['<none>'])[0][:160]),
                                    {'section': 'coloured-cuts', 'hex': whole.hex(), 'cut': k, 'colour': colour,
                                     'codes': {str(a): b for a, b in codes.items()}})
                    break
                sec['distinct_nontrivial'] += 1 if part else 0


def correspondence(rep, rng, tier):
    from .. import rdir
    rdir.enable(rep)
    from .. import pipeline as _PL
    _PL.section_e2e(rep, rng, tier, n=(120 if tier == 'quick' else 3000), cuts=True)
    v2 = v2_case_set(rng, tier)
    run_section(rep, 'trunc-v2', v2, line_trunc, impl_trunc, oracle_fn=oracle_trunc,
                kind_fn=lambda c, got: 'batch',
                rule='generated v2 dumps cut at every offset 0..len (thorough) / boundaries +-1,7,8 and random offsets (quick); '
                     'per offset: outcome kind, #events, event checksum, read calls, bytes returned, bytes requested; '
                     'oracle on the code alone: terminates (budget 10*len+1000, SIGALRM), calls+got <= 5*len+67, events are a '
                     'prefix of the full run, never more events than complete records inside the cut')
    v3 = v3_case_set(rng, tier)
    run_section(rep, 'trunc-v3', v3, line_trunc, impl_trunc, oracle_fn=oracle_trunc,
                kind_fn=lambda c, got: 'batch',
                rule='the same for generated v3 dumps (1..5 chunks, scanner gaps with near-miss tag prefixes, with and '
                     'without metadata/log blocks)')
    from .. import readprobe
    sizes = readprobe.block_sizes(tier, version=None)
    rep.notes.append(readprobe.describe(tier))
    core.run_code_section(rep, 'trunc-blocks', block_case_set(rng, tier, sizes), oracle_blocks,
                          kind_fn=lambda c: c['kind'] + ':' + c['origin'].split(':')[0],
                          rule='code-only section (inputs too long for a protocol line): for every block size B the reader may '
                               'work with — request sizes above one record recorded from the real reader on small dumps '
                               '(tools/kdv/readprobe.py), integer constants of the reader\'s source and their products with 64, and '
                               'in the thorough tier / on a changed source the powers of two 2^9..2^20 — a version-2 and a '
                               'version-3 dump with more than 2B (B > 2 MiB: B) bytes of records, cut at the block edges +-1..63 '
                               'counted from the start of the record area and of the file, at non-aligned offsets behind B and 2B '
                               'and in front of the end, and a version-3 dump cut inside a stackshot filler longer than B; per cut: '
                               'terminates within the read budget, calls+got <= 5*len+67, ALL fields of the events = those of a '
                               'prefix of the whole dump\'s events = the decodings of the records at the grammar\'s offsets, never '
                               'more events than complete records inside the cut')
    gb = garbage_case_set(rng, tier)
    run_section(rep, 'trunc-any', gb, line_trunc, impl_trunc, oracle_fn=oracle_trunc,
                kind_fn=lambda c, got: c['kind'],
                rule='arbitrary byte strings behind either magic, tag soups, huge chunk size fields, byte flips of valid dumps; '
                     'whole string and random cuts')
    pipe = []
    for c in (v2 + v3)[:: (7 if tier == 'quick' else 3)]:
        cfg = rng.choice([{}, {'tid': rng.choice([1, 2, 7, 0x1234])}, {'classes': [rng.randrange(256)]},
                          {'show_tid': True}, {'tid': 7, 'classes': [1, 4, 49], 'show_tid': True}])
        pipe.append({'hex': c['hex'], 'ks': c['ks'][::4], 'plists': c.get('plists', '-'), 'cfg': cfg})
    run_section(rep, 'pipeline', pipe, line_trunc, impl_trunc, oracle_fn=oracle_pipeline,
                rule='PyKdebugParser.formatted_kevents (tid / class filters, columns) on cut vs. complete dump: lines of the cut '
                     'are a prefix (oracle on the code); the model line re-checks the event digests')
    pw = [{'n': n, 'count': cnt} for n in (0, 1, 2, 5, 9) for cnt in (-3, -2, -1, 0, 1, 2, 4, 5, 8, 9, 10, 100)]
    run_section(rep, 'pwc', pw, lambda c: 'pwc %d %d' % (c['count'], c['n']), impl_pwc, oracle_fn=oracle_pwc,
                rule='print_with_count(range(n), count) for n in {0,1,2,5,9} x count in {-3..100}: printed lines == model == '
                     'first count lines (all for negative count)')
    from .. import cliir
    cliir.translation_tie(rep, 'C06')               # print_with_count itself, translated from __main__.py
    cliir.pwc_section(rep, rng, tier)
    coloured_cuts_section(rep, rng, tier)


def replay(path):
    with open(path) as fd:
        r = json.load(fd)
    rp = r['replay']
    if rp.get('section') == 'coloured-cuts':
        import io
        from pykdebugparser.pykdebugparser import PyKdebugParser
        whole, k = bytes.fromhex(rp['hex']), rp['cut']
        codes = {int(a): b for a, b in rp['codes'].items()}

        def lines_of(data):
            p = PyKdebugParser()
            p.color = rp['colour']
            out = []
            try:
                for ln in p.formatted_traces(io.BytesIO(data), codes):
                    out.append(ln)
            except Exception:
                pass
            return out
        full, part = lines_of(whole), lines_of(whole[:k])
        for i, ln in enumerate(part):
            mark = '' if i < len(full) and full[i] == ln else '   <- differs from line %d of the whole dump: %r' % (i, (full[i:i + 1] or ['<none>'])[0])
            print('cut line %d: %r%s' % (i, ln, mark))
        if part != full[:len(part)]:
            print(f'VIOLATION property=C06 replay={path}')
            return 1
        print('lines of the cut dump are a prefix of the lines of the whole dump')
        return 0
    sec, case = rp['section'], rp['case']
    if sec in ('cli-pwc-raise', 'cli-glue', 'cli-decls', 'cli-init', 'cli-formatted'):
        from .. import cliir
        return cliir.replay(rp, 'C06', path)
    if sec == 'end-to-end':
        from .. import pipeline as _PL
        return _PL.replay_e2e(case, 'C06', path)
    if sec == 'trunc-blocks':
        data, info = ct.big_bytes(case['rc'])
        print('recipe:', case['rc'], '-> %d bytes, records at %s, cuts %s' % (len(data), info['areas'], case['ks']))
        for k in case['ks']:
            res = ct.run_impl(data[:k], budget=10 * k + 1000, watchdog=120)
            print('impl : cut %d: %s, %d events (%d complete records inside the cut), %s'
                  % (k, ct.show_err(res.err), len(res.events), ct.complete_records(info, k), ct.show_reads(res.rd)))
        res = oracle_blocks(case)
        if res:
            print('failing:', res[:2])
            print(f'VIOLATION property=C06 replay={path}')
            return 1
        print('no violation on this input')
        return 0
    if sec == 'pwc':
        got, model, res = impl_pwc(case), core.drive(['pwc %d %d' % (case['count'], case['n'])])[0], None
        res = oracle_pwc(case, got)
    else:
        got = impl_trunc(case)
        model = core.drive([line_trunc(case)])[0]
        res = (oracle_pipeline if sec == 'pipeline' else oracle_trunc)(case, got)
    print('impl :', got[:3000])
    print('model:', model[:3000])
    if res:
        print('failing:', res)
        print(f'VIOLATION property=C06 replay={path}')
        return 1
    return 0


LEVEL_TEXT = ('Lean theorems over the reader/construct model of parse (v2 and v3) for EVERY byte string and EVERY cut offset: '
              'truncation_prefix / v2_truncation_prefix / v3_truncation_prefix (events of the cut are a prefix), no_fabrication '
              '(events are decodings of disjoint ascending 64-byte windows of the input), never_hangs (fuel of all loops never '
              'exhausted = each iteration progresses), reads_linear (read calls + bytes returned <= 5*len + 67), '
              'trunc_same_threadmap, pipeline_causal / traces_causal / feedGen_prefix (per-item stages preserve prefixes), '
              'count_prefix (print_with_count literally); end to end over Model/EndToEnd for EVERY byte string (version-2 dump, '
              'version-3 dump or neither), reading of the property lists, cut, filter '
              'configuration, code table and column setting: e2e_truncated_dump (cut header parses => whole header parses, '
              'same thread map, events a prefix — incl. cuts inside the greedy zero padding of a v2 dump and inside header, '
              'scans, thread-map chunk, chunks and blocks of a v3 dump), e2e_truncation_prefix '
              '(formatted trace lines of the cut are a prefix of those of the whole dump), e2e_truncation_monotone, '
              'e2e_traces_prefix, e2e_count_prefix, e2e_dump_is_parse (the composition\'s container step is parse); '
              'seekUntil_fuel_hang_old (pre-fix loop never terminates at EOF); tied to '
              'the code by cutting generated dumps at every offset under a counting reader with budget and watchdog.'
              " TRANSLATION TIE: the source text of parse / parse_v2 / parse_v3 (whole, incl. the additional-data blocks and the log loop) / seek_until / set_thread_map is translated on every run (tools/gen_pyir_rd.py, pure ast) into the Python-subset IR of Model/PyIRRd (statements over the model's reader: read, while/for/break/raise/yield, bytes slices and comparisons, construct parsers as primitives; big-step interpreter); source_is_expected_ir: the generated program is the one of Spec/PyIRRdExpected; parse_is_interpreted_source: for EVERY byte string and prior state the model's parse IS that program run by the interpreter, with the same read calls; hence interpreted_source_never_hangs, interpreted_source_truncation_prefix, seek_until_ir_eof."
              " print_with_count is translated too (tools/gen_pyir_cli.py -> Gen/PyIRCli, statement IR + interpreter Model/PyIRCli): cli_source_is_expected_ir, print_with_count_ir_eq_model (for every item list, every way the generator ends and every integer count the interpreted loop prints exactly printWithCount and surfaces the generator's exception iff not 0 <= count < number of items), print_with_count_ir_negative / _all / _take, print_with_count_ir_raise_at_count (an exception raised while producing item number count surfaces although count items were printed: the loop pulls before it compares), print_with_count_ir_no_raise_behind_count.")
LEVEL_NOTE = ('Termination itself is a runtime fact: the proof is about the model (total functions + never_hangs), the code is '
              'tied by the differential runs incl. read counters. The bound is on calls + bytes returned, not bytes requested. '
              'Trace/callstack stages are covered generically (any feed function); plist decoding is opaque.'
              ' The hand model of the readers is no longer trusted by itself: it is proved equal to the interpreted source (trusted instead: translator tools/gen_pyir_rd.py and interpreter Model/PyIRRd, both tested against CPython by the sections *-ir; the construct parsers, plistlib.loads and OsLogEvent.from_raw_log_event as primitives / parameters).'
              ' print_with_count: generators are (items delivered, optional exception); trusted: tools/gen_pyir_cli.py and the loop interpreter of Model/PyIRCli (section cli-pwc-raise).')
TECHNIQUE = 'Lean 4 proof (simulation under truncation, potential-function cost bound) + exhaustive-offset differential correspondence + translation validation (source text -> IR, proved equal to the model)'
