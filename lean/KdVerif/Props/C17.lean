import KdVerif.Proofs.IR
import KdVerif.Gen.Decoders
import KdVerif.Gen.Codes
import KdVerif.Gen.PyIR
import KdVerif.Proofs.PyIRTpRegistry
import KdVerif.Spec.PyIRTpExpected
/-
  C17 — every registered decoder is reachable; X and X_nocancel decode alike.

  Subject: `Gen.Decoders.decoders` (one entry per key of the seven `handlers` dicts, reflected and
  sorted by name key on every run) and `Gen.Codes.codes` (the bundled trace.codes as parsed by the
  repository's own `default_trace_codes()`).  A name key is the name's bytes read big-endian behind a
  leading 1, so `key (x ++ "_nocancel") = key x * 256^9 + 0x5f6e6f63616e63656c`.
-/
namespace KdVerif.C17
open KdVerif.IR

abbrev decoders := Gen.Decoders.decoders
abbrev codes := Gen.Codes.codes

/-- `"_nocancel"` as a big-endian number. -/
def suffixNat : Nat := 0x5f6e6f63616e63656c

def nocancelLit : List Nat := [95, 110, 111, 99, 97, 110, 99, 101, 108]

/-- The name ends in `_nocancel` (and is longer than that). -/
def hasSuffix (d : Decoder) : Bool := d.key % 256 ^ 9 == suffixNat && d.key / 256 ^ 9 > 1

/-- Linear merge of the decoder keys (ascending) against the code table (sorted by name key): every key
    meets a row with that name key and an id with clear qualifier bits. -/
def covered : Nat → List Nat → List (Nat × Nat) → Bool
  | 0, ks, _ => ks.isEmpty
  | _, [], _ => true
  | _, _ :: _, [] => false
  | fuel + 1, k :: ks, (id, ck) :: cs =>
    if ck == k && id % 4 == 0 then covered fuel ks cs else covered fuel (k :: ks) cs

def strictlyIncreasing : List Nat → Bool
  | a :: b :: rest => decide (a < b) && strictlyIncreasing (b :: rest)
  | _ => true

def twinOK (d : Decoder) : Bool :=
  !hasSuffix d ||
    (match d.twin with
     | some i =>
       match decoders[i]? with
       | some b => b.key == d.key / 256 ^ 9
       | none => false
     | none => false)

/-- The twin is registered with the same handler logic: same constructor arguments except the trailing
    `no_cancel` flag, and the inlined `__str__` pieces differ only in that flag's piece, which sits right
    after the leading name literal. -/
def sameLogic (d : Decoder) : Bool :=
  !(hasSuffix d && d.supported) ||
    (match d.twin with
     | some i =>
       match decoders[i]? with
       | some b =>
         b.supported && d.fields.dropLast == b.fields.dropLast
           && d.fields.getLast? == some (.bool true) && b.fields.getLast? == some (.bool false)
           && (match normalize (subst b.fields b.str), normalize (subst d.fields d.str) with
               | .strLit n :: .ite (.bool false) (.strLit s) (.strLit []) :: r,
                 .strLit n' :: .ite (.bool true) (.strLit s') (.strLit []) :: r' =>
                 n == n' && s == nocancelLit && s' == nocancelLit && r == r'
               | _, _ => false)
       | none => false
     | none => false)

/-! ### Reflective facts -/

/-- Every registered decoder's name occurs in the bundled code table under an event id whose two
    qualifier bits are clear (witness row per decoder supplied by the translator, checked here). -/
theorem handlers_in_codes :
    covered (decoders.length + codes.length + 1) (decoders.map (·.key)) codes = true := by decide +kernel

/-- The table is strictly increasing in the name key: no name is claimed twice — neither inside one
    family nor by two families (the table lists every entry of every family's dict). -/
theorem names_unique : strictlyIncreasing (decoders.map (·.key)) = true := by decide +kernel

/-- Whenever `X_nocancel` is registered, `X` is registered too. -/
theorem nocancel_has_base : decoders.all twinOK = true := by decide +kernel

/-- Every `_nocancel` decoder was translated (so the next theorem speaks about all of them; a twin whose
    handler leaves the translatable subset makes this fail and triggers the search). -/
theorem twins_translated : decoders.all (fun d => !hasSuffix d || d.supported) = true := by decide +kernel

/-- … and by the same logic. -/
theorem twins_same_logic : decoders.all sameLogic = true := by decide +kernel

/-! ### Consequences for all inputs -/

theorem strictlyIncreasing_pairwise : ∀ (l : List Nat), strictlyIncreasing l = true → l.Pairwise (· < ·)
  | [], _ => List.Pairwise.nil
  | [a], _ => List.pairwise_singleton _ _
  | a :: b :: rest, h => by
    simp only [strictlyIncreasing, Bool.and_eq_true, decide_eq_true_eq] at h
    have ih := strictlyIncreasing_pairwise (b :: rest) h.2
    refine List.Pairwise.cons ?_ ih
    intro x hx
    rcases List.mem_cons.mp hx with rfl | hx
    · exact h.1
    · exact Nat.lt_trans h.1 ((List.pairwise_cons.mp ih).1 x hx)

/-- No two entries (of any families) share a name. -/
theorem no_two_families_claim_same_name : (decoders.map (·.key)).Nodup :=
  (strictlyIncreasing_pairwise _ names_unique).imp (fun h => Nat.ne_of_lt h)

theorem covered_spec : ∀ (fuel : Nat) (ks : List Nat) (cs : List (Nat × Nat)), covered fuel ks cs = true →
    ∀ k ∈ ks, ∃ id, (id, k) ∈ cs ∧ id % 4 = 0
  | 0, ks, cs, h => by
    simp only [covered, List.isEmpty_iff] at h
    subst h; simp
  | fuel + 1, [], cs, _ => by simp
  | fuel + 1, k :: ks, [], h => by simp [covered] at h
  | fuel + 1, k :: ks, (id, ck) :: cs, h => by
    simp only [covered] at h
    intro x hx
    split at h
    · rename_i hm
      simp only [Bool.and_eq_true, beq_iff_eq] at hm
      rcases List.mem_cons.mp hx with rfl | hx
      · exact ⟨id, by simp [hm.1], hm.2⟩
      · obtain ⟨i, hi, h4⟩ := covered_spec fuel ks cs h x hx
        exact ⟨i, List.mem_cons_of_mem _ hi, h4⟩
    · obtain ⟨i, hi, h4⟩ := covered_spec fuel (k :: ks) cs h x hx
      exact ⟨i, List.mem_cons_of_mem _ hi, h4⟩

/-- **Reachability**: for every registered decoder there is a row of the bundled code table that carries
    its name under an id with both qualifier bits clear. -/
theorem every_decoder_reachable (d : Decoder) (hd : d ∈ decoders) :
    ∃ id, (id, d.key) ∈ codes ∧ id % 4 = 0 :=
  covered_spec _ _ _ handlers_in_codes d.key (List.mem_map.mpr ⟨d, hd, rfl⟩)

/-- **X_nocancel ⇒ X**: the base call is registered, under the name with the suffix removed. -/
theorem nocancel_base_registered (d : Decoder) (hd : d ∈ decoders) (hs : hasSuffix d = true) :
    ∃ b ∈ decoders, b.key = d.key / 256 ^ 9 ∧ d.key = b.key * 256 ^ 9 + suffixNat := by
  have h := List.all_eq_true.mp nocancel_has_base d hd
  simp only [twinOK, hs, Bool.not_true, Bool.false_or] at h
  cases ht : d.twin with
  | none => simp [ht] at h
  | some i =>
    cases hb : decoders[i]? with
    | none => simp [ht, hb] at h
    | some b =>
      simp only [ht, hb, beq_iff_eq] at h
      refine ⟨b, List.mem_of_getElem? hb, h, ?_⟩
      simp only [hasSuffix, Bool.and_eq_true, beq_iff_eq, decide_eq_true_eq] at hs
      have := Nat.div_add_mod d.key (256 ^ 9)
      rw [h]
      omega

theorem dropLast_append_of_getLast? {α : Type} (l : List α) (a : α) (h : l.getLast? = some a) :
    l.dropLast ++ [a] = l := by
  have hne : l ≠ [] := by intro h0; simp [h0] at h
  have h2 := List.dropLast_concat_getLast hne
  rw [List.getLast?_eq_some_getLast hne] at h
  simp only [Option.some.injEq] at h
  rw [← h]; exact h2

/-- **The two renderings are identical except for the `_nocancel` suffix of the call name** — for every
    window, host and context: there is one computation `f` (the shared remainder of the text, or the shared
    exception) such that the base renders `name ++ f` and the twin `name ++ "_nocancel" ++ f`. -/
theorem twin_renderings (d : Decoder) (hd : d ∈ decoders) (hs : hasSuffix d = true) (hsup : d.supported = true) :
    ∃ b ∈ decoders, b.key = d.key / 256 ^ 9 ∧ ∃ name : String, ∀ (h : Host) (t : Tables) (w : Window),
      ∃ f : Except PyErr String,
        render h t b w = f.map (fun r => name ++ r) ∧
        render h t d w = f.map (fun r => name ++ ("_nocancel" ++ r)) := by
  have h1 := List.all_eq_true.mp nocancel_has_base d hd
  have h2 := List.all_eq_true.mp twins_same_logic d hd
  simp only [twinOK, hs, Bool.not_true, Bool.false_or] at h1
  simp only [sameLogic, hs, hsup, Bool.and_self, Bool.not_true, Bool.false_or] at h2
  cases ht : d.twin with
  | none => simp [ht] at h1
  | some i =>
    cases hb : decoders[i]? with
    | none => simp [ht, hb] at h1
    | some b =>
      simp only [ht, hb, beq_iff_eq] at h1
      simp only [ht, hb, Bool.and_eq_true, beq_iff_eq] at h2
      obtain ⟨⟨⟨⟨hbs, hdrop⟩, hdl⟩, hbl⟩, hnorm⟩ := h2
      split at hnorm
      · rename_i n s r n' s' r' hnb hnd
        simp only [Bool.and_eq_true, beq_iff_eq] at hnorm
        obtain ⟨⟨⟨hn, hs1⟩, hs2⟩, hr⟩ := hnorm
        subst hn hs1 hs2 hr
        refine ⟨b, List.mem_of_getElem? hb, h1, litString n, ?_⟩
        intro h t w
        have hdf : d.fields = d.fields.dropLast ++ [.bool true] := by
          exact (dropLast_append_of_getLast? d.fields (.bool true) hdl).symm
        have hbf : b.fields = d.fields.dropLast ++ [.bool false] := by
          have := dropLast_append_of_getLast? b.fields (.bool false) hbl
          rw [← hdrop] at this
          exact this.symm
        refine ⟨(evalFields { host := h, tables := t, win := w } d.fields.dropLast).bind
          (fun _ => evalPieces { host := h, tables := t, win := w } r), ?_, ?_⟩
        · rw [render_eq_pieces, hnb]
          conv => lhs; rw [hbf, evalFields_append_const]
          cases evalFields { host := h, tables := t, win := w } d.fields.dropLast with
          | error e => rfl
          | ok vs =>
            simp only [Except.map, Except.bind, evalPieces, evalS_strLit]
            simp only [evalS, eval, truthy, bind, Except.bind, pure, Except.pure]
            cases evalPieces { host := h, tables := t, win := w } r <;> simp [litString]
        · rw [render_eq_pieces, hnd]
          conv => lhs; rw [hdf, evalFields_append_const]
          cases evalFields { host := h, tables := t, win := w } d.fields.dropLast with
          | error e => rfl
          | ok vs =>
            simp only [Except.map, Except.bind, evalPieces, evalS_strLit]
            simp only [evalS, eval, truthy, bind, Except.bind, pure, Except.pure]
            cases evalPieces { host := h, tables := t, win := w } r <;> simp
            decide
      · simp at hnorm

/-! ### Non-vacuity -/

/-- There are `_nocancel` decoders (e.g. BSC_read_nocancel), they are supported, and their base is BSC_read. -/
example : ∃ d ∈ decoders, d.key = 109681597891974153685437081016214353044844 ∧ hasSuffix d = true ∧
    d.supported = true ∧ d.key / 256 ^ 9 = 23225981780499980644 := by decide +kernel

example : (decoders.filter hasSuffix).length = 30 := by decide +kernel

/-! ### translation tie: the registry `TracesParser.__init__` builds IS this decoder table

  `tools/gen_pyir.py` translates the constructor of `traces_parser.py` (on every run, pure `ast`) into `Gen.PyIR.init`;
  its field `updates` is the ORDERED list of families merged by `self.handlers = {}` followed by
  `self.handlers.update(<family>_handlers)` — each name checked to be bound by
  `from pykdebugparser.trace_handlers.<family> import handlers as <family>_handlers`.  `PyIRTp.merge fam us` is that
  sequence of `dict.update` calls on insertion-ordered dicts (a later family wins on a duplicate name).  The dict of a
  family is its part of the reflected table: `familyDict f` = the decoders with `family = f.idx`, keyed by name key. -/

/-- The generated constructor is the expected one (`Spec/PyIRTpExpected`, quoting the Python): the attribute initialisers
    and, in particular, the seven `update` calls in the order written; the translator met nothing it could not express. -/
theorem source_is_expected_ir : Gen.PyIR.init = PyIRTp.Expected.init ∧ Gen.PyIR.notes = [] := by decide

/-- `<family>_handlers` as reflected: the entries of the table that belong to the family, keyed by name key. -/
def familyDict (f : PyIRTp.Family) : PyIR.AList Decoder :=
  (decoders.filter (fun d => d.family == f.idx)).map (fun d => (d.key, d))

/-- `self.handlers` after the interpreted `__init__`. -/
def registry : PyIR.AList Decoder := PyIRTp.merge familyDict Gen.PyIR.init.updates

/-- every reflected decoder belongs to one of the seven families (family numbers 0 … 6) -/
theorem families_cover : decoders.all (fun d => decide (d.family < 7)) = true := by decide +kernel

theorem mem_familyDict {f : PyIRTp.Family} {k : Nat} {d : Decoder} :
    (k, d) ∈ familyDict f ↔ d ∈ decoders ∧ d.family = f.idx ∧ d.key = k := by
  simp only [familyDict, List.mem_map, List.mem_filter, beq_iff_eq, Prod.mk.injEq]
  constructor
  · rintro ⟨x, ⟨hx, hf⟩, hk, rfl⟩; exact ⟨hx, hf, hk⟩
  · rintro ⟨hd, hf, hk⟩; exact ⟨d, ⟨hd, hf⟩, hk, rfl⟩

theorem eq_of_key_eq : ∀ (l : List Decoder), (l.map (·.key)).Nodup → ∀ a ∈ l, ∀ b ∈ l, a.key = b.key → a = b
  | [], _, a, ha, _, _, _ => by simp at ha
  | x :: r, h, a, ha, b, hb, hk => by
    simp only [List.map_cons, List.nodup_cons, List.mem_map, not_exists, not_and] at h
    rcases List.mem_cons.mp ha with rfl | ha' <;> rcases List.mem_cons.mp hb with rfl | hb'
    · rfl
    · exact absurd hk.symm (h.1 b hb')
    · exact absurd hk (h.1 a ha')
    · exact eq_of_key_eq r h.2 a ha' b hb' hk

/-- **No name has two owners**: an entry of one family's dict and an entry of another's (or the same) under the same name
    are the same entry — from `no_two_families_claim_same_name`. -/
theorem family_entries_unique (f g : PyIRTp.Family) (k : Nat) (v v' : Decoder)
    (h : (k, v) ∈ familyDict f) (h' : (k, v') ∈ familyDict g) : v = v' := by
  obtain ⟨hv, _, hk⟩ := mem_familyDict.mp h
  obtain ⟨hv', _, hk'⟩ := mem_familyDict.mp h'
  exact eq_of_key_eq decoders no_two_families_claim_same_name v hv v' hv' (hk.trans hk'.symm)

theorem family_of_idx (d : Decoder) (h : d.family < 7) : ∃ f ∈ PyIRTp.Family.all, d.family = f.idx := by
  have : d.family = 0 ∨ d.family = 1 ∨ d.family = 2 ∨ d.family = 3 ∨ d.family = 4 ∨ d.family = 5 ∨ d.family = 6 := by
    omega
  rcases this with h | h | h | h | h | h | h
  · exact ⟨.bsd, by decide, h⟩
  · exact ⟨.dyld, by decide, h⟩
  · exact ⟨.fsystem, by decide, h⟩
  · exact ⟨.mach, by decide, h⟩
  · exact ⟨.perf, by decide, h⟩
  · exact ⟨.trace, by decide, h⟩
  · exact ⟨.turnstile, by decide, h⟩

/-- For ANY sequence of updates `us` that mentions every family (in any order, with repetitions): the merged registry binds
    a name key to a decoder exactly when that decoder is in the table under that key. -/
theorem merged_registry_is_table (us : List PyIRTp.Family) (hall : ∀ f ∈ PyIRTp.Family.all, f ∈ us) (k : Nat)
    (d : Decoder) :
    PyIR.AList.lookup k (PyIRTp.merge familyDict us) = some d ↔ d ∈ decoders ∧ d.key = k := by
  rw [PyIRTp.merge_lookup_iff familyDict family_entries_unique]
  constructor
  · rintro ⟨f, _, hm⟩
    obtain ⟨hd, _, hk⟩ := mem_familyDict.mp hm
    exact ⟨hd, hk⟩
  · rintro ⟨hd, hk⟩
    have hlt : d.family < 7 := by
      have := List.all_eq_true.mp families_cover d hd
      simpa using this
    obtain ⟨f, hf, hfi⟩ := family_of_idx d hlt
    exact ⟨f, hall f hf, mem_familyDict.mpr ⟨hd, hfi, hk⟩⟩

theorem updates_mention_all : ∀ f ∈ PyIRTp.Family.all, f ∈ Gen.PyIR.init.updates := by
  rw [source_is_expected_ir.1]; decide

/-- **registry_ir_eq_model.**  The registry the interpreted `__init__` merges — `{}` updated with the reflected dicts of
    bsd, dyld, fsystem, mach, perf, trace, turnstile in the order written in the source, a later family winning on a
    duplicate name — IS the decoder table `decoders` that the theorems of C17 (and of C07 / C09 / C10 / C18, which quantify
    over `d ∈ Gen.Decoders.decoders`) are about: a name key is registered iff the table has a decoder under it, and it is
    registered with exactly that decoder — its own family's entry (no other family's function object can win, because no
    other family has the name). -/
theorem registry_ir_eq_model (k : Nat) (d : Decoder) :
    PyIR.AList.lookup k registry = some d ↔ d ∈ decoders ∧ d.key = k :=
  merged_registry_is_table _ updates_mention_all k d

/-- … as a lookup: `self.handlers.get(name)` is the table entry under that name key, if any. -/
theorem registry_lookup_eq_find (k : Nat) :
    PyIR.AList.lookup k registry = decoders.find? (fun d => d.key == k) := by
  apply PyIRTp.option_ext_some
  intro d
  rw [registry_ir_eq_model]
  constructor
  · rintro ⟨hd, hk⟩
    cases hf : decoders.find? (fun d => d.key == k) with
    | none =>
      have := List.find?_eq_none.mp hf d hd
      simp [hk] at this
    | some d' =>
      have hk' : d'.key = k := by simpa using List.find?_some hf
      rw [eq_of_key_eq decoders no_two_families_claim_same_name d' (List.mem_of_find?_eq_some hf) d hd (hk'.trans hk.symm)]
  · intro hf
    exact ⟨List.mem_of_find?_eq_some hf, by simpa using List.find?_some hf⟩

/-- every registered decoder is in the registry under its own name, and only there -/
theorem registry_mem (d : Decoder) : d ∈ decoders ↔ PyIR.AList.lookup d.key registry = some d := by
  rw [registry_ir_eq_model]; simp

/-- **registry_order_independent.**  The merge order as written + family-disjointness ⇒ the registry does not depend on the
    order: ANY permutation of the seven `update` calls of the source builds a registry with the same bindings. -/
theorem registry_order_independent (us : List PyIRTp.Family) (hp : us.Perm Gen.PyIR.init.updates) (k : Nat) :
    PyIR.AList.lookup k (PyIRTp.merge familyDict us) = PyIR.AList.lookup k registry :=
  PyIRTp.merge_order_independent familyDict family_entries_unique us Gen.PyIR.init.updates (fun _ => hp.mem_iff) k

/-- … and so does any sequence that mentions every family at least once. -/
theorem registry_any_complete_order (us : List PyIRTp.Family) (hall : ∀ f ∈ PyIRTp.Family.all, f ∈ us) (k : Nat) :
    PyIR.AList.lookup k (PyIRTp.merge familyDict us) = PyIR.AList.lookup k registry := by
  apply PyIRTp.option_ext_some
  intro d
  rw [merged_registry_is_table us hall, registry_ir_eq_model]

/-- a family left out of the merge loses exactly its names: with the updates `us`, a decoder is registered iff its family
    is among them -/
theorem registry_of_some_families (us : List PyIRTp.Family) (k : Nat) (d : Decoder) :
    PyIR.AList.lookup k (PyIRTp.merge familyDict us) = some d ↔
      d ∈ decoders ∧ d.key = k ∧ ∃ f ∈ us, d.family = f.idx := by
  rw [PyIRTp.merge_lookup_iff familyDict family_entries_unique]
  constructor
  · rintro ⟨f, hf, hm⟩
    obtain ⟨hd, hfi, hk⟩ := mem_familyDict.mp hm
    exact ⟨hd, hk, f, hf, hfi⟩
  · rintro ⟨hd, hk, f, hf, hfi⟩
    exact ⟨f, hf, mem_familyDict.mpr ⟨hd, hfi, hk⟩⟩

/-! non-vacuity of the registry theorems -/

/-- BSC_read is registered by the interpreted constructor, with the bsd family's entry … -/
example : ∃ d, PyIR.AList.lookup 23225981780499980644 registry = some d ∧ d.family = PyIRTp.Family.bsd.idx := by
  obtain ⟨d, hd, hk, hf⟩ : ∃ d ∈ decoders, d.key = 23225981780499980644 ∧ d.family = 0 := by decide +kernel
  exact ⟨d, (registry_ir_eq_model _ d).mpr ⟨hd, hk⟩, hf⟩

/-- … and without `self.handlers.update(bsd_handlers)` it would not be. -/
example : PyIR.AList.lookup 23225981780499980644
    (PyIRTp.merge familyDict [.dyld, .fsystem, .mach, .perf, .trace, .turnstile]) = none := by
  apply PyIRTp.option_ext_some
  intro d
  rw [registry_of_some_families]
  constructor
  · rintro ⟨hd, hk, f, hf, hfi⟩
    obtain ⟨d', hd', hk', hf'⟩ : ∃ d ∈ decoders, d.key = 23225981780499980644 ∧ d.family = 0 := by decide +kernel
    have := eq_of_key_eq decoders no_two_families_claim_same_name d hd d' hd' (hk.trans hk'.symm)
    subst this
    rw [hf'] at hfi
    simp only [List.mem_cons, List.not_mem_nil, or_false] at hf
    rcases hf with rfl | rfl | rfl | rfl | rfl | rfl <;> simp [PyIRTp.Family.idx] at hfi
  · intro h; simp at h

/-- The hypothesis of the order-independence matters, and the interpreter can tell: over two toy families that share a
    name, the order of the updates decides which entry wins. -/
example :
    let fam : PyIRTp.Family → PyIR.AList Nat := fun f => match f with | .bsd => [(1, 10), (2, 20)] | .dyld => [(2, 21)] | _ => []
    PyIR.AList.lookup 2 (PyIRTp.merge fam [.bsd, .dyld]) = some 21 ∧
    PyIR.AList.lookup 2 (PyIRTp.merge fam [.dyld, .bsd]) = some 20 ∧
    PyIRTp.merge fam [.bsd, .dyld] = [(1, 10), (2, 21)] ∧ PyIRTp.merge fam [.dyld, .bsd] = [(2, 20), (1, 10)] := by decide

end KdVerif.C17
