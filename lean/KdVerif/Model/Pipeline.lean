import KdVerif.Model.ContainerV3
import KdVerif.Model.Count
/-
  L6 (the part C06 needs): the lazy stages behind the container parser —
  `PyKdebugParser.kevents` (three `filter`s), `formatted_kevents` (a `map`), a generic
  `feed_generator` stage (`for event in generator: ret = feed(event); if ret is not None: yield ret`)
  and `print_with_count` of __main__.py.  Generators are (items delivered before the first
  exception, outcome).
-/
namespace KdVerif

/-- `filter(pred, gen)` / `map(f, gen)` over the delivered items (per-item, stateless). -/
def kevents {ε : Type} (tidOk classOk : ε → Bool) (outs : List (Out ε)) : List ε :=
  ((outs.filterMap Out.ev?).filter tidOk).filter classOk

def formattedKevents {ε τ : Type} (fmt : ε → τ) (tidOk classOk : ε → Bool) (outs : List (Out ε)) : List τ :=
  (kevents tidOk classOk outs).map fmt

/-- `feed_generator`: a state machine fed item by item; an exception in `feed` ends the stream. -/
def feedGen {σ ε τ : Type} (feed : σ → ε → Except PyErr (σ × Option τ)) : σ → List ε → List τ × Option PyErr
  | _, [] => ([], none)
  | s, e :: es =>
    match feed s e with
    | .error err => ([], some err)
    | .ok (s', o) =>
      let q := feedGen feed s' es
      (match o with | some t => t :: q.1 | none => q.1, q.2)

-- `print_with_count` of __main__.py: `printWithCountAux` / `printWithCount` live in `Model/Count` (imported above), so that
-- the glue embedding `Model/PyIRCli` can use them without the container models.

end KdVerif
