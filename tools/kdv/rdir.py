"""Translation tie of the reader code (kd_buf_parser.py -> Gen/PyIRRd, tools/gen_pyir_rd.py), shared by C02 / C03 / C06."""
from . import core

MIRROR = {'parse': 'rdparse', 'parsen': 'rdparsen', 'parseseq': 'rdparseseq', 'parseseqn': 'rdparseseqn', 'trunc': 'rdtrunc'}

TRUSTED = ('the hand models Model/ContainerV2.parseV2, setThreadMap, Model/ContainerV3.seekUntil, the WHOLE of parseV3 (header, scans, '
           'thread map, chunk loop, and the tail tailV3 / tailOfBlocks / dispatchBlock(s) / logLoop) and the dispatch of parse are '
           'tied to the SOURCE TEXT of kd_buf_parser.py by translation: tools/gen_pyir_rd.py (pure ast) turns seek_until, '
           'set_thread_map, parse_v2, parse_v3 (from its first statement to its END: reader.seek(-8, 1), the additional-data '
           'range, the five attribute resets, the block loop with its if/elif chain on block.tag, the log loop) and '
           'parse + self.versions into the Python-subset IR of Model/PyIRRd on every run; source_is_expected_ir says the '
           'generated program is the one of Spec/PyIRRdExpected; parse_is_interpreted_source (via Proofs/PyIRRd: '
           'runSeek_expected, execTm_expected, runGen_parseV2, parseV3_via_ir with chunk_loop and tail_exec = block_body / '
           'blocks_loop / log_loop, runDispatch_expected) says that program, run by the interpreter PyIRRd.exec over the '
           'model\'s reader with its read counters, IS parse — for every byte string and prior state; viaV3 is nothing but the '
           'translated generator run to its end.  Trusted there: the translator, the interpreter as semantics of that subset '
           '(tested against CPython by the sections *-ir, which now exercise the translated tail too), and what the code '
           'CALLS, kept as primitives / parameters: the construct parsers (kd_header_v2 / Aligned(8, kd_header_v3) / '
           'kd_v3_threadmap / Int64ul / kd_v3_additional_data mean headerV2 / headerV3 / prefixedBytes+greedyEntries / int64ul / '
           'greedyRange blockElem of Model/Construct + Model/ContainerV3), plistlib.loads (the parameter plist : payload -> what '
           'the parser reads of the dict), bytes.decode (validUtf8), OsLogEvent.from_raw_log_event (fromRawLog: the fields the '
           'container parser depends on), and the representation of the parser attributes by V3Meta (dict contents the parser '
           'never looks into are opaque)')


def enable(rep):
    """Checks `source_is_expected_ir` through the driver and switches the `*-ir` mirror sections on."""
    ans = core.drive(['rdircheck'])[0]
    if ans == 'same':
        rep.notes.append('translation tie: Gen/PyIRRd (from kd_buf_parser.py) = Spec/PyIRRdExpected')
    else:
        rep.broken.append('theorem source_is_expected_ir: the IR that tools/gen_pyir_rd.py translates from the source text of '
                          'kd_buf_parser.py is not the program of Spec/PyIRRdExpected that parse_is_interpreted_source is '
                          'proved for (%s)' % ans)
    rep.mirror = dict(MIRROR)
    return 'unsupported' not in ans
