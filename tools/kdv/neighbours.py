"""History dependence of renderings: structured neighbour sequences and the fresh-interpreter oracle.

Property used (C11: the names shown are a function of the word; C18: the text depends only on the dump and the options):
the text of a window must be the same whatever the process rendered before.  The oracle is stated on the real code
alone:

    text(window | rendered after a history, in one interpreter)  ==  text(window | rendered first thing in a fresh one)

A module-wide memo with a too-coarse or colliding key, a table filled lazily under a condition, a one-shot iterator at
module level all break it, and only when the RIGHT NEIGHBOURS are rendered back to back.  For every registered decoder
this module finds in-domain windows by probing the real code (no knowledge of a particular decoder), builds neighbour
sequences [W1, W2, W1] and checks them:

  (a) one-component-changed: W2 is W1 with exactly one START / END word changed, for every position; the new value is
      drawn per *shape class* of the position (values after which the text changes shape - an enum member, the host's or
      Darwin's SOL_SOCKET, a flag bit - are found by probing), plus truncation neighbours (word xor 2^8 / 2^16 / 2^32 /
      2^63) and word + 1; the same for each looked-up path, the global string, the thread id.     [memo ignores a word]
  (b) packed-key collisions between two positions i, j: (a, b + (k << s)) vs (a + k, b) for s in 8, 16, 32 (a & k = 0, so
      that + and | pack alike), swapped words, equal sums, equal xors, equal decimal concatenations.   [memo keyed by a
      packing of two words]
  (c) the same window under another decoder (the _nocancel twin, decoders of the same family).  [memo not keyed by decoder]

The triple [W1, W2, W1] contains both orders: W2 after W1, and W1 after W2.

Everything runs inside ONE helper interpreter (`python -m kdv.hostproc <host|darwin> search`) that imports the package and
never renders anything itself, so a fork of it is an interpreter in which nothing was rendered before:
  plan   - forked children (sixteen decoders each) probe the decoders and return the sequences;
  pass A - a forked child renders the whole stream of sequences in order (long history); it also fingerprints the
           module-level state of the package after every eight decoders (decoders whose renderings WRITE process-wide
           state are examined exhaustively below);
  pass B - forked children (eight decoders each) render the sequences in the opposite order ([W2, W1, W2], last first);
  exact  - for the sequences of state-writing decoders, for sequences on which A and B disagree, and for a random sample:
           a fork of a zygote (taken before anything else happened) renders [W1, W2, W1] from scratch (its first text is
           W1 rendered first thing), another renders W2 first thing; every text seen for W1 / W2 anywhere must equal the
           first-thing text.
A failure is reported with the shortest history that reproduces it; the caller confirms it with interpreters started from
scratch (`texts(..)`) before reporting `render:depends-on-history:<decoder>`."""
import dataclasses
import enum
import hashlib
import importlib
import json
import os
import random
import re
import subprocess
import sys

from . import core

FAMILY_MODULES = ['bsd', 'dyld', 'fsystem', 'mach', 'perf', 'trace', 'turnstile']
M64 = (1 << 64) - 1


# ------------------------------------------------------------------------------------------------
# running renderings in other interpreters (used by the checks; nothing here imports the package)

def texts(cases, host='host', mode='stream'):
    """Answers of `python -m kdv.hostproc <host> <mode>` for the given input objects, one per object: an interpreter
    started from scratch (host tables as they are, or Darwin's installed before the package is imported)."""
    if not cases:
        return []
    tools = os.path.dirname(os.path.dirname(os.path.abspath(__file__)))
    env = dict(os.environ)
    env['REPO_DIR'] = core.REPO
    env['PYTHONPATH'] = tools
    p = subprocess.run([sys.executable, '-m', 'kdv.hostproc', host, mode],
                       input='\n'.join(json.dumps(c) for c in cases) + '\n', capture_output=True, text=True, cwd=tools, env=env)
    out = [json.loads(l) for l in p.stdout.splitlines()]
    if p.returncode != 0 or len(out) != len(cases):
        raise core.Infra('fresh-interpreter runner failed: rc=%s, %d of %d answers\n%s'
                         % (p.returncode, len(out), len(cases), p.stderr[-1500:]))
    return out


# ------------------------------------------------------------------------------------------------
# inside the helper interpreter

def in_children(fns, par=None):
    """The results of fn() for every fn, each in its own forked child, up to `par` children at a time."""
    par = par or max(1, min(8, (os.cpu_count() or 2) // 2))
    out = []
    for i in range(0, len(fns), par):
        started = [start_child(fn) for fn in fns[i:i + par]]
        out += [finish_child(st) for st in started]
    return out


def in_child(fn):
    """Run fn() in a forked child and return its JSON-able result (the parent's state is untouched)."""
    return finish_child(start_child(fn))


def start_child(fn):
    r, w = os.pipe()
    pid = os.fork()
    if pid == 0:
        code = 0
        try:
            os.close(r)
            data = json.dumps(fn()).encode()
            with os.fdopen(w, 'wb') as fd:
                fd.write(data)
        except BaseException as e:  # noqa: the child must never return into the parent's code
            try:
                sys.stderr.write('child failed: %r\n' % (e,))
            except Exception:
                pass
            code = 3
        finally:
            os._exit(code)
    os.close(w)
    return pid, r


def finish_child(st):
    pid, r = st
    with os.fdopen(r, 'rb') as fd:
        data = fd.read()
    _, status = os.waitpid(pid, 0)
    if status != 0 or not data:
        raise RuntimeError('forked child failed (status %d)' % status)
    return json.loads(data)


class Zygote:
    """A fork of the helper interpreter taken before anything else happened (small, nothing rendered): it renders each list
    of windows it is sent in a fork of ITSELF, so the first window of every list is rendered first thing."""

    alive = []

    def __init__(self):
        r1, w1 = os.pipe()
        r2, w2 = os.pipe()
        self.pid = os.fork()
        if self.pid == 0:
            try:
                os.close(w1)
                os.close(r2)
                for z in Zygote.alive:             # ends of the zygotes made before this one
                    os.close(z.fin.fileno())
                    os.close(z.fout.fileno())
                fin, fout = os.fdopen(r1, 'r'), os.fdopen(w2, 'w')
                for ln in fin:
                    lists = json.loads(ln)
                    fout.write(json.dumps([in_child(lambda: [answer(w) for w in ws]) for ws in lists]) + '\n')
                    fout.flush()
            finally:
                os._exit(0)
        os.close(r1)
        os.close(w2)
        self.fin, self.fout = os.fdopen(r2, 'r'), os.fdopen(w1, 'w')
        Zygote.alive.append(self)

    def send(self, lists):
        self.fout.write(json.dumps(lists) + '\n')
        self.fout.flush()

    def receive(self):
        return json.loads(self.fin.readline())

    def close(self):
        Zygote.alive.remove(self)
        self.fout.close()
        self.fin.close()
        os.waitpid(self.pid, 0)


def answer(c):
    """Canonical answer of the real code for one window: 'ok <hex text>' or 'err <exception>'."""
    from . import decoders as D
    try:
        return D.impl_fn(c)
    except Exception as e:
        return 'err ' + core.err_name(e)


def has_enum(v, depth=0):
    if isinstance(v, enum.Enum):
        return True
    if depth < 2 and isinstance(v, (list, tuple, set, frozenset)) and not hasattr(v, '_fields'):
        return any(has_enum(x, depth + 1) for x in list(v)[:8])
    return False


def probe(c, want_sym=False):
    """(answer, shown-symbolically): the second (computed on request) is True when the decoded trace carries enum members
    (a flag word / packed field / code shown by name) or an _IOC(...) split."""
    from . import decoders as D
    try:
        t = D.trace_of(c)
        text = str(t)
    except Exception as e:
        return 'err ' + core.err_name(e), False
    sym = False
    if want_sym:
        sym = '_IOC(' in text
        if not sym and dataclasses.is_dataclass(t):
            sym = any(has_enum(getattr(t, f.name, None)) for f in dataclasses.fields(t) if f.name != 'ktraces')
    return 'ok ' + core.hs(text), sym


def handler_enums():
    out = []
    for f in FAMILY_MODULES:
        m = importlib.import_module('pykdebugparser.trace_handlers.' + f)
        for v in vars(m).values():
            if isinstance(v, type) and issubclass(v, enum.Enum) and v.__module__ == m.__name__:
                out.append(v)
    return out


def value_pool():
    """Candidate words, reflected from the package under test: small integers, every single bit, the integer values of all
    enum members the handler modules declare, for flag-like enums the two bits above the highest declared one, the host's
    and Darwin's SOL_SOCKET, all-ones words."""
    import socket
    from .darwin_tables import DARWIN_SOL
    vals = set(range(0, 41)) | {1 << k for k in range(64)} | {(1 << k) - 1 for k in (8, 16, 31, 32, 63, 64)}
    vals |= {socket.SOL_SOCKET, DARWIN_SOL}
    for cls in handler_enums():
        ints = [m.value for m in cls if isinstance(m.value, int)]
        vals |= {v & M64 for v in ints}
        pos = [v for v in ints if v > 0]
        if pos and all(v & (v - 1) == 0 for v in pos):
            top = max(pos)
            vals |= {(top << 1) & M64, (top << 2) & M64}
    return sorted(vals)


def tiny_set():
    import socket
    from .darwin_tables import DARWIN_SOL
    return sorted({0, 1, 2, 3, 4, 5, 6, 7, 8, 9, 0x10, 0x20, 0x80, 0x100, 0x104, 0x200, 0x1000, 0x10000, 1 << 31, 1 << 32,
                   M64, socket.SOL_SOCKET, DARWIN_SOL})


def with_word(c, p, v):
    c = dict(c)
    key = 'start' if p < 4 else 'end'
    w = list(c[key])
    w[p % 4] = v
    c[key] = w
    return c


def apply_edit(base, e):
    """A window = base window + edit {'w': {position: word}, 'name': decoder, 'paths': {index: text}, 'gs': {..}, 'tid': n}."""
    c = dict(base)
    if 'w' in e:
        s, t = list(base['start']), list(base['end'])
        for p, v in e['w'].items():
            p = int(p)
            if p < 4:
                s[p] = v
            else:
                t[p - 4] = v
        c['start'], c['end'] = s, t
    if 'name' in e:
        c['name'] = e['name']
    if 'paths' in e:
        lk = [list(x) for x in base['lookups']]
        for i, txt in e['paths'].items():
            lk[int(i)][0] = txt
        c['lookups'] = lk
    if 'gs' in e:
        c['gs'] = e['gs']
    if 'tid' in e:
        c['tid'] = e['tid']
    return c


def template(text, v):
    """The text with the decimal / hexadecimal spellings of the probed value blanked: values after which the text has the
    same template are interchangeable for the purpose of choosing neighbours."""
    return re.sub(r'(?<![0-9A-Za-z])(%s|%s)(?![0-9A-Za-z])' % (re.escape(str(v)), re.escape(hex(v))), '#', text)


def find_base(rng, name, pool=()):
    """A window of the decoder that renders without exception: small distinct words; failing that, one word from the pool."""
    from . import decoders as D
    for attempt in range(80 + 8 * len(pool)):
        c = D.make_case(rng, name, nlookups=2)
        if attempt < 40:
            c['start'] = rng.sample(range(2, 24), 4)                 # distinct small words (swaps / sums stay meaningful)
        else:
            c['start'] = [rng.choice((0, 1, 2, 3, 4, 8, 16, 30)) for _ in range(4)]
        c['end'] = [0, rng.randrange(1, 9), 0, 0]
        if attempt >= 80:
            c = with_word(c, (attempt - 80) % 8, pool[(attempt - 80) // 8])
        c['lookups'] = [['usr/lib/a%d' % rng.randrange(100), rng.randrange(1, 1 << 16)],
                        ['private/var/b%d' % rng.randrange(100), rng.randrange(1, 1 << 16)]]
        c['gs'] = {str(w): 'string-%d' % i for i, w in enumerate(c['start'])}
        a, sym = probe(c)
        if a.startswith('ok'):
            return c
    return None


def discover(rng, base, pool, tiny, deep, want_sym=False):
    """Per position of `base`: accepted values (None = every probed value is accepted), shape classes of the values, whether
    the text depends on the position at all, and the few values that are refused (candidates for a conditional domain)."""
    a0, sym = probe(base, want_sym)
    info = {'dom': {}, 'live': {}, 'classes': {}, 'refused': {}, 'symbolic': sym}
    for p in range(8):
        ws = want_sym and not info['symbolic']
        res = [(v, probe(with_word(base, p, v), ws)) for v in tiny]
        restricted = any(not a.startswith('ok') for _, (a, _) in res)
        if restricted or deep:
            seen = {v for v, _ in res}
            res += [(v, probe(with_word(base, p, v), ws)) for v in pool if v not in seen]
        info['symbolic'] = info['symbolic'] or any(s for _, (_, s) in res)
        ok = [(v, a) for v, (a, _) in res if a.startswith('ok')]
        info['live'][p] = any(a != a0 for _, (a, _) in res)
        info['dom'][p] = [v for v, _ in ok] if restricted else None
        info['refused'][p] = [v for v, (a, _) in res if not a.startswith('ok')]
        classes = {}
        for v, a in ok:
            classes.setdefault(template(a, v), []).append(v)
        info['classes'][p] = sorted(classes.values(), key=lambda vs: (len(vs), vs[0]))     # rarest shape first
    return info


def repair_bases(rng, base, info, pool, limit=3):
    """A value that only a few probes refuse at a position is usually refused because ANOTHER word is out of the domain the
    value switches on (level == SOL_SOCKET wants a declared option): look for one other word that makes it acceptable."""
    out = []
    for p in range(8):
        ref = info['refused'][p]
        if not ref or len(ref) > 8:
            continue
        for v in ref:
            c1 = with_word(base, p, v)
            found = None
            for q in [q for q in range(8) if q != p and q // 4 == p // 4]:
                for u in pool:
                    if probe(with_word(c1, q, u))[0].startswith('ok'):
                        found = with_word(c1, q, u)
                        break
                if found:
                    break
            if found:
                out.append(found)
                if len(out) >= limit:
                    return out
    return out


def pick_values(rng, info, p, base_v, k):
    """Neighbour values for position p: one per shape class (rarest first, at most k classes), never the base value."""
    out = []
    for vs in info['classes'][p][:k]:
        cand = [v for v in vs if v != base_v]
        if cand:
            out.append(rng.choice(cand))
    return out


def small_domain(info, p, bound):
    d = info['dom'][p]
    cand = d if d is not None else list(range(0, 17)) + [1 << b for b in range(5, 13)]
    return [v for v in cand if v < bound]


def sequences_for(rng, base_idx, base, info, tier, twin, family_mates):
    """[kind, base index, edit1, edit2]: the sequence rendered is [W1, W2, W1] with Wi = base + edit i."""
    thorough = tier != 'quick'
    seqs = []
    words = list(base['start']) + list(base['end'])

    def add(kind, e1, e2):
        seqs.append([kind, base_idx, e1, e2])
    # (a) one word changed
    for p in range(8):
        live = info['live'][p]
        vals = pick_values(rng, info, p, words[p], (8 if thorough else 3) if live else 1)
        trunc = [words[p] ^ (1 << s) for s in (8, 16, 32, 63)] + [(words[p] + 1) & M64]
        vals += trunc if (thorough and live) else [rng.choice(trunc)]
        for v in dict.fromkeys(vals):
            add('word%d' % p, {}, {'w': {p: v}})
    # one other component changed: each looked-up path, the global strings, the thread id
    for i in range(len(base['lookups'])):
        add('path%d' % i, {}, {'paths': {i: 'opt/other/c%d' % rng.randrange(100)}})
    add('gs', {}, {'gs': {k: v + '-x' for k, v in base['gs'].items()}})
    add('tid', {}, {'tid': base['tid'] + 1})
    # (b) two positions whose words collide under a packing
    pairs = [(i, j) for i in range(8) for j in range(8) if i != j]
    for i, j in pairs:
        same_half = i // 4 == j // 4
        li, lj = info['live'][i], info['live'][j]
        if not (li or lj):
            continue
        if not (li and lj) and not thorough:
            continue
        if not same_half and not (thorough and li and lj):
            continue
        for s in ((8, 16, 32) if thorough or same_half else (rng.choice((8, 16, 32)),)):
            k = rng.choice((1, 1, 2, 4))
            ca = [v for v in small_domain(info, i, 1 << 20) if v & k == 0 and v + k < (1 << 64)]
            cb = small_domain(info, j, 1 << s)
            if not ca or not cb:
                continue
            a, b = rng.choice(ca), rng.choice(cb)
            add('pack%d:%d<<%d' % (i, j, s), {'w': {i: a, j: b + (k << s)}}, {'w': {i: a + k, j: b}})
        ca, cb = small_domain(info, i, 1 << 16), small_domain(info, j, 1 << 16)
        if not ca or not cb:
            continue
        if i < j:
            both = [v for v in ca if v in cb]
            if len(both) >= 2:
                a, b = rng.sample(both, 2)
                add('swap%d:%d' % (i, j), {'w': {i: a, j: b}}, {'w': {i: b, j: a}})
            a, b = rng.choice(ca), rng.choice([v for v in cb if v > 0] or [1])
            d = rng.randrange(1, b + 1)
            add('sum%d:%d' % (i, j), {'w': {i: a, j: b}}, {'w': {i: a + d, j: b - d}})
            a, b = rng.choice(ca), rng.choice(cb)
            d = rng.choice((1, 2, 4, 8, 0x10, 0x100))
            add('xor%d:%d' % (i, j), {'w': {i: a, j: b}}, {'w': {i: a ^ d, j: b ^ d}})
        a, b = rng.choice([v for v in ca if v >= 10] or [12]), rng.choice(cb)
        add('concat%d:%d' % (i, j), {'w': {i: a, j: b}}, {'w': {i: a // 10, j: int(str(a % 10) + str(b))}})
    # (c) the same window under another decoder
    mates = ([twin] if twin else []) + rng.sample(family_mates, min(len(family_mates), 3 if thorough else 1))
    for m in dict.fromkeys(mates):
        add('decoder', {}, {'name': m})
    return seqs


def family_of():
    fam = {}
    for f in FAMILY_MODULES:
        m = importlib.import_module('pykdebugparser.trace_handlers.' + f)
        for n in getattr(m, 'handlers', {}):
            fam.setdefault(n, f)
    return fam


def plan_chunk(seed, names, tier, select):
    """Bases and sequences of some decoders (base indices local to the chunk); every decoder has its own generator."""
    from . import decoders as D
    pool, tiny = value_pool(), tiny_set()
    fam = family_of()
    all_names = D.all_handler_names()
    by_family = {}
    for n in all_names:
        by_family.setdefault(fam.get(n), []).append(n)
    bases, seqs, selected, without_base = [], [], [], []
    for n in names:
        rng = random.Random(int.from_bytes(hashlib.sha1(('%d %s' % (seed, n)).encode()).digest()[:8], 'big'))
        base = find_base(rng, n, pool)
        if base is None:
            without_base.append(n)
            continue
        sym = select == 'symbolic'
        deep = tier != 'quick'                 # thorough: every position is probed with the whole pool
        info = discover(rng, base, pool, tiny, deep, sym)
        extra = repair_bases(rng, base, info, pool)
        infos = [(base, info)] + [(b, discover(rng, b, pool, tiny, deep, sym)) for b in extra]
        if sym and not any(i['symbolic'] for _, i in infos):
            continue
        selected.append(n)
        twin = n[:-9] if n.endswith('_nocancel') else n + '_nocancel'
        twin = twin if twin in all_names else None
        mates = [m for m in by_family.get(fam.get(n), []) if m != n and m != twin]
        for b, i in infos:
            bases.append(b)
            seqs += sequences_for(rng, len(bases) - 1, b, i, tier, twin, mates)
    return {'bases': bases, 'seqs': seqs, 'selected': selected, 'without_base': without_base}


def make_plan(seed, names, tier, select):
    """Probing renders: it happens in forked children (sixteen decoders each), never in the caller."""
    from . import decoders as D
    names = names or D.all_handler_names()
    chunks = [names[i:i + 16] for i in range(0, len(names), 16)]
    plan = {'bases': [], 'seqs': [], 'selected': [], 'without_base': []}
    for part in in_children([(lambda ch=ch: plan_chunk(seed, ch, tier, select)) for ch in chunks]):
        off = len(plan['bases'])
        plan['bases'] += part['bases']
        plan['seqs'] += [[k, b + off, e1, e2] for k, b, e1, e2 in part['seqs']]
        plan['selected'] += part['selected']
        plan['without_base'] += part['without_base']
    return plan


# ------------------------------------------------------------------------------------------------
# module-level state of the package (search heuristic only: which decoders WRITE process-wide state)

def _fp(out, label, v, depth):
    import collections
    import types
    if isinstance(v, (int, float, str, bytes, bool, type(None))):
        out.append('%s=%r' % (label, v if not isinstance(v, (str, bytes)) or len(v) < 200 else len(v)))
    elif isinstance(v, (dict, collections.OrderedDict)):
        out.append('%s:dict%d:%d' % (label, len(v), sum(hash(repr(k)[:80]) for k in v) if len(v) < 20000 else 0))
        if depth < 2 and len(v) <= 64:
            for k, x in list(v.items()):
                _fp(out, label + '[%s]' % repr(k)[:40], x, depth + 1)
    elif isinstance(v, (list, tuple, set, frozenset, bytearray, collections.deque)):
        out.append('%s:%s%d' % (label, type(v).__name__, len(v)))
        if depth < 2 and len(v) <= 64 and not isinstance(v, (bytearray, set, frozenset)):
            for i, x in enumerate(v):
                _fp(out, label + '[%d]' % i, x, depth + 1)
    elif isinstance(v, (types.FunctionType, types.MethodType)) or hasattr(v, 'cache_info'):
        f = getattr(v, '__wrapped__', v) if hasattr(v, 'cache_info') else v
        if hasattr(v, 'cache_info'):
            try:
                out.append('%s:cache%r' % (label, tuple(v.cache_info())))
            except Exception:
                pass
        f = getattr(f, '__func__', f)
        if depth < 3 and isinstance(f, types.FunctionType):
            for i, d in enumerate(f.__defaults__ or ()):
                if not isinstance(d, (int, float, str, bytes, bool, type(None))):
                    _fp(out, label + '.default%d' % i, d, depth + 1)
            for k, d in (f.__kwdefaults__ or {}).items():
                _fp(out, label + '.kw.' + k, d, depth + 1)
            for k, d in (f.__dict__ or {}).items():
                if k != '__wrapped__':
                    _fp(out, label + '.attr.' + k, d, depth + 1)
            for i, cell in enumerate(f.__closure__ or ()):
                try:
                    _fp(out, label + '.cell%d' % i, cell.cell_contents, depth + 1)
                except ValueError:
                    pass
    elif isinstance(v, type):
        if depth < 1 and (v.__module__ or '').startswith('pykdebugparser'):
            is_enum = issubclass(v, enum.Enum)
            for k, x in list(vars(v).items()):
                if k.startswith('__') or (is_enum and k.startswith('_')) or isinstance(x, enum.Enum):
                    continue
                _fp(out, label + '.' + k, x, depth + 1)
    elif isinstance(v, types.ModuleType):
        pass
    elif depth < 2 and (type(v).__module__ or '').startswith('pykdebugparser') and hasattr(v, '__dict__'):
        for k, x in list(vars(v).items()):
            _fp(out, label + '.' + k, x, depth + 1)
    elif type(v).__name__ in ('count', 'cycle', 'generator', 'list_iterator', 'dict_keyiterator', 'zip', 'map', 'filter'):
        try:
            out.append('%s:iter%r' % (label, v.__reduce__()[1:] if hasattr(v, '__reduce__') else None))
        except Exception:
            out.append('%s:iter' % label)


def state_fingerprint():
    out = []
    for mname in sorted(sys.modules):
        if mname == 'pykdebugparser' or mname.startswith('pykdebugparser.'):
            mod = sys.modules[mname]
            if mod is None:
                continue
            for k, v in list(vars(mod).items()):
                if not k.startswith('__'):
                    _fp(out, mname + '.' + k, v, 0)
    return hashlib.sha1('\n'.join(out).encode('utf-8', 'replace')).hexdigest()


# ------------------------------------------------------------------------------------------------
# the search (parent never renders)

def windows_of(plan, seq):
    base = plan['bases'][seq[1]]
    return apply_edit(base, seq[2]), apply_edit(base, seq[3])


def pass_a(plan, groups):
    out, writers = [], []
    fp = state_fingerprint()
    for i in range(0, len(groups), 8):           # the module-level state is looked at after every eight decoders
        for name, idxs in groups[i:i + 8]:
            for si in idxs:
                w1, w2 = windows_of(plan, plan['seqs'][si])
                out.append([answer(w1), answer(w2), answer(w1)])
        fp2 = state_fingerprint()
        if fp2 != fp:
            writers += [name for name, _ in groups[i:i + 8]]
            fp = fp2
    return {'texts': out, 'writers': writers}


def pass_b(plan, idxs):
    out = {}
    for si in reversed(idxs):
        w1, w2 = windows_of(plan, plan['seqs'][si])
        out[str(si)] = [answer(w2), answer(w1), answer(w2)]
    return out


def search(req):
    """See the module text.  req: {'seed', 'tier', 'select': 'all' | 'symbolic', 'names': [...] | None, 'exact': n, 'model': bool}."""
    from . import decoders as D
    import time
    T = [time.time()]
    zygs = [Zygote() for _ in range(max(1, min(6, (os.cpu_count() or 2) // 2)))]
    rng = random.Random(req['seed'] ^ 0x5eed)
    plan = make_plan(req['seed'], req.get('names'), req['tier'], req.get('select', 'all'))
    seqs, bases = plan['seqs'], plan['bases']
    groups, order = {}, []
    for si, s in enumerate(seqs):
        n = bases[s[1]]['name']
        if n not in groups:
            groups[n] = []
            order.append(n)
        groups[n].append(si)
    glist = [(n, groups[n]) for n in order]
    T.append(time.time())
    ra = in_child(lambda: pass_a(plan, glist))
    T.append(time.time())
    A, writers = ra['texts'], ra['writers']
    flat = [si for _, idxs in glist for si in idxs]
    A = dict(zip(flat, A))
    B = {}
    parts = [[si for _, ii in glist[i:i + 8] for si in ii] for i in range(0, len(glist), 8)]     # eight decoders per interpreter
    for part in in_children([(lambda idxs=idxs: pass_b(plan, idxs)) for idxs in parts]):
        for k, v in part.items():
            B[int(k)] = v
    T.append(time.time())
    res = {'decoders': len(order), 'sequences': len(seqs), 'renderings': 6 * len(seqs), 'selected': plan['selected'],
           'without_base': plan['without_base'], 'state_writers': writers, 'kinds': {}, 'failures': [], 'exact': 0,
           'disagree': 0, 'rendered_ok': 0}
    for s in seqs:
        k = re.sub(r'\d+', '', s[0].split(':')[0])
        res['kinds'][k] = res['kinds'].get(k, 0) + 1
    res['rendered_ok'] = len({(s[1], json.dumps(s[2 + i % 2], sort_keys=True)) for si, s in enumerate(seqs) for i in (0, 1)
                              if A[si][i].startswith('ok')})
    # which sequences get the exact treatment
    budget = int(req.get('exact', 600))
    disagree = [si for si in flat if len({A[si][0], A[si][2], B[si][1]}) > 1 or len({A[si][1], B[si][0], B[si][2]}) > 1]
    res['disagree'] = len(disagree)
    chosen = list(disagree[:budget])
    wset, cset = set(writers), set(chosen)
    wseqs = [si for si in flat if bases[seqs[si][1]]['name'] in wset and si not in cset]
    if wseqs:                                   # spread the budget evenly over the state-writing decoders
        per = max(8, (3 * budget) // max(1, len(wset)))
        byname = {}
        for si in wseqs:
            byname.setdefault(bases[seqs[si][1]]['name'], []).append(si)
        for n, lst in byname.items():
            chosen += lst if len(lst) <= per else rng.sample(lst, per)
    cset = set(chosen)
    rest = [si for si in flat if si not in cset]
    chosen += rng.sample(rest, min(len(rest), budget))
    failed, best = set(), {}
    exact = {}
    for i in range(0, len(chosen), len(zygs)):              # one sequence per zygote at a time
        part = chosen[i:i + len(zygs)]
        for z, si in zip(zygs, part):
            w1, w2 = windows_of(plan, seqs[si])
            z.send([[w1, w2, w1], [w2]])
        for z, si in zip(zygs, part):
            exact[si] = z.receive()
    for si in chosen:
        s = seqs[si]
        w1, w2 = windows_of(plan, s)
        name = w1['name']
        S, (f2,) = exact[si]
        f1 = S[0]
        res['exact'] += 1
        if name in failed:                     # a failure with the shortest possible history is already recorded
            continue
        obs = [(S[1], f2, [w1], w2), (S[2], f1, [w1, w2], w1),
               (B[si][1], f1, None, w1), (B[si][0], f2, None, w2), (B[si][2], f2, None, w2),
               (A[si][0], f1, None, w1), (A[si][1], f2, None, w2), (A[si][2], f1, None, w1)]
        for k, (got, fresh, hist, w) in enumerate(obs):
            if got == fresh:
                continue
            if hist is None:                   # seen under a long history: shortest of (group so far) that reproduces it
                idxs = groups[name]
                pos = idxs.index(si)
                if k in (2, 3, 4):             # pass B: the sequences of its interpreter, last first, [W2, W1, W2]
                    gi = order.index(name) // 8 * 8
                    idxs = [sj for _, ii in glist[gi:gi + 8] for sj in ii]
                    pos = idxs.index(si)
                    hist = []
                    for sj in reversed(idxs[pos + 1:]):
                        x1, x2 = windows_of(plan, seqs[sj])
                        hist += [x2, x1, x2]
                    hist += [[], [w2], [w2, w1]][{3: 0, 2: 1, 4: 2}[k]]
                else:                          # pass A: everything rendered before (all decoders), capped
                    hist = []
                    for sj in flat[:flat.index(si)][-4000:]:
                        x1, x2 = windows_of(plan, seqs[sj])
                        hist += [x1, x2, x1]
                    hist += [[], [w1], [w1, w2]][k - 5]
            f = {'name': w['name'], 'kind': s[0], 'history': hist, 'case': w, 'after_history': got, 'first_thing': fresh}
            if w['name'] not in best or len(hist) < len(best[w['name']]['history']):
                best[w['name']] = f
            if len(hist) <= 2:
                failed.add(name)
            break
    res['failures'] = list(best.values())
    for z in zygs:
        z.close()
    T.append(time.time())
    # the stateless Lean model on the stream of pass A (host tables only)
    res['model'] = {'compared': 0, 'mismatches': 0, 'first_diffs': []}
    if req.get('model'):
        sup = set(D.supported_names())
        items = []
        for si in flat:
            w1, w2 = windows_of(plan, seqs[si])
            for w, ans in ((w1, {A[si][0], A[si][2]}), (w2, {A[si][1]})):
                if w['name'] in sup:
                    ln = D.line(w)
                    items += [(ln, a) for a in sorted(ans)]
        uniq = list(dict.fromkeys(l for l, _ in items))
        mdl = dict(zip(uniq, core.drive(uniq))) if uniq else {}
        model = [mdl[l] for l, _ in items]
        res['model']['compared'] = len(items)
        for (l, a), m in zip(items, model):
            if m != a:
                res['model']['mismatches'] += 1
                if len(res['model']['first_diffs']) < 5:
                    res['model']['first_diffs'].append({'line': l[:2000], 'model': m[:2000], 'impl': a[:2000]})
    T.append(time.time())
    res['wall_s'] = dict(zip(('plan', 'pass_a', 'pass_b', 'exact', 'model'), (round(b - a, 2) for a, b in zip(T, T[1:]))))
    return res


# ------------------------------------------------------------------------------------------------
# the section, as the checks run it

RULE = ('every registered decoder%s: in-domain windows found by probing the real code (word pool reflected from the package: enum '
        'members, flag bits incl. the two above the highest declared, small integers, host and Darwin SOL_SOCKET), neighbour '
        'sequences [W1, W2, W1] rendered back to back - (a) exactly one START/END word (one value per shape class of the '
        'position, truncation neighbours), one path, the global strings or the thread id changed; (b) packed-key collisions '
        'between two positions: (a, b + (k << s)) / (a + k, b) for s = 8, 16, 32, swapped, equal sum, equal xor, equal decimal '
        'concatenation; (c) the same window under the twin / a family mate.  Pass A renders the whole stream in one '
        'interpreter, pass B the sequences in the opposite order, eight decoders per interpreter; sequences of decoders '
        'whose renderings write module-level state, sequences on which the passes disagree and a random sample are checked '
        'exactly: every text seen for a window must equal its text rendered FIRST THING in a fresh interpreter. '
        'cases = renderings; non-trivial = distinct windows rendered without exception')


def history_section(rep, rng, tier, name, select='all', hosts=('host',), names=None):
    """Run the search under each host table set and report `render:depends-on-history:<decoder>` for every confirmed
    dependence (confirmation: interpreters started from scratch)."""
    from . import decoders as D
    for host in hosts:
        secname = name if host == 'host' else name + '-' + host
        sec = rep.section(secname)
        sec['rule'] = RULE % (' that shows a word symbolically (enum-typed field or _IOC split)' if select == 'symbolic' else '') \
            + ('; tables of this host' if host == 'host' else '; Darwin tables installed before the package is imported')
        req = {'seed': rng.getrandbits(48), 'tier': tier, 'select': select, 'names': names,
               'exact': 500 if tier == 'quick' else 5000, 'model': host == 'host'}
        res = texts([req], host, 'search')[0]
        if isinstance(res, str):
            raise core.Infra('history search failed: ' + res)
        sec['cases'] += res['renderings'] + 4 * res['exact']
        sec['distinct_nontrivial'] += res['rendered_ok']
        sec['dist'] = {'decoders': res['decoders'], 'sequences': res['sequences'], 'kinds': res['kinds'],
                       'checked_exactly': res['exact'], 'passes_disagree': res['disagree'],
                       'decoders_writing_module_state': res['state_writers'][:40],
                       'without_in_domain_window': res['without_base'], 'model_compared': res['model']['compared']}
        if res['model']['mismatches']:
            sec['mismatches'] += res['model']['mismatches']
            rep.broken.append('correspondence:%s (%d of %d renderings differ from the stateless model)'
                              % (secname, res['model']['mismatches'], res['model']['compared']))
            for d in res['model']['first_diffs']:
                if len(rep.first_diffs) < 10:
                    rep.first_diffs.append(dict(d, section=secname))
        for f in res['failures']:
            confirm(rep, secname, host, f)


def confirm(rep, secname, host, f):
    """Interpreters started from scratch: [history..., window] in one, [window] alone in another."""
    from . import decoders as D
    hist, w = f['history'], f['case']
    after = texts(hist + [w], host)[-1]
    first = texts([w], host)[0]
    if after == first:
        rep.broken.append('%s: decoder %s rendered %r under a history inside the helper interpreter and %r first thing, '
                          'but interpreters started from scratch agree' % (secname, f['name'], f['after_history'][:200],
                                                                           f['first_thing'][:200]))
        return
    short, tries = hist, 0
    for cut in (1, 2, 3):                                  # the last few windows usually suffice
        if cut < len(short) and texts(short[-cut:] + [w], host)[-1] != first:
            short = short[-cut:]
            break
    n = 2
    while len(short) > 3 and tries < 40:                   # otherwise: drop chunks of the history while it still reproduces
        chunk = -(-len(short) // n)
        for i in range(0, len(short), chunk):
            cand = short[:i] + short[i + chunk:]
            tries += 1
            if cand and texts(cand + [w], host)[-1] != first:
                short, n = cand, max(n - 1, 2)
                break
        else:
            if chunk == 1:
                break
            n = min(len(short), 2 * n)
    after = texts(short + [w], host)[-1]
    rep.add_failure('render:depends-on-history:' + f['name'],
                    'decoder %s (%s tables, neighbours of kind %s): the window renders %r first thing in a fresh interpreter '
                    'and %r after %d other window(s) were rendered in the same interpreter'
                    % (f['name'], host, f['kind'], first, after, len(short)),
                    {'section': secname, 'host': host, 'history': short, 'case': w})


def replay(rp):
    """Re-run a recorded history dependence; returns (violated, lines to print)."""
    from . import decoders as D
    host, hist, w = rp.get('host', 'host'), rp['history'], rp['case']
    after = texts(hist + [w], host)[-1]
    first = texts([w], host)[0]
    lines = ['window        : %s start=%s end=%s lookups=%s' % (w['name'], w['start'], w['end'], w['lookups']),
             'history       : %d window(s): %s' % (len(hist), [(h['name'], h['start'], h['end']) for h in hist[-3:]]),
             'first thing   : %r' % first, 'after history : %r' % after]
    if host == 'host' and w['name'] in D.supported_names():
        try:
            m = core.drive([D.line(w)])[0]
            lines.append('model         : %r' % (D.text_of(m) if m.startswith('ok ') else m))
        except core.Infra as e:
            lines.append('model         : <driver unavailable: %s>' % e)
    return after != first, lines
