import KdVerif.Model.PyIRCli
/-
  The glue of `pykdebugparser/__main__.py` and of `PyKdebugParser.__init__` / `formatted_*` as terms of `Model/PyIRCli`,
  written by hand next to the Python they stand for.  `Props/C06` / `C12` / `C13` / `C14` `cli_source_is_expected_ir` say
  that what `tools/gen_pyir_cli.py` translates from the source text on every run IS these terms; the `…_ir_eq_model`
  theorems are proved for them once.

  Normal forms of the translator: locals / parameters of `print_with_count` are numbered (parameters first, locals in
  order of first binding); the declarations of a command are sorted by parameter name, so are the parameters of the
  callback (it is called by keyword) and each run of consecutive `parser.<attr> = …` assignments (distinct attributes,
  right-hand sides without effects: they commute); `help=` texts are dropped.
-/
namespace KdVerif.PyIRCli.Expected

/-- ```
    def print_with_count(generator, count: int):        # generator = 0, count = 1
        i = 0                                            # i = 2
        for obj in generator:                            # obj = 3
            if i == count:
                break
            print(obj)
            i += 1
    ``` -/
def printWithCount : Func :=
  { params := 2
    body := .seq (.assign 2 (.int 0))
      (.forIn 3 (.var 0)
        (.seq (.ite (.eq (.var 2) (.var 1)) .brk .skip)
          (.seq (.print (.var 3)) (.addAssign 2 (.int 1))))) }

/-- ```
    class BasedIntParamType(click.ParamType):
        def convert(self, value, param, ctx):
            try:
                return int(value, 0)
            except ValueError:
                self.fail(f'{value!r} is not a valid int.', param, ctx)
    BASED_INT = BasedIntParamType()
    ``` -/
def basedInt : Convert := { base := 0, valueErrorFails := true }

/-- `dump_input = click.argument('kdebug_dump', type=click.File('rb'))` -/
def dumpInput : Decl := { param := "kdebug_dump", isArgument := true, flags := ["kdebug_dump"], kind := .file "rb" }
/-- `count = click.option('-c', '--count', type=click.INT, default=-1, help=…)` -/
def count : Decl := { param := "count", flags := ["-c", "--count"], kind := .int, default := .int (-1) }
/-- `tid_filter = click.option('--tid', type=click.INT, default=None, help=…)` -/
def tidFilter : Decl := { param := "tid", flags := ["--tid"], kind := .int }
/-- `show_tid = click.option('--show-tid|--no-show-tid', default=False, help=…)` (`|` stands for the slash) -/
def showTid : Decl := { param := "show_tid", flags := ["--show-tid/--no-show-tid"], kind := .flag, default := .bool false }
/-- `process_filter = click.option('--process', default=None, help=…)` -/
def processFilter : Decl := { param := "process", flags := ["--process"], kind := .str }
/-- `class_filter = click.option('-cf', '--class-filters', multiple=True, type=BASED_INT, help=…)` -/
def classFilter : Decl :=
  { param := "class_filters", flags := ["-cf", "--class-filters"], kind := .basedInt, multiple := true }
/-- `subclass_filter = click.option('-sf', '--subclass-filters', multiple=True, type=BASED_INT, help=…)` -/
def subclassFilter : Decl :=
  { param := "subclass_filters", flags := ["-sf", "--subclass-filters"], kind := .basedInt, multiple := true }
/-- `@click.option('--color|--no-color', default=True, help=…)` (on `traces` only; `|` stands for the slash) -/
def color : Decl := { param := "color", flags := ["--color/--no-color"], kind := .flag, default := .bool true }

/-- ```
    @cli.command()
    @dump_input @count @tid_filter @show_tid @class_filter @subclass_filter
    def kevents(kdebug_dump, count, tid, show_tid, class_filters, subclass_filters):
        parser = PyKdebugParser()
        parser.filter_class = class_filters
        parser.filter_subclass = subclass_filters
        parser.filter_tid = tid
        parser.show_tid = show_tid
        print_with_count(parser.formatted_kevents(kdebug_dump), count)
    ``` -/
def kevents : Command :=
  { name := "kevents"
    decls := [classFilter, count, dumpInput, showTid, subclassFilter, tidFilter]
    fnParams := ["class_filters", "count", "kdebug_dump", "show_tid", "subclass_filters", "tid"]
    body := [.newParser "PyKdebugParser" [],
             .setAttr "filter_class" (.name "class_filters"),
             .setAttr "filter_subclass" (.name "subclass_filters"),
             .setAttr "filter_tid" (.name "tid"),
             .setAttr "show_tid" (.name "show_tid"),
             .printWithCount "formatted_kevents" (.name "kdebug_dump") (.name "count")] }

/-- ```
    @cli.command()
    @dump_input @count @tid_filter @process_filter @show_tid @class_filter @subclass_filter
    @click.option('--color|--no-color', default=True, help=…)
    def traces(kdebug_dump, count, tid, process, show_tid, class_filters, subclass_filters, color):
        parser = PyKdebugParser()
        parser.filter_tid = tid
        parser.filter_process = process
        parser.filter_class = list(class_filters)
        parser.filter_subclass = list(subclass_filters)
        parser.show_tid = show_tid
        parser.color = color
        print_with_count(parser.formatted_traces(kdebug_dump), count)
    ``` -/
def traces : Command :=
  { name := "traces"
    decls := [classFilter, color, count, dumpInput, processFilter, showTid, subclassFilter, tidFilter]
    fnParams := ["class_filters", "color", "count", "kdebug_dump", "process", "show_tid", "subclass_filters", "tid"]
    body := [.newParser "PyKdebugParser" [],
             .setAttr "color" (.name "color"),
             .setAttr "filter_class" (.listOf "class_filters"),
             .setAttr "filter_process" (.name "process"),
             .setAttr "filter_subclass" (.listOf "subclass_filters"),
             .setAttr "filter_tid" (.name "tid"),
             .setAttr "show_tid" (.name "show_tid"),
             .printWithCount "formatted_traces" (.name "kdebug_dump") (.name "count")] }

/-- ```
    @cli.command()
    @dump_input @count @tid_filter @process_filter @show_tid
    def callstacks(kdebug_dump, count, tid, process, show_tid):
        parser = PyKdebugParser()
        parser.filter_tid = tid
        parser.filter_process = process
        parser.show_tid = show_tid
        print_with_count(parser.formatted_callstacks(kdebug_dump), count)
    ``` -/
def callstacks : Command :=
  { name := "callstacks"
    decls := [count, dumpInput, processFilter, showTid, tidFilter]
    fnParams := ["count", "kdebug_dump", "process", "show_tid", "tid"]
    body := [.newParser "PyKdebugParser" [],
             .setAttr "filter_process" (.name "process"),
             .setAttr "filter_tid" (.name "tid"),
             .setAttr "show_tid" (.name "show_tid"),
             .printWithCount "formatted_callstacks" (.name "kdebug_dump") (.name "count")] }

/-- ```
    @cli.command()
    @dump_input @count @tid_filter @process_filter @show_tid
    def logs(kdebug_dump, count, tid, process, show_tid):
        parser = PyKdebugParser()
        parser.filter_tid = tid
        parser.filter_process = process
        parser.show_tid = show_tid
        print_with_count(parser.formatted_logs(kdebug_dump), count)
    ``` -/
def logs : Command :=
  { name := "logs"
    decls := [count, dumpInput, processFilter, showTid, tidFilter]
    fnParams := ["count", "kdebug_dump", "process", "show_tid", "tid"]
    body := [.newParser "PyKdebugParser" [],
             .setAttr "filter_process" (.name "process"),
             .setAttr "filter_tid" (.name "tid"),
             .setAttr "show_tid" (.name "show_tid"),
             .printWithCount "formatted_logs" (.name "kdebug_dump") (.name "count")] }

/-- ```
    @cli.command()
    @dump_input
    def <name>(kdebug_dump):
        parser = KdBufParser({}, {})
        list(parser.parse(kdebug_dump))
        print(json.dumps(parser.<attr>, indent=4))
    ``` -/
def tableCommand (name attr : String) : Command :=
  { name := name
    decls := [dumpInput]
    fnParams := ["kdebug_dump"]
    body := [.newParser "KdBufParser" [.lit .dict, .lit .dict],
             .drain "parse" (.name "kdebug_dump"),
             .printJson attr 4] }

/-- `processes`: `parser.processes` -/
def processes : Command := tableCommand "processes" "processes"
/-- `kexts`: `parser.kernel_extensions` -/
def kexts : Command := tableCommand "kexts" "kernel_extensions"
/-- `images`: `parser.images` -/
def images : Command := tableCommand "images" "images"

/-- ```
    def __init__(self):
        self.filter_tid = None
        self.filter_process = None
        self.filter_class = []
        self.filter_subclass = []
        self.show_timestamp = True
        self.show_name = True
        self.show_func_qual = True
        self.show_tid = False
        self.show_process = True
        self.show_args = True
        self.color = True
        self.numer = None
        self.denom = None
        self.mach_absolute_time = None
        self.usecs_since_epoch = None
        self.timezone = None
        self.threads_pids = {}
        self.pids_names = {}
        self.dyld_addresses = []
        self.dyld_uuids = []
    ``` -/
def init : List (String × Expr) :=
  [("filter_tid", .lit .none), ("filter_process", .lit .none), ("filter_class", .lit (.list [])),
   ("filter_subclass", .lit (.list [])), ("show_timestamp", .lit (.bool true)), ("show_name", .lit (.bool true)),
   ("show_func_qual", .lit (.bool true)), ("show_tid", .lit (.bool false)), ("show_process", .lit (.bool true)),
   ("show_args", .lit (.bool true)), ("color", .lit (.bool true)), ("numer", .lit .none), ("denom", .lit .none),
   ("mach_absolute_time", .lit .none), ("usecs_since_epoch", .lit .none), ("timezone", .lit .none),
   ("threads_pids", .lit .dict), ("pids_names", .lit .dict), ("dyld_addresses", .lit (.list [])),
   ("dyld_uuids", .lit (.list []))]

/-- ```
    def formatted_kevents(self, kdebug: io.IOBase, trace_codes=None):
        trace_codes_map = default_trace_codes() if trace_codes is None else trace_codes
        return map(lambda e: self._format_kevent(e, trace_codes_map), self.kevents(kdebug))
    ``` -/
def formattedKevents : Formatted :=
  { hasCodesParam := true, formatter := "_format_kevent", fmtArgs := [.codesOrDefault], source := "kevents", srcArgs := [.kdebug] }

/-- ```
    def formatted_traces(self, kdebug: io.IOBase, trace_codes=None):
        return map(lambda t: self._format_trace(t), self.traces(kdebug, trace_codes))
    ``` -/
def formattedTraces : Formatted :=
  { hasCodesParam := true, formatter := "_format_trace", fmtArgs := [], source := "traces", srcArgs := [.kdebug, .traceCodes] }

/-- ```
    def formatted_callstacks(self, kdebug: io.IOBase, trace_codes=None):
        return map(lambda t: self._format_callstack(t), self.callstacks(kdebug, trace_codes))
    ``` -/
def formattedCallstacks : Formatted :=
  { hasCodesParam := true, formatter := "_format_callstack", fmtArgs := [], source := "callstacks",
    srcArgs := [.kdebug, .traceCodes] }

/-- ```
    def formatted_logs(self, kdebug: io.IOBase):
        return map(lambda t: self._format_log(t), self.os_log_events(kdebug))
    ``` -/
def formattedLogs : Formatted :=
  { hasCodesParam := false, formatter := "_format_log", fmtArgs := [], source := "os_log_events", srcArgs := [.kdebug] }

def prog : Prog :=
  { printWithCount := printWithCount
    init := init
    formatted := [("formatted_kevents", formattedKevents), ("formatted_traces", formattedTraces),
                  ("formatted_callstacks", formattedCallstacks), ("formatted_logs", formattedLogs)] }

end KdVerif.PyIRCli.Expected
