import KdVerif.Model.PyIRTp
import KdVerif.Model.Pipeline
import KdVerif.Spec.PyIRTpExpected
import KdVerif.Proofs.PyIR
import KdVerif.Proofs.PyIRTpRegistry
import KdVerif.Model.TracePipeline
/-
  Lemmas of the translation tie of `TracesParser.feed_generator` / `__init__` (`Model/PyIRTp`): the expected terms
  (`Spec/PyIRTpExpected`), interpreted, are the pipeline model `feedGen`, the initial state of the hand models, and a
  registry that does not depend on the order of the `update` calls when no two families share a name.
-/
namespace KdVerif.PyIRTp
open KdVerif.PyIR

/-! ### `feed_generator` -/

/-- `feedGen` of `Model/Pipeline` with the state it ends in: items delivered before the first exception, then the final
    state — or that exception. -/
def feedGenS {σ ε τ : Type} (feed : σ → ε → Except PyErr (σ × Option τ)) : σ → List ε → List τ × Except PyErr σ
  | s, [] => ([], .ok s)
  | s, e :: es =>
    match feed s e with
    | .error err => ([], .error err)
    | .ok (s', o) =>
      let q := feedGenS feed s' es
      (match o with | some t => t :: q.1 | none => q.1, q.2)

theorem feedGenS_fst {σ ε τ : Type} (feed : σ → ε → Except PyErr (σ × Option τ)) (es : List ε) :
    ∀ s, (feedGenS feed s es).1 = (feedGen feed s es).1 := by
  induction es with
  | nil => intro s; rfl
  | cons e es ih =>
    intro s
    simp only [feedGenS, feedGen]
    cases feed s e with
    | error x => rfl
    | ok p => obtain ⟨s', o⟩ := p; cases o <;> simp [ih s']

theorem feedGenS_snd {σ ε τ : Type} (feed : σ → ε → Except PyErr (σ × Option τ)) (es : List ε) :
    ∀ s, (feedGenS feed s es).2 = finalState feed s es := by
  induction es with
  | nil => intro s; rfl
  | cons e es ih =>
    intro s
    simp only [feedGenS, finalState]
    cases feed s e with
    | error x => rfl
    | ok p => obtain ⟨s', o⟩ := p; exact ih s'

/-- the exception `feedGen` reports is the one the state machine stops with -/
theorem feedGen_err {σ ε τ : Type} (feed : σ → ε → Except PyErr (σ × Option τ)) (es : List ε) :
    ∀ s, (feedGen feed s es).2 = errOf (finalState feed s es) := by
  induction es with
  | nil => intro s; rfl
  | cons e es ih =>
    intro s
    simp only [feedGen, finalState]
    cases feed s e with
    | error x => rfl
    | ok p => obtain ⟨s', o⟩ := p; exact ih s'

/-- the generator's own exception surfaces when everything it delivered was consumed without one -/
def thenRaise (err : Option PyErr) (r : GenRes) : GenRes :=
  match r.2, err with
  | .ok _, some e => (r.1, .error e)
  | _, _ => r

theorem thenRaise_eq (err : Option PyErr) (r : GenRes) : thenRaise err r = (r.1, outcome r.2 err) := by
  obtain ⟨o, f⟩ := r
  cases f <;> cases err <;> rfl

theorem exec_forIn (feed : World → Kevent → Except PyErr (Val × World)) (v : Nat) (it : GExpr) (body next : GStmt)
    (env : GEnv) (w : World) :
    execG feed (.forIn v it body next) env w =
      match evalG env it with
      | .error x => ([], .error x)
      | .ok (.gen es err) =>
        (match forEvents (fun env w => execG feed body env w) v es env w with
         | (o, .error x) => (o, .error x)
         | (o, .ok (env', w')) =>
           match err with
           | some x => (o, .error x)
           | Option.none => (o ++ (execG feed next env' w').1, (execG feed next env' w').2))
      | .ok (.v .none) => ([], .error .typeError)
      | .ok _ => ([], .error .unmodelled) := by
  rw [execG]; rfl

/-- one round of the loop: `ret = self.feed(event); if ret is not None: yield ret` -/
theorem exec_loopBody (feed : World → Kevent → Except PyErr (Val × World)) (env : GEnv) (w : World) (e : Kevent)
    (h : env 1 = some (.v (.event e))) :
    execG feed Expected.loopBody env w =
      match feed w e with
      | .error x => ([], .error x)
      | .ok (r, w') => (if r = .none then [] else [r], .ok (env.set 2 (.v r), w')) := by
  simp only [Expected.loopBody, execG, evalG, h]
  cases feed w e with
  | error x => rfl
  | ok p =>
    obtain ⟨r, w'⟩ := p
    cases r <;> simp [GEnv.set]

/-- the loop over the events is `feedGenS` of `self.feed` -/
theorem forEvents_loop (p : Prog) (cfg : Cfg) (es : List Kevent) : ∀ (env : GEnv) (w : World),
    match (feedGenS (feedStep p cfg) w es).2 with
    | .error x => forEvents (fun env w => execG (PyIR.feed p cfg) Expected.loopBody env w) 1 es env w =
        ((feedGenS (feedStep p cfg) w es).1, .error x)
    | .ok w' => ∃ env', forEvents (fun env w => execG (PyIR.feed p cfg) Expected.loopBody env w) 1 es env w =
        ((feedGenS (feedStep p cfg) w es).1, .ok (env', w')) := by
  induction es with
  | nil => intro env w; exact ⟨env, rfl⟩
  | cons e rest ih =>
    intro env w
    have hb := exec_loopBody (PyIR.feed p cfg) (env.set 1 (.v (.event e))) w e (by simp [GEnv.set])
    simp only [feedGenS, feedStep, forEvents, hb]
    cases hf : PyIR.feed p cfg w e with
    | error x => simp
    | ok q =>
      obtain ⟨r, w1⟩ := q
      have := ih ((env.set 1 (.v (.event e))).set 2 (.v r)) w1
      simp only []
      cases hr : (feedGenS (feedStep p cfg) w1 rest).2 with
      | error x =>
        rw [hr] at this
        simp only [this]
        by_cases hn : r = .none <;> simp [hn]
      | ok w2 =>
        rw [hr] at this
        obtain ⟨env2, he2⟩ := this
        refine ⟨env2, ?_⟩
        simp only [he2]
        by_cases hn : r = .none <;> simp [hn]

/-- **The expected `feed_generator`, interpreted, is `feedGenS` of the translated `feed`** — for every program `p` that
    answers `self.feed`, every event list, every exception of the event generator, every heap. -/
theorem runFeedGen_expected (p : Prog) (cfg : Cfg) (es : List Kevent) (err : Option PyErr) (w : World) :
    runFeedGen p Expected.feedGenerator cfg es err w = thenRaise err (feedGenS (feedStep p cfg) w es) := by
  have h := forEvents_loop p cfg es (GEnv.ofArgs [.gen es err]) w
  have hit : evalG (GEnv.ofArgs [.gen es err]) (.var 0) = .ok (.gen es err) := by simp [evalG, GEnv.ofArgs]
  simp only [runFeedGen, Expected.feedGenerator, ne_eq, not_true_eq_false, if_false]
  rw [exec_forIn]
  simp only [hit]
  cases hr : (feedGenS (feedStep p cfg) w es).2 with
  | error x =>
    rw [hr] at h
    rw [h]
    cases err <;> simp [thenRaise, hr] <;> exact Prod.ext rfl hr.symm
  | ok w' =>
    rw [hr] at h
    obtain ⟨env', he⟩ := h
    rw [he]
    cases err with
    | none => simp [thenRaise, hr, execG]; exact Prod.ext rfl hr.symm
    | some x => simp [thenRaise, hr]

/-- feeding a history event by event (`PyIR.runFrom`) and through the generator deliver the same values: the generator
    drops the `None`s -/
theorem feedGenS_of_runFrom (p : Prog) (cfg : Cfg) (es : List Kevent) : ∀ (w : World) (vs : List Val) (w' : World),
    PyIR.runFrom p cfg w es = .ok (vs, w') →
      feedGenS (feedStep p cfg) w es = (vs.filter (fun v => decide (v ≠ .none)), .ok w') := by
  induction es with
  | nil => intro w vs w' h; simp only [PyIR.runFrom, Except.ok.injEq, Prod.mk.injEq] at h; simp [feedGenS, ← h.1, ← h.2]
  | cons e rest ih =>
    intro w vs w' h
    simp only [PyIR.runFrom] at h
    cases hf : PyIR.feed p cfg w e with
    | error x => simp [hf] at h
    | ok q =>
      obtain ⟨v, w1⟩ := q
      simp only [hf] at h
      cases hr : PyIR.runFrom p cfg w1 rest with
      | error x => simp [hr] at h
      | ok q2 =>
        obtain ⟨vs2, w2⟩ := q2
        simp only [hr, Except.ok.injEq, Prod.mk.injEq] at h
        obtain ⟨h1, h2⟩ := h
        subst h1 h2
        simp only [feedGenS, feedStep, hf, ih w1 vs2 w2 hr]
        by_cases hn : v = .none <;> simp [hn]

/-! ### `__init__` -/

/-- the object the expected constructor builds from three arguments -/
def expectedObj : Obj :=
  { attrs := [(.traceCodes, .arg 0), (.onGoingEvents, .fresh 0), (.onGoingTraces, .fresh 1), (.globalStrings, .fresh 2),
              (.threadsPids, .arg 1), (.pidsNames, .arg 2), (.tidsNames, .fresh 3), (.lastDataNewthread, .fresh 4),
              (.lastDataExec, .fresh 5), (.handlers, .fresh 6)]
    made := 7
    updates := [.bsd, .dyld, .fsystem, .mach, .perf, .trace, .turnstile] }

theorem runInit_expected : runInit Expected.init 3 = .ok expectedObj := by rfl

/-- The context tables (`Trace.Tabs`, shared by the handlers, the container parser and the formatter) of the new parser,
    given the CONTENTS `tp` / `pn` of the caller's second and third argument: defined when `threads_pids` / `pids_names`
    ARE those two objects (so the parser reads and writes the caller's tables) and `tids_names`, `global_strings`,
    `last_data_newthread`, `last_data_exec` are four different dicts made by the constructor, different from the two window
    tables — then the four start empty. -/
def Obj.tabs (o : Obj) (tp : Trace.Dict Nat) (pn : Trace.Dict String) : Option Trace.Tabs :=
  match o.get .threadsPids, o.get .pidsNames,
    o.freshOf [.tidsNames, .globalStrings, .lastDataNewthread, .lastDataExec, .onGoingEvents, .onGoingTraces] with
  | some (.arg 1), some (.arg 2), some ns =>
    if ns.Nodup then
      some { threadsPids := tp, pidsNames := pn, tidsNames := [], globalStrings := [], pendingNewthread := [],
             pendingExec := [] }
    else Option.none
  | _, _, _ => Option.none

/-- The whole-parser state of `Model/Trace` the new object is: pairing tables from the heap, context tables as above. -/
def Obj.state (o : Obj) (tp : Trace.Dict Nat) (pn : Trace.Dict String) : Option Trace.PState :=
  match o.world, o.tabs tp pn with
  | some w, some t => some { pairing := PyIR.abs w, tabs := t }
  | _, _ => Option.none

theorem expectedObj_world : expectedObj.world = some World.empty := by rfl

theorem expectedObj_tabs (tp : Trace.Dict Nat) (pn : Trace.Dict String) :
    expectedObj.tabs tp pn = some { threadsPids := tp, pidsNames := pn } := by rfl

theorem expectedObj_state (tp : Trace.Dict Nat) (pn : Trace.Dict String) :
    expectedObj.state tp pn = some { pairing := Pairing.PState.empty, tabs := { threadsPids := tp, pidsNames := pn } } := by
  simp only [Obj.state, expectedObj_world, expectedObj_tabs, PyIR.abs_empty]

end KdVerif.PyIRTp
