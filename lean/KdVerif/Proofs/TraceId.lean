import KdVerif.Gen.OsLog
import KdVerif.Spec.OsLogFormat
import KdVerif.Proofs.Bytes
/-
  Lemmas for C16 `traceid_*`: the construct layout of the current source evaluated on symbolic
  bytes, the bytes of a packed identifier, enum calls on accepted values.
-/
namespace KdVerif.OsLog
open Spec.OsLogFormat Spec.Firehose

/-! ### enum calls -/

theorem ofValue_value {e : EnumDef} {x : Int} {m : EnumMember} (h : e.ofValue x = some m) :
    m.value = x ∧ m ∈ e.members := by
  unfold EnumDef.ofValue at h
  exact ⟨by simpa using List.find?_some h, List.mem_of_find?_eq_some h⟩

theorem enumCall_of_accepts (r : EnumRef) (x : Nat) (h : refAccepts r x = true) :
    ∃ v, enumCall r x = .ok v ∧ v.num = some x := by
  unfold refAccepts at h
  unfold enumCall
  cases hk : r.kind with
  | plain =>
    simp only [hk] at h ⊢
    cases ho : r.cls.ofValue (x : Int) with
    | none => simp [ho] at h
    | some m =>
      refine ⟨_, rfl, ?_⟩
      have := (ofValue_value ho).1
      simp [EnumVal.num, this]
  | keepFlag => exact ⟨_, rfl, rfl⟩
  | strictFlag =>
    simp only [hk] at h ⊢
    have : x &&& definedBits r.cls = x := by simpa using h
    simp [this, EnumVal.num]

/-- A member produced by a class call is the declared member with that value. -/
theorem enumCall_member {r : EnumRef} {x : Nat} {c n : String} {v : Int}
    (h : enumCall r x = .ok (.member c n v)) :
    c = r.cls.name ∧ (⟨n, v⟩ : EnumMember) ∈ r.cls.members ∧ v = x := by
  unfold enumCall at h
  cases hk : r.kind with
  | plain =>
    simp only [hk] at h
    cases ho : r.cls.ofValue (x : Int) with
    | none => simp [ho] at h
    | some m =>
      simp only [ho, Except.ok.injEq, EnumVal.member.injEq] at h
      obtain ⟨h1, h2, h3⟩ := h
      have hm := ofValue_value ho
      refine ⟨h1.symm, ?_, by rw [← h3]; exact hm.1⟩
      rw [← h2, ← h3]
      exact hm.2
  | keepFlag => simp [hk] at h
  | strictFlag =>
    simp only [hk] at h
    split at h <;> simp at h

/-! ### the layout of the current source on symbolic bytes -/

/-- The container `firehose_tracepoint_id.parse` returns, by (dotted) attribute name. -/
def parsedFields (b0 b1 b2 b3 code : Nat) : List (String × Nat) :=
  [("namespace", b0), ("type_", b1), ("trace_flags.has_large_offset", b2 / 32 % 2),
   ("trace_flags.has_unique_pid", b2 / 16 % 2),
   ("trace_flags.pc_style", 2 * (2 * (b2 / 8 % 2) + b2 / 4 % 2) + b2 / 2 % 2),
   ("trace_flags.has_current_aid", b2 % 2), ("flags", b3), ("code", code)]

/-- construct's MSB-first `BitStruct` on byte 2: padding = bits 7..6, has_large_offset = bit 5,
    has_unique_pid = bit 4, pc_style = bits 3..1, has_current_aid = bit 0. -/
theorem layout_eval (b0 b1 b2 b3 b4 b5 b6 b7 : Nat) :
    parseLayout Gen.OsLog.idLayout [b0, b1, b2, b3, b4, b5, b6, b7] =
      .ok (parsedFields b0 b1 b2 b3 (b4 + 256 * (b5 + 256 * (b6 + 256 * b7)))) := by
  simp [parseLayout, Gen.OsLog.idLayout, parseBits, bitWidth, BitField.width, bitsMSB, bitsVal, andThen, leNat,
    parsedFields]

theorem toLE_eight (w : Nat) :
    toLE 8 w = [w % 256, w / 2 ^ 8 % 256, w / 2 ^ 16 % 256, w / 2 ^ 24 % 256, w / 2 ^ 32 % 256,
                w / 2 ^ 40 % 256, w / 2 ^ 48 % 256, w / 2 ^ 56 % 256] := by
  simp [toLE, Nat.div_div_eq_div_mul]

/-- The `type_` of the identifier: through the namespace's class, or the raw byte. -/
def typeOf (T : IdTables) (nsv t : Nat) : Except PyErr EnumVal :=
  match T.types.lookup (nsv : Int) with
  | some r => enumCall r t
  | none =>
    if T.signpost = some (nsv : Int) then
      enumCall T.signpostType (t &&& 0xc0) >>=? fun _ =>
      enumCall T.signpostType (t &&& 0x3f) >>=? fun _ =>
      .ok (.flags T.signpostType.cls.name ((t &&& 0xc0) ||| (t &&& 0x3f)))
    else .ok (.raw t)

/-- The `flags` of the identifier: through the namespace's class, or `None`. -/
def flagsOf (T : IdTables) (nsv f : Nat) : Except PyErr EnumVal :=
  match T.flags.lookup (nsv : Int) with
  | some r => enumCall r f
  | none => .ok EnumVal.none

/-- `decodeFields` on that container with the attribute reads resolved. -/
def decodeBytes (T : IdTables) (nsv t b2 f code : Nat) : Except PyErr TraceId :=
  enumCall T.nsEnum nsv >>=? fun ns =>
  typeOf T nsv t >>=? fun ty =>
  enumCall T.pcEnum (2 * (2 * (b2 / 8 % 2) + b2 / 4 % 2) + b2 / 2 % 2) >>=? fun pc =>
  flagsOf T nsv f >>=? fun fl =>
  .ok { ns := ns, type_ := ty, hasLargeOffset := b2 / 32 % 2 != 0, hasUniquePid := b2 / 16 % 2 != 0,
        pcStyle := pc, hasCurrentAid := b2 % 2 != 0, flags := fl, code := code }

theorem decodeFields_eval (T : IdTables) (nsv t b2 f code : Nat) :
    decodeFields T (parsedFields nsv t b2 f code) = decodeBytes T nsv t b2 f code := by
  rfl


/-- `parse_trace_identifier` of a 64-bit word depends only on its bytes (and not on the two padding bits). -/
theorem decodeId_word (w : Nat) (hw : w < 2 ^ 64) :
    decodeId Gen.OsLog.idTables w =
      decodeBytes Gen.OsLog.idTables (w % 256) (w / 2 ^ 8 % 256) (w / 2 ^ 16 % 256) (w / 2 ^ 24 % 256)
        (w / 2 ^ 32) := by
  have h8 : Gen.OsLog.idTables.wordSize = 8 := rfl
  have hl : Gen.OsLog.idTables.layout = Gen.OsLog.idLayout := rfl
  have hlt : w < 256 ^ 8 := by
    have : (256 : Nat) ^ 8 = 2 ^ 64 := by decide
    omega
  unfold decodeId
  rw [h8, hl, if_pos hlt, toLE_eight, layout_eval]
  simp only [andThen]
  rw [decodeFields_eval]
  congr 1
  omega

theorem signpost_branch_dead (v : Int) (h : Gen.OsLog.idTables.signpost = some v) :
    (Gen.OsLog.idTables.types.lookup v).isSome = true := by
  have : Gen.OsLog.idTables.signpost = some 6 := rfl
  rw [this] at h
  cases h
  rfl

/-- `decodeBytes` on the bytes of an identifier of the defined domain, with arbitrary padding bits. -/
theorem decodeBytes_spec (t : Id) (h : inDomain Gen.OsLog.idTables t = true) (pad : Nat) :
    ∃ d, decodeBytes Gen.OsLog.idTables t.ns t.type_ (baseFlags t + 64 * pad) t.flags t.code = .ok d ∧
      d.ns.num = some t.ns ∧ d.type_.num = some t.type_ ∧ d.hasLargeOffset = t.hasLargeOffset ∧
      d.hasUniquePid = t.hasUniquePid ∧ d.pcStyle.num = some t.pcStyle ∧ d.hasCurrentAid = t.hasCurrentAid ∧
      d.flags.num = (if (Gen.OsLog.idTables.flags.lookup (t.ns : Int)).isSome then some t.flags else none) ∧
      d.code = t.code := by
  simp only [inDomain, Bool.and_eq_true, decide_eq_true_eq] at h
  obtain ⟨⟨⟨⟨⟨⟨⟨⟨_, hns⟩, _⟩, hty⟩, hpc8⟩, hpc⟩, _⟩, hfl⟩, _⟩ := h
  obtain ⟨vns, ens, nns⟩ := enumCall_of_accepts _ _ hns
  obtain ⟨vpc, epc, npc⟩ := enumCall_of_accepts _ _ hpc
  have hpcv : 2 * (2 * ((baseFlags t + 64 * pad) / 8 % 2) + (baseFlags t + 64 * pad) / 4 % 2)
      + (baseFlags t + 64 * pad) / 2 % 2 = t.pcStyle := by
    unfold baseFlags b2n
    cases t.hasCurrentAid <;> cases t.hasUniquePid <;> cases t.hasLargeOffset <;> simp <;> omega
  have hlo : ((baseFlags t + 64 * pad) / 32 % 2 != 0) = t.hasLargeOffset := by
    unfold baseFlags b2n
    cases t.hasCurrentAid <;> cases t.hasUniquePid <;> cases t.hasLargeOffset <;> simp <;> omega
  have hup : ((baseFlags t + 64 * pad) / 16 % 2 != 0) = t.hasUniquePid := by
    unfold baseFlags b2n
    cases t.hasCurrentAid <;> cases t.hasUniquePid <;> cases t.hasLargeOffset <;> simp <;> omega
  have haid : ((baseFlags t + 64 * pad) % 2 != 0) = t.hasCurrentAid := by
    unfold baseFlags b2n
    cases t.hasCurrentAid <;> cases t.hasUniquePid <;> cases t.hasLargeOffset <;> simp <;> omega
  -- the type byte
  have htype : ∃ vty, typeOf Gen.OsLog.idTables t.ns t.type_ = .ok vty ∧ vty.num = some t.type_ := by
    unfold typeOf
    unfold byteRule at hty
    cases hl : Gen.OsLog.idTables.types.lookup (t.ns : Int) with
    | some r =>
      rw [hl] at hty
      exact enumCall_of_accepts r _ hty
    | none =>
      have hns6 : ¬ Gen.OsLog.idTables.signpost = some (t.ns : Int) := by
        intro hs
        have := signpost_branch_dead _ hs
        rw [hl] at this
        cases this
      simp only [hns6, if_false]
      exact ⟨_, rfl, rfl⟩
  obtain ⟨vty, ety, nty⟩ := htype
  have hflags : ∃ vfl, flagsOf Gen.OsLog.idTables t.ns t.flags = .ok vfl ∧
        vfl.num = (if (Gen.OsLog.idTables.flags.lookup (t.ns : Int)).isSome then some t.flags else none) := by
    unfold flagsOf
    unfold byteRule at hfl
    cases hl : Gen.OsLog.idTables.flags.lookup (t.ns : Int) with
    | some r =>
      rw [hl] at hfl
      obtain ⟨v, e, n⟩ := enumCall_of_accepts r _ hfl
      exact ⟨v, e, by simpa using n⟩
    | none => exact ⟨_, rfl, by simp [EnumVal.num]⟩
  obtain ⟨vfl, efl, nfl⟩ := hflags
  refine ⟨{ ns := vns, type_ := vty, hasLargeOffset := t.hasLargeOffset, hasUniquePid := t.hasUniquePid,
            pcStyle := vpc, hasCurrentAid := t.hasCurrentAid, flags := vfl, code := t.code }, ?_,
          nns, nty, rfl, rfl, npc, rfl, nfl, rfl⟩
  unfold decodeBytes
  rw [hpcv, hlo, hup, haid]
  simp only [andThen, ens, ety, epc, efl]

/-- The bytes of a packed identifier. -/
theorem packId_bytes (t : Id) (h : inDomain Gen.OsLog.idTables t = true) :
    packId t < 2 ^ 64 ∧ packId t % 256 = t.ns ∧ packId t / 2 ^ 8 % 256 = t.type_ ∧
      packId t / 2 ^ 16 % 256 = baseFlags t ∧ packId t / 2 ^ 24 % 256 = t.flags ∧ packId t / 2 ^ 32 = t.code := by
  simp only [inDomain, Bool.and_eq_true, decide_eq_true_eq] at h
  obtain ⟨⟨⟨⟨⟨⟨⟨⟨hns, _⟩, hty⟩, _⟩, hpc8⟩, _⟩, hfl⟩, _⟩, hcode⟩ := h
  have hbf : baseFlags t < 64 := by
    unfold baseFlags b2n
    cases t.hasCurrentAid <;> cases t.hasUniquePid <;> cases t.hasLargeOffset <;> simp <;> omega
  unfold packId
  generalize baseFlags t = bf at hbf
  simp only [Nat.reducePow] at hcode ⊢
  omega


theorem b2n_mod_two (x : Nat) : b2n (x % 2 == 1) = x % 2 := by
  unfold b2n
  rcases Nat.mod_two_eq_zero_or_one x with h | h <;> simp [h]

/-- Every 64-bit word whose fields (by the documented layout) lie in the defined domain decodes, to those
    fields; the two padding bits are ignored. -/
theorem decodeId_unpack (w : Nat) (hw : w < 2 ^ 64) (h : inDomain Gen.OsLog.idTables (unpackId w) = true) :
    ∃ d, decodeId Gen.OsLog.idTables w = .ok d ∧
      d.ns.num = some (unpackId w).ns ∧ d.type_.num = some (unpackId w).type_ ∧
      d.hasLargeOffset = (unpackId w).hasLargeOffset ∧ d.hasUniquePid = (unpackId w).hasUniquePid ∧
      d.pcStyle.num = some (unpackId w).pcStyle ∧ d.hasCurrentAid = (unpackId w).hasCurrentAid ∧
      d.flags.num = (if (Gen.OsLog.idTables.flags.lookup ((unpackId w).ns : Int)).isSome
                     then some (unpackId w).flags else none) ∧
      d.code = (unpackId w).code := by
  have hb2 : w / 2 ^ 16 % 256 = baseFlags (unpackId w) + 64 * (w / 2 ^ 22 % 4) := by
    simp only [baseFlags, unpackId, b2n_mod_two]
    omega
  have := decodeBytes_spec (unpackId w) h (w / 2 ^ 22 % 4)
  rw [← hb2] at this
  rw [decodeId_word w hw]
  exact this

end KdVerif.OsLog
