import KdVerif.Model.ContainerV3
/-
  The module-level `construct` DECLARATIONS of `pykdebugparser/kd_buf_parser.py` as a deep embedding with an
  interpreter — the companion of `Model/PyIRRd` (which ties the reader CODE and keeps `<decl>.parse_stream(reader)`
  as primitives):

      kd_threadmap   kd_header_v2   kd_header_v3   kd_v3_threadmap   kd_v3_additional_data   (+ class BplistAdapter)

  `tools/gen_pyir_cn.py` translates the source text of these assignments into terms of `Con` (`Gen/PyIRCn.lean`) on
  every run; `Props/C02|C03` prove that the translated declarations, run by `Con.parse`, ARE the hand models
  `threadEntry` / `headerV2` / `headerV3Inner` / `prefixedBytes`+`greedyEntries` / `greedyRange blockElem` — for every
  reader state, with the same result, the same exception and the same reader (position and read counters).

  `Con.parse` runs over the SAME reader monad `RM` and the SAME combinators as `Model/Construct`
  (`int32ul`, `int64ul`, `padding`, `arrayN`, `greedyRange`, `constZeroByte`, `select2`, `aligned`, `readExact`): the
  meaning of ONE construct class is that combinator (validated against the real library by the correspondence sections
  `v2` / `v3` / … of C02 / C03 / C06); what is tied here is the COMPOSITION the declarations make of them (which classes,
  which sizes, which order, which field names, which nesting).

    * `Prefixed` / `FixedSized` read their whole sub-stream with ONE exact read and parse the sub-construct on a PRIVATE
      reader (`onSub`: a fresh `Reader.ofBytes`, whose position and counters are dropped);
    * `CString('utf8')` is modelled ON A READER (`cstringRM`: the byte-wise reads of `NullTerminated`), so that the
      hand model's pure `cstringOf` is a theorem about it rather than its definition;
    * `GreedyRange` needs fuel (the model's stand-in for `itertools.count()`): `Env.fuel` says how much a range gets
      from the reader it starts on — the theorems instantiate it with exactly what the hand model's caller supplies
      (`restFuel` for `headerV2`, `rest / 16 + 2` for the additional data);
    * `BplistAdapter(c)`: `_decode` is `plistlib.loads` = the parameter `plist` (`Env.plist`); the loaded object is
      carried as its payload (`CVal.plist`), exactly as `headerV3Inner` does;
    * `Array(lambda ctx: ctx.<field>, c)`: the count is looked up among the fields of the ENCLOSING struct parsed so far;
    * a reference to another declaration is `ref name`, resolved (`resolveAll`) against the EARLIER declarations of the
      module in source order — what Python's module execution does.
  Outside the modelled subset: `.unsupported "<text>"` (interpreted as `.error .unmodelled`).  Core Lean only.
-/
namespace KdVerif.PyIRCn

mutual
/-- the `construct` subset used by the declarations -/
inductive Con
  | int32ul                                   -- `Int32ul`
  | int64ul                                   -- `Int64ul`
  | byte                                      -- `Byte`
  | bytes (n : Nat)                           -- `Bytes(n)`
  | padding (n : Nat)                         -- `Padding(n)`
  | const0Byte                                -- `Const(0, Byte)`
  | struct (fields : Fields)                  -- `Struct(...)`
  | array (countField : String) (c : Con)     -- `Array(lambda ctx: ctx.<countField>, c)`
  | greedyRange (c : Con)                     -- `GreedyRange(c)`
  | fixedSized (n : Nat) (c : Con)            -- `FixedSized(n, c)`
  | cstringUtf8                               -- `CString('utf8')`
  | prefixed64 (c : Con)                      -- `Prefixed(Int64ul, c)`
  | greedyBytes                               -- `GreedyBytes`
  | aligned (n : Nat) (c : Con)               -- `Aligned(n, c)`
  | select (a b : Con)                        -- `Select(a, b)`
  | bplist (c : Con)                          -- `BplistAdapter(c)`
  | ref (name : String)                       -- another module-level declaration
  | unsupported (src : String)
  deriving DecidableEq, Repr
/-- the subconstructs of a `Struct`: `'name' / c` is `cons (some name) c …`, a bare `c` is `cons none c …` -/
inductive Fields
  | nil
  | cons (name : Option String) (c : Con) (rest : Fields)
  deriving DecidableEq, Repr
end

/-- `Struct` fields from a list (the notation of the expected terms). -/
def Fields.ofList : List (Option String × Con) → Fields
  | [] => .nil
  | (n, c) :: l => .cons n c (Fields.ofList l)

/-- what `BplistAdapter._decode(self, obj, context, path)` returns -/
inductive Decode
  | plistLoadsObj                             -- `return plistlib.loads(obj)`
  | unsupported (src : String)
  deriving DecidableEq, Repr

/-- the translated part of the module -/
structure Module where
  decls : List (String × Con)                 -- the construct declarations in source order
  bplistDecode : Decode
  deriving DecidableEq, Repr

/-! ### references -/

mutual
def Con.hasUnsupported : Con → Bool
  | .unsupported _ => true
  | .ref _ => true
  | .struct fs => fs.hasUnsupported
  | .array _ c | .greedyRange c | .fixedSized _ c | .prefixed64 c | .aligned _ c | .bplist c => c.hasUnsupported
  | .select a b => a.hasUnsupported || b.hasUnsupported
  | _ => false
def Fields.hasUnsupported : Fields → Bool
  | .nil => false
  | .cons _ c rest => c.hasUnsupported || rest.hasUnsupported
end

mutual
/-- replace `ref name` by the (already resolved) declaration of that name. -/
def Con.resolve (env : List (String × Con)) : Con → Con
  | .ref n => match env.lookup n with
    | some c => c
    | none => .unsupported ("undefined name " ++ n)
  | .struct fs => .struct (fs.resolve env)
  | .array f c => .array f (c.resolve env)
  | .greedyRange c => .greedyRange (c.resolve env)
  | .fixedSized n c => .fixedSized n (c.resolve env)
  | .prefixed64 c => .prefixed64 (c.resolve env)
  | .aligned n c => .aligned n (c.resolve env)
  | .bplist c => .bplist (c.resolve env)
  | .select a b => .select (a.resolve env) (b.resolve env)
  | c => c
def Fields.resolve (env : List (String × Con)) : Fields → Fields
  | .nil => .nil
  | .cons n c rest => .cons n (c.resolve env) (rest.resolve env)
end

/-- module execution: every declaration sees the declarations made before it. -/
def resolveAll : List (String × Con) → List (String × Con) → List (String × Con)
  | done, [] => done
  | done, (n, c) :: rest => resolveAll (done ++ [(n, c.resolve done)]) rest

/-- the construct object bound to `name` once the module has run (`.unsupported` when there is none, or when the
    adapter class is not the expected one: every `bplist` node means `plistlib.loads`). -/
def Module.decl (m : Module) (name : String) : Con :=
  match m.bplistDecode with
  | .plistLoadsObj =>
    (match (resolveAll [] m.decls).lookup name with
     | some c => c
     | none => .unsupported ("undefined name " ++ name))
  | .unsupported s => .unsupported s

/-! ### values -/

/-- what a construct parser returns (a `Container` is the list of its named fields in order) -/
inductive CVal
  | none                                      -- `Padding`
  | int (n : Nat)
  | bytes (b : Bytes)
  | str (utf8 : Bytes)                        -- a decoded string, kept as its UTF-8 bytes (as `ThreadEntry.name`)
  | list (l : List CVal)                      -- `ListContainer`
  | struct (fields : List (String × CVal))    -- `Container`
  | plist (payload : Bytes)                   -- the object `plistlib.loads(payload)`

/-! ### the interpreter -/

structure Env where
  /-- `plistlib.loads` (whether it succeeds, and what the container parser reads of the result) -/
  plist : Bytes → Option PView
  /-- iterations a `GreedyRange` may make, from the reader it starts on -/
  fuel : Reader → Nat

/-- the model's stand-in for the unbounded `itertools.count()` of `GreedyRange._parse`. -/
def fuelM (f : Reader → Nat) : RM Nat := fun r => (.ok (f r), r)

/-- `f <$> m`, spelled out. -/
def mapRM {α β : Type} (f : α → β) (m : RM α) : RM β := do let a ← m; pure (f a)

/-- run `m` on a private `BytesIO(b)`; only its outcome comes back. -/
def onSub {α : Type} (b : Bytes) (m : RM α) : RM α := fun r => ((m (Reader.ofBytes b)).1, r)

/-- `CString('utf8')` = `StringEncoded(NullTerminated(GreedyBytes), 'utf8')` on a reader: `read(1)` until a NUL comes
    (StreamError on the empty read at end of stream), then `.decode('utf8')` (StringError → the model's
    `.streamError`, like every ConstructError). -/
def cstringRM : RM Bytes := fun r =>
  let name := r.rest.takeWhile (· ≠ 0)
  if name.length = r.rest.length then (.error .streamError, r.stepBytes name.length 1)
  else if validUtf8 name then (.ok name, r.stepBytes (name.length + 1) 0)
  else (.error .streamError, r.stepBytes (name.length + 1) 0)

/-- `GreedyBytes`: one `read()` of everything that is left. -/
def greedyBytesRM : RM Bytes := fun r =>
  let out := r.rest
  (.ok out, { r with pos := r.pos + out.length, calls := r.calls + 1, got := r.got + out.length,
                     req := r.req + out.length })

/-- `BplistAdapter._decode`: `plistlib.loads(obj)` (its failure is the model's `.valueError`). -/
def decodePlist (plist : Bytes → Option PView) : CVal → RM CVal
  | .bytes p => (match plist p with
    | none => RM.throw' .valueError
    | some _ => pure (.plist p))
  | _ => RM.throw' .typeError

def ctxCount (ctx : List (String × CVal)) (field : String) : Option Nat :=
  match ctx.lookup field with
  | some (.int n) => some n
  | _ => none

mutual
/-- `c.parse_stream(reader)` with `ctx` the fields of the enclosing `Struct` parsed so far. -/
def Con.parse (env : Env) : Con → List (String × CVal) → RM CVal
  | .int32ul, _ => mapRM .int int32ul
  | .int64ul, _ => mapRM .int int64ul
  | .byte, _ => mapRM (fun b => .int (leNat b)) (readExact 1)
  | .bytes n, _ => mapRM .bytes (readExact n)
  | .padding n, _ => mapRM (fun _ => .none) (padding n)
  | .const0Byte, _ => mapRM (fun _ => .int 0) constZeroByte
  | .struct fs, _ => fs.parse env []
  | .array f c, ctx =>
    (match ctxCount ctx f with
     | some n => mapRM .list (arrayN (c.parse env ctx) n)
     | none => RM.throw' .keyError)
  | .greedyRange c, ctx => do
    let fuel ← fuelM env.fuel
    let l ← greedyRange (c.parse env ctx) fuel
    pure (.list l)
  | .fixedSized n c, ctx => do
    let b ← readExact n
    onSub b (c.parse env ctx)
  | .cstringUtf8, _ => mapRM .str cstringRM
  | .prefixed64 c, ctx => do
    let n ← int64ul
    let b ← readExact n
    onSub b (c.parse env ctx)
  | .greedyBytes, _ => mapRM .bytes greedyBytesRM
  | .aligned n c, ctx => aligned n (c.parse env ctx)
  | .select a b, ctx => select2 (a.parse env ctx) (b.parse env ctx)
  | .bplist c, ctx => do
    let v ← c.parse env ctx
    decodePlist env.plist v
  | .ref _, _ => RM.throw' .unmodelled
  | .unsupported _, _ => RM.throw' .unmodelled
/-- the subconstructs of a `Struct` in order; `acc` are the named fields so far (= the context). -/
def Fields.parse (env : Env) : Fields → List (String × CVal) → RM CVal
  | .nil, acc => pure (.struct acc)
  | .cons name c rest, acc => do
    let v ← c.parse env acc
    rest.parse env (match name with
      | some n => acc ++ [(n, v)]
      | none => acc)
end

/-! ### projections of the value tree onto the hand model's records -/

def CVal.get (v : CVal) (name : String) : Option CVal :=
  match v with
  | .struct fs => fs.lookup name
  | _ => Option.none

/-- `(tid, pid, process)` of a parsed `kd_threadmap`. -/
def CVal.toThreadEntry (v : CVal) : Option ThreadEntry :=
  match v.get "tid", v.get "pid", v.get "process" with
  | some (.int t), some (.int p), some (.str s) => some ⟨t, p, s⟩
  | _, _, _ => Option.none

def ThreadEntry.toCVal (e : ThreadEntry) : CVal :=
  .struct [("tid", .int e.tid), ("pid", .int e.pid), ("process", .str e.name)]

def CVal.toThreadList : List CVal → Option (List ThreadEntry)
  | [] => some []
  | v :: l => match v.toThreadEntry, CVal.toThreadList l with
    | some e, some es => some (e :: es)
    | _, _ => Option.none

/-- what `parse_v2` reads of a parsed `kd_header_v2` (`_pad` as its length, as `HeaderV2` keeps it). -/
def CVal.toHeaderV2 (v : CVal) : Option HeaderV2 :=
  match v.get "number_of_treads", v.get "is_64bit", v.get "tick_frequency", v.get "threadmap", v.get "_pad" with
  | some (.int n), some (.int i), some (.int t), some (.list tm), some (.list pad) =>
    (match CVal.toThreadList tm with
     | some es => some ⟨n, i, t, es, pad.length⟩
     | Option.none => Option.none)
  | _, _, _, _, _ => Option.none

/-- the named fields of a `Container` that hold integers, in order. -/
def CVal.intFields : List (String × CVal) → List Nat
  | [] => []
  | (_, .int n) :: l => n :: CVal.intFields l
  | _ :: l => CVal.intFields l

/-- the twelve integers and the cpu_info payload of a parsed `kd_header_v3`. -/
def CVal.toHeaderV3 (v : CVal) : Option (List Nat × Bytes) :=
  match v, v.get "cpu_info" with
  | .struct fs, some (.plist p) => some (CVal.intFields fs, p)
  | _, _ => Option.none

/-- `.threadmap` of a parsed `kd_v3_threadmap`. -/
def CVal.toThreadmapV3 (v : CVal) : Option (List ThreadEntry) :=
  match v.get "threadmap" with
  | some (.list tm) => CVal.toThreadList tm
  | _ => Option.none

/-- `(tag, data)` of one element of `kd_v3_additional_data`. -/
def CVal.toBlock (v : CVal) : Option (Bytes × Bytes) :=
  match v.get "tag", v.get "data" with
  | some (.bytes t), some (.bytes d) => some (t, d)
  | _, _ => Option.none

def CVal.toBlockList : List CVal → Option (List (Bytes × Bytes))
  | [] => some []
  | v :: l => match v.toBlock, CVal.toBlockList l with
    | some e, some es => some (e :: es)
    | _, _ => Option.none

def CVal.toBlocks (v : CVal) : Option (List (Bytes × Bytes)) :=
  match v with
  | .list l => CVal.toBlockList l
  | _ => Option.none

/-- read a parsed value through a projection (a value of another shape is a `TypeError` of the reader code). -/
def project {α : Type} (p : CVal → Option α) (m : RM CVal) : RM α := do
  let v ← m
  match p v with
  | some a => pure a
  | Option.none => RM.throw' .typeError

/-- an outcome as a pair (for decidable comparisons in examples / the driver). -/
def outcome {α : Type} : Except PyErr α → Option α × Option PyErr
  | .ok a => (some a, Option.none)
  | .error e => (Option.none, some e)

end KdVerif.PyIRCn
