import KdVerif.Model.Basic
/-
  L0: little-endian integers over byte lists (`int.from_bytes(b, 'little')`,
  `struct.pack('<Q', v)`), Python `bytes.replace(b'\0', b'')`.
-/
namespace KdVerif

/-- `int.from_bytes(bs, 'little')`. -/
def leNat : Bytes → Nat
  | [] => 0
  | b :: bs => b + 256 * leNat bs

/-- `v.to_bytes(n, 'little')` (of `v % 256^n`). -/
def toLE : Nat → Nat → Bytes
  | 0, _ => []
  | n + 1, v => v % 256 :: toLE n (v / 256)

def IsBytes (bs : Bytes) : Prop := ∀ b ∈ bs, b < 256

/-- `bs.replace(b'\x00', b'')`. -/
def stripNul (bs : Bytes) : Bytes := bs.filter (· ≠ 0)

end KdVerif
