import KdVerif.Proofs.TraceTotal
import KdVerif.Gen.Decoders
import KdVerif.Gen.Host
/-
  C07 — missing or unexpected context never aborts the trace stream.

  Subject: the whole `TracesParser` model `Trace.run` (`Model/Trace.lean`: pairing + context tables + the 15
  hand-written handlers + dispatch to the generated decoder IR `Gen.Decoders.decoders`, regenerated from
  bsd.py / mach.py / dyld.py / … on every run), tied to the real `TracesParser.feed_generator` by the
  correspondence sections `pipeline`, `context-drop`, `indomain`.

  Shape of the argument.
  * A small type discipline for the IR (`Model/IRTyping.lean`): `infer Γ e = some (τ, cs)`; the checker
    (i) types every operator, (ii) tracks a lower bound of the lookup count through the guards
    `if nodes` / `len(nodes) > k` (also negated, mirrored, under `and` / `or`) so that `parse_vnodes(events)[i]` is accepted only when provably in range,
    (iii) rejects `global_strings[x]` and `unsupported`, (iv) collects the *own-field side conditions* `cs`:
    `E(x)` is a member, `Signals(x)` is known to the host, `DICT[x]` is a key (ioctl direction bits),
    `chr(x)` is a code point — each under the path condition of the enclosing conditionals.
    Soundness (`wt_sound`, by structural induction, once): a well-typed expression evaluates whenever
    its side conditions hold — whatever the lookups and the context tables are.
  * Reflective facts about the generated table (`decide +kernel`): every translated decoder is well
    typed — constructor arguments with NO lookup assumed, `__str__` under the argument types, yielding a
    string; every side condition reads the START record only or the END record only (never a lookup or a
    context table); everything the translator could not express is one of the 15 hand-modelled handlers.
  * One lemma per hand-written handler (`Proofs/TraceTotal.lean`), the pairing invariant (delivered windows
    are non-empty, made of history records, first/last record of the same code), induction over the
    history.

  "Individually well-formed event" = `Trace.wordsOK env e` (+ text, below): four argument words, 32 data
  bytes, and the side conditions of the decoder registered for the event's code hold on the event alone — as START record
  unless it is END-qualified, as END record unless it is START-qualified.  Known exclusion kept by the
  property itself: the ioctl direction bits `request & 0xe0000000` must be a key of IOC_REQUEST_PARAMS
  (a `dictKey` side condition — `BscIoctl.__str__` raises KeyError otherwise).

  "Strings are valid text".  A record stream can lose chunks; a lost (or foreign) chunk can split a
  multi-byte character, so validity of the ORIGINAL strings does not imply validity of what the code
  reassembles.  Two statements are proved:
  * `no_abort_reassembled` (the stronger one): hypothesis on the reassembled byte strings — for every window
    the pairing delivers, the bytes its handler joins and decodes are valid text (`Trace.textOK`).
  * `no_abort`: per-record hypothesis — the text bytes of every string-carrying record lie in an alphabet
    `B` on which `bytes.decode` is total (`DecTotalOn`; ASCII for strict UTF-8: `asciiDec_total`), which is
    closed under dropping, repeating and interleaving.  No hypothesis on the shape of the history at all.
    (Before fix F17 `handle_trace_string_threadname` joined the data of EVERY record of its window, so a
    `TRACE_DATA_*` record between two chunks of a name was decoded as text and UnicodeDecodeError aborted the
    stream; the theorem then needed a guard "name windows hold records of their own code only".  The example
    `foreign_record_between_name_chunks` is that history.)
  `no_abort` is the weaker theorem (its hypothesis implies the other's, `textOK_of_payload`); it is kept
  because its hypotheses are about single records.
  Explicit guard on the code table: `vmfaultCodesOK` (ids 0x1320008..0x1320014 name real-fault records or
  nothing decodable; true of the bundled trace.codes, `bundled_vmfault_ids`).
-/
namespace KdVerif.C07
open KdVerif.IR KdVerif.Trace

abbrev decoders := Gen.Decoders.decoders

/-! ### the type discipline -/

/-- **Soundness of the IR checker** (structural induction, once).  If `e` has type `τ` under field types
    `fts` with `n` lookups known to exist, then in every context whose fields have those types, whose window
    holds at least `n` lookups (and four START / four END words) and in which the collected side conditions
    hold, `eval` succeeds with a value of type `τ` — no assumption on the context tables, on further
    lookups, or on the host tables beyond the side conditions. -/
theorem wt_sound (c : Ctx) (fts : List Ty) (n : Nat) (e : Expr) (τ : Ty) (h : wt fts n e = some τ)
    (hf : ∀ (i : Nat) (τ : Ty), fts[i]? = some τ → ∃ v, c.fields[i]? = some v ∧ hasTy v τ = true)
    (hn : n ≤ c.win.lookups.length) (hs : c.win.startArgs.length = 4) (he : c.win.endArgs.length = 4)
    (hc : ∀ cd ∈ conds fts n e, cd.ok c = true) : ∃ v, eval c e = .ok v ∧ hasTy v τ = true := by
  unfold wt at h
  unfold conds at hc
  cases hi : infer { fts := fts, bound := n } e with
  | none => simp [hi] at h
  | some r =>
    obtain ⟨τ', cs⟩ := r
    simp only [hi, Option.map_some, Option.some.injEq] at h
    subst h
    simp only [hi, Option.map_some, Option.getD_some] at hc
    exact infer_sound c e _ _ _ hi
      { fields := hf, bound := hn, facts := by intro t x hm; simp at hm, start := hs, endA := he } hc

/-! ### reflective facts about the generated table (re-checked by the kernel on every run) -/

/-- Every translated decoder passes the checker: each constructor argument is well typed with NO lookup
    assumed and no field in scope, and `__str__` is well typed under the arguments' types and yields `str`. -/
theorem all_decoders_typed : decoders.all (fun d => !d.supported || typed d) = true := by decide +kernel

/-- Every side condition of every translated decoder reads the START record only (its words, thread id,
    data) or the END record's words only, plus host tables — never a lookup, never a context table. -/
theorem all_conds_own_words : decoders.all (fun d => !d.supported || condsOwn d) = true := by decide +kernel

/-- What the translator could not express is exactly what `Model/Trace.lean` models by hand. -/
theorem unsupported_are_hand_modelled :
    decoders.all (fun d => d.supported || handNames.contains d.name) = true := by decide +kernel

/-- The three `RealFaultAddress*` decoders have the shape `handle_mach_vmfault` relies on when it reads `.pid` and
    `.caller_prot` of the nested object: one of the three dataclasses, field 5 an int, field 2 a member list, no
    lookup read, side conditions on the START record only. -/
theorem realFault_decoders_shaped :
    decoders.all (fun d => !(d.supported && realFaultClasses.contains d.name) || rfShapeOK d) = true := by
  decide +kernel

/-- The checker does reject the raise sites the property is about (pre-fix shapes of F13/F14/F15): an
    unguarded second lookup, a second lookup under an `if nodes` guard only, `nodes[-1]` unguarded, the
    `global_strings[x]` subscript; and it accepts their guarded forms. -/
theorem checker_rejects_unguarded_context :
    wt [] 0 (.lookupPath (.idx 1)) = none ∧
    wt [] 0 (.ite (.cmp .gt .lookupCount (.int 0)) (.lookupPath (.idx 1)) (.strLit [])) = none ∧
    wt [] 0 (.lookupPath (.idx (-1))) = none ∧
    wt [] 0 (.globalStr (.startArg 1)) = none ∧
    wt [] 0 (.ite (.cmp .gt .lookupCount (.int 1)) (.lookupPath (.idx 1)) (.strLit [])) = some .str ∧
    wt [] 0 (.ite (.cmp .gt .lookupCount (.int 0)) (.lookupPath (.idx (-1))) (.strLit [])) = some .str ∧
    wt [] 0 (.globalStrGet (.startArg 1) (.strLit [])) = some .str ∧
    -- harmless restylings of the guards are accepted: `'' if not nodes else nodes[0].path`, `2 <= len(nodes)`
    wt [] 0 (.ite (.notE (.cmp .gt .lookupCount (.int 0))) (.strLit []) (.lookupPath (.idx 0))) = some .str ∧
    wt [] 0 (.ite (.cmp .le (.int 2) .lookupCount) (.lookupPath (.idx 1)) (.strLit [])) = some .str := by decide

theorem goodEnv_of_subset (env : Env) (h : ∀ d ∈ env.decoders, d ∈ decoders) : GoodEnv env where
  typed := by
    intro d hd hs
    have h1 := List.all_eq_true.mp all_decoders_typed d (h d hd)
    have h2 := List.all_eq_true.mp all_conds_own_words d (h d hd)
    simp only [hs, Bool.not_true, Bool.false_or] at h1 h2
    exact ⟨h1, h2⟩
  hand := by
    intro d hd hs
    have h3 := List.all_eq_true.mp unsupported_are_hand_modelled d (h d hd)
    simpa [hs] using h3
  realFault := by
    intro d hd hs hn
    have h4 := List.all_eq_true.mp realFault_decoders_shaped d (h d hd)
    rw [hs, hn] at h4
    exact h4

/-! ### the generated decoders -/

/-- **No generated decoder depends on context.**  For every translated decoder `d`, every host, every
    tables, every window `w` (ANY lookups, ANY context tables) with four START and four END words in which
    `d`'s side conditions hold: the handler call and `__str__` both succeed. -/
theorem generated_no_abort (d : Decoder) (hd : d ∈ decoders) (hs : d.supported = true) (h : Host) (t : Tables)
    (w : Window) (hsa : w.startArgs.length = 4) (hea : w.endArgs.length = 4)
    (hc : condsHold h t d w = true) : ∃ text, render h t d w = .ok text := by
  have hty := List.all_eq_true.mp all_decoders_typed d hd
  simp only [hs, Bool.not_true, Bool.false_or, typed, Option.isSome_iff_exists] at hty
  obtain ⟨k, hk⟩ := hty
  simp only [condsHold, hk, List.all_eq_true] at hc
  obtain ⟨_, text, _, _, hr, _⟩ := render_ok h t d w k hk hsa hea hc
  exact ⟨text, hr⟩

/-- The same in terms of records: if the side conditions hold on the START record `f` alone and on the END
    record `l` alone, the decoder renders on EVERY window whose START words / thread id / data are `f`'s and
    whose END words are `l`'s — whatever lookups and context tables the window carries. -/
theorem generated_no_abort_records (d : Decoder) (hd : d ∈ decoders) (hs : d.supported = true) (h : Host)
    (t : Tables) (f l : Kevent) (hf4 : f.values.length = 4) (hl4 : l.values.length = 4)
    (hf : condsHoldAs .start h t d (ownWindow f) = true) (hl : condsHoldAs .end_ h t d (ownWindow l) = true)
    (w : Window) (h1 : w.startArgs = f.values) (h2 : w.startTid = f.tid) (h3 : w.startData = f.data)
    (h4 : w.endArgs = l.values) : ∃ text, render h t d w = .ok text := by
  have hty := List.all_eq_true.mp all_decoders_typed d hd
  have hown := List.all_eq_true.mp all_conds_own_words d hd
  simp only [hs, Bool.not_true, Bool.false_or, typed, Option.isSome_iff_exists] at hty hown
  obtain ⟨k, hk⟩ := hty
  have hc := conds_transfer h t d k hk hown w f l h1 h2 h3 h4 hf hl
  obtain ⟨_, text, _, _, hr, _⟩ := render_ok h t d w k hk (by rw [h1]; exact hf4) (by rw [h4]; exact hl4) hc
  exact ⟨text, hr⟩

/-! ### the pipeline -/

/-- An individually well-formed event: own-field word conditions + text bytes in the alphabet `B`. -/
def InDomain (env : Env) (B : Nat → Bool) (e : Kevent) : Bool := wordsOK env e && payloadOK env B e

/-- **The pipeline never aborts (hypothesis on the reassembled strings).**  For every environment whose
    decoders are the generated ones (any code table satisfying the vmfault guard, any host, any tables, any
    `bytes.decode`), every parser state `s₀` reachable by in-domain records, every history `h`: if every
    event is `wordsOK` and, for every window the pairing delivers, the byte strings its handler reassembles
    decode (`textOK`), then no exception escapes `feed_generator` and every emitted trace renders. -/
theorem no_abort_reassembled (env : Env) (hd : ∀ d ∈ env.decoders, d ∈ decoders) (hg : vmfaultCodesOK env = true)
    (s₀ : PState) (hs₀ : PInv (fun e => wordsOK env e = true) s₀.pairing) (h : List Kevent)
    (hw : ∀ e ∈ h, wordsOK env e = true) (ht : ∀ w ∈ windowsFrom env s₀ h, textOK env w = true) :
    (run env s₀ h).2.1 = none ∧ ∀ t ∈ (run env s₀ h).1, ∃ s, t.text = .ok s :=
  run_good env (goodEnv_of_subset env hd) hg h s₀ hs₀ hw ht

/-- **The pipeline never aborts (per-record hypotheses).**  As above with text validity stated per record:
    the text bytes of every string-carrying record (lookup path chunks, global-string chunks, name records)
    lie in an alphabet `B` on which `bytes.decode` is total.  Whichever other records are missing, repeated,
    nested or interleaved — no hypothesis on the history beyond its records one by one. -/
theorem no_abort (env : Env) (hd : ∀ d ∈ env.decoders, d ∈ decoders) (hg : vmfaultCodesOK env = true)
    (B : Nat → Bool) (hdec : DecTotalOn env B)
    (s₀ : PState) (hs₀ : PInv (fun e => InDomain env B e = true) s₀.pairing) (h : List Kevent)
    (hin : ∀ e ∈ h, InDomain env B e = true) :
    (run env s₀ h).2.1 = none ∧ ∀ t ∈ (run env s₀ h).1, ∃ s, t.text = .ok s := by
  have hw : ∀ e ∈ h, wordsOK env e = true := by
    intro e he; have := hin e he; simp only [InDomain, Bool.and_eq_true] at this; exact this.1
  have hs₀' : PInv (fun e => wordsOK env e = true) s₀.pairing := by
    intro k l hl
    obtain ⟨a, b, c⟩ := hs₀ k l hl
    exact ⟨a, fun x hx => by have := b x hx; simp only [InDomain, Bool.and_eq_true] at this; exact this.1, c⟩
  apply no_abort_reassembled env hd hg s₀ hs₀' h hw
  intro w hwm
  have hwin := windowsFrom_ok env (fun e => InDomain env B e = true) h s₀ hs₀ hin w hwm
  apply textOK_of_payload env B hdec w hwin.ne
  intro x hx
  have := hwin.all x hx
  simp only [InDomain, Bool.and_eq_true] at this
  exact this.2

/-- A fresh parser (empty pairing tables, any context tables): the form the property is stated in. -/
theorem no_abort_fresh (env : Env) (hd : ∀ d ∈ env.decoders, d ∈ decoders) (hg : vmfaultCodesOK env = true)
    (B : Nat → Bool) (hdec : DecTotalOn env B) (tabs : Tabs) (h : List Kevent)
    (hin : ∀ e ∈ h, InDomain env B e = true) :
    (run env ⟨Pairing.PState.empty, tabs⟩ h).2.1 = none ∧
    ∀ t ∈ (run env ⟨Pairing.PState.empty, tabs⟩ h).1, ∃ s, t.text = .ok s :=
  no_abort env hd hg B hdec ⟨Pairing.PState.empty, tabs⟩ (PInv_empty _) h hin

/-! ### instances, guards, non-vacuity -/

/-- Strict decoding restricted to ASCII (what strict UTF-8 does on bytes < 128). -/
def asciiDec (bs : Bytes) : Except PyErr String :=
  if bs.all (· < 128) then .ok (String.ofList (bs.map Char.ofNat)) else .error .unicodeError

def isAscii (b : Nat) : Bool := b < 128

/-- Any decoder that accepts ASCII is total on the ASCII alphabet — the instance of `no_abort` for
    `bytes.decode()` (strict UTF-8). -/
theorem asciiDec_total (env : Env) (h : env.dec = asciiDec) : DecTotalOn env isAscii := by
  intro bs hb
  have : bs.all (· < 128) = true := by simpa [isAscii] using hb
  exact ⟨String.ofList (bs.map Char.ofNat), by simp [h, asciiDec, this]⟩

def ev (eid q tid : Nat) (values : List Nat) (data : Bytes := List.replicate 32 0) (ts : Nat := 0) : Kevent :=
  { timestamp := ts, data := data, values := values, tid := tid, debugid := eid + q, eventid := eid, qual := q }

def pad32 (bs : Bytes) : Bytes := bs ++ List.replicate (32 - bs.length) 0

/-- A small environment: three generated decoders taken from the generated table by key, the bundled ids. -/
def miniDecoders : List Decoder :=
  decoders.filter fun d => d.key == 99754832164739281677214638452      -- BSC_renameat
    || d.key == 5945851335769508246636                                -- BSC_ioctl
    || d.key == 8297446213357080657423513651894782640461648674432790454636   -- RealFaultAddressInternal

def miniCodes : List (Nat × String) :=
  [(0x3010090, "VFS_LOOKUP"), (0x40c0744, "BSC_renameat"), (0x40c00d8, "BSC_ioctl"),
   (0x7000004, "TRACE_DATA_NEWTHREAD"), (0x7010004, "TRACE_STRING_NEWTHREAD"),
   (0x7010010, "TRACE_STRING_THREADNAME"), (0x1300008, "MACH_vmfault"), (0x1320008, "RealFaultAddressInternal"),
   (0x132000c, "RealFaultAddressPurgeable")]

def miniEnv : Env :=
  { codes := fun k => List.lookup k miniCodes, host := Gen.Host.host, tables := Gen.Decoders.tables,
    decoders := miniDecoders, dec := asciiDec }

theorem mini_sub : ∀ d ∈ miniEnv.decoders, d ∈ decoders := fun _ hd => (List.mem_filter.mp hd).1

/-- The vmfault guard holds for the ids the bundled table assigns in the hard-coded range. -/
theorem bundled_vmfault_ids : vmfaultCodesOK miniEnv = true := by decide +kernel

/-- A dump that starts in the middle: a stray END of renameat, a stray continuation chunk of a lookup, a
    name record whose new-thread data record is missing; then renameat with ONE lookup instead of two, an
    ioctl with in-domain direction bits, a page fault with a nested record of an undecoded kind and one of a
    decoded kind. -/
def droppedHistory : List Kevent :=
  [ ev 0x40c0744 2 5 [0, 0, 0, 0],
    ev 0x3010090 0 5 [0, 0, 0, 0] (pad32 [47, 120]),
    ev 0x7010004 0 5 [0, 0, 0, 0] (pad32 [105, 110, 105, 116]),
    ev 0x40c0744 1 5 [3, 0, 4, 0],
    ev 0x3010090 3 5 [7, 0, 0, 0] (pad32 [7, 0, 0, 0, 0, 0, 0, 0, 47, 97]),
    ev 0x40c0744 2 5 [2, 0, 0, 0],
    ev 0x40c00d8 1 6 [3, 0x20006601, 0, 0],
    ev 0x40c00d8 2 6 [0, 0, 0, 0],
    ev 0x1300008 1 6 [0, 0x7000, 0, 0],
    ev 0x132000c 0 6 [0x1000, 0x503, 9, 9],
    ev 0x1320008 0 6 [0x1000, 0x50302, 9, 44],
    ev 0x1300008 2 6 [0, 0, 0, 2] ]

/-- Non-vacuity of `no_abort`: the history above is in-domain, and therefore (by the theorem, not by
    evaluation) it runs to the end and every trace renders. -/
example : (run miniEnv ⟨Pairing.PState.empty, {}⟩ droppedHistory).2.1 = none ∧
    ∀ t ∈ (run miniEnv ⟨Pairing.PState.empty, {}⟩ droppedHistory).1, ∃ s, t.text = .ok s :=
  no_abort_fresh miniEnv mini_sub bundled_vmfault_ids isAscii (asciiDec_total miniEnv rfl) {} droppedHistory
    (by decide +kernel)

/-- … and it does deliver traces (name record, lookup, renameat, ioctl, two nested records, the fault). -/
example : ((run miniEnv ⟨Pairing.PState.empty, {}⟩ droppedHistory).1.map (·.name)) =
    ["TRACE_STRING_NEWTHREAD", "VFS_LOOKUP", "BSC_renameat", "BSC_ioctl", "RealFaultAddressInternal", "MACH_vmfault"] := by
  decide +kernel

/-- Non-vacuity of the side conditions: the ioctl request word with direction bits 0 is NOT in-domain, the
    word `_IO('f', 1)` is. -/
example : wordsOK miniEnv (ev 0x40c00d8 1 6 [3, 0x6601, 0, 0]) = false ∧
    wordsOK miniEnv (ev 0x40c00d8 1 6 [3, 0x20006601, 0, 0]) = true := by decide +kernel

/-- A record of another code between the chunks of a thread name (START chunk, a `TRACE_DATA_NEWTHREAD` record
    of the same thread whose first word holds the byte 0xff, END chunk): every record is in-domain, so the stream
    runs to the end — and the name is the name (before fix F17 this history aborted with UnicodeDecodeError). -/
def foreignRecordHistory : List Kevent :=
  [ ev 0x7010010 1 5 [0, 0, 0, 0] (List.replicate 32 97),
    ev 0x7000004 0 5 [0xff, 1, 0, 0] (pad32 [0xff, 0, 0, 0, 0, 0, 0, 0, 1]),
    ev 0x7010010 2 5 [0, 0, 0, 0] (pad32 [98, 98]) ]

theorem foreign_record_between_name_chunks :
    (∀ e ∈ foreignRecordHistory, InDomain miniEnv isAscii e = true) ∧
    (run miniEnv ⟨Pairing.PState.empty, {}⟩ foreignRecordHistory).2.1 = none ∧
    ((run miniEnv ⟨Pairing.PState.empty, {}⟩ foreignRecordHistory).1.map (·.name)) =
      ["TRACE_DATA_NEWTHREAD", "TRACE_STRING_THREADNAME"] := by decide +kernel

end KdVerif.C07
