import KdVerif.Proofs.IRDecoders
import KdVerif.Model.Trace
/-
  C09 — syscall arguments are rendered from the matching START argument, in order.

  Subject: `Gen.Decoders.decoders`, the decoder IR regenerated from bsd.py / mach.py on every run
  (handler functions + dataclass `__str__`), with the meaning given by `IR.eval` / `IR.render`
  (tied to the real code by the correspondence section `decoders`).

  Reflective theorems (`decide +kernel` over the generated table) establish syntactic facts about each
  of the ~400 syscall / trap decoders; the semantic lemmas of `Proofs/IR.lean` (footprint lemma,
  substitution lemma, flatten/normalize) lift them to ALL windows.
-/
namespace KdVerif.C09
open KdVerif.IR KdVerif.DecoderFacts

/-! ### Reflective facts about the generated table (re-checked by the kernel on every run) -/

/-- The translator's `name(p0, …)tail` split of every decoder is a re-bracketing of its `__str__`. -/
theorem all_shapes_agree : decoders.all shapeAgrees = true := by decide +kernel

/-- Every translated BSD syscall / Mach trap decoder is of call shape (so the next theorems are about all
    of them), and the BSD family consists of syscalls only. -/
theorem syscall_decoders_have_shape :
    decoders.all (fun d => (!((d.kind == 0 || d.kind == 1) && d.supported) || d.shape.isSome)
                           && (!(d.family == 0) || d.kind == 0)) = true := by decide +kernel

/-- Every BSD syscall / Mach trap decoder was translated (none is outside the IR subset), so the facts
    below cover all of them. -/
theorem syscalls_translated :
    decoders.all (fun d => !(d.kind == 0 || d.kind == 1) || d.supported) = true := by decide +kernel

/-- No piece of any call part reads the END record, a result string or a context table. -/
theorem all_calls_read_start_only : decoders.all callReadsStartOnly = true := by decide +kernel

/-- The parameter at position `k` reads START word `k` and no other (four listed exceptions read the
    listed words). -/
theorem all_wellIndexed : decoders.all wellIndexed = true := by decide +kernel

/-- Constructor arguments never refer to `self` (needed by the substitution lemma). -/
theorem all_fields_closed : decoders.all fieldsClosed = true := by decide +kernel

/-- **The call part of the text is a function of the START arguments and the nested lookups only**:
    for every syscall / trap decoder and any two windows with the same START words and lookups — whatever
    their END records, thread ids and context tables — the call texts (or the exceptions raised while
    building them) are equal. -/
theorem call_text_function_of_start_and_lookups (d : Decoder) (hd : d ∈ decoders) (hsys : syscallLike d = true)
    (s : Shape) (hs : d.shape = some s) (h : Host) (t : Tables) (w w' : Window) (hw : SameStart w w') :
    evalPieces (ctx h t w) (callPiecesOf d s) = evalPieces (ctx h t w') (callPiecesOf d s) := by
  have := List.all_eq_true.mp all_calls_read_start_only d hd
  simp only [callReadsStartOnly, hs, hsys, Bool.not_true, Bool.false_or] at this
  apply evalPieces_congr callSel _ _ _ _ this
  constructor <;> simp [callSel, ctx, hw.start, hw.lookups, hw.rest]

theorem paramsOK_get (fs : List Expr) (key : Nat) (k0 : Nat) (ps : List (Option Expr × Expr))
    (h : paramsOK fs key k0 ps = true) (i : Nat) (c : Option Expr) (p : Expr) (hi : ps[i]? = some (c, p)) :
    within (selFor key (k0 + i)) (subst fs p) = true := by
  induction ps generalizing k0 i with
  | nil => simp at hi
  | cons q ps ih =>
    obtain ⟨qc, qp⟩ := q
    simp only [paramsOK, Bool.and_eq_true] at h
    cases i with
    | zero =>
      simp only [List.getElem?_cons_zero, Option.some.injEq, Prod.mk.injEq] at hi
      obtain ⟨_, rfl⟩ := hi
      simpa using h.1.1
    | succ i =>
      have := ih (k0 + 1) h.2 i (by simpa using hi)
      rwa [show k0 + 1 + i = k0 + (i + 1) by omega] at this

/-- **The parameter shown at position `k` is rendered from START word `k`**: for every syscall / trap
    decoder, the text of its `k`-th parameter is the same in any two windows that agree on START word `k`
    and on the lookups — the other START words, the END record and everything else may differ.
    (For the four `crossArg` entries, "word `k`" reads "the listed words".) -/
theorem param_text_from_kth_start_word (d : Decoder) (hd : d ∈ decoders) (hsys : syscallLike d = true)
    (s : Shape) (hs : d.shape = some s) (k : Nat) (c : Option Expr) (p : Expr) (hp : s.params[k]? = some (c, p))
    (h : Host) (t : Tables) (w w' : Window)
    (hk : ∀ j, (selFor d.key k).start.contains j = true → w.startArgs[j]? = w'.startArgs[j]?)
    (hl : w.lookups = w'.lookups) (hr : w.restFirst = w'.restFirst) :
    evalS (ctx h t w) (subst d.fields p) = evalS (ctx h t w') (subst d.fields p) := by
  have hwi := List.all_eq_true.mp all_wellIndexed d hd
  simp only [wellIndexed, hs, hsys, Bool.not_true, Bool.false_or] at hwi
  have hin := paramsOK_get d.fields d.key 0 s.params hwi k c p hp
  rw [Nat.zero_add] at hin
  apply evalS_congr (selFor d.key k) _ _ _ _ hin
  have hsel : (selFor d.key k).startAll = false ∧ (selFor d.key k).endA = false ∧ (selFor d.key k).tid = false
      ∧ (selFor d.key k).data = false ∧ (selFor d.key k).gstr = false ∧ (selFor d.key k).tpids = false
      ∧ (selFor d.key k).tnames = false ∧ (selFor d.key k).fields = false ∧ (selFor d.key k).endL = [] := by
    unfold selFor; split <;> simp [paramSel]
  obtain ⟨h1, h2, h3, h4, h5, h6, h7, h8, h9⟩ := hsel
  constructor <;> simp_all [ctx]

/-- Outside the four listed parameters, position `k` reads exactly `[k]`. -/
theorem selFor_plain (key k : Nat) (h : crossArg.find? (fun x => x.1 == key && x.2.1 == k) = none) :
    (selFor key k).start = [k] := by
  simp [selFor, h, paramSel]

/-! ### The numeric forms: decimal, signed, hexadecimal renderings of the START word -/

theorem decimal_form (c : Ctx) (k a : Nat) (h : c.win.startArgs[k]? = some a) :
    evalS c (.strOf (.startArg k)) = .ok (toString a) := by
  simp [evalS, eval, h, pyStr, bind, Except.bind]
  rfl

theorem hex_form (c : Ctx) (k a : Nat) (h : c.win.startArgs[k]? = some a) :
    evalS c (.hexOf (.startArg k)) = .ok (pyHex a) := by
  have h0 : ¬ ((a : Int) < 0) := by omega
  simp only [evalS, eval, h, bind, Except.bind, pure, Except.pure, pyHexInt, h0, if_false, Int.toNat_natCast]

/-- Signed form: Python's `str(ctypes.c_int64(a).value)`. -/
theorem signed64_form (c : Ctx) (k a : Nat) (h : c.win.startArgs[k]? = some a) :
    evalS c (.strOf (.cInt64 (.startArg k))) = .ok (pyStr (.int (wrap64 a))) := by
  simp only [evalS, eval, h, asNat, bind, Except.bind, pure, Except.pure]

/-- `ctypes.c_int64(a).value` for a 64-bit word: `a` below 2^63, `a − 2^64` from there on. -/
theorem wrap64_spec (a : Nat) (h : a < 2 ^ 64) :
    wrap64 a = if a < 2 ^ 63 then (a : Int) else (a : Int) - 2 ^ 64 := by
  unfold wrap64
  have : ((a : Int) % (2 ^ 64 : Int)) = a := by omega
  simp only [this]
  split <;> split <;> omega

/-- A parameter in one of the plain numeric forms names its own position: a decimal / hexadecimal / signed
    rendering of START word `j` never appears at a position `k ≠ j` of any syscall / trap decoder. -/
def numericOf (j : Nat) (p : Expr) : Bool :=
  p = .strOf (.startArg j) || p = .hexOf (.startArg j) || p = .strOf (.cInt64 (.startArg j))
    || p = .strOf (.cInt32 (.startArg j))

theorem numeric_param_is_own_word (d : Decoder) (hd : d ∈ decoders) (hsys : syscallLike d = true)
    (s : Shape) (hs : d.shape = some s) (k j : Nat) (c : Option Expr) (p : Expr)
    (hp : s.params[k]? = some (c, p)) (hn : numericOf j (subst d.fields p) = true)
    (hplain : crossArg.find? (fun x => x.1 == d.key && x.2.1 == k) = none) : j = k := by
  have hwi := List.all_eq_true.mp all_wellIndexed d hd
  simp only [wellIndexed, hs, hsys, Bool.not_true, Bool.false_or] at hwi
  have hin := paramsOK_get d.fields d.key 0 s.params hwi k c p hp
  rw [Nat.zero_add] at hin
  have hsel : selFor d.key k = paramSel k := by simp [selFor, hplain]
  rw [hsel] at hin
  simp only [numericOf, Bool.or_eq_true, decide_eq_true_eq] at hn
  rcases hn with ((hn | hn) | hn) | hn <;> rw [hn] at hin <;> simp [within, paramSel] at hin <;> omega

/-! ### A bare number is the WHOLE word

  The footprint facts above say *which* word a parameter reads; they would still hold if a decoder showed a
  narrowed reading of that word (its low 32 bits, say) — a number that is not the argument any more once the
  argument needs more than 32 bits.  The next fact closes that: every parameter of a syscall / trap decoder
  that renders a bare number (decimal or hexadecimal text of pure integer arithmetic on window words) is
  syntactically one of the three whole-word forms of its own START word, with one listed exception. -/

/-- Pure integer arithmetic on window words and literals (no enum, flag, table or string read). -/
def arith : Expr → Bool
  | .startArg _ | .endArg _ | .int _ => true
  | .cInt64 e | .cInt32 e => arith e
  | .band a b | .bor a b | .shr a b | .shl a b => arith a && arith b
  | _ => false

/-- A parameter that renders a bare number. -/
def bareNumber : Expr → Bool
  | .strOf e | .hexOf e => arith e
  | _ => false

/-- Decimal, hexadecimal or signed (two's complement, 64 bits) text of the whole START word `k`. -/
def wholeWord (k : Nat) (p : Expr) : Bool :=
  p = .strOf (.startArg k) || p = .hexOf (.startArg k) || p = .strOf (.cInt64 (.startArg k))

/-- The one parameter that is deliberately narrowed: `semaphore_timedwait`'s nanoseconds (position 1) are an
    `unsigned int` in the trap's prototype and are shown as `args[1] & 0xffffffff`. -/
def narrowed : List (Nat × Nat) :=
  [ (35103245609197095007308586982694452387520952448627944768054213370224, 1) ]   -- MSC_semaphore_timedwait_trap

def numbersWhole (fs : List Expr) (key : Nat) : Nat → List (Option Expr × Expr) → Bool
  | _, [] => true
  | k, (_, p) :: rest =>
    (!bareNumber (subst fs p) || wholeWord k (subst fs p) || narrowed.contains (key, k))
      && numbersWhole fs key (k + 1) rest

def numbersWholeDec (d : Decoder) : Bool :=
  match d.shape with
  | some s => !syscallLike d || numbersWhole d.fields d.key 0 s.params
  | none => true

theorem all_numbers_whole : decoders.all numbersWholeDec = true := by decide +kernel

theorem numbersWhole_get (fs : List Expr) (key : Nat) (k0 : Nat) (ps : List (Option Expr × Expr))
    (h : numbersWhole fs key k0 ps = true) (i : Nat) (c : Option Expr) (p : Expr) (hi : ps[i]? = some (c, p)) :
    (!bareNumber (subst fs p) || wholeWord (k0 + i) (subst fs p) || narrowed.contains (key, k0 + i)) = true := by
  induction ps generalizing k0 i with
  | nil => simp at hi
  | cons q ps ih =>
    obtain ⟨qc, qp⟩ := q
    simp only [numbersWhole, Bool.and_eq_true] at h
    cases i with
    | zero =>
      simp only [List.getElem?_cons_zero, Option.some.injEq, Prod.mk.injEq] at hi
      obtain ⟨_, rfl⟩ := hi
      simpa using h.1
    | succ i =>
      have := ih (k0 + 1) h.2 i (by simpa using hi)
      rwa [show k0 + 1 + i = k0 + (i + 1) by omega] at this

/-- **A number shown at position `k` is the k-th START argument itself** — in decimal, in hexadecimal or as
    the signed 64-bit reading — for every syscall / trap decoder, every window and every word (also the ones
    beyond 32 bits), outside the one listed narrowed parameter. -/
theorem bare_number_is_whole_word (d : Decoder) (hd : d ∈ decoders) (hsys : syscallLike d = true)
    (s : Shape) (hs : d.shape = some s) (k : Nat) (c : Option Expr) (p : Expr) (hp : s.params[k]? = some (c, p))
    (hb : bareNumber (subst d.fields p) = true) (hn : narrowed.contains (d.key, k) = false)
    (cx : Ctx) (a : Nat) (ha : cx.win.startArgs[k]? = some a) :
    evalS cx (subst d.fields p) = .ok (toString a) ∨ evalS cx (subst d.fields p) = .ok (pyHex a)
      ∨ evalS cx (subst d.fields p) = .ok (pyStr (.int (wrap64 a))) := by
  have hall := List.all_eq_true.mp all_numbers_whole d hd
  simp only [numbersWholeDec, hs, hsys, Bool.not_true, Bool.false_or] at hall
  have hk := numbersWhole_get d.fields d.key 0 s.params hall k c p hp
  rw [Nat.zero_add] at hk
  simp only [hb, hn, Bool.not_true, Bool.false_or, Bool.or_false] at hk
  simp only [wholeWord, Bool.or_eq_true, decide_eq_true_eq] at hk
  rcases hk with (hk | hk) | hk <;> rw [hk]
  · exact Or.inl (decimal_form cx k a ha)
  · exact Or.inr (Or.inl (hex_form cx k a ha))
  · exact Or.inr (Or.inr (signed64_form cx k a ha))

/-- Not vacuous: `BSC_pread`'s four parameters are bare numbers outside `narrowed`; `pwritev`'s offset
    (position 3) is the signed whole-word form. -/
example : ∃ d ∈ decoders, d.key = 5945851335799623475556 ∧
    (d.shape.map fun s => s.params.map fun cp => bareNumber (subst d.fields cp.2)) = some [true, true, true, true] := by
  decide +kernel

/-- `pwritev`'s file offset (position 3) is the signed whole-word form. -/
example : ∃ d ∈ decoders, d.key = 1673608366272881977623213759198946678 ∧
    (d.shape.map fun s => s.params.map fun cp => subst d.fields cp.2)
      = some [.strOf (.startArg 0), .hexOf (.startArg 1), .strOf (.startArg 2), .strOf (.cInt64 (.startArg 3))] := by
  decide +kernel

/-! ### Which START record: the window the pipeline hands to a decoder

  C04 proves that the event list delivered when an END arrives is `s :: body ++ [e]` where `s` is the most
  recent still-open START of the END's thread and code (`C04.window_shape`, `window_head_is_last_start`,
  `window_last_is_end`).  The decoder's view of that list takes its START words from the head and its END
  words from the last element — so "the START argument" above is the argument of the *matching* START. -/

/-- The window a generated decoder sees: START words / thread of the first event, END words of the last. -/
theorem getLast_snoc (s e : Kevent) (body : List Kevent) :
    ((s :: body ++ [e]).getLast?.getD default) = e := by
  have : s :: body ++ [e] = (s :: body) ++ [e] := rfl
  rw [this, List.getLast?_append]
  simp

theorem window_words (env : Trace.Env) (t : Trace.Tabs) (s e : Kevent) (body : List Kevent) (need : Bool)
    (w : Window) (hw : Trace.mkWindow env t (s :: body ++ [e]) need = .ok w) :
    w.startArgs = s.values ∧ w.startTid = s.tid ∧ w.startData = s.data ∧ w.endArgs = e.values := by
  have hl := getLast_snoc s e body
  simp only [List.cons_append] at hl
  unfold Trace.mkWindow at hw
  simp only [List.cons_append] at hw
  cases need
  · simp only [Bool.false_eq_true, if_false, bind, Except.bind, pure, Except.pure, Except.ok.injEq] at hw
    subst hw
    simp [hl]
  · simp only [if_true, bind, Except.bind] at hw
    cases hv : Trace.parseVnodes env (s :: (body ++ [e])) with
    | error err => simp [hv] at hw
    | ok v =>
      simp only [hv, pure, Except.pure, Except.ok.injEq] at hw
      subst hw
      simp [hl]

/-- A single NONE/ALL event is its own window: both the START and the END words are its own. -/
theorem single_window_words (env : Trace.Env) (t : Trace.Tabs) (e : Kevent) (need : Bool)
    (w : Window) (hw : Trace.mkWindow env t [e] need = .ok w) :
    w.startArgs = e.values ∧ w.endArgs = e.values := by
  unfold Trace.mkWindow at hw
  cases need
  · simp only [Bool.false_eq_true, if_false, bind, Except.bind, pure, Except.pure, Except.ok.injEq] at hw
    subst hw
    simp
  · simp only [if_true, bind, Except.bind] at hw
    cases hv : Trace.parseVnodes env [e] with
    | error err => simp [hv] at hw
    | ok v =>
      simp only [hv, pure, Except.pure, Except.ok.injEq] at hw
      subst hw
      simp

/-! ### Non-vacuity -/

/-- `BSC_pread` is in the table, is syscall-like and shaped; its parameters at positions 0..3 are the
    decimal / hex / decimal / hex renderings of START words 0..3. -/
example : ∃ d ∈ decoders, d.key = 5945851335799623475556 ∧ syscallLike d = true ∧
    (d.shape.map fun s => s.params.map fun cp => subst d.fields cp.2) =
      some [.strOf (.startArg 0), .hexOf (.startArg 1), .strOf (.startArg 2), .hexOf (.startArg 3)] := by
  decide +kernel

end KdVerif.C09
