import Driver.Util
import KdVerif.Model.IR
import KdVerif.Gen.Decoders
import KdVerif.Gen.Host
open KdVerif KdVerif.IR
namespace Driver.Render

def parseLookup (s : String) : Option Lookup :=
  match s.splitOn ":" with
  | [p, v] => do
    let path ← stringOfHex p
    let vn ← v.toNat?
    pure ⟨path, vn⟩
  | _ => none

def parseLookups (s : String) : Option (List Lookup) :=
  if s = "-" then some [] else (s.splitOn ";").mapM parseLookup

def parseStrTable (s : String) : Option (List (Nat × String)) :=
  if s = "-" then some [] else (s.splitOn ";").mapM fun item =>
    match item.splitOn ":" with
    | [k, v] => do let k ← k.toNat?; let v ← stringOfHex v; pure (k, v)
    | _ => none

def parseNatTable (s : String) : Option (List (Nat × Nat)) :=
  if s = "-" then some [] else (s.splitOn ";").mapM fun item =>
    match item.splitOn ":" with
    | [k, v] => do let k ← k.toNat?; let v ← v.toNat?; pure (k, v)
    | _ => none

def findDecoder (name : String) : Option Decoder := Gen.Decoders.decoders.find? (·.name = name)

/-- `render <name> <startArgs> <tid> <endArgs> <startData hex> <lookups> <rest> <globalStrings> <threadsPids> <tidsNames>` -/
def cmdRender : Cmd
  | [name, sa, tid, ea, sd, lks, rest, gs, tp, tn] =>
    match findDecoder name, parseNatList sa, tid.toNat?, parseNatList ea, ofHex (unDash sd), parseLookups lks,
          parseLookups rest, parseStrTable gs, parseNatTable tp, parseStrTable tn with
    | some d, some sa, some tid, some ea, some sd, some lks, some rest, some gs, some tp, some tn =>
      let w : Window := { startArgs := sa, endArgs := ea, startTid := tid, startData := sd, lookups := lks,
                          restFirst := rest.head?, globalStrings := (List.lookup · gs), threadsPids := (List.lookup · tp),
                          tidsNames := (List.lookup · tn) }
      if !d.supported then "unsupported" else
      match render Gen.Host.host Gen.Decoders.tables d w with
      | .ok s => "ok " ++ hexOfString s
      | .error e => "err " ++ e.name
    | _, _, _, _, _, _, _, _, _, _ => "bad-op"
  | _ => "bad-op"

def commands : List (String × Cmd) := [("render", cmdRender)]

end Driver.Render
