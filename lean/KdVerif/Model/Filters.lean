import KdVerif.Model.Kevent
/-
  L6: `PyKdebugParser.kevents` / `os_log_events` / `_is_eventid_allowed` (pykdebugparser.py).

  The container parser's generator yields a heterogeneous stream: `Kevent` tuples and (v3 only)
  `OsLogEvent` objects.  Both listings are chains of lazy `filter()` stages over that stream; which
  stages exist is decided when the method is called (`if self.filter_tid is not None`,
  `if filter_class or self.filter_subclass`, `if self.filter_process is not None`), what a stage
  tests is read from the parser object when the element is pulled.  The model fixes the
  configuration for the whole traversal (assumption: the caller does not change the filter
  attributes while it iterates).

  Numbers are `Nat`: a negative `--tid` / class value can never equal a thread id / shifted event id
  and behaves like any other value that matches nothing (the harness sends such values as
  out-of-range naturals).
-/
namespace KdVerif.Filters

/-- The fields of an `OsLogEvent` the filters and the line builder look at. -/
structure LogRec where
  threadIdentifier : Nat
  process : String
  processIdentifier : Int
  message : String
  deriving DecidableEq, Repr, Inhabited

/-- One element of the stream `KdBufParser.parse` yields. -/
inductive Item
  | event (e : Kevent)
  | log (l : LogRec)
  deriving DecidableEq, Repr

/-- The four filter attributes of `PyKdebugParser` (`None` = `none`, lists/tuples = lists). -/
structure Cfg where
  filterTid : Option Nat := none
  filterClass : List Nat := []
  filterSubclass : List Nat := []
  filterProcess : Option String := none
  deriving DecidableEq, Repr, Inhabited

/-- `filter(lambda e: not isinstance(e, OsLogEvent), …)`: what is left are `Kevent`s. -/
def asEvent : Item → Option Kevent
  | .event e => some e
  | .log _ => none

/-- `filter(lambda e: isinstance(e, OsLogEvent), …)`. -/
def asLog : Item → Option LogRec
  | .event _ => none
  | .log l => some l

/-- `_is_eventid_allowed(event_id, filter_class)`:
    `(event_id >> 24 in filter_class) or (event_id >> 16 in self.filter_subclass)`. -/
def isEventidAllowed (cfg : Cfg) (eventid : Nat) (filterClass : List Nat) : Bool :=
  filterClass.contains (eventid >>> 24) || cfg.filterSubclass.contains (eventid >>> 16)

/-- `kevents(kdebug, filter_class)` with the explicit class list (`traces()` passes its own copy). -/
def keventsWith (cfg : Cfg) (filterClass : List Nat) (items : List Item) : List Kevent :=
  let g := items.filterMap asEvent
  let g := match cfg.filterTid with                    -- if self.filter_tid is not None:
    | some t => g.filter (fun e => e.tid == t)         --   filter(lambda e: e.tid == self.filter_tid, …)
    | none => g
  let g := if !filterClass.isEmpty || !cfg.filterSubclass.isEmpty   -- if filter_class or self.filter_subclass:
    then g.filter (fun e => isEventidAllowed cfg e.eventid filterClass)
    else g
  g

/-- `kevents(kdebug)`: `filter_class = self.filter_class if filter_class is None else filter_class`. -/
def kevents (cfg : Cfg) (filterClassArg : Option (List Nat)) (items : List Item) : List Kevent :=
  keventsWith cfg (match filterClassArg with | none => cfg.filterClass | some fc => fc) items

/-- `str(e.process_identifier)`. -/
def pidText (l : LogRec) : String := toString l.processIdentifier

/-- `os_log_events(kdebug)`. -/
def osLogEvents (cfg : Cfg) (items : List Item) : List LogRec :=
  let g := items.filterMap asLog
  let g := match cfg.filterTid with                    -- if self.filter_tid is not None:
    | some t => g.filter (fun l => l.threadIdentifier == t)
    | none => g
  let g := match cfg.filterProcess with                -- if self.filter_process is not None:
    | some p => g.filter (fun l => p == l.process || p == pidText l)   -- in (e.process, str(e.process_identifier))
    | none => g
  g

end KdVerif.Filters
