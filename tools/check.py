#!/venv/bin/python
"""Entry point: tools/check.py Cxx [--tier quick|thorough] [--replay file]."""
import argparse
import importlib
import os
import random
import sys
import time
import traceback

HERE = os.path.dirname(os.path.abspath(__file__))
sys.path.insert(0, HERE)
from kdv import core  # noqa: E402


def main():
    ap = argparse.ArgumentParser()
    ap.add_argument('prop')
    ap.add_argument('--tier', default=os.environ.get('VERIF_TIER', 'quick'), choices=['quick', 'thorough'])
    ap.add_argument('--replay')
    ap.add_argument('--no-build', action='store_true')
    a = ap.parse_args()
    seed = int(os.environ.get('VERIF_SEED', '0') or 0)
    try:
        pm = importlib.import_module(f'kdv.props.{a.prop}')
    except ImportError as e:
        print(f'no such property check: {a.prop}: {e}', file=sys.stderr)
        return 2
    if a.replay:
        return pm.replay(a.replay)
    rep = core.Report(a.prop, a.tier, seed)
    rep.trusted = ['Lean 4.33.0 kernel', 'axioms propext, Classical.choice, Quot.sound only (audited per theorem)',
                   'tools/translate.py (reflection + AST translator)', 'tools/kdv correspondence harness',
                   'Python 3.12 / struct / construct as modelled'] + list(getattr(pm, 'TRUSTED', []))
    rep.assumptions = list(getattr(pm, 'ASSUMPTIONS', []))
    module = pm.MODULE
    rep.checker_cmd = f'cd lean && lake build {module} kddrv && lake env lean <audit: #print axioms per theorem>'
    try:
        with core.Lock():
            g = core.regen()
            if not g['ok']:
                rep.broken.append('translator: ' + g.get('error', '')[-1500:])
            b = core.lake_build([module, 'kddrv'], clean=False)
            if a.tier == 'thorough' and b['ok'] and os.environ.get('VERIF_LEANCHECKER', '1') == '1':
                rc, out, err = core.run(['lake', 'env', 'leanchecker', module], cwd=core.LEAN, timeout=3600)
                if rc != 0:
                    rep.broken.append('leanchecker: ' + (out + err)[-1500:])
                else:
                    rep.notes.append('leanchecker re-checked ' + module)
            if not b['ok']:
                rep.broken.append('lake build %s: %s' % (module, b['log'][-3000:]))
                # the driver may still be buildable on its own (model intact, proof broken)
                core.lake_build(['kddrv'])
            thms, nex = core.theorems_of(module, pm.NAMESPACE)
            rep.obligations = len(thms) + nex
            if b['ok']:
                au = core.audit(module, pm.NAMESPACE)
                rep.theorems = au['theorems']
                rep.discharged = sum(1 for t, ax in au['theorems'].items()
                                     if ax is not None and set(ax) <= core.ALLOWED_AXIOMS) + nex
                if not au['ok']:
                    rep.broken.append('axiom audit: %s %s' % (au['bad'], au['log'][-1500:]))
                hits = core.forbidden_tokens(module)
                if hits:
                    rep.broken.append('forbidden tokens: ' + '; '.join(hits[:5]))
                    rep.discharged = 0
        rng = random.Random(seed)
        tier = a.tier
        if tier == 'quick' and os.environ.get('VERIF_ESCALATE', '1') == '1':
            from kdv import fingerprint
            diff = fingerprint.changed(core.REPO)
            if diff:
                tier = 'thorough'
                rep.notes.append('source differs from the fingerprinted revision in %s: the correspondence and the failing-input '
                                 'searches run with the thorough tier\'s budget' % ', '.join(diff[:6]))
        pm.correspondence(rep, rng, tier)
    except core.Infra as e:
        print('INFRA: ' + str(e), file=sys.stderr)
        return 2
    except Exception:
        traceback.print_exc()
        return 2
    return rep.finish()


if __name__ == '__main__':
    sys.exit(main())
