"""C08 — paths and strings split over several records are reassembled exactly, once."""
import json

from .. import core
from .. import decoders as D
from .. import pipeline as PL
from ..pipeline import Stream, NONE, START, END

MODULE = 'KdVerif.Props.C08'
NAMESPACE = 'KdVerif.C08'
TRUSTED = ['Spec/Reassembly.lean: kernel-side encoders (8/16/0-byte header, 32-byte NUL-padded payloads, START/END bits) as '
           'the specification; the harness encodes its texts with an independent Python encoder of the same layout',
           'Model/Trace.lean (vnodeGen, parseVnodes, mkWindow, hVfsLookup, globalLoop/hStringGlobal, hStringThreadname, '
           'feed, run): hand model of TracesParser, tied to the code by the sections `reassembly`, `syscall-paths`, `pipeline`',
           'tools/gen_decoders.py (decoder IR), validated by rendering every path-taking decoder with 0-6 lookups']
ASSUMPTIONS = ['texts are NUL-free byte strings; `bytes.decode()` is a parameter of the model (strict UTF-8 in the driver), '
               'invalid UTF-8 in global strings (backslashreplace) is outside the model',
               'one-trace theorems assume the stream raises no exception (an exception ends the stream) and start from a '
               'well-formed state (every reachable state is: wf_start, wf_reachable)',
               'the second-phase lookup equals lookups[1] only when no later lookup record is value-equal to a record of the '
               'first (finding K5: explicit hypothesis of syscall_paths_partial)']
LEVEL_TEXT = ('Lean theorems for ALL NUL-free byte strings of any length: the kernel encoders composed with the reassembly loops '
              'are the identity (one Vnode / string / name, vnode and string ids of the first record); through the whole '
              'parser, with arbitrary other-thread records and unrelated same-thread records interleaved, exactly one trace '
              'per text and none for continuation records; mkWindow yields the lookups in order; a kernel-checked table '
              '(regenerated decoders) says which decoder shows which lookup at which parameter position, lifted to all '
              'windows by an evaluation lemma.')
LEVEL_NOTE = ('syscall_paths_partial / syscall_shows_looked_up_paths_partial carry the K5 proviso (value-equal records of a '
              'later lookup); global strings / thread names: the interleaved records must not be records of the same thread with '
              'the text\'s own event id (another string of the same code started in between re-opens the key).')
TECHNIQUE = ('Lean 4 proof: induction over chunk lists and over interleaved streams with a pairing-table invariant; reflective '
             'decide over the regenerated decoder IR; differential correspondence through the whole TracesParser')

K5_SIG = 'reassembly:identical-lookups-second-path-empty'

# which lookup a decoder shows at which parameter position (the property's reference table, written from the Darwin
# syscall signatures; the Lean side proves the same table against the regenerated decoders: C08.path_table_exact)
EXPECT = {
    'BSC_acct': [(0, 'first')],
    'BSC_link': [(0, 'first'), (1, 'second')],
    'BSC_open': [(0, 'first')],
    'BSC_chdir': [(0, 'first')],
    'BSC_chmod': [(0, 'first')],
    'BSC_chown': [(0, 'first')],
    'BSC_fsctl': [(0, 'first')],
    'BSC_getfh': [(0, 'first')],
    'BSC_mkdir': [(0, 'first')],
    'BSC_mknod': [(0, 'first')],
    'BSC_mount': [(0, 'first'), (1, 'second')],
    'BSC_rmdir': [(0, 'first')],
    'BSC_access': [(0, 'first')],
    'BSC_chroot': [(0, 'first')],
    'BSC_lchown': [(0, 'first')],
    'BSC_linkat': [(1, ('nth', 0, 0)), (3, ('nth', 1, 1))],
    'BSC_mkfifo': [(0, 'first')],
    'BSC_openat': [(1, 'first')],
    'BSC_rename': [(0, 'first'), (1, 'second')],
    'BSC_revoke': [(0, 'first')],
    'BSC_stat64': [(0, 'first')],
    'BSC_statfs': [(0, 'first')],
    'BSC_unlink': [(0, 'first')],
    'BSC_utimes': [(0, 'first')],
    'BSC_chflags': [(0, 'first')],
    'BSC_fstatat': [(1, 'first')],
    'BSC_lstat64': [(0, 'first')],
    'BSC_mkdirat': [(1, 'first')],
    'BSC_symlink': [(1, 'first')],
    'BSC_unmount': [(0, 'first')],
    'BSC_fchmodat': [(1, 'first')],
    'BSC_fchownat': [(1, 'first')],
    'BSC_getxattr': [(0, 'first')],
    'BSC_pathconf': [(0, 'first')],
    'BSC_quotactl': [(0, 'first')],
    'BSC_readlink': [(0, 'first')],
    'BSC_renameat': [(1, ('nth', 0, 0)), (3, ('nth', 1, 1))],
    'BSC_searchfs': [(0, 'first')],
    'BSC_setxattr': [(0, 'first')],
    'BSC_statfs64': [(0, 'first')],
    'BSC_truncate': [(0, 'first')],
    'BSC_undelete': [(0, 'first')],
    'BSC_unlinkat': [(1, 'first')],
    'BSC_faccessat': [(1, 'first')],
    'BSC_fstatat64': [(1, 'first')],
    'BSC_listxattr': [(0, 'first')],
    'BSC_symlinkat': [(0, ('nth', 0, 1)), (2, 'last')],
    'BSC_pivot_root': [(0, ('nth', 0, 0)), (1, ('nth', 1, 1))],
    'BSC_readlinkat': [(1, 'first')],
    'BSC_clonefileat': [(1, 'first'), (3, 'second')],
    'BSC_fs_snapshot': [(2, ('nth', 0, 0)), (3, ('nth', 1, 1))],
    'BSC_getattrlist': [(0, 'first')],
    'BSC_posix_spawn': [(1, 'spawn')],
    'BSC_removexattr': [(0, 'first')],
    'BSC_setattrlist': [(0, 'first')],
    'BSC_exchangedata': [(0, 'first'), (1, 'second')],
    'BSC_fclonefileat': [(2, 'first')],
    'BSC_renameatx_np': [(1, ('nth', 0, 0)), (3, ('nth', 1, 1))],
    'BSC_getattrlistat': [(1, 'first')],
    'BSC_open_nocancel': [(0, 'first')],
    'BSC_setattrlistat': [(1, 'first')],
    'BSC_guarded_open_np': [(0, 'first')],
    'BSC_openat_nocancel': [(1, 'first')],
    'BSC_open_dprotected_np': [(0, 'first')],
    'BSC_guarded_open_dprotected_np': [(0, 'first')],
}
TAIL_PATH = {'BSC_fsgetpath'}          # shows ` path: "<first lookup>"` in its result part


def shown(kind, paths):
    """The path a parameter of that kind must show, given the encoded paths in lookup order."""
    n = len(paths)
    if kind == 'first':
        return paths[0] if n else ''
    if kind == 'second':
        return paths[1] if n > 1 else ''
    if kind == 'last':
        return paths[-1] if n else ''
    if kind == 'spawn':
        return paths[3] if n >= 6 else (paths[0] if n else '')
    _, i, m = kind
    return paths[i] if n > m else ''


# ---------------------------------------------------------------------------------------------------------
# texts

ASCII = 'abcdefghijklmnopqrstuvwxyz/._-0123456789 ABCXYZ~+='
MULTI = {2: 'é', 3: '€', 4: '\U0001F600'}
ROOM = {'lookup': 24, 'gstring': 16, 'threadname': 32, 'threadname_prev': 32}


def boundaries(kind, length):
    b = ROOM[kind]
    out = []
    while b < length:
        out.append(b)
        b += 32
    return out


def ascii_text(rng, length):
    return ''.join(rng.choice(ASCII) for _ in range(length))


def utf8_text(rng, kind, length, fixed=None):
    """A text of exactly `length` UTF-8 bytes with a multi-byte character straddling every record boundary
    (fixed = (k, j): character size and how many of its bytes lie before the boundary)."""
    raw = bytearray()
    chars = []
    bs = boundaries(kind, length)

    def pad_to(pos):
        while len(raw) < pos:
            if pos - len(raw) >= 2 and rng.random() < 0.15:
                c = MULTI[2]
            else:
                c = rng.choice(ASCII)
            chars.append(c)
            raw.extend(c.encode())

    for b in bs:
        k, j = fixed if fixed else (rng.choice([2, 3, 4]), None)
        if j is None:
            j = rng.randrange(1, k)
        start = b - j
        if start < len(raw) or start + k > length:
            continue
        pad_to(start)
        if len(raw) != start:        # a 2-byte filler overshot
            continue
        chars.append(MULTI[k])
        raw.extend(MULTI[k].encode())
    pad_to(length)
    if len(raw) != length:           # overshoot by a 2-byte filler at the very end
        while len(raw) > length or len(''.join(chars).encode()) != length:
            c = chars.pop()
            del raw[len(raw) - len(c.encode()):]
            while len(raw) < length:
                chars.append('x')
                raw.extend(b'x')
    text = ''.join(chars)
    assert len(text.encode()) == length and '\0' not in text
    return text


def emphasis(kind, hi):
    out = set()
    for b in [ROOM[kind] + 32 * k for k in range(0, hi // 32 + 2)]:
        out.update(x for x in (b - 1, b, b + 1) if 0 <= x <= hi)
    return sorted(out)


# ---------------------------------------------------------------------------------------------------------
# section `reassembly`: one text through the whole parser, with other records interleaved

OTHER_TID = 4242
NOISE_SAME_LOOKUP = ['MACH_SCHED', 'MACH_MKRUNNABLE', 'DecrSet', '#undecodable', 'TRACE_DATA_THREAD_TERMINATE', 'BSC_getpid#pair']
NOISE_SAME_TRACE = ['MACH_SCHED', 'DecrSet', '#undecodable', 'BSC_getpid#pair', '#lookup',
                    '#td-terminate', '#td-terminate', '#proc-exit', '#exec-all', '#name', '#name', '#gstring', '#gstring']
UNDECODABLE = 0x7f0f0000


def emit_text(s, kind, tid, text, ident):
    if kind == 'lookup':
        return s.lookup(tid, text, ident)
    if kind == 'gstring':
        return s.gstring(tid, ident, text, debugid=0x1f2e3d4c)
    return s.threadname(tid, text, prev=(kind == 'threadname_prev'))


def noise_same(s, rng, kind, tid, trailing=False):
    """An unrelated record (or whole operation) of the SAME thread.  For strings / names this includes other
    trace-domain records — they land in the string's window — but never a record of the text's own code."""
    nm = rng.choice(NOISE_SAME_LOOKUP if kind == 'lookup' else NOISE_SAME_TRACE)
    if nm == '#name' and (trailing or kind == 'lookup'):
        nm = '#td-terminate'
    if nm == '#gstring' and kind == 'gstring':
        nm = '#name'
        if trailing:
            nm = '#proc-exit'
    if nm == '#td-terminate':
        s.ev('TRACE_DATA_THREAD_TERMINATE', NONE, tid, [0x41424344, 0, 0, 0])
    elif nm == '#proc-exit':
        s.ev('TRACE_STRING_PROC_EXIT', NONE, tid, data=s.name32('xyz' + ascii_text(rng, rng.choice([0, 5, 29]))))
    elif nm == '#exec-all':
        s.ev('TRACE_DATA_EXEC', 3, tid, [rng.randrange(1, 50), 1, 2, 0])
    elif nm == '#name':
        # a WHOLE thread name of the other kind (another event id) inside the text
        s.threadname(tid, 'in' + ascii_text(rng, rng.choice([3, 31, 32, 40, 70])), prev=(kind == 'threadname'))
    elif nm == '#gstring':
        s.gstring(tid, 900 + rng.randrange(5), 'inner' + ascii_text(rng, rng.choice([2, 11, 12, 50])))
    elif nm == '#undecodable':
        s.ev(None, rng.choice([NONE, 3]), tid, [1, 2, 3, 4], eid=UNDECODABLE)
    elif nm == 'BSC_getpid#pair':
        s.ev('BSC_getpid', START, tid, [0, 0, 0, 0])
        s.ev('BSC_getpid', END, tid, [0, 7, 0, 0])
    elif nm == '#lookup':
        s.lookup(tid, '/noise/' + ascii_text(rng, rng.choice([3, 20, 40])), 5)
    elif nm == 'TRACE_DATA_THREAD_TERMINATE':
        s.ev(nm, NONE, tid, [991, 0, 0, 0])
    else:
        s.ev(nm, NONE, tid, PL.good_args(nm) or [1, 2, 3, 4])


def noise_other(s, rng):
    r = rng.random()
    t = OTHER_TID
    if r < 0.3:
        s.lookup(t, '/other/' + ascii_text(rng, rng.choice([2, 30, 60])), 6)
    elif r < 0.45:
        s.ev('VFS_LOOKUP', START, t, data=(8).to_bytes(8, 'little') + b'/dangling'.ljust(24, b'\0'))
    elif r < 0.6:
        s.gstring(t, 3, 'other' + ascii_text(rng, rng.choice([2, 30])))
    elif r < 0.7:
        s.threadname(t, 'oth' + ascii_text(rng, rng.choice([2, 40])))
    elif r < 0.85:
        s.ev('BSC_open', rng.choice([START, END]), t, [1, 2, 3, 4])
    else:
        s.ev('MACH_SCHED', NONE, t, [1, 2, 3, 4])


def reassembly_case(rng, kind, text, style):
    """style: contiguous | other | same | both | window (lookups inside an enclosing syscall window)."""
    s = Stream(rng)
    tid = rng.choice([5, 77, 0x1234])
    ident = rng.choice([0, 1, 7, 0xdeadbeef, (1 << 64) - 1, rng.randrange(1 << 64)])
    if kind == 'gstring':
        ident = rng.choice([0, 1, 5, 0xfeedface, rng.randrange(1 << 64)])
    if style in ('both', 'other') and rng.random() < 0.5:
        noise_other(s, rng)
    if style == 'window':
        s.ev('BSC_open', START, tid, [0, 0x601, 0x1a4, 0])
    pre = len(s.recs)
    # build the text's records on a side stream, then splice the noise between them
    side = Stream(rng)
    side.ts = 100000
    chunks = emit_text(side, kind, tid, text, ident)
    chunk_ts = []
    for i, c in enumerate(chunks):
        s.ts += 1
        rec = s.ts.to_bytes(8, 'little') + c[8:]
        s.recs.append(rec)
        chunk_ts.append(s.ts)
        if i < len(chunks) - 1 or rng.random() < 0.3:
            if style in ('other', 'both'):
                for _ in range(rng.randrange(1, 3)):
                    noise_other(s, rng)
            if style in ('same', 'both', 'window') and rng.random() < 0.8:
                noise_same(s, rng, kind, tid, trailing=(i == len(chunks) - 1))
    if style == 'window':
        s.ev('BSC_open', END, tid, [0, 3, 0, 0])
    case = PL.make_case_from(s.recs, extra=('VFS_LOOKUP', 'TRACE_STRING_GLOBAL', 'TRACE_STRING_THREADNAME',
                                            'TRACE_STRING_THREADNAME_PREV', 'TRACE_DATA_THREAD_TERMINATE',
                                            'TRACE_STRING_PROC_EXIT', 'TRACE_DATA_EXEC'))
    case['meta'] = {'kind': kind, 'tid': tid, 'text': text, 'ident': ident, 'chunk_ts': chunk_ts, 'style': style,
                    'len': len(text.encode())}
    del pre
    return case


def expected_text(kind, text, ident):
    if kind == 'lookup':
        return 'lookup("%s"), vnode id: %d' % (text, ident)
    if kind == 'gstring':
        return 'New global string: "%s", id: %d' % (text, ident)
    if kind == 'threadname':
        return 'New thread name: ' + text
    return 'Thread terminated name: ' + text


def text_traces(traces, chunk_ts):
    cs = set(chunk_ts)
    return [t for t in traces if t['ts'] and t['ts'][0] in cs]


def reassembly_oracle(case, ans):
    """Stated on the implementation's answer only: the harness knows the text it encoded."""
    m = case['meta']
    kind = m['kind']
    if not ans.startswith('ok '):
        return ('reassembly:%s:exception' % kind, 'the pipeline raised: %s' % ans)
    traces, err, tabs = PL.parse_answer(ans)
    if err != '-':
        return ('reassembly:%s:exception' % kind,
                'a %d-byte %s raised %s and ended the stream (style %s)' % (m['len'], kind, err, m['style']))
    mine = text_traces(traces, m['chunk_ts'])
    want = expected_text(kind, m['text'], m['ident'])
    if len(mine) > 1:
        extra = [t for t in mine if t['ts'][0] != m['chunk_ts'][0]]
        return ('reassembly:%s:continuation-trace' % kind,
                '%d traces begin with a record of one %d-byte %s (%d records); e.g. a trace for record at %s: %r'
                % (len(mine), m['len'], kind, len(m['chunk_ts']), (extra or mine)[0]['ts'], (extra or mine)[0]['text']))
    if not mine:
        return ('reassembly:%s:no-trace' % kind, 'no trace for a %d-byte %s of %d records' % (m['len'], kind, len(m['chunk_ts'])))
    t = mine[0]
    if t['ts'][0] != m['chunk_ts'][0]:
        return ('reassembly:%s:continuation-trace' % kind, 'the only trace begins with a continuation record')
    if [x for x in t['ts'] if x in set(m['chunk_ts'])] != m['chunk_ts']:
        return ('reassembly:%s:wrong-records' % kind, 'ktraces %s do not hold the records %s in order' % (t['ts'], m['chunk_ts']))
    if kind == 'gstring' and t['ts'] != m['chunk_ts'] and t['text'] == want:
        return ('reassembly:gstring:wrong-records', 'ktraces %s are not exactly the records of the string %s' % (t['ts'], m['chunk_ts']))
    if t['text'] != want:
        return ('reassembly:%s:wrong-text' % kind,
                '%d-byte %s (%d records): shown %r, encoded %r' % (m['len'], kind, len(m['chunk_ts']), t['text'], want))
    if kind == 'gstring' and m['text']:
        gs = dict(x.split(':') for x in tabs['gs'].split(',')) if tabs['gs'] != '-' else {}
        if gs.get(str(m['ident'])) != core.hs(m['text']):
            return ('reassembly:gstring:wrong-table', 'global_strings[%d] is not the encoded text' % m['ident'])
    if kind.startswith('threadname'):
        tn = dict(x.split(':') for x in tabs['tn'].split(',')) if tabs['tn'] != '-' else {}
        if tn.get(str(m['tid'])) != core.hs(m['text']):
            return ('reassembly:threadname:wrong-table', 'tids_names[%d] is not the encoded name' % m['tid'])
    return None


def reassembly_cases(rng, tier):
    hi = 200 if tier == 'quick' else 400
    cases = []
    kinds = ['lookup', 'gstring', 'threadname', 'threadname_prev']
    for kind in kinds:
        styles = ['contiguous', 'other', 'same', 'both'] + (['window'] if kind == 'lookup' else [])
        emph = set(emphasis(kind, hi))
        for length in range(0, hi + 1):
            full = length in emph or tier != 'quick'
            cases.append(reassembly_case(rng, kind, ascii_text(rng, length), 'contiguous'))
            cases.append(reassembly_case(rng, kind, utf8_text(rng, kind, length), styles[length % len(styles)]))
            if full:
                for st in styles:
                    cases.append(reassembly_case(rng, kind, ascii_text(rng, length), st))
                    cases.append(reassembly_case(rng, kind, utf8_text(rng, kind, length), st))
            else:
                cases.append(reassembly_case(rng, kind, ascii_text(rng, length), rng.choice(styles[1:])))
        # a multi-byte character across EVERY boundary, every size and every split point
        for nb in range(1, 5 if tier == 'quick' else 13):
            for rep in range(1 if tier == 'quick' else 3):
                length = ROOM[kind] + 32 * (nb - 1) + rng.randrange(3, 20)
                for k in (2, 3, 4):
                    for j in range(1, k):
                        cases.append(reassembly_case(rng, kind, utf8_text(rng, kind, length, fixed=(k, j)),
                                                     rng.choice(styles)))
    return cases


# ---------------------------------------------------------------------------------------------------------
# section `syscall-paths`: every path-taking decoder x number of lookups, through the whole parser

def discover_path_decoders():
    """Handlers whose text changes with the lookups in their window (found on the real code)."""
    out = []
    for n in D.supported_names():
        base = PL.good_args(n)
        if base is None:
            continue
        c0 = {'name': n, 'start': base, 'end': [0, 1, 0, 0], 'tid': 9, 'lookups': [], 'gs': {}, 'tp': {}, 'tn': {}}
        c1 = dict(c0, lookups=[['/QQ1', 1], ['/QQ2', 2], ['/QQ3', 3], ['/QQ4', 4], ['/QQ5', 5], ['/QQ6', 6]])
        try:
            if D.impl_fn(c0) != D.impl_fn(c1):
                out.append(n)
        except Exception:
            out.append(n)
    return out


def distinct_paths(rng, n):
    lens = [rng.choice([1, 5, 23, 24, 25, 30, 56, 57, 70, 120]) for _ in range(n)]
    out = []
    for i, ln in enumerate(lens):
        body = utf8_text(rng, 'lookup', max(ln - 3, 0)) if rng.random() < 0.3 else ascii_text(rng, max(ln - 3, 0))
        body = body.replace('"', 'q').replace(',', 'c')
        out.append('/%d/' % i + body)
    return out


def syscall_case(rng, name, nlookups, style, same_ts=False):
    s = Stream(rng)
    tid = rng.choice([6, 88])
    a = PL.good_args(name) or [1, 2, 3, 4]
    paths = distinct_paths(rng, nlookups)
    vnodes = [rng.randrange(1, 1 << 48) for _ in range(nlookups)]
    if style != 'contiguous':
        noise_other(s, rng)
    s.ev(name, START, tid, a)
    start_ts = s.ts
    lk_ts = []
    for p, v in zip(paths, vnodes):
        if same_ts:
            s.ts = 5000
        recs = s.lookup(tid, p, v)
        lk_ts.append(list(range(s.ts - len(recs) + 1, s.ts + 1)))
        if style != 'contiguous':
            if rng.random() < 0.6:
                noise_same(s, rng, 'lookup', tid)
            if rng.random() < 0.6:
                noise_other(s, rng)
    if same_ts:
        s.ts = 9000
    s.ev(name, END, tid, [0, 3, 0, 0])
    case = PL.make_case_from(s.recs)
    case['meta'] = {'name': name, 'tid': tid, 'paths': paths, 'vnodes': vnodes, 'start_ts': start_ts, 'lookup_ts': lk_ts,
                    'style': style}
    return case


def syscall_oracle(case, ans):
    m = case['meta']
    name = m['name']
    if not ans.startswith('ok '):
        return ('paths:%s:exception' % name, ans)
    traces, err, _ = PL.parse_answer(ans)
    if err != '-':
        return ('paths:%s:exception' % name, '%s with %d lookups raised %s' % (name, len(m['paths']), err))
    # one lookup trace per lookup, exact text and vnode id
    for p, v, ts in zip(m['paths'], m['vnodes'], m['lookup_ts']):
        mine = text_traces(traces, ts)
        want = expected_text('lookup', p, v)
        if len(mine) != 1 or mine[0]['text'] != want or mine[0]['ts'][0] != ts[0]:
            return ('reassembly:lookup:in-window', 'lookup %r inside %s: traces %r' % (p, name, [(t['ts'], t['text']) for t in mine]))
    sys_tr = [t for t in traces if t['ts'] and t['ts'][0] == m['start_ts']]
    if len(sys_tr) != 1 or sys_tr[0]['text'] is None:
        return ('paths:%s:no-trace' % name, 'no rendered trace for the syscall window: %r' % sys_tr)
    text = sys_tr[0]['text']
    sp = D.split_call(text)
    if sp is None:
        return ('paths:%s:not-call-shaped' % name, text)
    params = sp[1]
    for pos, kind in EXPECT.get(name, []):
        want = '"%s"' % shown(kind, m['paths'])
        got = params[pos] if pos < len(params) else None
        if got != want:
            idx = {'first': 0, 'second': 1, 'last': -1, 'spawn': 3 if len(m['paths']) >= 6 else 0}.get(kind, kind[1] if isinstance(kind, (list, tuple)) else 0)
            return ('paths:%s:param-%d' % (name, pos),
                    '%s with %d lookups %r: parameter %d shows %s, the looked-up path (lookup %s) is %s; text %r'
                    % (name, len(m['paths']), m['paths'], pos, got, idx, want, text))
    if name in TAIL_PATH and m['paths']:
        if (' path: "%s"' % m['paths'][0]) not in sp[2]:
            return ('paths:%s:tail' % name, 'result part %r does not show the looked-up path %r' % (sp[2], m['paths'][0]))
    return None


def k5_oracle(case, ans):
    """Finding stream: two byte-identical lookups (same timestamps)."""
    r = syscall_oracle(case, ans)
    if r is None:
        return None
    m = case['meta']
    second = [pos for pos, kind in EXPECT.get(m['name'], []) if kind == 'second']
    if second and r[0] == 'paths:%s:param-%d' % (m['name'], second[0]) and 'shows ""' in r[1]:
        return (K5_SIG, r[1])
    return r


def k5_case(rng, name):
    """`name(old, new)` where both lookups are the same path/vnode with the same timestamps."""
    s = Stream(rng)
    tid = 6
    a = PL.good_args(name) or [1, 2, 3, 4]
    s.ev(name, START, tid, a)
    start_ts = s.ts
    path, vn = '/tmp/a', 0x77
    s.ts = 5000
    r1 = s.lookup(tid, path, vn)
    s.ts = 5000
    s.lookup(tid, path, vn)
    s.ts = 9000
    s.ev(name, END, tid, [0, 0, 0, 0])
    case = PL.make_case_from(s.recs)
    ts = list(range(5001, 5001 + len(r1)))
    case['meta'] = {'name': name, 'tid': tid, 'paths': [path, path], 'vnodes': [vn, vn], 'start_ts': start_ts,
                    'lookup_ts': [], 'style': 'k5', 'ts': ts}
    return case


def line(case):
    return PL.line(case)


def impl_fn(case):
    return PL.impl_fn(case)


def correspondence(rep, rng, tier):
    # 1. one text, whole parser
    cases = reassembly_cases(rng, tier)
    core.run_section(
        rep, 'reassembly', cases, line_fn=line, impl_fn=impl_fn, oracle_fn=reassembly_oracle, skip_fn=PL.unmodelled,
        nontrivial_fn=lambda c, got: len(c['meta']['chunk_ts']) > 1,
        kind_fn=lambda c, got: '%s/%d-records' % (c['meta']['kind'], min(len(c['meta']['chunk_ts']), 5)),
        rule='lookups / global strings / thread names (+_PREV) of every byte length 0..%d (extra cases at 24+32k±1, 16+32k±1, '
             '32k±1), ASCII and UTF-8 texts with a 2/3/4-byte character straddling every record boundary at every split point; '
             'fed contiguously, with other-thread records (lookups, dangling STARTs, strings, syscall STARTs/ENDs), with unrelated '
             'same-thread records (scheduler records, undecodable codes, whole getpid windows; for strings also whole lookups) '
             'and inside an enclosing syscall window; Lean `Trace.run` vs TracesParser.feed_generator; non-trivial = more than '
             'one record' % (200 if tier == 'quick' else 400),
        sample_fn=lambda c: {'kind': c['meta']['kind'], 'len': c['meta']['len'], 'records': len(c['meta']['chunk_ts']),
                             'style': c['meta']['style']})
    # 2. every path-taking decoder x number of lookups
    found = discover_path_decoders()
    listed = sorted(set(EXPECT) | TAIL_PATH)
    if sorted(found) != listed:
        rep.broken.append('path-taking decoders found on the real code differ from the reference table: only found %s, only '
                          'listed %s' % (sorted(set(found) - set(listed)), sorted(set(listed) - set(found))))
    names = sorted(set(found) | set(listed), key=lambda n: (len(n), n))
    names = [n for n in names if n in PL.IDS]
    counts = [0, 1, 2, 3, 4, 6]
    scases = []
    for n in names:
        for k in counts:
            scases.append(syscall_case(rng, n, k, 'contiguous'))
            if tier != 'quick' or k in (2, 6):
                scases.append(syscall_case(rng, n, k, 'noisy'))
        if tier != 'quick':
            for k in (0, 1, 2, 2, 3, 5, 6, 7, 9):
                scases.append(syscall_case(rng, n, k, rng.choice(['noisy', 'contiguous'])))
    core.run_section(
        rep, 'syscall-paths', scases, line_fn=line, impl_fn=impl_fn, oracle_fn=syscall_oracle, skip_fn=PL.unmodelled,
        nontrivial_fn=lambda c, got: len(c['meta']['paths']) > 0,
        kind_fn=lambda c, got: '%d-lookups' % len(c['meta']['paths']),
        rule='every path-taking decoder (%d, found by rendering all handlers of the real code with and without lookups) x '
             '0,1,2,3,4,6 kernel-encoded lookups with distinct paths (1..120 bytes, some UTF-8) inside its START/END window, '
             'contiguous and with unrelated same-thread / other-thread records in between, through the whole parser; oracle: one '
             'lookup trace per lookup with exactly its path and vnode id, and the syscall text shows at each path position the '
             'encoded path of the lookup the reference table names' % len(names),
        sample_fn=lambda c: {'decoder': c['meta']['name'], 'lookups': len(c['meta']['paths'])})
    # 3. finding stream K5: two byte-identical lookups
    knames = [n for n, e in sorted(EXPECT.items()) if any(k == 'second' for _, k in e) and n in PL.IDS]
    kcases = [k5_case(rng, n) for n in knames]
    core.run_section(
        rep, 'identical-lookups', kcases, line_fn=line, impl_fn=impl_fn, oracle_fn=k5_oracle, skip_fn=PL.unmodelled,
        nontrivial_fn=lambda c, got: True, kind_fn=lambda c, got: c['meta']['name'],
        rule='finding stream (K5): every decoder with a second-phase lookup (%s) on a window whose two lookups are '
             'byte-identical records (same path, vnode and timestamps)' % ', '.join(knames))
    # 4. the whole-parser model on random scenarios (keeps Model/Trace tied)
    PL.section_pipeline(rep, rng, tier, n=150 if tier == 'quick' else 4000)
    rep.notes.append('reference table: %d decoders with path parameters + %s (result path)' % (len(EXPECT), sorted(TAIL_PATH)))


ORACLES = {'reassembly': reassembly_oracle, 'syscall-paths': syscall_oracle, 'identical-lookups': k5_oracle}


def replay(path):
    with open(path) as fd:
        r = json.load(fd)
    rp = r.get('replay') or {}
    if 'case' not in rp:
        print('nothing to replay (no failing input was recorded):', r.get('no_longer_checks'))
        return 1
    case, sec = rp['case'], rp.get('section', 'reassembly')
    try:
        got = impl_fn(case)
    except Exception as e:
        got = 'err ' + core.err_name(e)
    model = core.drive([line(case)])[0]
    print('meta :', json.dumps(case.get('meta'), ensure_ascii=False)[:600])
    for nm, a in (('impl ', got), ('model', model)):
        print(nm + ':')
        try:
            traces, err, tabs = PL.parse_answer(a)
            for t in traces:
                print('    %-28s %s %r' % (t['name'], t['ts'], t['text'] if t['text'] is not None else t['raw']))
            print('    err=%s' % err)
        except Exception:
            print('   ', a[:500])
    oracle = ORACLES.get(sec)
    res = oracle(case, got) if oracle else None
    if res:
        print('oracle:', res[0], '-', res[1])
        if core.Findings().known('C08', res[0]):
            print('KNOWN-FINDING: property=C08', res[0])
            return 0
        print(f'VIOLATION property=C08 replay={path}')
        return 1
    print('oracle: property holds on this input')
    return 0 if got == model else 1
