import KdVerif.Model.Callstacks
/-
  Declarative vocabulary of property C15 (independent of how the code computes):
  the invariant of the image table, announcement histories, and what "attributed to the right
  image" means with respect to a history.
-/
namespace KdVerif.Callstacks

/-- The invariant of the two parallel lists: addresses strictly ascending, equal lengths. -/
def Inv (st : Images) : Prop := st.addrs.Pairwise (· < ·) ∧ st.addrs.length = st.uuids.length

/-- The table as (load address, uuid) pairs. -/
def pairs (st : Images) : List (Nat × Uuid) := st.addrs.zip st.uuids

/-- The announcements an item of the trace stream makes, in the order they are inserted
    (a launch announces its image list in `sorted` order). -/
def announced : Item → List (Nat × Uuid)
  | .image a u => [(a, u)]
  | .launch imgs => sortByAddr imgs
  | _ => []

/-- Everything announced by a stretch of the stream, in order. -/
def announcedAll (s : List Item) : List (Nat × Uuid) := s.flatMap announced

/-- A qualifying user-stack sample: `cs_frames is not None`. -/
def qualifies : Item → Bool
  | .sample f r => (csFrames f r).isSome
  | _ => false

/-- `(a, u)` is the FIRST announcement of load address `a` in the history. -/
def FirstAnnounced (anns : List (Nat × Uuid)) (a : Nat) (u : Uuid) : Prop :=
  anns.find? (fun p => p.1 = a) = some (a, u)

/-- The frame is attributed as the property demands with respect to the announcement history:
    no image iff every announced load address is above the frame; otherwise the image is the first
    identity of the greatest announced address not above the frame and the offset is the
    (non-negative) distance from it. -/
def Attributed (anns : List (Nat × Uuid)) (fr : Frame) : Prop :=
  (fr.image = none ↔ ∀ p ∈ anns, fr.address < p.1) ∧
  ∀ u off, fr.image = some (u, off) →
    ∃ a, FirstAnnounced anns a u ∧ a ≤ fr.address ∧ off = ((fr.address - a : Nat) : Int) ∧
      ∀ p ∈ anns, p.1 ≤ fr.address → p.1 ≤ a

end KdVerif.Callstacks
