import KdVerif.Model.ContainerV2
import KdVerif.Model.ContainerV3
import KdVerif.Model.TracePipeline
import KdVerif.Model.Format
import KdVerif.Gen.Consts
/-
  The layers composed: bytes of a version-2 or version-3 dump -> `KdBufParser.parse` (Model/ContainerV2,
  Model/ContainerV3) -> event filter, `TracesParser`, post-filters (Model/TracePipeline) -> `_format_trace`
  (Model/Format) = the lines `PyKdebugParser.formatted_traces(BytesIO(file), codes)` yields (colour off).  No new logic:
  only the glue between the layer models, so that the tie to the code also covers the glue of the real pipeline.

  Version 3 (`parse_v3` is a generator, so nothing of it runs before the first `next`): header and thread-map chunk are
  read when the trace layer asks for the first event — an exception there ends the request without a line; then
  `set_thread_map`; the records of all chunks in file order; `kevents` drops the log records
  (`not isinstance(e, OsLogEvent)`), but to find out that no event follows the last record the filter keeps advancing
  the container generator through the additional-data blocks and the log loop — an exception raised there (undecodable
  property list, missing key, unknown string id) surfaces after the last line; the tables are extended by log records
  only then, when every trace has been yielded and formatted.  `plist` is `plistlib.loads` as far as the container
  parser looks at the result (Model/ContainerV3); the version-2 branch ignores it.
-/
namespace KdVerif.EndToEnd
open KdVerif.Trace KdVerif.Filters

def decodeRecord (bs : Bytes) : Except PyErr Kevent :=
  decodeWith Gen.Consts.kdBufFormat Gen.Consts.eventidMask Gen.Consts.funcMask bs

/-- Thread names were validated as UTF-8 by the container model (`CString('utf8')`); the default is unreachable. -/
def utf8 (bs : Bytes) : String :=
  (String.fromUTF8? (ByteArray.mk (bs.map UInt8.ofNat).toArray)).getD ""

def threadMapOf (tm : List ThreadEntry) : Declared.ThreadMap := tm.map fun e => (e.tid, e.pid, utf8 e.name)

/-- The state of a `KdBufParser` that `kevents` has just constructed, as far as the composition looks at it (the two
    shared tables are cleared by `set_thread_map` before the first event; the events and the final exception do not
    depend on it: `Proofs/EndToEnd.dumpOf_is_parse`). -/
def freshParser : PState := ⟨Tables.empty, {}⟩

/-- The dump as the trace layer sees it, and the exception the container reader ends with, if any (raised after the
    last complete record was delivered — for a version-3 dump possibly in the blocks behind the last chunk).
    `.error`: neither magic (`KeyError` of `self.versions[version]`) / unreadable header or thread-map chunk (raised at
    the first `next`, before any event). -/
def dumpOf (plist : Bytes → Option PView) (file : Bytes) : Except PyErr (TracePipeline.Dump × Option PyErr) :=
  let p := (Reader.ofBytes file).read Gen.Consts.RAW_VERSION_SIZE
  if p.1 = Gen.Consts.RAW_VERSION2_BYTES then
    match headerV2 p.2 with
    | (.error e, _) => .error e
    | (.ok h, _) =>
      let run := parseV2 decodeRecord Tables.empty p.2
      .ok ({ threadMap := threadMapOf h.threadmap, events := run.events }, run.err)
  else if p.1 = Gen.Consts.RAW_VERSION3_BYTES then
    match headerV3 plist p.2 with
    | (.error e, _) => .error e
    | (.ok _, r1) =>
      match threadmapV3 r1 with
      | (.error e, _) => .error e
      | (.ok tm, _) =>
        -- all chunks' records, then (dropped by `kevents`) the log records; `run.err` may come from the blocks
        let run := parseV3 plist decodeRecord freshParser p.2
        .ok ({ threadMap := threadMapOf tm, events := run.events }, run.err)
  else .error .keyError

/-- no payload loads: enough for version-2 dumps, which carry no property list. -/
def noPlist : Bytes → Option PView := fun _ => none

def fmtTables (t : Tabs) : Format.Tables :=
  { threadsPids := t.threadsPids.map fun (k, v) => (k, (v : Int)),
    pidsNames := t.pidsNames.map fun (k, v) => ((k : Int), v) }

/-- Lines until the first trace whose `str()` raises. -/
def formatAll (sh : Format.Show) : List (TraceOut × Tabs) → List String × Option PyErr
  | [] => ([], none)
  | (o, t) :: rest =>
    match o.text with
    | .error e => ([], some e)
    | .ok body =>
      let line := Format.formatTrace sh Format.Colour.off (fmtTables t)
        { timestamp := (firstOf o.events).timestamp, tid := (firstOf o.events).tid, body := body }
      let (ls, err) := formatAll sh rest
      (line :: ls, err)

/-- `list(parser.formatted_traces(BytesIO(file), codes))` up to the first exception. -/
def formattedTraces (env : Env) (obj : TracePipeline.Obj) (sh : Format.Show) (plist : Bytes → Option PView)
    (file : Bytes) : List String × Option PyErr :=
  match dumpOf plist file with
  | .error e => ([], some e)
  | .ok (d, cerr) =>
    let res := (TracePipeline.traces env obj d).1
    let (lines, lerr) := formatAll sh res.traces
    (lines, match lerr with
            | some e => some e
            | none => match res.err with
              | some e => some e
              | none => cerr)

end KdVerif.EndToEnd
