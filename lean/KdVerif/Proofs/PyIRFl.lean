import KdVerif.Spec.PyIRFlExpected
/-
  The expected IR of `_is_eventid_allowed`, `kevents`, `os_log_events` and `_filter_process_callback`
  (`Spec/PyIRFlExpected`), run by the interpreter of `Model/PyIRFl`, is `Filters.isEventidAllowed` / `Filters.kevents` /
  `Filters.osLogEvents` / the process test of `TracePipeline.processMatches` — for every configuration, optional class
  list and stream.  (`traces`: `Proofs/PyIRFlTraces`.)  Core Lean only.
-/
set_option linter.unusedSimpArgs false
namespace KdVerif.PyIRFl
open KdVerif.Filters

theorem filterE_ok {α : Type} (p : α → Except PyErr Bool) (q : α → Bool) :
    ∀ (l : List α), (∀ x ∈ l, p x = .ok (q x)) → filterE p l = .ok (l.filter q)
  | [], _ => rfl
  | x :: xs, h => by
    have hx := h x (by simp)
    have ih := filterE_ok p q xs (fun y hy => h y (by simp [hy]))
    simp only [filterE, hx, ih, bindE_ok, List.filter_cons]

theorem memNat_natCast (m : Nat) (l : List Nat) : memNat (m : Int) l = l.contains m := by
  simp [memNat]

theorem memNat_shr (n k : Nat) (l : List Nat) : memNat ((n : Int) >>> k) l = l.contains (n >>> k) :=
  memNat_natCast (n >>> k) l

@[simp] theorem truthy_bool (w : World) (b : Bool) : truthy w (.bool b) = .ok b := rfl
@[simp] theorem truthy_none (w : World) : truthy w .none = .ok false := rfl

/-- the list object `filter_class` stands for after `self.filter_class if filter_class is None else filter_class` -/
def classRef : Val → Option Ref
  | .none => some .selfClass
  | .ref r => some r
  | _ => Option.none

theorem eval_classOrOwn (call : CallFn) (w : World) (env : Env) (fcv : Val) (r : Ref)
    (h1 : env 1 = some fcv) (hr : classRef fcv = some r) :
    eval call w env Expected.classOrOwn = .ok (.ref r) := by
  cases fcv <;> simp only [classRef, reduceCtorEq, Option.some.injEq] at hr <;> subst hr <;>
    simp [Expected.classOrOwn, eval, h1, getAttr]

theorem callAt_allowed (p : Prog) (hA : p.isEventidAllowed = Expected.isEventidAllowed) (d : Nat) (w : World) (eid : Nat) (fcv : Val) (r : Ref) (fc : List Nat)
    (hr : classRef fcv = some r) (hfc : w.heap.deref r = some fc) :
    callAt p (d + 1) .isEventidAllowed [.int eid, fcv] w
      = .ok (.bool (isEventidAllowed w.heap.cfg eid fc)) := by
  have hc := fun call => eval_classOrOwn call w (Env.ofArgs [.int eid, fcv]) fcv r rfl hr
  have hg : p.get .isEventidAllowed = Expected.isEventidAllowed := hA
  have hs : w.heap.deref .selfSubclass = some w.heap.cfg.filterSubclass := rfl
  have hpad : padArgs Expected.isEventidAllowed [.int eid, fcv] = some [.int eid, fcv] := rfl
  have h0 : Env.ofArgs [Val.int eid, fcv] 0 = some (.int eid) := rfl
  simp only [callAt, hg, runBlock, hpad]
  simp only [Expected.isEventidAllowed, exec, eval, hc, h0, bindE_ok, hfc, hs, getAttr, memNat_shr, truthy_bool]
  by_cases h : eid >>> 24 ∈ fc <;> simp [isEventidAllowed, h]

theorem truthy_ref (w : World) (r : Ref) (l : List Nat) (h : w.heap.deref r = some l) :
    truthy w (.ref r) = .ok (!l.isEmpty) := by
  simp only [truthy, h]

def stK1 : Stage := ⟨3, .not (.isLog (.var 3))⟩
def stK2 : Stage := ⟨4, .eq (.field (.var 4) .tid) (.self .filterTid)⟩
def stK3 : Stage := ⟨5, .call2 .isEventidAllowed (.field (.var 5) .eventid) Expected.classOrOwn⟩

def stagesK (cfg : Cfg) (fc : List Nat) : List Stage :=
  [stK1] ++ (if cfg.filterTid.isSome then [stK2] else []) ++
    (if !fc.isEmpty || !cfg.filterSubclass.isEmpty then [stK3] else [])

theorem Env.set_same (env : Env) (v : Nat) (x : Val) : env.set v x v = some x := by simp [Env.set]
theorem Env.set_other (env : Env) (v j : Nat) (x : Val) (h : j ≠ v) : env.set v x j = env j := by simp [Env.set, h]

/-- `if c: v = filter(lambda x: p, v)` followed by `next` -/
theorem exec_stage_if (call : CallFn) (w : World) (env : Env) (c : Expr) (v x : Nat) (p : Expr) (next : Stmt)
    (cv : Val) (b : Bool) (so : Src) (st : List Stage)
    (hc : eval call w env c = .ok cv) (ht : truthy w cv = .ok b) (hv : env v = some (.stream so st)) :
    ∃ env' : Env, (∀ j, j ≠ v → env' j = env j) ∧ env' v = some (.stream so (st ++ if b then [⟨x, p⟩] else [])) ∧
      exec call (.ite c (.assignFilter v x p (.var v) .done) .done next) env w = exec call next env' w := by
  cases b
  · exact ⟨env, fun _ _ => rfl, by simpa using hv, by simp [exec, hc, ht]⟩
  · exact ⟨env.set v (.stream so (st ++ [⟨x, p⟩])), fun j hj => Env.set_other _ _ _ _ hj, by simp [Env.set],
      by simp [exec, eval, hc, ht, hv]⟩

/-- `if not c: v = filter(lambda x: p, v)` followed by `next` (the translator never emits `not c` as a condition) -/
theorem exec_stage_unless (call : CallFn) (w : World) (env : Env) (c : Expr) (v x : Nat) (p : Expr) (next : Stmt)
    (cv : Val) (b : Bool) (so : Src) (st : List Stage)
    (hc : eval call w env c = .ok cv) (ht : truthy w cv = .ok b) (hv : env v = some (.stream so st)) :
    ∃ env' : Env, (∀ j, j ≠ v → env' j = env j) ∧ env' v = some (.stream so (st ++ if b then [] else [⟨x, p⟩])) ∧
      exec call (.ite c .done (.assignFilter v x p (.var v) .done) next) env w = exec call next env' w := by
  cases b
  · exact ⟨env.set v (.stream so (st ++ [⟨x, p⟩])), fun j hj => Env.set_other _ _ _ _ hj, by simp [Env.set],
      by simp [exec, eval, hc, ht, hv]⟩
  · exact ⟨env, fun _ _ => rfl, by simpa using hv, by simp [exec, hc, ht]⟩

/-- `v = filter(lambda x: p, v)` followed by `next` -/
theorem exec_stage (call : CallFn) (w : World) (env : Env) (v x : Nat) (p : Expr) (next : Stmt)
    (so : Src) (st : List Stage) (hv : env v = some (.stream so st)) :
    ∃ env' : Env, (∀ j, j ≠ v → env' j = env j) ∧ env' v = some (.stream so (st ++ [⟨x, p⟩])) ∧
      exec call (.assignFilter v x p (.var v) next) env w = exec call next env' w :=
  ⟨env.set v (.stream so (st ++ [⟨x, p⟩])), fun j hj => Env.set_other _ _ _ _ hj, by simp [Env.set],
    by simp [exec, eval, hv]⟩

theorem eval_isNone_attr (call : CallFn) (w : World) (env : Env) (a : Attr) :
    eval call w env (.isNone (.self a)) = .ok (.bool (getAttr w.heap.cfg a == .none)) := by
  simp [eval]

def kev3 : Stmt :=
  .ite (.or Expected.classOrOwn (.self .filterSubclass)) (.assignFilter 2 stK3.param stK3.body (.var 2) .done) .done
    (.ret (.var 2))
def kev2 : Stmt := .ite (.isNone (.self .filterTid)) .done (.assignFilter 2 stK2.param stK2.body (.var 2) .done) kev3
def kev1 : Stmt := .assignFilter 2 stK1.param stK1.body (.var 2) kev2

theorem kevents_body :
    Expected.kevents.body = .assign 2 (.parseStream (.self .threadsPids) (.self .pidsNames) (.var 0)) kev1 := rfl

theorem runBlock_kevents (call : CallFn) (w : World) (fcv : Val) (r : Ref) (fc : List Nat)
    (hr : classRef fcv = some r) (hfc : w.heap.deref r = some fc) :
    ∃ env : Env, env 1 = some fcv ∧
      runBlock call Expected.kevents [.kdebug, fcv] w = .ok (.stream .parse (stagesK w.heap.cfg fc), env, w) := by
  have hpad : padArgs Expected.kevents [.kdebug, fcv] = some [.kdebug, fcv] := rfl
  -- events_generator = KdBufParser(…).parse(kdebug)
  let env0 : Env := (Env.ofArgs [.kdebug, fcv]).set 2 (.stream .parse [])
  have h0 : exec call Expected.kevents.body (Env.ofArgs [.kdebug, fcv]) w = exec call kev1 env0 w := by
    simp [kevents_body, exec, eval, getAttr, Env.ofArgs, env0]
  obtain ⟨env1, f1, v1, e1⟩ := exec_stage call w env0 2 stK1.param stK1.body kev2 .parse [] (by simp [env0, Env.set])
  obtain ⟨env2, f2, v2, e2⟩ := exec_stage_unless call w env1 (.isNone (.self .filterTid)) 2 stK2.param stK2.body kev3
    _ (w.heap.cfg.filterTid.isNone) .parse _
    (eval_isNone_attr call w env1 .filterTid) (by cases h : w.heap.cfg.filterTid <;> simp [getAttr, h]) v1
  have h21 : env2 1 = some fcv := by rw [f2 1 (by decide), f1 1 (by decide)]; rfl
  have hcond : eval call w env2 (.or Expected.classOrOwn (.self .filterSubclass))
      = .ok (if fc.isEmpty then .ref .selfSubclass else .ref r) := by
    simp only [eval, eval_classOrOwn call w env2 fcv r h21 hr, bindE_ok, truthy_ref w r fc hfc, getAttr]
    cases fc <;> rfl
  have htr : truthy w (if fc.isEmpty then .ref .selfSubclass else .ref r)
      = .ok (!fc.isEmpty || !w.heap.cfg.filterSubclass.isEmpty) := by
    cases hfe : fc with
    | nil => simp [truthy, Heap.deref]
    | cons a l => subst hfe; simp [truthy_ref w r _ hfc]
  obtain ⟨env3, f3, v3, e3⟩ := exec_stage_if call w env2 _ 2 stK3.param stK3.body (.ret (.var 2)) _ _ .parse _ hcond htr v2
  refine ⟨env3, by rw [f3 1 (by decide), h21], ?_⟩
  have e1' : exec call kev1 env0 w = exec call kev2 env1 w := e1
  have e2' : exec call kev2 env1 w = exec call kev3 env2 w := e2
  have e3' : exec call kev3 env2 w = exec call (.ret (.var 2)) env3 w := e3
  simp only [runBlock, hpad, h0, e1', e2', e3', exec, eval, v3, bindE_ok]
  cases hft : w.heap.cfg.filterTid <;> simp [stagesK, hft]


/-! ### the stages on the stream -/

/-- a predicate on events as a predicate on stream elements (log records fail it) -/
def evP (p : Kevent → Bool) : Item → Bool
  | .event e => p e
  | .log _ => false

def logP (p : LogRec → Bool) : Item → Bool
  | .event _ => false
  | .log l => p l

theorem filterMap_asEvent_map (items : List Item) :
    (items.filterMap asEvent).map Item.event = items.filter (evP fun _ => true) := by
  induction items with
  | nil => rfl
  | cons i is ih => cases i <;> simp [asEvent, evP, List.filterMap_cons, List.filter_cons, ih]

theorem map_event_filter (p : Kevent → Bool) (l : List Kevent) :
    (l.filter p).map Item.event = (l.map Item.event).filter (evP p) := by
  induction l with
  | nil => rfl
  | cons e es ih => by_cases h : p e <;> simp [evP, h, ih]

theorem filterMap_asLog_map (items : List Item) :
    (items.filterMap asLog).map Item.log = items.filter (logP fun _ => true) := by
  induction items with
  | nil => rfl
  | cons i is ih => cases i <;> simp [asLog, logP, List.filterMap_cons, List.filter_cons, ih]

theorem map_log_filter (p : LogRec → Bool) (l : List LogRec) :
    (l.filter p).map Item.log = (l.map Item.log).filter (logP p) := by
  induction l with
  | nil => rfl
  | cons e es ih => by_cases h : p e <;> simp [logP, h, ih]

theorem applyStages_cons_ok {α : Type} (call : CallFn) (env : Env) (world : α → World) (view : α → Val)
    (st : Stage) (rest : List Stage) (l : List α) (q : α → Bool)
    (h : ∀ x ∈ l, bindE (eval call (world x) (env.set st.param (view x)) st.body) (truthy (world x)) = .ok (q x)) :
    applyStages call env world view (st :: rest) l = applyStages call env world view rest (l.filter q) := by
  simp only [applyStages, filterE_ok _ q l h, bindE_ok]

theorem stage_K1 (call : CallFn) (env : Env) (w : World) (i : Item) :
    bindE (eval call w (env.set stK1.param (.item i)) stK1.body) (truthy w) = .ok (evP (fun _ => true) i) := by
  cases i <;> simp [stK1, eval, Env.set, evP]

theorem natCast_beq (a b : Nat) : ((a : Int) == (b : Int)) = (a == b) := by
  rw [Bool.eq_iff_iff]; simp only [beq_iff_eq]; omega

theorem stage_K2 (call : CallFn) (env : Env) (w : World) (t : Nat) (ht : w.heap.cfg.filterTid = some t) (e : Kevent) :
    bindE (eval call w (env.set stK2.param (.item (.event e))) stK2.body) (truthy w)
      = .ok (evP (fun e => e.tid == t) (.event e)) := by
  simp [stK2, eval, Env.set, evP, getField, getAttr, ht, pyEq, natCast_beq]

theorem stage_K3 (p : Prog) (hA : p.isEventidAllowed = Expected.isEventidAllowed) (prog_d : Nat) (env : Env) (w : World) (fcv : Val) (r : Ref) (fc : List Nat)
    (h1 : env 1 = some fcv) (hr : classRef fcv = some r) (hfc : w.heap.deref r = some fc) (e : Kevent) :
    bindE (eval (callAt p (prog_d + 1)) w (env.set stK3.param (.item (.event e))) stK3.body) (truthy w)
      = .ok (evP (fun e => isEventidAllowed w.heap.cfg e.eventid fc) (.event e)) := by
  have hc := eval_classOrOwn (callAt p (prog_d + 1)) w (env.set stK3.param (.item (.event e))) fcv r
    (by simpa [Env.set, stK3] using h1) hr
  have hv : (env.set 5 (.item (.event e))) 5 = some (.item (.event e)) := by simp [Env.set]
  simp only [stK3, eval, hv, bindE_ok, getField]
  simp only [stK3] at hc
  simp only [hc, bindE_ok, callAt_allowed p hA prog_d w e.eventid (.ref r) r fc rfl hfc, truthy_bool, evP]

theorem mem_filter_evP {p : Kevent → Bool} {l : List Item} {x : Item} (h : x ∈ l.filter (evP p)) :
    ∃ e, x = .event e := by
  cases x with
  | event e => exact ⟨e, rfl⟩
  | log l => simp [evP] at h

theorem runKevents_expected (p : Prog) (hK : p.kevents = Expected.kevents)
    (hA : p.isEventidAllowed = Expected.isEventidAllowed) (cfg : Cfg) (arg : Option (List Nat)) (items : List Item) :
    runKevents p cfg arg items = .ok ((Filters.kevents cfg arg items).map Item.event) := by
  -- the class-list object and its content
  obtain ⟨r, fc, hr, hfc, hfcm⟩ : ∃ r fc, classRef (argHeap cfg arg).2 = some r ∧ (argHeap cfg arg).1.deref r = some fc ∧
      Filters.kevents cfg arg items = keventsWith cfg fc items := by
    cases arg with
    | none => exact ⟨.selfClass, cfg.filterClass, rfl, rfl, rfl⟩
    | some l => exact ⟨.loc 0, l, rfl, rfl, rfl⟩
  have hcfg : (argHeap cfg arg).1.cfg = cfg := by cases arg <;> rfl
  obtain ⟨env, h1, hrun⟩ := runBlock_kevents (callAt p depth) { heap := (argHeap cfg arg).1 } _ r fc hr hfc
  have hk : p.kevents = Expected.kevents := hK
  simp only [runKevents, runListing, hk, hrun, bindE_ok, hcfg]
  simp only [hfcm, keventsWith, stagesK]
  generalize (argHeap cfg arg).1 = h at *
  subst hcfg
  rw [List.append_assoc, List.singleton_append,
    applyStages_cons_ok _ _ _ _ _ _ _ _ (fun x _ => stage_K1 _ env _ x)]
  cases hft : h.cfg.filterTid with
  | none =>
    by_cases hne : (!fc.isEmpty || !h.cfg.filterSubclass.isEmpty) = true
    · simp only [Option.isSome_none, Bool.false_eq_true, if_false, List.nil_append, hne, if_true]
      rw [applyStages_cons_ok _ _ _ _ _ _ _ (evP fun e => isEventidAllowed h.cfg e.eventid fc)]
      · simp only [applyStages, map_event_filter, filterMap_asEvent_map]
      · intro x hx
        obtain ⟨e, rfl⟩ := mem_filter_evP hx
        exact stage_K3 p hA 1 env _ _ r fc h1 hr hfc e
    · simp only [Option.isSome_none, Bool.false_eq_true, if_false, List.nil_append, hne, applyStages,
        filterMap_asEvent_map]
  | some t =>
    simp only [Option.isSome_some, if_true]
    rw [List.singleton_append, applyStages_cons_ok _ _ _ _ _ _ _ (evP fun e => e.tid == t)]
    · by_cases hne : (!fc.isEmpty || !h.cfg.filterSubclass.isEmpty) = true
      · simp only [hne, if_true, List.nil_append]
        rw [applyStages_cons_ok _ _ _ _ _ _ _ (evP fun e => isEventidAllowed h.cfg e.eventid fc)]
        · simp only [applyStages, map_event_filter, filterMap_asEvent_map]
        · intro x hx
          obtain ⟨e, rfl⟩ := mem_filter_evP hx
          exact stage_K3 p hA 1 env _ _ r fc h1 hr hfc e
      · simp only [hne, if_false, Bool.false_eq_true, List.nil_append, applyStages, map_event_filter,
          filterMap_asEvent_map]
    · intro x hx
      obtain ⟨e, rfl⟩ := mem_filter_evP hx
      exact stage_K2 _ env _ t hft e


/-! ### `os_log_events` -/

def stL1 : Stage := ⟨2, .isLog (.var 2)⟩
def stL2 : Stage := ⟨3, .eq (.field (.var 3) .threadIdentifier) (.self .filterTid)⟩
def stL3 : Stage :=
  ⟨4, .inPair (.self .filterProcess) (.field (.var 4) .process) (.strOf (.field (.var 4) .processIdentifier))⟩

def stagesL (cfg : Cfg) : List Stage :=
  [stL1] ++ (if cfg.filterTid.isSome then [stL2] else []) ++ (if cfg.filterProcess.isSome then [stL3] else [])

def log3 : Stmt :=
  .ite (.isNone (.self .filterProcess)) .done (.assignFilter 1 stL3.param stL3.body (.var 1) .done) (.ret (.var 1))
def log2 : Stmt := .ite (.isNone (.self .filterTid)) .done (.assignFilter 1 stL2.param stL2.body (.var 1) .done) log3
def log1 : Stmt := .assignFilter 1 stL1.param stL1.body (.var 1) log2

theorem osLogEvents_body :
    Expected.osLogEvents.body = .assign 1 (.parseStream (.self .threadsPids) (.self .pidsNames) (.var 0)) log1 := rfl

theorem runBlock_osLogEvents (call : CallFn) (w : World) :
    ∃ env : Env, runBlock call Expected.osLogEvents [.kdebug] w = .ok (.stream .parse (stagesL w.heap.cfg), env, w) := by
  have hpad : padArgs Expected.osLogEvents [.kdebug] = some [.kdebug] := rfl
  let env0 : Env := (Env.ofArgs [.kdebug]).set 1 (.stream .parse [])
  have h0 : exec call Expected.osLogEvents.body (Env.ofArgs [.kdebug]) w = exec call log1 env0 w := by
    simp [osLogEvents_body, exec, eval, getAttr, Env.ofArgs, env0]
  obtain ⟨env1, _, v1, e1⟩ := exec_stage call w env0 1 stL1.param stL1.body log2 .parse [] (by simp [env0, Env.set])
  obtain ⟨env2, _, v2, e2⟩ := exec_stage_unless call w env1 (.isNone (.self .filterTid)) 1 stL2.param stL2.body log3
    _ (w.heap.cfg.filterTid.isNone) .parse _
    (eval_isNone_attr call w env1 .filterTid) (by cases h : w.heap.cfg.filterTid <;> simp [getAttr, h]) v1
  obtain ⟨env3, _, v3, e3⟩ := exec_stage_unless call w env2 (.isNone (.self .filterProcess)) 1 stL3.param stL3.body
    (.ret (.var 1)) _ (w.heap.cfg.filterProcess.isNone) .parse _
    (eval_isNone_attr call w env2 .filterProcess) (by cases h : w.heap.cfg.filterProcess <;> simp [getAttr, h]) v2
  refine ⟨env3, ?_⟩
  have e1' : exec call log1 env0 w = exec call log2 env1 w := e1
  have e2' : exec call log2 env1 w = exec call log3 env2 w := e2
  have e3' : exec call log3 env2 w = exec call (.ret (.var 1)) env3 w := e3
  simp only [runBlock, hpad, h0, e1', e2', e3', exec, eval, v3, bindE_ok]
  cases hft : w.heap.cfg.filterTid <;> cases hfp : w.heap.cfg.filterProcess <;> simp [stagesL, hft, hfp]

theorem stage_L1 (call : CallFn) (env : Env) (w : World) (i : Item) :
    bindE (eval call w (env.set stL1.param (.item i)) stL1.body) (truthy w) = .ok (logP (fun _ => true) i) := by
  cases i <;> simp [stL1, eval, Env.set, logP]

theorem stage_L2 (call : CallFn) (env : Env) (w : World) (t : Nat) (ht : w.heap.cfg.filterTid = some t) (l : LogRec) :
    bindE (eval call w (env.set stL2.param (.item (.log l))) stL2.body) (truthy w)
      = .ok (logP (fun l => l.threadIdentifier == t) (.log l)) := by
  simp [stL2, eval, Env.set, logP, getField, getAttr, ht, pyEq, natCast_beq]

theorem stage_L3 (call : CallFn) (env : Env) (w : World) (p : String) (hp : w.heap.cfg.filterProcess = some p)
    (l : LogRec) :
    bindE (eval call w (env.set stL3.param (.item (.log l))) stL3.body) (truthy w)
      = .ok (logP (fun l => p == l.process || p == pidText l) (.log l)) := by
  by_cases h : p = l.process <;> simp [stL3, eval, Env.set, logP, getField, getAttr, hp, pyEq, pidText, h]

theorem mem_filter_logP {p : LogRec → Bool} {l : List Item} {x : Item} (h : x ∈ l.filter (logP p)) :
    ∃ e, x = .log e := by
  cases x with
  | log e => exact ⟨e, rfl⟩
  | event l => simp [logP] at h

theorem runOsLogEvents_expected (p : Prog) (hL : p.osLogEvents = Expected.osLogEvents) (cfg : Cfg) (items : List Item) :
    runOsLogEvents p cfg items = .ok ((Filters.osLogEvents cfg items).map Item.log) := by
  obtain ⟨env, hrun⟩ := runBlock_osLogEvents (callAt p depth) { heap := { cfg := cfg } }
  have hk : p.osLogEvents = Expected.osLogEvents := hL
  simp only [runOsLogEvents, runListing, hk, hrun, bindE_ok, osLogEvents, stagesL]
  rw [List.append_assoc, List.singleton_append,
    applyStages_cons_ok _ _ _ _ _ _ _ _ (fun x _ => stage_L1 _ env _ x)]
  cases hft : cfg.filterTid with
  | none =>
    cases hfp : cfg.filterProcess with
    | none => simp only [Option.isSome_none, Bool.false_eq_true, if_false, List.nil_append, applyStages,
        filterMap_asLog_map]
    | some p =>
      simp only [Option.isSome_none, Option.isSome_some, Bool.false_eq_true, if_false, if_true, List.nil_append]
      rw [applyStages_cons_ok _ _ _ _ _ _ _ (logP fun l => p == l.process || p == pidText l)]
      · simp only [applyStages, map_log_filter, filterMap_asLog_map]
      · intro x hx
        obtain ⟨e, rfl⟩ := mem_filter_logP hx
        exact stage_L3 _ env _ p hfp e
  | some t =>
    simp only [Option.isSome_some, if_true]
    rw [List.singleton_append, applyStages_cons_ok _ _ _ _ _ _ _ (logP fun l => l.threadIdentifier == t)]
    · cases hfp : cfg.filterProcess with
      | none => simp only [Option.isSome_none, Bool.false_eq_true, if_false, applyStages, map_log_filter,
          filterMap_asLog_map]
      | some p =>
        simp only [Option.isSome_some, if_true]
        rw [applyStages_cons_ok _ _ _ _ _ _ _ (logP fun l => p == l.process || p == pidText l)]
        · simp only [applyStages, map_log_filter, filterMap_asLog_map]
        · intro x hx
          obtain ⟨e, rfl⟩ := mem_filter_logP hx
          exact stage_L3 _ env _ p hfp e
    · intro x hx
      obtain ⟨e, rfl⟩ := mem_filter_logP hx
      exact stage_L2 _ env _ t hft e

/-! ### `_is_eventid_allowed`, `_filter_process_callback` -/

theorem runIsEventidAllowed_expected (p : Prog) (hA : p.isEventidAllowed = Expected.isEventidAllowed) (cfg : Cfg) (eventid : Nat) (arg : Option (List Nat)) :
    runIsEventidAllowed p cfg eventid arg
      = .ok (.bool (isEventidAllowed cfg eventid (match arg with | none => cfg.filterClass | some l => l))) := by
  cases arg with
  | none => exact callAt_allowed p hA 1 { heap := { cfg := cfg } } eventid .none .selfClass cfg.filterClass rfl rfl
  | some l => exact callAt_allowed p hA 1 { heap := { cfg := cfg, locs := [l] } } eventid (.ref (.loc 0)) (.loc 0) l rfl rfl

/-- `_filter_process_callback` in the model's words: the process filter equals the decimal text of the thread's pid
    (`-1` when the thread is not in `threads_pids`) or the name `pids_names` has for that pid (`''` when none). -/
def procMatches (fp : String) (t : Tables) (tid : Nat) : Bool :=
  fp == toString (((t.threadsPids.lookup tid).map Int.ofNat).getD (-1)) ||
  fp == (match t.threadsPids.lookup tid with
         | some p => (t.pidsNames.lookup p).getD ""
         | none => "")

@[simp] theorem pyEq_str (a b : String) : pyEq (.str a) (.str b) = .ok (a == b) := rfl

@[simp] theorem pyEq_none_str (b : String) : pyEq .none (.str b) = .ok false := rfl

theorem callAt_filterProcessCallback (p : Prog) (hC : p.filterProcessCallback = Expected.filterProcessCallback) (d : Nat) (w : World) (first : Kevent) :
    callAt p (d + 1) .filterProcessCallback [.trace first] w
      = .ok (.bool (match w.heap.cfg.filterProcess with
                    | some fp => procMatches fp w.tabs first.tid
                    | none => false)) := by
  have hg : p.get .filterProcessCallback = Expected.filterProcessCallback := hC
  have hpad : padArgs Expected.filterProcessCallback [.trace first] = some [.trace first] := rfl
  have h0 : Env.ofArgs [Val.trace first] 0 = some (.trace first) := rfl
  have hrec : eval (callAt p d) w (Env.ofArgs [.trace first]) (Expected.firstRecord 0)
      = .ok (.item (.event first)) := by
    simp [Expected.firstRecord, eval, h0, getField]
  have hpid : eval (callAt p d) w (Env.ofArgs [.trace first]) Expected.pidOf
      = .ok (.int (((w.tabs.threadsPids.lookup first.tid).map Int.ofNat).getD (-1))) := by
    simp only [Expected.pidOf, eval, hrec, bindE_ok, getField, getAttr, dictGet, Int.natCast_nonneg, if_true,
      Int.toNat_natCast]
    cases w.tabs.threadsPids.lookup first.tid <;> rfl
  have hname : eval (callAt p d) w (Env.ofArgs [.trace first])
        Expected.nameOf
      = .ok (.str (match w.tabs.threadsPids.lookup first.tid with
                   | some p => (w.tabs.pidsNames.lookup p).getD ""
                   | none => "")) := by
    simp only [Expected.nameOf, eval, hpid, bindE_ok, getAttr, dictGet]
    cases w.tabs.threadsPids.lookup first.tid with
    | none => rfl
    | some p =>
      simp only [Option.map_some, Option.getD_some, Int.ofNat_eq_natCast, Int.natCast_nonneg, if_true,
        Int.toNat_natCast]
      cases w.tabs.pidsNames.lookup p <;> rfl
  simp only [callAt, hg, runBlock, hpad]
  cases hfp : w.heap.cfg.filterProcess with
  | none =>
    simp only [Expected.filterProcessCallback, exec, eval, hpid, hname, bindE_ok, getAttr, hfp, pyEq_none_str,
      truthy_bool, Bool.false_eq_true, if_false, if_true]
  | some fp =>
    simp only [Expected.filterProcessCallback, exec, eval, hpid, hname, bindE_ok, getAttr, hfp, pyEq_str,
      truthy_bool, procMatches]
    cases fp == toString ((Option.map Int.ofNat (List.lookup first.tid w.tabs.threadsPids)).getD (-1)) <;>
      simp

theorem runFilterProcessCallback_expected (p : Prog) (hC : p.filterProcessCallback = Expected.filterProcessCallback)
    (cfg : Cfg) (t : Tables) (first : Kevent) :
    runFilterProcessCallback p cfg t first
      = .ok (.bool (match cfg.filterProcess with | some fp => procMatches fp t first.tid | none => false)) :=
  callAt_filterProcessCallback p hC 1 { heap := { cfg := cfg }, tabs := t } first

end KdVerif.PyIRFl