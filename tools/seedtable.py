#!/venv/bin/python
"""tools/seedtable.py [first [last]] — markdown rows of DESIGN.md §9.3 for the seeded changes S<first>..S<last>, from
seeded/*/meta.json (id, property, change, needs, which checks end in a VIOLATION, first-run history)."""
import glob
import json
import os
import re
import sys

root = os.path.join(os.path.dirname(os.path.dirname(os.path.abspath(__file__))), 'seeded')
lo = int(sys.argv[1]) if len(sys.argv) > 1 else 1
hi = int(sys.argv[2]) if len(sys.argv) > 2 else 10 ** 6
rows = []
for d in glob.glob(os.path.join(root, 'S*')):
    m = re.match(r'S(\d+)-', os.path.basename(d))
    if not m or not (lo <= int(m.group(1)) <= hi):
        continue
    try:
        meta = json.load(open(os.path.join(d, 'meta.json')))
    except Exception:
        continue
    caught = []
    for c, v in (meta.get('checks') or {}).items():
        if not v or v.get('rc') != 1:
            continue
        lines = [l for l in v.get('lines', []) if l.startswith('VIOLATION')]
        weak = lines and all(l.rstrip().endswith('no-failing-input-found') for l in lines)
        caught.append(c + (' (no failing input)' if weak else ''))
    own = meta.get('breaks_property')
    caught.sort(key=lambda c: (not c.startswith(own), c))
    hist = meta.get('history') or ''
    if isinstance(hist, list):
        hist = '; '.join(hist)
    cell = ', '.join(caught) or 'MISSED'
    if hist:
        cell += ' (' + hist.strip().rstrip('.') + ')'
    rows.append((int(m.group(1)), '| S%s | %s | %s | %s | %s |' % (
        m.group(1), own, meta.get('change', '').replace('|', '/'), meta.get('needs_to_manifest', '').replace('|', '/'),
        cell.replace('|', '/'))))
for _, r in sorted(rows):
    print(r)
