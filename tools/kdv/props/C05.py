"""C05 — per-thread results are invariant under interleaving of threads.  Sections `interleave` /
`interleave-real`: the sequence of event windows delivered per thread (Model/Pairing).  Section `names` (+ the
finding-free side stream `names-shared-pids`): whole TracesParser (Model/Trace) — per-thread trace texts, the
`pids_names` assignments tagged with the teaching thread, and the final `pids_names` under many schedules of
programs holding new-thread / exec record pairs."""
import json

from .. import core
from .. import pairing as P
from ..core import run_section

MODULE = 'KdVerif.Props.C05'
NAMESPACE = 'KdVerif.C05'
TRUSTED = ['Model/Pairing.step/run: hand model of TracesParser.feed/feed_generator up to parse_event_list, tied to '
           'the code by the correspondence sections `interleave` / `interleave-real` (and C04 `pairing`)',
           'Model/Trace.lean (whole TracesParser: handlers, context tables, generated decoders) tied to the code by the '
           'section `names` here and by `pipeline` of C07/C08/C20; Model/TraceWrites.handleWrites is PROVED to be what the '
           'handlers of Model/Trace do to the tables (handler_writes_sound, table_writes_sound)',
           'bytes.decode() is a parameter of the model (strict UTF-8 in the driver)',
           'the ten context-table handlers of Model/Trace (hDataNewthread, hDataExec, hDataThreadTerminate, hDataThreadTerminatePid, '
           'globalLoop/hStringGlobal, hStringNewthread, hStringExec, hStringProcExit, joinData/hStringThreadname) and their entries in '
           'the handler table are tied to the SOURCE TEXT of trace_handlers/trace.py by translation: tools/gen_pyir_tr.py (pure ast; the '
           'two DgbFuncQual values reflected from kevent.py) turns the ten handle_trace_* functions, the __str__ methods of their '
           'dataclasses and the handlers dict into the Python-subset IR of Model/PyIRTr on every run; source_is_expected_ir says the '
           'generated program is the one of Spec/PyIRTrExpected; handle_trace_*_ir_eq_model / handlers_ir_eq_model (Proofs/PyIRTr) say '
           'that program, run by the interpreter PyIRTr.runHandler on ANY tables and any non-empty window of four-word records, IS the '
           'hand-model handler (same text, ktraces, tables, exception, "returned None"), and run_ir_eq_model that Trace.run is the run '
           'with the ten handlers taken from the source.  Trusted there: the translator, the interpreter as semantics of that subset '
           '(tested against CPython by the sections names-ir / names-shared-pids-ir), bytes.decode as the parameter env.dec, '
           'decode(errors=backslashreplace) modelled on valid text only (as the hand model does), last_data_newthread / last_data_exec '
           'keeping only the pending object\'s pid (nothing else of it is read anywhere in the package)']
ASSUMPTIONS = ['a window is attributed to the thread of its first event (all events of a delivered window have the '
               'same thread id: theorem window_single_thread)',
               'two merges are "interleavings of the same per-thread programs" iff their per-thread subsequences '
               'coincide',
               'feed_generator stops at the first exception: the text/names theorems are about runs that raise none, for '
               'the merged history and for the thread\'s own subsequence (for non-excluded handlers the two raise alike)',
               'exclusion (the property\'s own): the TEXT of TRACE_DATA_THREAD_TERMINATE and of the four dyld string readers '
               '(DLSYM, DLOPEN, MAP_IMAGE, DLOPEN_PREFLIGHT) reads tables written by other threads and is not compared',
               'final pids_names lookups agree when no pid is taught by two different threads (DisjointTeachers)']

SCHEDULES = ['sequential', 'reverse', 'round-robin', 'round-robin-reverse', 'bursty', 'bursty2', 'random',
             'random2', 'longest-first', 'random3', 'random4', 'bursty3']


def schedule(rng, kind, lens):
    """A list of program indices, index i occurring lens[i] times."""
    n = len(lens)
    left = list(lens)
    out = []
    if kind == 'sequential':
        for i in range(n):
            out += [i] * lens[i]
    elif kind == 'reverse':
        for i in reversed(range(n)):
            out += [i] * lens[i]
    elif kind in ('round-robin', 'round-robin-reverse'):
        order = list(range(n)) if kind == 'round-robin' else list(reversed(range(n)))
        while any(left):
            for i in order:
                if left[i]:
                    out.append(i)
                    left[i] -= 1
    elif kind.startswith('bursty'):
        while any(left):
            i = rng.choice([j for j in range(n) if left[j]])
            b = min(left[i], rng.randint(1, 6))
            out += [i] * b
            left[i] -= b
    elif kind == 'longest-first':
        while any(left):
            i = max(range(n), key=lambda j: left[j])
            out.append(i)
            left[i] -= 1
    else:
        pool = [i for i in range(n) for _ in range(lens[i])]
        rng.shuffle(pool)
        out = pool
    return out


def materialise(codes, programs, sched, kind, group):
    """programs: [[tid, [[timestamp, eid, q, args], ...]], ...]; timestamps belong to the program, not to the
    schedule, so per-thread results of different schedules can be compared literally."""
    pos = [0] * len(programs)
    events = []
    for i in sched:
        tid, prog = programs[i]
        ts, e, q, args = prog[pos[i]]
        events.append([ts, tid, e, q, args])
        pos[i] += 1
    return {'codes': codes, 'events': events, 'style': kind, 'group': group,
            'programs': [[t, [list(x) for x in p]] for t, p in programs]}


def fixed_groups():
    """Tiny two-thread program sets under every schedule (so that a broken keying shows up on a handful of events)."""
    tn = P.trace_domain_names()
    codes = [[0x40c000c, 'BSC_read', True], [0x40c0010, 'BSC_write', True], [0x7000008, tn[0], True],
             [0x1020004, 'KTrap_Debug', False]]
    A, B, T, U = [c[0] for c in codes]
    z = [0, 0, 0, 0]
    sets = [
        [[1, [(A, 1), (B, 0), (A, 2)]], [2, [(A, 1), (A, 0), (A, 2)]]],
        [[1, [(A, 1), (A, 2)]], [2, [(A, 2), (A, 1), (A, 2)]]],
        [[1, [(A, 1), (B, 1), (A, 2), (B, 2)]], [2, [(B, 1), (A, 3), (B, 2), (A, 2)]]],
        [[7, [(T, 1), (A, 0), (T, 2)]], [8, [(T, 0), (T, 1), (U, 0), (T, 2)]], [9, [(A, 0)]]],
    ]
    out = []
    for g, progs in enumerate(sets):
        programs = [[t, [[i * 1000 + j, e, q, z] for j, (e, q) in enumerate(p)]] for i, (t, p) in enumerate(progs)]
        lens = [len(p) for _, p in programs]
        import random
        r = random.Random(g)
        out += [materialise(codes, programs, schedule(r, k, lens), k, 'fixed%d' % g) for k in SCHEDULES]
    return out


def gen_group(rng, group, nsched, real=None):
    codes = real if real is not None else P.make_alphabet(rng)
    eids = [c[0] for c in codes]
    nt = rng.randint(2, 4)
    tids = P.pick_tids(rng, nt)
    style = rng.choice(['random', 'nested', 'crossing'])
    programs = []
    for i, t in enumerate(tids):
        prog = P.gen_program(rng, eids, rng.randint(0, 14), style)
        recs = [[i * 1000 + j, e, q,
                 P.real_args(rng) if real is not None else [rng.getrandbits(64) for _ in range(4)]]
                for j, (e, q) in enumerate(prog)]
        if group % 3 == 0:
            # value-equal neighbours: the kernel does write byte-identical records back to back (same tick, same words);
            # they are two records of the thread's program, whatever another thread's record does in between
            dup = []
            for r in recs:
                dup.append(r)
                if rng.random() < 0.2:
                    dup.append(list(r))
            recs = dup
        programs.append([t, recs])
    lens = [len(p) for _, p in programs]
    return [materialise(codes, programs, schedule(rng, k, lens), k, group) for k in SCHEDULES[:nsched]]


def sequential_case(case):
    progs = case['programs']
    lens = [len(p) for _, p in progs]
    return materialise(case['codes'], progs, schedule(None, 'sequential', lens), 'sequential', case['group'])


def own_thread_expected(case):
    """Each thread's windows when its program is parsed ALONE, from the declarative spec (independent of the
    model and of the implementation)."""
    parts = {}
    for tid, prog in case['programs']:
        if not prog:
            continue
        alone = {'codes': case['codes'], 'events': [[ts, tid, e, q, a] for ts, e, q, a in prog]}
        exp = [x for x in P.Spec(alone).expected_per_event() if x != '-']
        parts[tid] = '|'.join(exp)
    return 'ok ' + ';'.join('%d:%s' % (t, parts[t]) for t in sorted(parts))


def make_impl(factory_of):
    def impl_fn(case):
        return P.show_per_thread(factory_of(case), case)
    return impl_fn


def make_oracle(impl_fn):
    def oracle(case, got):
        if not got.startswith('ok'):
            return ('interleave:raises', 'feeding the merged history failed: ' + got)
        try:
            seq = impl_fn(sequential_case(case))
        except Exception as e:      # pragma: no cover
            seq = 'err ' + core.err_name(e)
        if seq != got:
            return ('interleave:thread-windows-depend-on-schedule',
                    'schedule %s delivers %s, the sequential order delivers %s' % (case['style'], got, seq))
        exp = own_thread_expected(case)
        if exp != got:
            return ('interleave:thread-windows-differ-from-own-run',
                    'schedule %s delivers %s, each thread alone (specification) delivers %s'
                    % (case['style'], got, exp))
        return None
    return oracle


# ---------------------------------------------------------------------------------------------------------
# section `names`: whole TracesParser, learned names and per-thread texts under schedules
# ---------------------------------------------------------------------------------------------------------

EXCLUDED = {'TRACE_DATA_THREAD_TERMINATE', 'DBG_DYLD_TIMING_DLSYM', 'DBG_DYLD_TIMING_DLOPEN',
            'DBG_DYLD_TIMING_MAP_IMAGE', 'DBG_DYLD_TIMING_DLOPEN_PREFLIGHT'}
NAME_SCHEDULES = ['adversarial', 'sequential', 'reverse', 'round-robin-reverse', 'bursty', 'bursty2', 'random',
                  'random2', 'longest-first', 'random3']


def _pl():
    from .. import pipeline as PL
    return PL


def name_program(rng, i, tid, shared_pids=False):
    """One thread's program: complete operations; new-thread / exec pairs teach pids of the thread's own range
    (main stream) or of a range shared by all threads (side stream)."""
    PL = _pl()
    s = PL.Stream(rng)
    s.ts = 100000 * (i + 1)
    base = 1 if shared_pids else 100 * (i + 1)
    pids = list(range(base, base + 4))
    for _ in range(rng.randrange(1, 6)):
        k = rng.random()
        if k < 0.40:
            wd, ws = rng.choice([(True, True)] * 4 + [(True, False), (False, True)])
            s.newthread(tid, rng.randrange(1000, 1010), rng.choice(pids), 'n%d_%d' % (i, rng.randrange(50)), wd, ws)
        elif k < 0.60:
            wd, ws = rng.choice([(True, True)] * 4 + [(True, False), (False, True)])
            s.exec_(tid, rng.choice(pids), 'x%d_%d' % (i, rng.randrange(50)), wd, ws)
        elif k < 0.70:
            s.syscall('BSC_getpid', tid, [0, 0, 0, 0], [0, rng.randrange(1000), 0, 0])
        elif k < 0.78:
            s.syscall('BSC_open', tid, [1, 2, 3, 4], [0, 3, 0, 0],
                      [('/p%d/%d' % (i, rng.randrange(99)) + 'x' * rng.choice([0, 0, 30, 70]), 7 + i)])
        elif k < 0.84:
            s.gstring(tid, rng.randrange(0, 4), 'g%d_%d' % (i, rng.randrange(9)))
        elif k < 0.89:
            s.threadname(tid, 'thr%d_%d' % (i, rng.randrange(9)))
        elif k < 0.93:
            s.sample(tid, 1, thd=(rng.choice(pids), rng.randrange(1000, 1010), 1))
        elif k < 0.96:                      # excluded handler: text reads threads_pids / tids_names of all threads
            s.ev('TRACE_DATA_THREAD_TERMINATE', PL.NONE, tid, [rng.choice([tid, 1000, 1001, 5, 6, 7]), 0, 0, 0])
        else:                               # excluded handler: text reads global_strings of all threads
            s.syscall('DBG_DYLD_TIMING_DLOPEN', tid, [0, rng.randrange(0, 4), 0, 0], [0, 0x1000, 0, 0])
    recs = list(s.recs)
    if len(recs) > 1 and rng.random() < 0.3:           # a lost record: an operation of this thread stays incomplete
        del recs[rng.randrange(len(recs))]              # (an unclosed lookup chain, a pair without its second half, ...)
    return recs


def names_case(programs, sched, kind, group, stream):
    pos = [0] * len(programs)
    recs = []
    for i in sched:
        recs.append(programs[i][1][pos[i]])
        pos[i] += 1
    PL = _pl()
    allrecs = [bytes.fromhex(r) for _, p in programs for r in p]
    codes = {str(k): v for k, v in PL.restricted_codes(allrecs, extra=('VFS_LOOKUP',)).items()}
    return {'codes': codes, 'events': recs, 'style': kind, 'group': group, 'stream': stream,
            'programs': [[t, list(p)] for t, p in programs]}


def names_fixed():
    """The 4-event adversarial schedule A-data, B-data, A-string, B-string (and all other schedules of the same two
    programs), for new-thread pairs and for exec pairs; then a string without data record."""
    PL = _pl()
    out = []
    for g, kind in enumerate(['newthread', 'exec', 'string-only', 'terminate-between', 'terminate-between-exec']):
        progs = []
        for i, (tid, pid, name) in enumerate([(5, 11, 'procA'), (6, 22, 'procB')]):
            s = PL.Stream()
            s.ts = 100000 * (i + 1)
            if kind == 'newthread':
                s.newthread(tid, 1000 + i, pid, name)
            elif kind == 'exec':
                s.exec_(tid, pid, name)
            elif kind == 'string-only':
                s.newthread(tid, 1000 + i, pid, name, with_data=(i == 0))
            elif i == 0:                 # thread A announces a process ...
                if kind == 'terminate-between':
                    s.newthread(tid, 1000, pid, name)
                else:
                    s.exec_(tid, pid, name)
            else:                        # ... thread B reports the end of thread A (named in the record's ARGUMENT)
                s.ev('TRACE_DATA_THREAD_TERMINATE', PL.NONE, tid, [5, 0, 0, 0])
            progs.append([tid, [r.hex() for r in s.recs]])
        lens = [len(p) for _, p in progs]
        import random
        r = random.Random(g)
        for k in NAME_SCHEDULES:
            sk = 'round-robin' if k == 'adversarial' else k
            out.append(names_case(progs, schedule(r, sk, lens), k, 'nfixed%d' % g, 'main'))
    return out


def names_group(rng, group, nsched, shared=False):
    nt = rng.randint(2, 3)
    tids = rng.sample([5, 6, 7, 99, 1000, 1001], nt)
    programs = [[t, [r.hex() for r in name_program(rng, i, t, shared)]] for i, t in enumerate(tids)]
    lens = [len(p) for _, p in programs]
    out = []
    for k in NAME_SCHEDULES[:nsched]:
        sk = 'round-robin' if k == 'adversarial' else k
        out.append(names_case(programs, schedule(rng, sk, lens), k, group, 'shared' if shared else 'main'))
    return out


def names_line(case):
    PL = _pl()
    codes = {int(k): v for k, v in case['codes'].items()}
    return 'tracesw %s %s' % (PL.codes_arg(codes), ' '.join(case['events']))


class RecordingDict(dict):
    """`pids_names` handed to the real TracesParser: logs every assignment with the thread being fed."""

    def __init__(self):
        super().__init__()
        self.log = []
        self.current = None

    def __setitem__(self, k, v):
        self.log.append((self.current, k, v))
        super().__setitem__(k, v)


def names_run(case):
    """The real TracesParser on the merged stream; the answer of `tracesw`."""
    PL = _pl()
    from pykdebugparser.kevent import from_kd_buf
    from pykdebugparser.traces_parser import TracesParser
    codes = {int(k): v for k, v in case['codes'].items()}
    pn = RecordingDict()
    parser = TracesParser(codes, {}, pn)
    outs, err = [], '-'
    try:
        for e in (from_kd_buf(bytes.fromhex(h)) for h in case['events']):
            pn.current = e.tid
            t = parser.feed(e)
            if t is None:
                continue
            try:
                txt = core.hs(str(t))
            except Exception as ex:
                txt = '!' + core.err_name(ex)
            outs.append({'name': codes.get(t.ktraces[0].eventid, '?'), 'ts': [k.timestamp for k in t.ktraces], 'text': txt,
                         'extra': PL.extra_of(t)})
    except Exception as ex:
        err = core.err_name(ex)
    tw = ','.join('%d:%d:%s' % (t, k, core.hs(v)) for t, k, v in pn.log) or '-'
    return PL.answer(outs, err, parser) + ' ;tw=' + tw


def names_impl(case):
    return names_run(case)


def names_view(case, ans):
    """Per thread: (name, ts, text-or-None-when-excluded, payload) of its traces and its tagged name writes; the final
    pids_names; the aborting exception."""
    PL = _pl()
    traces, err, tabs = PL.parse_answer(ans)
    owner = {}
    for tid, prog in case['programs']:
        for r in prog:
            owner[int.from_bytes(bytes.fromhex(r)[:8], 'little')] = tid
    per = {}
    for t in traces:
        tid = owner.get(t['ts'][0]) if t['ts'] else None
        per.setdefault(tid, []).append((t['name'], tuple(t['ts']), None if t['name'] in EXCLUDED else t['raw'], t['extra']))
    taught = {}
    if tabs.get('tw', '-') != '-':
        for item in tabs['tw'].split(','):
            t, k, v = item.split(':')
            taught.setdefault(int(t), []).append((int(k), v))
    return per, taught, tabs.get('pn', '-'), err


_names_cache = {}


def names_oracle(case, got):
    if not got.startswith('ok '):
        return ('names:raises', 'the harness could not run the merged history: ' + got)
    per, taught, pn, err = names_view(case, got)
    if err != '-':
        return ('names:stream-aborted', 'feeding the merged history (schedule %s) raised %s' % (case['style'], err))
    key = case['group']
    if _names_cache.get('key') != key:
        _names_cache.clear()
        _names_cache['key'] = key
        lens = [len(p) for _, p in case['programs']]
        seq = names_case(case['programs'], schedule(None, 'sequential', lens), 'sequential', key, case['stream'])
        _names_cache['seq'] = names_view(seq, names_run(seq))
        alone = {}
        for i, (tid, prog) in enumerate(case['programs']):
            if prog:
                c = names_case(case['programs'], [i] * len(prog), 'alone', key, case['stream'])
                alone[tid] = names_view(c, names_run(c))
        _names_cache['alone'] = alone
    sper, staught, spn, serr = _names_cache['seq']
    for tid, (aper, ataught, apn, aerr) in _names_cache['alone'].items():
        if aerr != '-':
            return ('names:stream-aborted', 'thread %d parsed alone raises %s' % (tid, aerr))
        if taught.get(tid, []) != ataught.get(tid, []):
            return ('names:learned-names-depend-on-other-threads',
                    'schedule %s: thread %d teaches %r, parsed alone it teaches %r'
                    % (case['style'], tid, taught.get(tid, []), ataught.get(tid, [])))
        if per.get(tid, []) != aper.get(tid, []):
            return ('names:thread-traces-depend-on-other-threads',
                    'schedule %s: traces of thread %d are %r, parsed alone %r'
                    % (case['style'], tid, per.get(tid, []), aper.get(tid, [])))
    if set(taught) - set(t for t, _ in case['programs']):
        return ('names:foreign-teacher', 'a name was taught while feeding an event of no program: %r' % taught)
    if case['stream'] == 'main' and pn != spn:
        return ('names:final-pids-names-depend-on-schedule',
                'schedule %s ends with pids_names %s, the sequential order with %s' % (case['style'], pn, spn))
    return None


NAMES_RULE = ('3 hand-written two-thread program sets (new-thread pairs, exec pairs, a name string without data record) — '
              'the first case is the 4-event adversarial schedule A-data, B-data, A-string, B-string — plus seeded sets of '
              '2-3 threads, each program holding new-thread / exec pairs (data + string, sometimes only one of them; pids of '
              'the thread\'s own range), syscalls with one- to three-record lookups, global strings, thread names, sampler windows, '
              'in three programs of ten one record lost (an operation of that thread stays incomplete), thread-terminate '
              'and dlopen records (the excluded handlers), merged under adversarial (round-robin), sequential, reverse, '
              'bursty, longest-first and random schedules; real TracesParser with a recording pids_names dict; compared with '
              'the Lean model: every trace (name, ktraces, text, payload), the four tables and the pids_names assignments '
              'tagged with the feeding thread; oracle: per-thread traces/texts and per-thread taught sequences equal those of '
              'the thread parsed alone, final pids_names equal to the sequential run')


MIRROR = {'tracesw': 'traceswir', 'traces': 'tracesir'}


def translation_tie(rep):
    """Checks `source_is_expected_ir` through the driver (the build reports it too, with less detail) and switches the
    `*-ir` mirror sections on: every section driven by `tracesw` / `traces` is driven a second time through the handlers
    GENERATED from trace.py and compared with the same answers of the real code."""
    ans = core.drive(['trircheck'])[0]
    if ans == 'same':
        rep.notes.append('translation tie: Gen/PyIRTr (from trace_handlers/trace.py) = Spec/PyIRTrExpected')
    else:
        rep.broken.append('theorem source_is_expected_ir: the IR that tools/gen_pyir_tr.py translates from the source text of '
                          'trace_handlers/trace.py is not the program of Spec/PyIRTrExpected that handle_trace_*_ir_eq_model / '
                          'handlers_ir_eq_model / run_ir_eq_model are proved for (%s)' % ans)
    rep.mirror = dict(MIRROR)
    return 'unsupported' not in ans


def names_section(rep, rng, tier):
    ns = 8 if tier == 'quick' else len(NAME_SCHEDULES)
    ng = 150 if tier == 'quick' else 2500
    cases = names_fixed() + [c for g in range(ng) for c in names_group(rng, 'n%d' % g, ns)]
    nontriv = lambda c, got: c['style'] != 'sequential' and ';tw=-' not in got  # noqa: E731
    run_section(rep, 'names', cases, line_fn=names_line, impl_fn=names_impl, oracle_fn=names_oracle,
                nontrivial_fn=nontriv, kind_fn=lambda c, got: c['style'], rule=NAMES_RULE,
                skip_fn=lambda m: 'err=Unmodelled' in m)
    ng2 = 40 if tier == 'quick' else 600
    shared = [c for g in range(ng2) for c in names_group(rng, 's%d' % g, ns, shared=True)]
    run_section(rep, 'names-shared-pids', shared, line_fn=names_line, impl_fn=names_impl, oracle_fn=names_oracle,
                nontrivial_fn=nontriv, kind_fn=lambda c, got: c['style'],
                rule='the same with all threads teaching pids of ONE shared range: per-thread traces and taught sequences '
                     'are still compared (the final pids_names legitimately depends on the schedule here and is not)',
                skip_fn=lambda m: 'err=Unmodelled' in m)


# ---------------------------------------------------------------------------------------------------------
# section `handlers`: the ten context-table handlers of trace.py, every one of them, against what each thread's own
# records say (by construction of the stream), and — mirrored — against the handlers GENERATED from the source text
# ---------------------------------------------------------------------------------------------------------

HANDLER_NAMES = ['alpha', 'launchd', 'kernel_task', 'a', 'WindowServer', 'com.apple.x', 'café', '漢字-1', 'x' * 31,
                 'proc with spaces', '{', '"quoted"']
HANDLER_TEXTS = ['', 'g', 'short text', 'exactly-sixteen!', 'seventeen chars!!', 'a longer string that needs three records ' * 2,
                 'café ' * 9, '漢字' * 12, 'x' * 32, 'y' * 48, 'z' * 64, 'with "quotes" and {braces}']


class _Book:
    """What the records fed so far say: the four tables, the pending new-thread / exec record per FEEDING thread, the open
    multi-record strings per thread, the traces reported."""

    def __init__(self):
        self.tp, self.pn, self.tn, self.gs = {}, {}, {}, {}
        self.pend_nt, self.pend_ex = {}, {}
        self.open = {}            # tid -> list of [kind, own timestamps, all timestamps] of the strings begun and not ended
        self.traces = []

    def report(self, name, ts, text):
        self.traces.append('%s|%s|%s|-' % (name, ','.join(map(str, ts)), core.hs(text)))

    def fed(self, tid, ts):
        """every trace-table record of the thread joins the windows the thread has open"""
        for w in self.open.get(tid, []):
            w[2].append(ts)


def handlers_program(rng, s, tid, own_pids):
    """One thread's operations -> list of (record hex, effect(book)); effects run when the record is fed."""
    PL = _pl()
    out = []

    def single(name, args=None, data=None, effect=None):
        r = s.ev(name, PL.NONE, tid, args, data)
        ts = s.ts

        def eff(b, ts=ts):
            b.fed(tid, ts)
            effect(b, ts)
        out.append((r.hex(), eff))

    def op_newthread(with_data=True, with_string=True):
        new_tid, pid, name = rng.randrange(2000, 2010), rng.choice(own_pids), rng.choice(HANDLER_NAMES)
        if with_data:
            def e1(b, ts):
                b.tp[new_tid] = pid
                b.pend_nt[tid] = pid
                b.report('TRACE_DATA_NEWTHREAD', [ts], 'New thread %d of parent: %d' % (new_tid, pid))
            single('TRACE_DATA_NEWTHREAD', [new_tid, pid, rng.randrange(2), rng.getrandbits(40)], effect=e1)
        if with_string:
            def e2(b, ts):
                if tid in b.pend_nt:
                    b.pn[b.pend_nt[tid]] = name
                b.report('TRACE_STRING_NEWTHREAD', [ts], 'New thread of parent: ' + name)
            single('TRACE_STRING_NEWTHREAD', data=s.name32(name), effect=e2)

    def op_exec(with_data=True, with_string=True):
        pid, name = rng.choice(own_pids), rng.choice(HANDLER_NAMES)
        if with_data:
            def e1(b, ts):
                b.pend_ex[tid] = pid
                b.report('TRACE_DATA_EXEC', [ts], 'New process pid: %d' % pid)
            single('TRACE_DATA_EXEC', [pid, rng.getrandbits(20), rng.getrandbits(30), 0], effect=e1)
        if with_string:
            def e2(b, ts):
                if tid in b.pend_ex:
                    b.pn[b.pend_ex[tid]] = name
                b.report('TRACE_STRING_EXEC', [ts], 'New process name: ' + name)
            single('TRACE_STRING_EXEC', data=s.name32(name), effect=e2)

    def op_terminate_pid():
        pid, uid = rng.choice(own_pids), rng.getrandbits(33)

        def e(b, ts):
            b.tp[tid] = pid
            b.report('TRACE_DATA_THREAD_TERMINATE_PID', [ts], 'Thread terminated thread pid: %d, unique id %d' % (pid, uid))
        single('TRACE_DATA_THREAD_TERMINATE_PID', [pid, uid, 0, 0], effect=e)

    def op_terminate():
        target = rng.choice([tid, 2000, 2001, 2002, 5, 6, 7, 99])

        def e(b, ts):
            rep = 'Thread terminated tid: %d' % target
            if target in b.tp:
                rep += ', pid: %d' % b.tp[target]
            if b.tn.get(target, ''):
                rep += ', name: ' + b.tn[target]
            b.report('TRACE_DATA_THREAD_TERMINATE', [ts], rep)
        single('TRACE_DATA_THREAD_TERMINATE', [target, 0, 0, 0], effect=e)

    def op_proc_exit():
        name = rng.choice(HANDLER_NAMES)
        single('TRACE_STRING_PROC_EXIT', data=s.name32(name),
               effect=lambda b, ts: b.report('TRACE_STRING_PROC_EXIT', [ts], 'Process exit name: ' + name))

    def between():
        rng.choice([op_proc_exit, op_terminate, op_terminate_pid, lambda: op_exec(True, False),
                    lambda: op_newthread(True, False)])()

    def op_string(kind):
        """kind: 'global' | 'name' | 'prev': one to four records, sometimes with a foreign trace-table record of the same
        thread between two of them"""
        text = rng.choice(HANDLER_TEXTS)
        str_id, dbg = rng.randrange(1, 6), rng.getrandbits(20)
        raw = text.encode()
        prefix = dbg.to_bytes(8, 'little') + str_id.to_bytes(8, 'little') if kind == 'global' else b''
        code = {'global': 'TRACE_STRING_GLOBAL', 'name': 'TRACE_STRING_THREADNAME', 'prev': 'TRACE_STRING_THREADNAME_PREV'}[kind]
        room = 32 - len(prefix)
        chunks = [prefix + raw[:room].ljust(room, b'\0')]
        raw = raw[room:]
        while raw:
            chunks.append(raw[:32].ljust(32, b'\0'))
            raw = raw[32:]
        window = [kind, [], []]
        for i, c in enumerate(chunks):
            if i and rng.random() < 0.4:
                between()
            q = (PL.START if i == 0 else 0) | (PL.END if i == len(chunks) - 1 else 0)
            r = s.ev(code, q, tid, data=c)

            def eff(b, ts=s.ts, first=(i == 0), last=(i == len(chunks) - 1)):
                if first:
                    b.open.setdefault(tid, []).append(window)
                b.fed(tid, ts)
                window[1].append(ts)
                if last:
                    b.open[tid].remove(window)
                    if kind == 'global':
                        if text:
                            b.gs[str_id] = text
                        b.report(code, window[1], 'New global string: "%s", id: %d' % (text, str_id))
                    else:
                        b.tn[tid] = text
                        b.report(code, window[2], ('New thread name: ' if kind == 'name' else 'Thread terminated name: ') + text)
            out.append((r.hex(), eff))

    for _ in range(rng.randrange(1, 7)):
        k = rng.random()
        if k < 0.22:
            op_newthread(*rng.choice([(True, True)] * 4 + [(True, False), (False, True)]))
        elif k < 0.40:
            op_exec(*rng.choice([(True, True)] * 4 + [(True, False), (False, True)]))
        elif k < 0.50:
            op_terminate_pid()
        elif k < 0.60:
            op_terminate()
        elif k < 0.68:
            op_proc_exit()
        elif k < 0.82:
            op_string('global')
        elif k < 0.92:
            op_string('name')
        else:
            op_string('prev')
    return out


def handlers_case(rng, g):
    PL = _pl()
    s = PL.Stream(rng)
    tids = rng.sample([5, 6, 7, 99, 1000, 1001], rng.randint(1, 3))
    progs = [handlers_program(rng, s, t, list(range(100 * (i + 1), 100 * (i + 1) + 3))) for i, t in enumerate(tids)]
    order = schedule(rng, rng.choice(['sequential', 'round-robin', 'bursty', 'random']), [len(p) for p in progs])
    pos = [0] * len(progs)
    book = _Book()
    events = []
    for i in order:
        h, eff = progs[i][pos[i]]
        pos[i] += 1
        events.append(h)
        eff(book)
    codes = {str(k): v for k, v in PL.restricted_codes([bytes.fromhex(h) for h in events]).items()}
    expect = 'ok %s ;err=- ;tp=%s ;pn=%s ;tn=%s ;gs=%s' % (
        ' '.join(book.traces) or '-', PL.show_nat_dict(book.tp), PL.show_str_dict(book.pn), PL.show_str_dict(book.tn),
        PL.show_str_dict(book.gs))
    return {'codes': codes, 'events': events, 'expect': expect, 'group': 'h%d' % g, 'threads': tids}


def handlers_bad_text_case(rng, g):
    """Side stream (no expectation, model against code only): a name / string that is not UTF-8."""
    PL = _pl()
    s = PL.Stream(rng)
    tid = rng.choice([5, 6, 7])
    bad = bytes([rng.choice([0xff, 0xc3, 0xe6, 0x80])]) + b'tail'
    kind = rng.randrange(5)
    if kind == 0:
        s.newthread(tid, 2000, 100, bad)
    elif kind == 1:
        s.exec_(tid, 100, bad)
    elif kind == 2:
        s.ev('TRACE_STRING_PROC_EXIT', PL.NONE, tid, data=s.name32(bad))
    elif kind == 3:
        s.threadname(tid, b'x' * rng.choice([3, 31, 40]) + bad, prev=rng.random() < 0.5)
    else:
        s.gstring(tid, 3, b'y' * rng.choice([2, 15, 30]) + bad)
    s.newthread(tid, 2001, 101, 'after')
    events = [r.hex() for r in s.recs]
    codes = {str(k): v for k, v in PL.restricted_codes(s.recs).items()}
    return {'codes': codes, 'events': events, 'expect': None, 'group': 'hb%d' % g, 'threads': [tid]}


def handlers_oracle(case, got):
    exp = case.get('expect')
    if exp is None or got == exp:
        return None
    PL = _pl()
    if not got.startswith('ok '):
        return ('handlers:raises', 'the harness could not run the stream: ' + got)
    gt, gerr, gtabs = PL.parse_answer(got)
    et, _, etabs = PL.parse_answer(exp)
    if gerr != '-':
        return ('handlers:stream-aborted', 'feeding a stream of well-formed context-table records raised %s' % gerr)
    for key, what in (('pn', 'pids_names'), ('tp', 'threads_pids'), ('tn', 'tids_names'), ('gs', 'global_strings')):
        if gtabs.get(key) != etabs.get(key):
            return ('handlers:%s-differ-from-own-records' % what.replace('_', '-'),
                    '%s ends as %s; the records of each thread say %s' % (what, gtabs.get(key), etabs.get(key)))
    for i in range(max(len(gt), len(et))):
        a = gt[i] if i < len(gt) else None
        b = et[i] if i < len(et) else None
        if a is None or b is None or (a['name'], a['ts'], a['raw']) != (b['name'], b['ts'], b['raw']):
            show = lambda x: None if x is None else (x['name'], x['ts'], x['text'])  # noqa: E731
            return ('handlers:trace-differs-from-own-records',
                    'trace %d is %r; the records of its thread say %r' % (i, show(a), show(b)))
    return ('handlers:answer-differs', 'answer %s, expected %s' % (got[:300], exp[:300]))


HANDLERS_RULE = ('seeded streams of 1-3 threads merged at record granularity (sequential, round-robin, bursty, random), each thread a '
                 'program over ALL ten context-table handlers: new-thread and exec pairs (data + string, sometimes one half only; pids '
                 'of the thread\'s own range), thread-terminate-pid, thread-terminate (naming itself or another thread), process '
                 'exit, global strings and thread names (both codes) of 0-80 bytes in one to four records (ASCII, multi-byte UTF-8 '
                 'cut at record boundaries, quotes, braces, empty), in four of ten cases with a foreign trace-table record of the '
                 'same thread between two records of the string; real TracesParser.feed_generator; compared with the Lean model '
                 '(every trace: handler name, ktraces, text; the four tables) and — section handlers-ir — with the handlers '
                 'GENERATED from the source text of trace.py run by the interpreter; oracle: traces and final tables equal what the '
                 'records of each thread say by construction (a thread\'s own data record + name string teach pid -> name, keyed by '
                 'the feeding thread; strings reassembled from their own records only; nothing aborts); side stream '
                 '(handlers-bad-text, no oracle): a name or string that is not UTF-8')


def handlers_section(rep, rng, tier):
    PL = _pl()
    n = 700 if tier == 'quick' else 12000
    cases = [handlers_case(rng, g) for g in range(n)]
    run_section(rep, 'handlers', cases, line_fn=PL.line, impl_fn=PL.impl_fn, oracle_fn=handlers_oracle,
                nontrivial_fn=lambda c, got: len(c['events']) > 3, kind_fn=lambda c, got: '%d-threads' % len(c['threads']),
                rule=HANDLERS_RULE, skip_fn=lambda m: 'err=Unmodelled' in m)
    nb = 60 if tier == 'quick' else 600
    bad = [handlers_bad_text_case(rng, g) for g in range(nb)]
    run_section(rep, 'handlers-bad-text', bad, line_fn=PL.line, impl_fn=PL.impl_fn, oracle_fn=None,
                kind_fn=lambda c, got: 'aborted' if 'err=-' not in got else 'rendered',
                rule='a new-thread / exec / process-exit name, a thread name or a global string holding a byte sequence that is not '
                     'UTF-8, followed by a well-formed pair: model against code (strict decode raises UnicodeError and ends the '
                     'stream; the global string is rendered with backslash escapes, which the model declares outside its domain)',
                skip_fn=lambda m: 'err=Unmodelled' in m)


impl_stub = make_impl(lambda case: (lambda: P.stub_parser(case)))
impl_real = make_impl(lambda case: (lambda: P.real_parser(case)))
SECTIONS = {'interleave': impl_stub, 'interleave-real': impl_real}


def model_groups_agree(rep, name, cases):
    """The driver's answers for all schedules of one program set must coincide (theorem
    interleaving_invariant_windows, observed on the compiled model)."""
    answers = core.drive([P.line('pairt', c) for c in cases]) if cases else []
    seen = {}
    bad = 0
    for c, a in zip(cases, answers):
        if seen.setdefault(c['group'], a) != a:
            bad += 1
    if bad:
        rep.broken.append('model:%s: %d schedules change the per-thread windows of the compiled model' % (name, bad))


RULE = ('4 hand-written tiny program sets + seeded program sets of 2-4 threads (0..14 events each, 12-code alphabet as '
        'in C04, unmatched / repeated / nested / crossing pairs) each merged under the schedules sequential, reverse, '
        'round-robin (both directions), bursty, longest-first and seeded random; real TracesParser with recording '
        'stubs; compared: per thread the delivered windows (timestamps, gate mark) in order; oracle: equal to the '
        'sequential run of the implementation and to each thread parsed alone by the declarative specification; '
        'non-trivial = non-sequential schedules delivering a multi-event window')


def correspondence(rep, rng, tier):
    translation_tie(rep)
    kind = lambda c, got: c['style']  # noqa: E731
    nontriv = lambda c, got: got.startswith('ok') and ',' in got and c['style'] != 'sequential'  # noqa: E731
    ns = 8 if tier == 'quick' else 12
    chunks = [500] if tier == 'quick' else [1000] * 6
    g0 = 0
    for k, ng in enumerate(chunks):
        cases = (fixed_groups() if k == 0 else []) + [c for g in range(g0, g0 + ng) for c in gen_group(rng, g, ns)]
        g0 += ng
        run_section(rep, 'interleave', cases,
                    line_fn=lambda c: P.line('pairt', c), impl_fn=impl_stub, oracle_fn=make_oracle(impl_stub),
                    nontrivial_fn=nontriv, kind_fn=kind, rule=RULE)
        model_groups_agree(rep, 'interleave', cases)
    P.shrink_failures(rep, 'interleave', impl_stub, make_oracle(impl_stub), lambda c: P.line('pairt', c))
    real = P.real_alphabet()
    ng2 = 120 if tier == 'quick' else 1500
    rcases = [c for g in range(ng2) for c in gen_group(rng, g, ns, real=real)]
    run_section(rep, 'interleave-real', rcases,
                line_fn=lambda c: P.line('pairt', c), impl_fn=impl_real, oracle_fn=make_oracle(impl_real),
                nontrivial_fn=nontriv, kind_fn=kind,
                rule='the same with the real handlers over BSC_read, BSC_write, BSC_getpid, MACH_SCHED, TRACE_DATA_EXEC, '
                     'TRACE_STRING_PROC_EXIT, one undecoded name and one unknown id (trace.ktraces compared)')
    model_groups_agree(rep, 'interleave-real', rcases)
    P.shrink_failures(rep, 'interleave-real', impl_real, make_oracle(impl_real), lambda c: P.line('pairt', c))
    names_section(rep, rng, tier)
    handlers_section(rep, rng, tier)


def replay(path):
    with open(path) as fd:
        r = json.load(fd)
    rp = r.get('replay') or {}
    if 'case' not in rp:
        print('nothing to replay (no failing input was recorded):', r.get('no_longer_checks'))
        return 1
    case, sec = rp['case'], rp.get('section', 'interleave')
    if sec.startswith('names'):
        return replay_names(case, path)
    if sec.startswith('handlers'):
        return replay_handlers(case, path)
    impl_fn = SECTIONS[sec]
    try:
        got = impl_fn(case)
    except Exception as e:
        got = 'err ' + core.err_name(e)
    try:
        seq = impl_fn(sequential_case(case))
    except Exception as e:
        seq = 'err ' + core.err_name(e)
    model = core.drive([P.line('pairt', case)])[0]
    print('merged history, schedule %s (timestamp tid code qualifier):' % case['style'])
    for e in case['events']:
        print('   %d tid=%d code=%#x q=%d' % (e[0], e[1], e[2], e[3]))
    print('impl            :', got)
    print('impl sequential :', seq)
    print('model           :', model)
    res = make_oracle(impl_fn)(case, got)
    if res:
        print('oracle:', res[0], '-', res[1])
        print(f'VIOLATION property=C05 replay={path}')
        return 1
    print('oracle: property holds on this input')
    return 0


def replay_names(case, path):
    from pykdebugparser.kevent import from_kd_buf
    codes = {int(k): v for k, v in case['codes'].items()}
    got = names_impl(case)
    model = core.drive([names_line(case)])[0]
    print('merged history, schedule %s:' % case['style'])
    for h in case['events']:
        e = from_kd_buf(bytes.fromhex(h))
        print('   ts=%d tid=%d %s q=%d args=%s' % (e.timestamp, e.tid, codes.get(e.eventid, hex(e.eventid)), e.func_qualifier,
                                                    list(e.values)))
    print('impl :', got)
    print('model:', model)
    _names_cache.clear()
    res = names_oracle(case, got)
    if res:
        print('oracle:', res[0], '-', res[1])
        print(f'VIOLATION property=C05 replay={path}')
        return 1
    print('oracle: property holds on this input')
    return 0


def replay_handlers(case, path):
    PL = _pl()
    from pykdebugparser.kevent import from_kd_buf
    codes = {int(k): v for k, v in case['codes'].items()}
    got = PL.impl_fn(case)
    answers = core.drive([PL.line(case), 'tracesir' + PL.line(case)[len('traces'):]])
    print('stream:')
    for h in case['events']:
        e = from_kd_buf(bytes.fromhex(h))
        print('   ts=%d tid=%d %s q=%d args=%s data=%s' % (e.timestamp, e.tid, codes.get(e.eventid, hex(e.eventid)),
                                                         e.func_qualifier, list(e.values), bytes(e.data).hex()))
    print('impl                 :', got)
    print('expected from records:', case.get('expect'))
    print('model                :', answers[0])
    print('generated handlers   :', answers[1])
    res = handlers_oracle(case, got)
    if res:
        print('oracle:', res[0], '-', res[1])
        print(f'VIOLATION property=C05 replay={path}')
        return 1
    print('oracle: property holds on this input')
    return 0


LEVEL_TEXT = ('Window-level half: Lean theorems for ALL histories and threads — step_other_thread_frame (a step '
              'touches only entries of the event\'s thread), projection_windows (the windows of thread t in a merged '
              'history are the windows of t\'s own subsequence) and interleaving_invariant_windows (equal per-thread '
              'subsequences give equal per-thread window sequences); model tied to the code by differential runs over '
              'many schedules of the same per-thread programs.  Text and names half, over the whole-TracesParser model: '
              'handler_writes_sound / table_writes_sound (the listed table assignments are what the handlers do), '
              'thread_writes_per_thread and learned_names_per_thread (the assignments caused by thread t are a function of '
              't\'s own subsequence), projection_traces / projection_traces_exact (per-thread traces with text), '
              'interleaving_invariant_names (same taught sequences per thread, same multiset, same final lookups when '
              'teachers are disjoint), excluded_generated_exact (reflective: which generated decoders are excluded), noexc_own / '
              'per_thread_of_merged_run (no exception in the merged run implies none in a thread\'s own run; reflective '
              'all_fields_errFree), bundled_nested_rows.  Translation tie of the ten trace.py handlers: source_is_expected_ir '
              '(the IR translated from the source text on every run is the expected program), handle_trace_*_ir_eq_model (one per '
              'handler), handlers_ir_eq_model, handlers_ir_empty_window, run_ir_eq_model (Trace.run = the run through the '
              'interpreted source).')
LEVEL_NOTE = ('Trusted: Lean kernel; hand models of feed (Model/Pairing) and of the handlers (Model/Trace) tied by '
              'correspondence — the ten context-table handlers of trace.py (new-thread / exec / terminate / global string / thread '
              'name) additionally by TRANSLATION of their source text (tools/gen_pyir_tr.py + interpreter Model/PyIRTr, mirrored '
              'against CPython by the sections *-ir); the translator for the generated decoders.  The text/names theorems are about runs that raise no '
              'exception (feed_generator aborts on the first one) and about code tables that name no table-writing / excluded '
              'handler for the page-fault sub-record ids parsed by the nested parse_event_list call (BenignNested; true of '
              'the bundled table).')
TECHNIQUE = ('Lean 4 frame/projection proof + translation tie of the context-table handlers (source text -> Python-subset IR -> '
             'interpreter = hand model) + differential correspondence over schedules')
