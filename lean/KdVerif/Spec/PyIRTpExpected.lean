import KdVerif.Model.PyIRTp
/-
  The terms the proofs of `Proofs/PyIRTp` were done for: a hand-written copy of what `tools/gen_pyir.py` produces from
  `TracesParser.feed_generator` and `TracesParser.__init__` of `pykdebugparser/traces_parser.py` (normal form: statements
  in continuation form, variables numbered parameters first, then locals in order of first binding; the attribute
  initialisers of `__init__` sorted by attribute, the `update` calls in source order).  `C04.source_is_expected_ir` /
  `C17.registry_source_is_expected_ir` state that the generated terms ARE these.  Core Lean only.
-/
namespace KdVerif.PyIRTp.Expected
open KdVerif.PyIRTp GExpr GStmt

/-- the body of the loop: `ret = self.feed(event); if ret is not None: yield ret`   (event = v1, ret = v2) -/
def loopBody : GStmt :=
  callFeed 2 (var 1) (ite (isNotNone (var 2)) (yield (var 2) done) done)

/--
```python
def feed_generator(self, generator):                                     # generator = v0
    for event in generator:                                              # event = v1
        ret = self.feed(event)                                           # ret = v2
        if ret is not None:
            yield ret
```
-/
def feedGenerator : GenDef :=
  { params := 1
    body := forIn 1 (var 0) loopBody done }

/--
```python
from pykdebugparser.trace_handlers.bsd import handlers as bsd_handlers
from pykdebugparser.trace_handlers.dyld import handlers as dyld_handlers
from pykdebugparser.trace_handlers.fsystem import handlers as fsystem_handlers
from pykdebugparser.trace_handlers.mach import handlers as mach_handlers
from pykdebugparser.trace_handlers.perf import handlers as perf_handlers
from pykdebugparser.trace_handlers.trace import handlers as trace_handlers
from pykdebugparser.trace_handlers.turnstile import handlers as turnstile_handlers

def __init__(self, trace_codes_map, threads_pids, pids_names):           # parameters 0, 1, 2
    self.trace_codes = trace_codes_map
    self.on_going_events = {}
    self.on_going_traces = {}
    self.global_strings = {}
    self.threads_pids = threads_pids
    self.pids_names = pids_names
    self.tids_names = {}
    self.qualifiers_actions = {...}                                      # `PyIR.Expected.actions`
    self.last_data_newthread = {}
    self.last_data_exec = {}
    self.handlers = {}
    self.handlers.update(bsd_handlers)
    self.handlers.update(dyld_handlers)
    self.handlers.update(fsystem_handlers)
    self.handlers.update(mach_handlers)
    self.handlers.update(perf_handlers)
    self.handlers.update(trace_handlers)
    self.handlers.update(turnstile_handlers)
```
-/
def init : InitDef :=
  { params := 3
    sets := [(.traceCodes, .param 0), (.onGoingEvents, .emptyDict), (.onGoingTraces, .emptyDict),
             (.globalStrings, .emptyDict), (.threadsPids, .param 1), (.pidsNames, .param 2), (.tidsNames, .emptyDict),
             (.lastDataNewthread, .emptyDict), (.lastDataExec, .emptyDict), (.handlers, .emptyDict)]
    updates := [.bsd, .dyld, .fsystem, .mach, .perf, .trace, .turnstile] }

end KdVerif.PyIRTp.Expected
