import KdVerif.Model.Basic
import KdVerif.Model.Count
import KdVerif.Model.Format
/-
  The GLUE between the user and the translated methods, as a small deep embedding with a big-step interpreter:

  * `pykdebugparser/__main__.py`: `print_with_count` (a statement-level term: `i = 0; for obj in generator: if i == count:
    break; print(obj); i += 1`), the option declarations (name, kind, default, `multiple`), `BasedIntParamType.convert`
    (`int(value, 0)`), the seven commands (which options they take, which attribute of a fresh parser object each
    option is assigned to — as it comes or wrapped in `list(…)` —, which `formatted_*` method is called on the dump and
    that the result goes through `print_with_count(…, count)`; the three table commands: a fresh `KdBufParser({}, {})`,
    `list(parser.parse(dump))`, `print(json.dumps(parser.<attr>, indent=4))`);
  * `pykdebugparser/pykdebugparser.py`: `PyKdebugParser.__init__` (every attribute and its default) and the four maps
    `formatted_kevents` / `formatted_traces` / `formatted_callstacks` / `formatted_logs`
    (`map(lambda x: self._format_<k>(x…), self.<method>(kdebug…))`, the code table of `formatted_kevents`).

  `tools/gen_pyir_cli.py` translates the source text into terms of this IR (`Gen/PyIRCli.lean`); `Props/C06` / `C12` /
  `C13` / `C14` prove that the translated glue, run by this interpreter, hands every option to exactly the attribute the
  hand models read (`Filters.Cfg`, `Format.Show`, the colour switch), defaults included.

  What the methods DO is not this file's business: `parser.formatted_x(dump)` is a parameter (`World.formatted`: the
  outcome of the generator as `items delivered × optional exception`, a function of the OBJECT'S ATTRIBUTES and the dump),
  so are `self.<source>(…)` / `self._format_x(…)` for the four maps (`Methods`).  click itself (command-line parsing) is
  outside: the interpreter starts from the values click hands to the callback (`Args`: option name ↦ converted value if
  the user gave the option), fills in the declared defaults and calls the function by keyword.
  Outside the modelled behaviour: `.error .unmodelled`; core Lean only.
-/
namespace KdVerif.PyIRCli

/-! ### `print_with_count`: a statement-level term -/

inductive PExpr
  | var (i : Nat)                                -- parameters `0 … params-1`, then the locals in order of first binding
  | int (n : Int)
  | eq (a b : PExpr)                             -- `a == b`
  | unsupported (src : String)
  deriving DecidableEq, Repr

inductive PStmt
  | skip
  | seq (a b : PStmt)
  | assign (v : Nat) (e : PExpr)                 -- `v = e`
  | addAssign (v : Nat) (e : PExpr)              -- `v += e`   (also the spelling `v = v + e`)
  | print (e : PExpr)                            -- `print(e)`
  | ite (c : PExpr) (t e : PStmt)                -- `if c: t else: e`
  | brk                                          -- `break`
  | forIn (v : Nat) (it : PExpr) (body : PStmt)  -- `for v in it: body`
  | unsupported (src : String)
  deriving DecidableEq, Repr

structure Func where
  params : Nat
  body : PStmt
  deriving DecidableEq, Repr

/-- Values of the loop: the items are abstract (`α`); a generator is what it will deliver and the exception it ends
    with, if any. -/
inductive PVal (α : Type)
  | none
  | bool (b : Bool)
  | int (n : Int)
  | obj (a : α)
  | gen (items : List α) (err : Option PyErr)

abbrev PEnv (α : Type) := Nat → Option (PVal α)
def PEnv.set {α : Type} (env : PEnv α) (i : Nat) (v : PVal α) : PEnv α := fun j => if j = i then some v else env j
def PEnv.empty {α : Type} : PEnv α := fun _ => Option.none

/-- variables and what has been printed so far -/
structure PState (α : Type) where
  env : PEnv α
  out : List α

inductive Signal
  | normal
  | brk
  | err (e : PyErr)
  deriving DecidableEq, Repr

def peval {α : Type} (env : PEnv α) : PExpr → Except PyErr (PVal α)
  | .var i => match env i with | some v => .ok v | Option.none => .error .unmodelled
  | .int n => .ok (.int n)
  | .eq a b =>
    match peval env a, peval env b with
    | .ok (.int x), .ok (.int y) => .ok (.bool (x == y))
    | .ok (.none), .ok (.int _) => .ok (.bool false)
    | .ok (.int _), .ok (.none) => .ok (.bool false)
    | .error e, _ => .error e
    | _, .error e => .error e
    | _, _ => .error .unmodelled
  | .unsupported _ => .error .unmodelled

def ptruthy {α : Type} : PVal α → Except PyErr Bool
  | .bool b => .ok b
  | .int n => .ok (n != 0)
  | .none => .ok false
  | _ => .error .unmodelled

/-- `for v in <generator>: body` — one `next()` per round; the exception of the generator surfaces when the loop asks for
    the item behind the last one; `break` leaves the rest in the generator.  Answer: signal, state, the generator
    afterwards. -/
def forLoop {α : Type} (body : PState α → Signal × PState α) (v : Nat) :
    List α → Option PyErr → PState α → (Signal × PState α) × PVal α
  | [], Option.none, s => ((.normal, s), .gen [] Option.none)
  | [], some e, s => ((.err e, s), .gen [] Option.none)
  | x :: xs, err, s =>
    match body { s with env := s.env.set v (.obj x) } with
    | (.normal, s') => forLoop body v xs err s'
    | (.brk, s') => ((.normal, s'), .gen xs err)
    | (.err e, s') => ((.err e, s'), .gen xs err)

def pexec {α : Type} : PStmt → PState α → Signal × PState α
  | .skip, s => (.normal, s)
  | .seq a b, s =>
    match pexec a s with
    | (.normal, s') => pexec b s'
    | r => r
  | .assign v e, s =>
    match peval s.env e with
    | .ok x => (.normal, { s with env := s.env.set v x })
    | .error x => (.err x, s)
  | .addAssign v e, s =>
    match peval s.env e with
    | .error x => (.err x, s)
    | .ok (.int b) =>
      (match s.env v with
       | some (.int a) => (.normal, { s with env := s.env.set v (.int (a + b)) })
       | _ => (.err .unmodelled, s))
    | .ok _ => (.err .unmodelled, s)
  | .print e, s =>
    match peval s.env e with
    | .ok (.obj a) => (.normal, { s with out := s.out ++ [a] })
    | .ok _ => (.err .unmodelled, s)
    | .error x => (.err x, s)
  | .ite c t e, s =>
    match peval s.env c >>= ptruthy with
    | .ok true => pexec t s
    | .ok false => pexec e s
    | .error x => (.err x, s)
  | .brk, s => (.brk, s)
  | .forIn v it body, s =>
    match peval s.env it with
    | .ok (.gen items err) =>
      let r := forLoop (fun s => pexec body s) v items err s
      (r.1.1, match it with
              | .var g => { r.1.2 with env := r.1.2.env.set g r.2 }
              | _ => r.1.2)
    | .ok (.obj _) => (.err .unmodelled, s)
    | .ok _ => (.err .typeError, s)                         -- `'int' object is not iterable`
    | .error x => (.err x, s)
  | .unsupported _, s => (.err .unmodelled, s)

/-- `print_with_count(generator, count)`: what is printed, and the exception that leaves the call, if any. -/
def runPwc {α : Type} (f : Func) (gen : List α × Option PyErr) (count : Int) : List α × Option PyErr :=
  if f.params ≠ 2 then ([], some .typeError)
  else
    match pexec f.body { env := (PEnv.empty.set 0 (.gen gen.1 gen.2)).set 1 (.int count), out := [] } with
    | (.normal, s) => (s.out, Option.none)
    | (.err e, s) => (s.out, some e)
    | (.brk, s) => (s.out, some .unmodelled)

def PExpr.hasUnsupported : PExpr → Bool
  | .eq a b => a.hasUnsupported || b.hasUnsupported
  | .unsupported _ => true
  | _ => false

def PStmt.hasUnsupported : PStmt → Bool
  | .seq a b => a.hasUnsupported || b.hasUnsupported
  | .assign _ e | .addAssign _ e | .print e => e.hasUnsupported
  | .ite c t e => c.hasUnsupported || t.hasUnsupported || e.hasUnsupported
  | .forIn _ it b => it.hasUnsupported || b.hasUnsupported
  | .unsupported _ => true
  | _ => false

/-! ### values of the glue, the parser object -/

/-- Python values the glue handles: what click hands to a callback and what `__init__` stores. -/
inductive Val
  | none
  | bool (b : Bool)
  | int (n : Int)
  | str (s : String)
  | tuple (xs : List Int)           -- a `multiple=True` option: the tuple of the converted values
  | list (xs : List Int)            -- `[]`, `list(<tuple>)`
  | dict                            -- `{}`
  | file                            -- the open dump (`click.File('rb')`)
  deriving DecidableEq, Repr, Inhabited

/-- The attributes of the parser object, in the order they were first assigned. -/
abbrev Obj := List (String × Val)

def Obj.get (o : Obj) (a : String) : Option Val := o.lookup a

def Obj.set : Obj → String → Val → Obj
  | [], a, v => [(a, v)]
  | (b, w) :: r, a, v => if b = a then (a, v) :: r else (b, w) :: Obj.set r a v

/-! ### option declarations -/

inductive Kind
  | int                             -- `type=click.INT`
  | basedInt                        -- `type=BASED_INT`: the module's `BasedIntParamType` (`Convert`)
  | str                             -- no `type=`, default `None` or a str: click's STRING
  | flag                            -- `--x` / `--no-x`: a boolean flag
  | file (mode : String)            -- `type=click.File(mode)`
  | unsupported (src : String)
  deriving DecidableEq, Repr

/-- One `click.option(…)` / `click.argument(…)`.  `param` is the keyword the callback receives (click's rule: the first
    long spelling, `-` → `_`; of `--a` / `--no-a` the part before the slash); `help=` is dropped. -/
structure Decl where
  param : String
  isArgument : Bool := false
  flags : List String               -- the spellings as written: `-c`, `--count`, `--show-tid` / `--no-show-tid` in one string
  kind : Kind
  default : Val := .none            -- `default=`; absent and `None` alike
  multiple : Bool := false
  deriving DecidableEq, Repr

/-- `BasedIntParamType.convert`: `try: return int(value, <base>) except ValueError: self.fail(…)`. -/
structure Convert where
  base : Int
  valueErrorFails : Bool            -- the handler is `self.fail(…)`: a usage error instead of a traceback
  deriving DecidableEq, Repr

/-! ### commands -/

inductive Expr
  | lit (v : Val)
  | name (n : String)               -- a parameter of the callback
  | listOf (n : String)             -- `list(<parameter>)`
  | unsupported (src : String)
  deriving DecidableEq, Repr

/-- The statements of a command body; `parser` is the one local (any name). -/
inductive Stmt
  | newParser (cls : String) (args : List Expr)                  -- `parser = <cls>(args…)`
  | setAttr (attr : String) (e : Expr)                           -- `parser.<attr> = e`
  | printWithCount (method : String) (arg count : Expr)          -- `print_with_count(parser.<method>(arg), count)`
  | drain (method : String) (arg : Expr)                         -- `list(parser.<method>(arg))`
  | printJson (attr : String) (indent : Int)                     -- `print(json.dumps(parser.<attr>, indent=<n>))`
  | unsupported (src : String)
  deriving DecidableEq, Repr

/-- `@cli.command()` + decorators + `def <name>(<fnParams>): body`.  The callback is called by keyword, so neither the
    order of the decorators nor that of the parameters matters: both lists are sorted by the translator. -/
structure Command where
  name : String
  decls : List Decl
  fnParams : List String
  body : List Stmt
  deriving DecidableEq, Repr

/-! ### the four maps -/

/-- an argument in `formatted_*` -/
inductive FArg
  | kdebug                          -- the parameter `kdebug`
  | traceCodes                      -- the parameter `trace_codes` as given (possibly `None`)
  | codesOrDefault                  -- `default_trace_codes() if trace_codes is None else trace_codes`
  | unsupported (src : String)
  deriving DecidableEq, Repr

/-- `def formatted_x(self, kdebug[, trace_codes=None]): return map(lambda x: self.<formatter>(x, fmtArgs…),
    self.<source>(srcArgs…))`. -/
structure Formatted where
  hasCodesParam : Bool
  formatter : String
  fmtArgs : List FArg
  source : String
  srcArgs : List FArg
  deriving DecidableEq, Repr

/-- Everything the commands refer to. -/
structure Prog where
  printWithCount : Func
  init : List (String × Expr)                    -- `PyKdebugParser.__init__`: `self.<attr> = <value>` in order
  formatted : List (String × Formatted) := []    -- the maps by method name
  deriving DecidableEq, Repr

/-! ### interpreter of the commands -/

/-- The meaning of the methods the glue calls: a function of the object's attributes and the dump. -/
structure World (δ τ : Type) where
  /-- `parser.<method>(dump)` for a `PyKdebugParser` with these attributes: the lines the generator delivers and the
      exception it ends with, if any. -/
  formatted : String → Obj → δ → List String × Option PyErr
  /-- `list(KdBufParser({}, {}).parse(dump))`: the parser's tables afterwards, or the exception. -/
  parseAll : δ → Except PyErr τ
  /-- `json.dumps(parser.<attr>, indent=<n>)` -/
  jsonDumps : τ → String → Int → Except PyErr String

/-- What click hands over: for every option name, the converted value if the user gave the option. -/
abbrev Args := List (String × Option Val)

inductive Result
  | usage                                                   -- click rejects the command line: nothing runs
  | ran (printed : List String) (exc : Option PyErr)        -- the callback ran: what it printed, how it ended
  deriving DecidableEq, Repr

inductive PObj (τ : Type)
  | py (o : Obj)                    -- a `PyKdebugParser`
  | kd                              -- a fresh `KdBufParser({}, {})`
  | kdDrained (t : τ)               -- … after `list(parser.parse(dump))`

structure St (τ : Type) where
  parser : Option (PObj τ) := Option.none
  out : List String := []
  calls : List (String × Obj × Int) := []      -- log (write-only): method, object at the call, count

def evalExpr (env : List (String × Val)) : Expr → Except PyErr Val
  | .lit v => .ok v
  | .name n => match env.lookup n with | some v => .ok v | Option.none => .error .unmodelled
  | .listOf n =>
    match env.lookup n with
    | some (.tuple xs) => .ok (.list xs)
    | some (.list xs) => .ok (.list xs)
    | some .none => .error .typeError                       -- `'NoneType' object is not iterable`
    | some (.bool _) => .error .typeError
    | some (.int _) => .error .typeError
    | _ => .error .unmodelled
  | .unsupported _ => .error .unmodelled

/-- `__init__`: the assignments in order. -/
def initObj : List (String × Expr) → Obj → Except PyErr Obj
  | [], o => .ok o
  | (a, e) :: rest, o =>
    match evalExpr [] e with
    | .ok v => initObj rest (o.set a v)
    | .error x => .error x

def exec1 {δ τ : Type} (P : Prog) (W : World δ τ) (env : List (String × Val)) (dump : δ) : Stmt → St τ → St τ × Option PyErr
  | .newParser cls args, s =>
    if cls = "PyKdebugParser" then
      if args ≠ [] then (s, some .typeError)
      else match initObj P.init [] with
        | .ok o => ({ s with parser := some (.py o) }, Option.none)
        | .error x => (s, some x)
    else if cls = "KdBufParser" then
      if args = [.lit .dict, .lit .dict] then ({ s with parser := some .kd }, Option.none) else (s, some .unmodelled)
    else (s, some .unmodelled)
  | .setAttr a e, s =>
    match s.parser with
    | some (.py o) =>
      (match evalExpr env e with
       | .ok v => ({ s with parser := some (.py (o.set a v)) }, Option.none)
       | .error x => (s, some x))
    | _ => (s, some .unmodelled)
  | .printWithCount m arg cnt, s =>
    match s.parser, evalExpr env arg, evalExpr env cnt with
    | some (.py o), .ok .file, .ok (.int c) =>
      let r := runPwc P.printWithCount (W.formatted m o dump) c
      ({ s with out := s.out ++ r.1, calls := s.calls ++ [(m, o, c)] }, r.2)
    | _, .error x, _ => (s, some x)
    | _, _, .error x => (s, some x)
    | _, _, _ => (s, some .unmodelled)
  | .drain m arg, s =>
    match s.parser, evalExpr env arg with
    | some .kd, .ok .file =>
      if m = "parse" then
        match W.parseAll dump with
        | .ok t => ({ s with parser := some (.kdDrained t) }, Option.none)
        | .error x => (s, some x)
      else (s, some .unmodelled)
    | _, .error x => (s, some x)
    | _, _ => (s, some .unmodelled)
  | .printJson a n, s =>
    match s.parser with
    | some (.kdDrained t) =>
      (match W.jsonDumps t a n with
       | .ok txt => ({ s with out := s.out ++ [txt] }, Option.none)
       | .error x => (s, some x))
    | _ => (s, some .unmodelled)
  | .unsupported _, s => (s, some .unmodelled)

def execAll {δ τ : Type} (P : Prog) (W : World δ τ) (env : List (String × Val)) (dump : δ) : List Stmt → St τ → St τ × Option PyErr
  | [], s => (s, Option.none)
  | [st], s => exec1 P W env dump st s
  | st :: rest, s =>
    match exec1 P W env dump st s with
    | (s', Option.none) => execAll P W env dump rest s'
    | r => r

/-- what the callback receives for an option the user did not give -/
def defaultOf (d : Decl) : Val :=
  match d.default with
  | .none => if d.multiple then .tuple [] else if d.kind = .flag then .bool false else .none
  | v => v

/-- every option the user gave is one the command declares -/
def argsDeclared (c : Command) (args : Args) : Bool :=
  args.all fun kv => kv.2.isNone || c.decls.any fun d => d.param == kv.1 && !d.isArgument

/-- the keyword arguments of the callback -/
def bindEnv (decls : List Decl) (args : Args) : List (String × Val) :=
  decls.map fun d => (d.param,
    if d.isArgument then Val.file else (args.lookup d.param).join.getD (defaultOf d))

def Kind.isUnsupported : Kind → Bool
  | .unsupported _ => true
  | _ => false

def Expr.isUnsupported : Expr → Bool
  | .unsupported _ => true
  | _ => false

def Stmt.hasUnsupported : Stmt → Bool
  | .newParser _ args => args.any Expr.isUnsupported
  | .setAttr _ e => e.isUnsupported
  | .printWithCount _ a c => a.isUnsupported || c.isUnsupported
  | .drain _ a => a.isUnsupported
  | .printJson _ _ => false
  | .unsupported _ => true

def Command.hasUnsupported (c : Command) : Bool :=
  c.decls.any (fun d => d.kind.isUnsupported) || c.body.any Stmt.hasUnsupported

/-- the state the callback ends in, and the exception that leaves it -/
def runSt {δ τ : Type} (P : Prog) (W : World δ τ) (c : Command) (args : Args) (dump : δ) : Option (St τ × Option PyErr) :=
  if !argsDeclared c args then Option.none
  else if c.decls.any (fun d => d.kind.isUnsupported) then some ({}, some .unmodelled)
  else if c.fnParams ≠ c.decls.map (·.param) then some ({}, some .typeError)     -- unexpected / missing keyword argument
  else some (execAll P W (bindEnv c.decls args) dump c.body {})

/-- One invocation of a command: options as click parsed them, the dump. -/
def run {δ τ : Type} (P : Prog) (W : World δ τ) (c : Command) (args : Args) (dump : δ) : Result :=
  match runSt P W c args dump with
  | Option.none => .usage
  | some (s, exc) => .ran s.out exc

/-! ### interpreter of the four maps -/

/-- values of the arguments in `formatted_*`; `κ` = code tables -/
inductive ArgVal (κ : Type)
  | kdebug
  | none
  | codes (c : κ)
  | defaultCodes                    -- the result of `default_trace_codes()`

/-- The methods the maps call: `self.<source>(args…)` as a generator outcome over items `ι`, `self.<formatter>(item,
    extra…)`; both read the object. -/
structure Methods (δ ι κ : Type) where
  source : String → Obj → List (ArgVal κ) → δ → List ι × Option PyErr
  formatter : String → Obj → ι → List (ArgVal κ) → Except PyErr String

def evalFArg {κ : Type} (tc : Option κ) : FArg → Except PyErr (ArgVal κ)
  | .kdebug => .ok .kdebug
  | .traceCodes => .ok (match tc with | some c => .codes c | Option.none => .none)
  | .codesOrDefault => .ok (match tc with | some c => .codes c | Option.none => .defaultCodes)
  | .unsupported _ => .error .unmodelled

/-- `map(f, gen)` consumed to the end: the lines before the first exception — of the formatter or of the source. -/
def mapGen {ι : Type} (f : ι → Except PyErr String) : List ι → Option PyErr → List String × Option PyErr
  | [], err => ([], err)
  | x :: xs, err =>
    match f x with
    | .error e => ([], some e)
    | .ok s => let r := mapGen f xs err; (s :: r.1, r.2)

def evalFArgs {κ : Type} (tc : Option κ) : List FArg → Except PyErr (List (ArgVal κ))
  | [] => .ok []
  | a :: rest =>
    match evalFArg tc a, evalFArgs tc rest with
    | .ok x, .ok xs => .ok (x :: xs)
    | .error e, _ => .error e
    | _, .error e => .error e

/-- `self.formatted_x(kdebug, trace_codes)` (`tc = none`: the argument omitted / `None`). -/
def runFormatted {δ ι κ : Type} (M : Methods δ ι κ) (f : Formatted) (o : Obj) (tc : Option κ) (dump : δ) :
    List String × Option PyErr :=
  if tc.isSome && !f.hasCodesParam then ([], some .typeError)
  else
    match evalFArgs tc f.srcArgs, evalFArgs tc f.fmtArgs with
    | .ok sa, .ok fa =>
      mapGen (fun x => M.formatter f.formatter o x fa) (M.source f.source o sa dump).1 (M.source f.source o sa dump).2
    | .error e, _ => ([], some e)
    | _, .error e => ([], some e)

def Formatted.hasUnsupported (f : Formatted) : Bool :=
  (f.fmtArgs ++ f.srcArgs).any fun a => match a with | .unsupported _ => true | _ => false

/-- The commands' `parser.formatted_x(dump)` answered by the translated maps (called with the dump only). -/
def Prog.formattedVia {δ ι κ τ : Type} (P : Prog) (M : Methods δ ι κ) (parseAll : δ → Except PyErr τ)
    (jsonDumps : τ → String → Int → Except PyErr String) : World δ τ :=
  { formatted := fun m o dump =>
      match P.formatted.lookup m with
      | some f => runFormatted M f o Option.none dump
      | Option.none => ([], some .attributeError)
    parseAll := parseAll
    jsonDumps := jsonDumps }

/-! ### `int(text, 0)` (what `BASED_INT` does to the text of a `-cf` / `-sf` value) -/

def digitVal (c : Char) : Option Nat :=
  if '0' ≤ c ∧ c ≤ '9' then some (c.toNat - 48)
  else if 'a' ≤ c ∧ c ≤ 'f' then some (c.toNat - 87)
  else if 'A' ≤ c ∧ c ≤ 'F' then some (c.toNat - 55)
  else Option.none

/-- the digits of `cs` in base `b`, at least one -/
def digitsIn (b : Nat) : List Char → Nat → Option Nat
  | [], acc => some acc
  | c :: cs, acc =>
    match digitVal c with
    | some d => if d < b then digitsIn b cs (acc * b + d) else Option.none
    | Option.none => Option.none

/-- An unsigned literal in base 0: `0x…`, `0o…`, `0b…`, a decimal without leading zeros, or zeros only. -/
def unsignedBase0 (cs : List Char) : Option Nat :=
  match cs with
  | [] => Option.none
  | '0' :: p :: rest =>
    if p = 'x' ∨ p = 'X' then (if rest = [] then Option.none else digitsIn 16 rest 0)
    else if p = 'o' ∨ p = 'O' then (if rest = [] then Option.none else digitsIn 8 rest 0)
    else if p = 'b' ∨ p = 'B' then (if rest = [] then Option.none else digitsIn 2 rest 0)
    else if (p :: rest).all (· = '0') then some 0 else Option.none
  | _ => digitsIn 10 cs 0

/-- `int(text, 0)` for ASCII texts without white space and underscores (those: `unmodelled`); `ValueError` otherwise
    where Python raises it. -/
def intBase0 (text : String) : Except PyErr Int :=
  let cs := text.toList
  if cs.any (fun c => c = '_' ∨ c.toNat ≤ 32 ∨ 127 ≤ c.toNat) then .error .unmodelled
  else
    let (neg, body) := match cs with
      | '-' :: r => (true, r)
      | '+' :: r => (false, r)
      | r => (false, r)
    match unsignedBase0 body with
    | some n => .ok (if neg then -(n : Int) else n)
    | Option.none => .error .valueError

/-- The text of an option value through `Convert`. -/
def Convert.apply (c : Convert) (text : String) : Except PyErr Int :=
  if c.base = 0 then intBase0 text else .error .unmodelled

/-! ### reading the object the way the hand models do -/

/-- A Python int as the natural number the hand models compare with: a negative filter value can match no thread id,
    class or subclass; it is sent where nothing is (beyond every 64-bit quantity), as the harness of C12 does. -/
def natOf (i : Int) : Nat :=
  match i with
  | .ofNat n => n
  | .negSucc n => 2 ^ 70 + (n + 1)

def intsOf : Val → Option (List Int)
  | .tuple xs => some xs
  | .list xs => some xs
  | _ => Option.none

def boolOf : Option Val → Option Bool
  | some (.bool b) => some b
  | _ => Option.none

/-- `filter_tid`, `filter_class`, `filter_subclass`, `filter_process` as `Filters.Cfg`. -/
def cfgOfObj (o : Obj) : Option Filters.Cfg := do
  let tid ← match o.get "filter_tid" with
    | some .none => some Option.none
    | some (.int n) => some (some (natOf n))
    | _ => Option.none
  let cls ← (o.get "filter_class").bind intsOf
  let sub ← (o.get "filter_subclass").bind intsOf
  let proc ← match o.get "filter_process" with
    | some .none => some Option.none
    | some (.str s) => some (some s)
    | _ => Option.none
  pure { filterTid := tid, filterClass := cls.map natOf, filterSubclass := sub.map natOf, filterProcess := proc }

/-- the six `show_*` switches as `Format.Show` -/
def showOfObj (o : Obj) : Option Format.Show := do
  let a ← boolOf (o.get "show_timestamp")
  let b ← boolOf (o.get "show_name")
  let c ← boolOf (o.get "show_func_qual")
  let d ← boolOf (o.get "show_tid")
  let e ← boolOf (o.get "show_process")
  let f ← boolOf (o.get "show_args")
  pure { timestamp := a, name := b, funcQual := c, tid := d, process := e, args := f }

/-- `self.color` -/
def colorOfObj (o : Obj) : Option Bool := boolOf (o.get "color")

/-- all five wall-clock attributes are `None`: `_format_timestamp` prints ticks -/
def wallClockUnset (o : Obj) : Bool :=
  ["numer", "denom", "mach_absolute_time", "usecs_since_epoch", "timezone"].all fun a => o.get a == some .none

/-- the shared tables and the image lists are empty -/
def tablesEmpty (o : Obj) : Bool :=
  o.get "threads_pids" == some .dict && o.get "pids_names" == some .dict &&
  o.get "dyld_addresses" == some (.list []) && o.get "dyld_uuids" == some (.list [])

/-! ### the options as the user gives them, and what the hand models are configured with -/

/-- What the user wrote on the command line (already converted); `none` / `[]` = option omitted. -/
structure Given where
  count : Option Int := Option.none
  tid : Option Int := Option.none
  showTid : Option Bool := Option.none
  process : Option String := Option.none
  classFilters : List Int := []
  subclassFilters : List Int := []
  color : Option Bool := Option.none
  deriving DecidableEq, Repr

def multi (xs : List Int) : Option Val := if xs = [] then Option.none else some (.tuple xs)

def Given.args (g : Given) : Args :=
  [("count", g.count.map .int), ("tid", g.tid.map .int), ("show_tid", g.showTid.map .bool),
   ("process", g.process.map .str), ("class_filters", multi g.classFilters),
   ("subclass_filters", multi g.subclassFilters), ("color", g.color.map .bool)]

/-- The option values in force: what the user gave, else the documented default. -/
structure Opts where
  count : Int := -1
  tid : Option Int := Option.none
  showTid : Bool := false
  process : Option String := Option.none
  classFilters : List Int := []
  subclassFilters : List Int := []
  color : Bool := true
  deriving DecidableEq, Repr

def Opts.ofGiven (g : Given) : Opts :=
  { count := g.count.getD (-1), tid := g.tid, showTid := g.showTid.getD false, process := g.process,
    classFilters := g.classFilters, subclassFilters := g.subclassFilters, color := g.color.getD true }

/-- the filter configuration the hand models (`Filters.kevents`, `TracePipeline.traces`, …) take -/
def configOf (o : Opts) : Filters.Cfg :=
  { filterTid := o.tid.map natOf, filterClass := o.classFilters.map natOf,
    filterSubclass := o.subclassFilters.map natOf, filterProcess := o.process }

/-- the column switches the line builders of `Model/Format` take: only the thread-id column is the user's -/
def showOf (o : Opts) : Format.Show := { tid := o.showTid }

/-- The attributes of a fresh `PyKdebugParser()` as the hand models assume them. -/
def freshObj : Obj :=
  [("filter_tid", .none), ("filter_process", .none), ("filter_class", .list []), ("filter_subclass", .list []),
   ("show_timestamp", .bool true), ("show_name", .bool true), ("show_func_qual", .bool true), ("show_tid", .bool false),
   ("show_process", .bool true), ("show_args", .bool true), ("color", .bool true),
   ("numer", .none), ("denom", .none), ("mach_absolute_time", .none), ("usecs_since_epoch", .none), ("timezone", .none),
   ("threads_pids", .dict), ("pids_names", .dict), ("dyld_addresses", .list []), ("dyld_uuids", .list [])]

def optInt : Option Int → Val
  | some n => .int n
  | Option.none => .none

def optStr : Option String → Val
  | some s => .str s
  | Option.none => .none

/-- A parser object with the six attributes the commands assign; the other fourteen as `__init__` leaves them. -/
def objWith (tid proc cls sub showTid color : Val) : Obj :=
  [("filter_tid", tid), ("filter_process", proc), ("filter_class", cls), ("filter_subclass", sub),
   ("show_timestamp", .bool true), ("show_name", .bool true), ("show_func_qual", .bool true), ("show_tid", showTid),
   ("show_process", .bool true), ("show_args", .bool true), ("color", color),
   ("numer", .none), ("denom", .none), ("mach_absolute_time", .none), ("usecs_since_epoch", .none), ("timezone", .none),
   ("threads_pids", .dict), ("pids_names", .dict), ("dyld_addresses", .list []), ("dyld_uuids", .list [])]

/-- the object `kevents` hands to `formatted_kevents`: the two lists are the TUPLES click delivers; no process filter,
    colour as `__init__` leaves it -/
def keventsObj (o : Opts) : Obj :=
  objWith (optInt o.tid) .none (.tuple o.classFilters) (.tuple o.subclassFilters) (.bool o.showTid) (.bool true)

/-- the object `traces` hands to `formatted_traces`: the two lists are fresh LISTS (`list(…)`) -/
def tracesObj (o : Opts) : Obj :=
  objWith (optInt o.tid) (optStr o.process) (.list o.classFilters) (.list o.subclassFilters) (.bool o.showTid) (.bool o.color)

/-- the object `callstacks` / `logs` hand on: no class / subclass filter, colour as `__init__` leaves it -/
def plainObj (o : Opts) : Obj :=
  objWith (optInt o.tid) (optStr o.process) (.list []) (.list []) (.bool o.showTid) (.bool true)

/-- `print_with_count(gen, count)` as the hand model states it: what is printed (`printWithCount` of `Model/Pipeline`) and
    the exception that leaves the call — the generator's own, unless the loop broke, i.e. unless it pulled item number
    `count` (0-based): then the generator is never asked again. -/
def pwcOutcome {α : Type} (gen : List α × Option PyErr) (count : Int) : List α × Option PyErr :=
  (printWithCount gen.1 count, if 0 ≤ count ∧ count < gen.1.length then Option.none else gen.2)

/-- the result of a command that prints a generator through `print_with_count` -/
def pwcResult (gen : List String × Option PyErr) (count : Int) : Result :=
  .ran (pwcOutcome gen count).1 (pwcOutcome gen count).2

end KdVerif.PyIRCli
