import KdVerif.Model.Flags
import KdVerif.Spec.Darwin
/-
  Lemmas for C11.  One generic development about `flagsIn` over a table whose members are single bits
  (or zero) serves every flag family; the reflective side conditions are boolean checkers
  (`CompSite.okB`, …) that `Props/C11.lean` evaluates on the generated tables by `decide`.
-/
namespace KdVerif

/-! ### bits -/

theorem two_pow_and_ne_zero (k x : Nat) : 2 ^ k &&& x ≠ 0 ↔ x.testBit k = true := by
  constructor
  · intro h
    obtain ⟨i, hi⟩ := Nat.exists_testBit_of_ne_zero h
    rw [Nat.testBit_and, Nat.testBit_two_pow] at hi
    simp only [Bool.and_eq_true, decide_eq_true_eq] at hi
    obtain ⟨rfl, hx⟩ := hi
    exact hx
  · intro h h0
    have : (2 ^ k &&& x).testBit k = true := by
      rw [Nat.testBit_and, Nat.testBit_two_pow_self, h]; rfl
    rw [h0, Nat.zero_testBit] at this
    exact Bool.noConfusion this

theorem two_pow_and_eq_zero (k x : Nat) : 2 ^ k &&& x = 0 ↔ x.testBit k = false := by
  have := two_pow_and_ne_zero k x
  constructor
  · intro h; cases hb : x.testBit k with
    | false => rfl
    | true => exact absurd h (this.mpr hb)
  · intro h; by_cases h0 : 2 ^ k &&& x = 0
    · exact h0
    · rw [this.mp h0] at h; exact Bool.noConfusion h

theorem two_pow_and_ne_zero_iff_mod (k x : Nat) : 2 ^ k &&& x ≠ 0 ↔ x / 2 ^ k % 2 = 1 := by
  rw [two_pow_and_ne_zero, Nat.testBit_eq_decide_div_mod_eq, decide_eq_true_eq]

/-- `m` is the single bit `k`. -/
def EnumMember.IsBit (m : EnumMember) (k : Nat) : Prop := m.value = ((2 ^ k : Nat) : Int)

theorem EnumMember.IsBit.toNat {m : EnumMember} {k : Nat} (h : m.IsBit k) : m.value.toNat = 2 ^ k := by
  rw [h]; rfl

theorem EnumMember.IsBit.nonneg {m : EnumMember} {k : Nat} (h : m.IsBit k) : 0 ≤ m.value := by
  rw [h]; exact Int.natCast_nonneg _

theorem EnumMember.IsBit.ne_zero {m : EnumMember} {k : Nat} (h : m.IsBit k) : m.value ≠ 0 := by
  rw [h]; have : 0 < 2 ^ k := Nat.two_pow_pos k
  omega

theorem EnumMember.IsBit.unique {m : EnumMember} {k j : Nat} (h : m.IsBit k) (h' : m.IsBit j) : k = j := by
  have : (2 ^ k : Nat) = 2 ^ j := by
    have := h.symm.trans h'
    exact Int.ofNat_inj.mp this
  exact (Nat.pow_right_inj (by decide)).mp this

/-! ### the comprehension -/

theorem mem_flagsIn {l : List EnumMember} {x : Nat} {m : EnumMember} :
    m ∈ flagsIn l x ↔ m ∈ l ∧ m.value.toNat &&& x ≠ 0 ∧ 0 ≤ m.value := by
  simp [flagsIn, List.mem_filter]

theorem mem_flagsIn_bit {l : List EnumMember} {x : Nat} {m : EnumMember} {k : Nat} (h : m.IsBit k) :
    m ∈ flagsIn l x ↔ m ∈ l ∧ x.testBit k = true := by
  rw [mem_flagsIn, h.toNat, two_pow_and_ne_zero]
  have := h.nonneg
  constructor
  · rintro ⟨a, b, _⟩; exact ⟨a, b⟩
  · rintro ⟨a, b⟩; exact ⟨a, b, this⟩

theorem not_mem_flagsIn_zero {l : List EnumMember} {x : Nat} {m : EnumMember} (h : m.value = 0) :
    m ∉ flagsIn l x := by
  rw [mem_flagsIn, h]; simp

theorem flagsIn_zero (l : List EnumMember) : flagsIn l 0 = [] := by
  simp [flagsIn]

/-! ### boolean checkers evaluated on the generated tables -/

/-- The bit index of a value that is a power of two below 2^64. -/
def bitIndex? (v : Int) : Option Nat := (List.range 64).find? fun k => v = ((2 ^ k : Nat) : Int)

def EnumMember.bitOrZeroB (m : EnumMember) : Bool := m.value == 0 || (bitIndex? m.value).isSome

theorem EnumMember.bitOrZeroB_spec {m : EnumMember} (h : m.bitOrZeroB = true) :
    m.value = 0 ∨ ∃ k, k < 64 ∧ m.IsBit k := by
  simp only [EnumMember.bitOrZeroB, Bool.or_eq_true, beq_iff_eq] at h
  rcases h with h | h
  · exact .inl h
  · right
    obtain ⟨k, hk⟩ := Option.isSome_iff_exists.mp h
    have h1 := List.find?_some hk
    have h2 := List.mem_of_find?_eq_some hk
    simp only [decide_eq_true_eq] at h1
    exact ⟨k, by simpa using h2, h1⟩

/-- membership with the cheap comparison (value) first. -/
def memB (m : EnumMember) (l : List EnumMember) : Bool := l.any fun c => c.value == m.value && c.name == m.name

theorem memB_spec {m : EnumMember} {l : List EnumMember} (h : memB m l = true) : m ∈ l := by
  simp only [memB, List.any_eq_true, Bool.and_eq_true, beq_iff_eq] at h
  obtain ⟨c, hc, hv, hn⟩ := h
  have : c = m := by cases c; cases m; simp_all
  exact this ▸ hc

theorem EnumDef.ofValue_some {e : EnumDef} {x : Int} {m : EnumMember} (h : e.ofValue x = some m) :
    m ∈ e.members ∧ m.value = x := by
  refine ⟨List.mem_of_find?_eq_some h, ?_⟩
  have := List.find?_some h
  simpa using this

/-- Reflective side conditions of one comprehension site:
    every iterated member is zero or one bit below 2^64 and is a declared member;
    the canonical name of every declared positive value is iterated;
    the zero-case member (if any) is a declared member with value 0. -/
def CompSite.okB (s : CompSite) : Bool :=
  s.iter.all (fun m => m.bitOrZeroB && memB m s.enum.members) &&
  s.enum.members.all (fun m => m.bitOrZeroB && (decide (m.value ≤ 0) ||
    (match s.enum.ofValue m.value with | some c => memB c s.iter | none => false))) &&
  (match s.zero with
   | .none => true
   | .wordZero z => z.value == 0 && memB z s.enum.members
   | .emptyResult z => z.value == 0 && memB z s.enum.members)

structure CompSite.OK (s : CompSite) : Prop where
  bits : ∀ m ∈ s.iter, m.value = 0 ∨ ∃ k, k < 64 ∧ m.IsBit k
  memberBits : ∀ m ∈ s.enum.members, m.value = 0 ∨ ∃ k, k < 64 ∧ m.IsBit k
  declared : ∀ m ∈ s.iter, m ∈ s.enum.members
  cover : ∀ m ∈ s.enum.members, 0 < m.value → ∃ c, s.enum.ofValue m.value = some c ∧ c ∈ s.iter
  zeroVal : ∀ z, (s.zero = .wordZero z ∨ s.zero = .emptyResult z) → z.value = 0 ∧ z ∈ s.enum.members

theorem CompSite.okB_spec {s : CompSite} (h : s.okB = true) : s.OK := by
  simp only [CompSite.okB, Bool.and_eq_true, List.all_eq_true, Bool.or_eq_true, decide_eq_true_eq] at h
  obtain ⟨⟨h1, h2⟩, h3⟩ := h
  refine ⟨fun m hm => EnumMember.bitOrZeroB_spec (h1 m hm).1,
    fun m hm => EnumMember.bitOrZeroB_spec (h2 m hm).1, fun m hm => memB_spec (h1 m hm).2, ?_, ?_⟩
  · intro m hm hpos
    rcases (h2 m hm).2 with hle | hc
    · omega
    · cases hv : s.enum.ofValue m.value with
      | none => rw [hv] at hc; exact Bool.noConfusion hc
      | some c => rw [hv] at hc; exact ⟨c, rfl, memB_spec hc⟩
  · intro z hz
    rcases hz with hz | hz <;> rw [hz] at h3 <;>
      simp only [Bool.and_eq_true, beq_iff_eq] at h3 <;> exact ⟨h3.1, memB_spec h3.2⟩

/-! ### generic theorems about one site -/

theorem CompSite.eval_sub (s : CompSite) (v : Nat) (m : EnumMember) (hm : m ∈ s.eval v) :
    m ∈ flagsIn s.iter v ∨ (s.zero = .wordZero m ∧ v = 0) ∨
      (s.zero = .emptyResult m ∧ flagsIn s.iter v = []) := by
  unfold CompSite.eval at hm
  split at hm
  · exact .inl hm
  · rename_i z hz
    split at hm
    · rename_i h0; simp only [List.mem_singleton] at hm; subst hm; exact .inr (.inl ⟨hz, h0⟩)
    · exact .inl hm
  · rename_i z hz
    split at hm
    · rename_i h0; simp only [List.mem_singleton] at hm; subst hm
      exact .inr (.inr ⟨hz, List.isEmpty_iff.mp h0⟩)
    · exact .inl hm

/-- Every shown member with a non-zero value is one bit, and that bit is set in the word. -/
theorem CompSite.sound {s : CompSite} (ok : s.OK) {v : Nat} {m : EnumMember} (hm : m ∈ s.eval v)
    (hnz : m.value ≠ 0) : ∃ k, k < 64 ∧ m.IsBit k ∧ v.testBit k = true := by
  rcases s.eval_sub v m hm with h | ⟨hz, _⟩ | ⟨hz, _⟩
  · have hmem := (mem_flagsIn.mp h).1
    rcases ok.bits m hmem with h0 | ⟨k, hk, hb⟩
    · exact absurd h0 hnz
    · exact ⟨k, hk, hb, ((mem_flagsIn_bit hb).mp h).2⟩
  · exact absurd (ok.zeroVal m (.inl hz)).1 hnz
  · exact absurd (ok.zeroVal m (.inr hz)).1 hnz

/-- Every bit that is set in the word and has a declared name is shown under that name. -/
theorem CompSite.complete {s : CompSite} (ok : s.OK) {v k : Nat} {m : EnumMember}
    (hd : s.enum.ofValue ((2 ^ k : Nat) : Int) = some m) (hb : v.testBit k = true) : m ∈ s.eval v := by
  obtain ⟨hmem, hval⟩ := EnumDef.ofValue_some hd
  have hbit : m.IsBit k := hval
  have hpos : 0 < m.value := by have := hbit.nonneg; have := hbit.ne_zero; omega
  obtain ⟨c, hc, hci⟩ := ok.cover m hmem hpos
  rw [hval, hd] at hc
  cases hc
  have hin : m ∈ flagsIn s.iter v := (mem_flagsIn_bit hbit).mpr ⟨hci, hb⟩
  have hv0 : v ≠ 0 := by rintro rfl; simp at hb
  unfold CompSite.eval
  split
  · exact hin
  · rw [if_neg hv0]; exact hin
  · have : (flagsIn s.iter v).isEmpty = false := by
      cases h : flagsIn s.iter v with
      | nil => rw [h] at hin; cases hin
      | cons a l => rfl
    rw [this]; exact hin

/-- "No declared bit of the family is set in `v`". -/
def CompSite.NoDeclaredBit (s : CompSite) (v : Nat) : Prop :=
  ∀ m ∈ s.enum.members, m.value.toNat &&& v = 0

theorem CompSite.flagsIn_nil_iff {s : CompSite} (ok : s.OK) (v : Nat) :
    flagsIn s.iter v = [] ↔ s.NoDeclaredBit v := by
  constructor
  · intro h m hm
    by_cases hpos : 0 < m.value
    · obtain ⟨c, hc, hci⟩ := ok.cover m hm hpos
      have hcv := (EnumDef.ofValue_some hc).2
      by_cases hz : m.value.toNat &&& v = 0
      · exact hz
      · have : c ∈ flagsIn s.iter v := mem_flagsIn.mpr ⟨hci, by rw [hcv]; exact hz, by omega⟩
        rw [h] at this; cases this
    · have : m.value.toNat = 0 := by omega
      rw [this]; simp
  · intro h
    apply List.eq_nil_iff_forall_not_mem.mpr
    intro m hm
    have := mem_flagsIn.mp hm
    exact this.2.1 (h m (ok.declared m this.1))

/-- When a zero-valued member is shown: never without a zero case; with `if not flags` exactly for
    the zero word; with `if not result` exactly when no declared bit is set. -/
theorem CompSite.zero_iff {s : CompSite} (ok : s.OK) (v : Nat) (m : EnumMember) (hz : m.value = 0) :
    m ∈ s.eval v ↔
      (s.zero = .wordZero m ∧ v = 0) ∨ (s.zero = .emptyResult m ∧ s.NoDeclaredBit v) := by
  rw [← CompSite.flagsIn_nil_iff ok]
  constructor
  · intro hm
    rcases s.eval_sub v m hm with h | h | h
    · exact absurd h (not_mem_flagsIn_zero hz)
    · exact .inl h
    · exact .inr h
  · rintro (⟨h, rfl⟩ | ⟨h, h0⟩)
    · simp [CompSite.eval, h]
    · simp [CompSite.eval, h, h0]

/-! ### serialize_open_flags -/

theorem serializeOpenFlags_tail (acc dflt shown x) :
    (serializeOpenFlags acc dflt shown x).tail = flagsIn shown x := rfl

/-! ### ioctl -/

theorem and_mul_two_pow (x m k : Nat) : x &&& (m * 2 ^ k) = (x / 2 ^ k &&& m) * 2 ^ k := by
  apply Nat.eq_of_testBit_eq
  intro i
  rw [Nat.testBit_and, Nat.testBit_mul_two_pow, Nat.testBit_mul_two_pow, Nat.testBit_and,
    Nat.testBit_div_two_pow]
  by_cases h : k ≤ i
  · simp [h, Nat.sub_add_cancel h]
  · simp [h]

/-! ### sub-families: the members of an enum that lie outside a multi-bit field -/

def EnumMember.outsideB (mask : Nat) (m : EnumMember) : Bool := m.value.toNat &&& mask = 0

/-- The enum restricted to the members that share no bit with `mask` (open flags outside the
    access-mode field, mode bits outside the file-type field). -/
def EnumDef.outside (e : EnumDef) (mask : Nat) : EnumDef :=
  { e with members := e.members.filter (EnumMember.outsideB mask), iter := e.iter.filter (EnumMember.outsideB mask) }

theorem find?_congr_mem {α} {l : List α} {p q : α → Bool} (h : ∀ a ∈ l, p a = q a) :
    l.find? p = l.find? q := by
  induction l with
  | nil => rfl
  | cons a t ih =>
    rw [List.find?_cons, List.find?_cons, h a List.mem_cons_self,
      ih (fun b hb => h b (List.mem_cons_of_mem _ hb))]

/-- For a bit outside the field, the restricted enum declares the same name as the full enum. -/
theorem EnumDef.outside_ofValue (e : EnumDef) (mask k : Nat) (h : mask.testBit k = false) :
    (e.outside mask).ofValue ((2 ^ k : Nat) : Int) = e.ofValue ((2 ^ k : Nat) : Int) := by
  simp only [EnumDef.ofValue, EnumDef.outside, List.find?_filter]
  apply find?_congr_mem
  intro m _
  by_cases hv : m.value = ((2 ^ k : Nat) : Int)
  · have : EnumMember.outsideB mask m = true := by
      unfold EnumMember.outsideB
      rw [EnumMember.IsBit.toNat hv]
      exact decide_eq_true ((two_pow_and_eq_zero k mask).mpr h)
    rw [this, decide_eq_true hv]; rfl
  · rw [decide_eq_false hv]; simp

/-! ### serialize_stat_flags -/

/-- The part of `serialize_stat_flags` outside the file-type field is the plain comprehension over
    the iterated members outside the field. -/
theorem serializeStatFlags_outside (iter : List EnumMember) (tm fm v : Nat) :
    (serializeStatFlags iter tm fm v).filter (EnumMember.outsideB tm) =
      flagsIn (iter.filter (EnumMember.outsideB tm)) v := by
  simp only [serializeStatFlags, flagsIn, List.filter_filter]
  apply List.filter_congr
  intro m _
  by_cases h : m.value.toNat &&& tm = 0
  · simp [EnumMember.outsideB, h]
  · simp [EnumMember.outsideB, h]

/-- The file-type part: the iterated members inside the field whose value *equals* the field. -/
theorem serializeStatFlags_inside (iter : List EnumMember) (tm fm v : Nat) :
    (serializeStatFlags iter tm fm v).filter (fun m => !(EnumMember.outsideB tm m)) =
      (iter.filter (fun m => !(EnumMember.outsideB tm m))).filter
        (fun m => decide (((v &&& fm : Nat) : Int) = m.value ∧ 0 ≤ m.value)) := by
  simp only [serializeStatFlags, List.filter_filter]
  apply List.filter_congr
  intro m _
  by_cases h : m.value.toNat &&& tm = 0
  · simp [EnumMember.outsideB, h]
  · by_cases hn : 0 ≤ m.value
    · simp [EnumMember.outsideB, h, hn]
    · have : m.value.toNat = 0 := by omega
      rw [this] at h; simp at h

/-! ### ioctl words -/

open Spec.Darwin in
/-- `_IOC` as a sum: the four fields do not overlap. -/
theorem ioc_eq_add (d g n l : Nat) (hd : d % 2 ^ 29 = 0) (hg : g < 256) (hn : n < 256) (hl : l < 8192) :
    _IOC d g n l = d + l * 65536 + g * 256 + n := by
  have hm : (IOCPARM_MASK : Nat) = 2 ^ 13 - 1 := by decide
  have hl' : l &&& IOCPARM_MASK = l := by
    rw [hm, Nat.and_two_pow_sub_one_eq_mod]; exact Nat.mod_eq_of_lt hl
  unfold _IOC
  rw [hl', Nat.or_assoc, Nat.or_assoc]
  have h1 : g <<< 8 ||| n = g * 256 + n := by
    rw [← Nat.shiftLeft_add_eq_or_of_lt (by omega : n < 2 ^ 8), Nat.shiftLeft_eq]
  have h2 : l <<< 16 ||| (g * 256 + n) = l * 65536 + (g * 256 + n) := by
    rw [← Nat.shiftLeft_add_eq_or_of_lt (by omega : g * 256 + n < 2 ^ 16), Nat.shiftLeft_eq]
  have h3 : d ||| (l * 65536 + (g * 256 + n)) = d + (l * 65536 + (g * 256 + n)) := by
    have hd' : d = 2 ^ 29 * (d / 2 ^ 29) := by omega
    rw [hd', ← Nat.two_pow_add_eq_or_of_lt (by omega : l * 65536 + (g * 256 + n) < 2 ^ 29)]
  rw [h1, h2, h3]; omega

theorem splitIoctl_keyError_iff (P : List (Nat × String)) (L : IoctlLayout) (w : Nat) :
    splitIoctl P L w = .error .keyError ↔ P.lookup (w &&& L.dirMask) = none := by
  unfold splitIoctl
  cases P.lookup (w &&& L.dirMask) <;> simp

/-- The direction field of a word, as arithmetic. -/
theorem and_dirmask (w : Nat) : w &&& 0xe0000000 = (w / 2 ^ 29 % 8) * 2 ^ 29 := by
  have : (0xe0000000 : Nat) = 7 * 2 ^ 29 := by decide
  rw [this, and_mul_two_pow]
  have : (7 : Nat) = 2 ^ 3 - 1 := by decide
  rw [this, Nat.and_two_pow_sub_one_eq_mod]

theorem shr_and_mask (w s b : Nat) : (w >>> s) &&& (2 ^ b - 1) = w / 2 ^ s % 2 ^ b := by
  rw [Nat.shiftRight_eq_div_pow, Nat.and_two_pow_sub_one_eq_mod]

end KdVerif
