import KdVerif.Model.Pairing
import KdVerif.Model.IRAnalysis
/-
  L4: the whole `TracesParser`: pairing (Model/Pairing) + the shared context tables + the handlers.
  454 handlers are the generated IR decoders (`Env.decoders`); the 15 that keep state or look inside
  their window (`TRACE_*`, `VFS_LOOKUP`, `PERF_Event`, `PERF_THD_Data`, `MACH_vmfault`, the dyld launch)
  are written out here, statement by statement after trace.py / fsystem.py / perf.py / mach.py / dyld.py.

  `bytes.decode()` is the parameter `Env.dec` (strict UTF-8 in the driver), so that the reassembly
  theorems are about bytes and hold for any decoder.
-/
namespace KdVerif.Trace
open KdVerif.IR

/-- A Python dict with integer keys: newest binding first; `get` finds the newest. -/
abbrev Dict (α : Type) := List (Nat × α)

def Dict.get {α : Type} (d : Dict α) (k : Nat) : Option α := List.lookup k d
def Dict.set {α : Type} (d : Dict α) (k : Nat) (v : α) : Dict α := (k, v) :: d
/-- Equal as Python dicts (same keys, same newest bindings). -/
def Dict.same {α : Type} [BEq α] (a b : Dict α) : Bool := (a ++ b).all fun kv => a.get kv.1 == b.get kv.1

/-- The context shared by the handlers (and with the container parser / formatter). -/
structure Tabs where
  threadsPids : Dict Nat := []
  pidsNames : Dict String := []
  tidsNames : Dict String := []
  globalStrings : Dict String := []
  pendingNewthread : Dict Nat := []     -- last_data_newthread[tid].pid
  pendingExec : Dict Nat := []          -- last_data_exec[tid].pid
  deriving Repr, Inhabited

def Tabs.same (a b : Tabs) : Bool :=
  a.threadsPids.same b.threadsPids && a.pidsNames.same b.pidsNames && a.tidsNames.same b.tidsNames
    && a.globalStrings.same b.globalStrings && a.pendingNewthread.same b.pendingNewthread
    && a.pendingExec.same b.pendingExec

structure Env where
  codes : Nat → Option String           -- trace_codes
  host : Host
  tables : Tables
  decoders : List Decoder
  dec : Bytes → Except PyErr String     -- bytes.decode()

def traceDomainNames : List String :=
  ["TRACE_DATA_NEWTHREAD", "TRACE_DATA_EXEC", "TRACE_DATA_THREAD_TERMINATE", "TRACE_DATA_THREAD_TERMINATE_PID",
   "TRACE_STRING_GLOBAL", "TRACE_STRING_NEWTHREAD", "TRACE_STRING_EXEC", "TRACE_STRING_PROC_EXIT",
   "TRACE_STRING_THREADNAME", "TRACE_STRING_THREADNAME_PREV"]

/-- Names decoded by hand-written models below (the translator flags them `supported := false`). -/
def handNames : List String :=
  traceDomainNames ++ ["VFS_LOOKUP", "PERF_Event", "PERF_THD_Data", "MACH_vmfault", "DBG_DYLD_TIMING_LAUNCH_EXECUTABLE"]

def Env.nameOf (env : Env) (e : Kevent) : Option String := env.codes e.eventid

def Env.domOf (env : Env) (eid : Nat) : Bool :=
  match env.codes eid with
  | some n => traceDomainNames.contains n
  | none => false

def hasStart (e : Kevent) : Bool := e.qual &&& 1 ≠ 0
def hasEnd (e : Kevent) : Bool := e.qual &&& 2 ≠ 0

structure Vnode where
  ktraces : List Kevent
  vnodeId : Nat
  path : String
  deriving Repr, Inhabited

/-- `TracesParser.vnode_generator` over the (already filtered) lookup records. -/
def vnodeGen (dec : Bytes → Except PyErr String) :
    List Kevent → (path : Bytes) → (vnodeId : Nat) → (evs : List Kevent) → Except PyErr (List Vnode)
  | [], _, _, _ => .ok []
  | e :: rest, path, vid, evs =>
    let evs' := evs ++ [e]
    let (vid', path') := if hasStart e then ((e.values[0]?).getD 0, path ++ e.data.drop 8) else (vid, path ++ e.data)
    if hasEnd e then do
      let s ← dec (stripNul path')
      let more ← vnodeGen dec rest [] 0 []
      pure (⟨evs', vid', s⟩ :: more)
    else vnodeGen dec rest path' vid' evs'

def isLookup (env : Env) (e : Kevent) : Bool := env.nameOf e == some "VFS_LOOKUP"

/-- `parser.parse_vnodes(events)`. -/
def parseVnodes (env : Env) (events : List Kevent) : Except PyErr (List Vnode) :=
  vnodeGen env.dec (events.filter (isLookup env)) [] 0 []

/-- `parser.parse_vnode(events)`: `try: return self.parse_vnodes(events)[0] except IndexError: return Vnode([], 0, '')`.
    The handler catches EVERY IndexError of the `try` body — also one raised inside `parse_vnodes` (which the real
    `bytes.decode()` never raises; `dec` is arbitrary here). -/
def parseVnode (env : Env) (events : List Kevent) : Except PyErr Vnode :=
  match parseVnodes env events with
  | .ok (v :: _) => .ok v
  | .ok [] => .ok ⟨[], 0, ""⟩
  | .error .indexError => .ok ⟨[], 0, ""⟩
  | .error e => .error e

/-- The decoder IR's view of a window: START/END words, lookups, and the context tables. -/
def mkWindow (env : Env) (t : Tabs) (events : List Kevent) (needLookups : Bool := true) :
    Except PyErr Window := do
  let first := events.head?.getD default
  let last := events.getLast?.getD default
  -- a handler that never calls parse_vnode(s) decodes no path (and cannot raise on a damaged one)
  let vnodes ← if needLookups then parseVnodes env events else pure []
  -- the second-phase lookup of link/rename/…: an exception there (only possible when value-equal records are
  -- removed from a later lookup, finding K5) is not modelled and reads as "no second lookup"
  let rest := match vnodes with
    | v :: _ => ((parseVnodes env (events.filter fun e => !v.ktraces.contains e)).toOption).getD []
    | [] => []
  pure { startArgs := first.values, endArgs := last.values, startTid := first.tid, startData := first.data,
         lookups := vnodes.map fun v => ⟨v.path, v.vnodeId⟩,
         restFirst := rest.head?.map fun v => ⟨v.path, v.vnodeId⟩,
         globalStrings := t.globalStrings.get, threadsPids := t.threadsPids.get, tidsNames := t.tidsNames.get }

/-- Structured payload of the composite traces (C20) and the callstack-relevant ones (C15). -/
inductive Extra
  | none
  | vmfault (result : Nat) (faultType : Option String) (pid : Option Nat) (prot : Option (List String))
  | launch (images : List (Nat × Bytes))                       -- (load address, uuid bytes), sorted
  | perf (thInfo : Option (Nat × Nat)) (frames : Option (List Nat)) (flags : Option (List String))
  deriving Repr, Inhabited

/-- What `feed` yields: handler key, `trace.ktraces`, `str(trace)` (or the exception it raises). -/
structure TraceOut where
  name : String
  events : List Kevent
  text : Except PyErr String
  extra : Extra := .none
  /-- generated decoders: the dataclass name and the constructor arguments after `ktraces` (attribute reads of
      a composite handler on a nested object, `handle_mach_vmfault`) -/
  obj : Option (String × List Val) := none
  deriving Inhabited

def findDecoder (env : Env) (name : String) : Option Decoder := env.decoders.find? (·.name == name)

/-- A generated decoder applied to a window: constructor arguments are evaluated by the handler call
    (an exception there aborts the stream), `__str__` later. -/
def noLookupSel : Sel :=
  { startAll := true, endA := true, tid := true, data := true, gstr := true, tpids := true, tnames := true,
    host := true, hostErrno := true, fields := true }

def usesLookups (d : Decoder) : Bool := !(d.fields.all (within noLookupSel))

/-- The handler call of a generated decoder: the dataclass fields (an exception there aborts the stream) and
    `__str__` (evaluated later). -/
def runGeneratedObj (env : Env) (t : Tabs) (d : Decoder) (events : List Kevent) :
    Except PyErr (List Val × Except PyErr String) := do
  let w ← mkWindow env t events (usesLookups d)
  let c : Ctx := { host := env.host, tables := env.tables, win := w }
  let fs ← evalFields c d.fields
  pure (fs, match eval { c with fields := fs } d.str with
        | .ok (.str s) => .ok s
        | .ok _ => .error .typeError
        | .error e => .error e)

def runGenerated (env : Env) (t : Tabs) (d : Decoder) (events : List Kevent) :
    Except PyErr (Except PyErr String) :=
  (runGeneratedObj env t d events).map (·.2)

def arg (e : Kevent) (k : Nat) : Nat := (e.values[k]?).getD 0

def firstOf (events : List Kevent) : Kevent := events.head?.getD default
def lastOf (events : List Kevent) : Kevent := events.getLast?.getD default

/-- The handler's answer: `none` = the handler returned None (swallowed fragment). -/
abbrev HRes := Except PyErr (Option TraceOut × Tabs)

def mk (name : String) (events : List Kevent) (text : String) (extra : Extra := .none) : TraceOut :=
  { name := name, events := events, text := .ok text, extra := extra }

/-! ### trace.py -/

def hDataNewthread (_ : Env) (t : Tabs) (events : List Kevent) : HRes :=
  let e := firstOf events
  let tid := arg e 0; let pid := arg e 1
  .ok (some (mk "TRACE_DATA_NEWTHREAD" events s!"New thread {tid} of parent: {pid}"),
       { t with pendingNewthread := t.pendingNewthread.set e.tid pid, threadsPids := t.threadsPids.set tid pid })

def hDataExec (_ : Env) (t : Tabs) (events : List Kevent) : HRes :=
  let e := firstOf events
  let pid := arg e 0
  .ok (some (mk "TRACE_DATA_EXEC" events s!"New process pid: {pid}"),
       { t with pendingExec := t.pendingExec.set e.tid pid })

def hDataThreadTerminate (_ : Env) (t : Tabs) (events : List Kevent) : HRes :=
  let tid := arg (firstOf events) 0
  let rep := s!"Thread terminated tid: {tid}"
  let rep := match t.threadsPids.get tid with
    | some pid => rep ++ s!", pid: {pid}"
    | none => rep
  let name := (t.tidsNames.get tid).getD ""
  let rep := if name ≠ "" then rep ++ s!", name: {name}" else rep
  .ok (some (mk "TRACE_DATA_THREAD_TERMINATE" events rep), t)

def hDataThreadTerminatePid (_ : Env) (t : Tabs) (events : List Kevent) : HRes :=
  let e := firstOf events
  let pid := arg e 0; let uid := arg e 1
  .ok (some (mk "TRACE_DATA_THREAD_TERMINATE_PID" events s!"Thread terminated thread pid: {pid}, unique id {uid}"),
       { t with threadsPids := t.threadsPids.set e.tid pid })

/-- The `for event in events: … break` loop of `handle_trace_string_global`; records of another code
    (`own` = the first record's event id) are skipped. -/
def globalLoop (own : Nat) : List Kevent → (dbg sid : Nat) → (vstr : Bytes) → (evs : List Kevent) → Nat × Nat × Bytes × List Kevent
  | [], dbg, sid, vstr, evs => (dbg, sid, vstr, evs)
  | e :: rest, dbg, sid, vstr, evs =>
    if e.eventid ≠ own then globalLoop own rest dbg sid vstr evs else
    let evs' := evs ++ [e]
    let (dbg', sid', vstr') :=
      if hasStart e then (arg e 0, arg e 1, vstr ++ e.data.drop 16) else (dbg, sid, vstr ++ e.data)
    if hasEnd e then (dbg', sid', vstr', evs') else globalLoop own rest dbg' sid' vstr' evs'

/-- `decode(errors='backslashreplace')` is modelled on valid text only (C07/C08 assume valid text). -/
def hStringGlobal (env : Env) (t : Tabs) (events : List Kevent) : HRes :=
  if !hasStart (firstOf events) then .ok (none, t) else
  let (_, sid, vstr, evs) := globalLoop (firstOf events).eventid events 0 0 [] []
  match env.dec (stripNul vstr) with
  | .error _ => .error .unmodelled  -- outside the model: invalid text is rendered with backslash escapes
  | .ok s =>
    let t' := if s ≠ "" then { t with globalStrings := t.globalStrings.set sid s } else t
    .ok (some (mk "TRACE_STRING_GLOBAL" evs s!"New global string: \"{s}\", id: {sid}"), t')

def hStringNewthread (env : Env) (t : Tabs) (events : List Kevent) : HRes := do
  let e := firstOf events
  let name ← env.dec (stripNul e.data)
  let t' := match t.pendingNewthread.get e.tid with
    | some pid => { t with pidsNames := t.pidsNames.set pid name }
    | none => t
  pure (some (mk "TRACE_STRING_NEWTHREAD" events s!"New thread of parent: {name}"), t')

def hStringExec (env : Env) (t : Tabs) (events : List Kevent) : HRes := do
  let e := firstOf events
  let name ← env.dec (stripNul e.data)
  let t' := match t.pendingExec.get e.tid with
    | some pid => { t with pidsNames := t.pidsNames.set pid name }
    | none => t
  pure (some (mk "TRACE_STRING_EXEC" events s!"New process name: {name}"), t')

def hStringProcExit (env : Env) (t : Tabs) (events : List Kevent) : HRes := do
  let name ← env.dec (stripNul (firstOf events).data)
  pure (some (mk "TRACE_STRING_PROC_EXIT" events s!"Process exit name: {name}"), t)

/-- `b''.join([e.data for e in events if e.eventid == events[0].eventid])` -/
def joinData (events : List Kevent) : Bytes :=
  ((events.filter fun e => e.eventid == (firstOf events).eventid).map (·.data)).flatten

def hStringThreadname (key label : String) (env : Env) (t : Tabs) (events : List Kevent) : HRes :=
  if !hasStart (firstOf events) then .ok (none, t) else do
  let name ← env.dec (stripNul (joinData events))
  pure (some (mk key events (label ++ name)), { t with tidsNames := t.tidsNames.set (firstOf events).tid name })

/-! ### fsystem.py -/

def hVfsLookup (env : Env) (t : Tabs) (events : List Kevent) : HRes :=
  if !hasStart (firstOf events) then .ok (none, t) else do
  let vs ← parseVnodes env events
  let (path, vid) := match vs with
    | v :: _ => (v.path, v.vnodeId)
    | [] => ("", 0)
  pure (some (mk "VFS_LOOKUP" events s!"lookup(\"{path}\"), vnode id: {vid}"), t)

/-! ### perf.py -/

def namedIs (env : Env) (n : String) (e : Kevent) : Bool := (env.nameOf e).getD "" == n

def enumNamesOf (env : Env) (enumName : String) (x : Nat) : List String :=
  match env.tables.enums.find? (·.name == enumName) with
  | some d => (d.flagsOf x).map (·.name)
  | none => []

def hPerfThdData (env : Env) (t : Tabs) (events : List Kevent) : HRes :=
  let e := firstOf events
  let pid := arg e 0; let tid := arg e 1
  let runmode := " | ".intercalate (enumNamesOf env "KperfTiState" (arg e 3 &&& 0xffff))
  .ok (some (mk "PERF_THD_Data" events
        s!"PERF_THD_Data, pid: {pid}, tid: {tid}, dq_addr: {pyHex (arg e 2)}, runmode: {runmode}"),
       { t with threadsPids := t.threadsPids.set tid pid })

def hPerfEvent (env : Env) (t : Tabs) (events : List Kevent) : HRes :=
  let e := firstOf events
  let what := enumNamesOf env "SamplerAction" (arg e 0)
  -- SAMPLER_TH_INFO in sample_what
  let thSub := events.filter (namedIs env "PERF_THD_Data")
  let (thInfo, t') :=
    if what.contains "SAMPLER_TH_INFO" then
      match thSub with
      | s :: _ => (some (arg s 0, arg s 1), { t with threadsPids := t.threadsPids.set (arg s 1) (arg s 0) })
      | [] => (none, t)
    else (none, t)
  let hdrSub := events.filter (namedIs env "PERF_STK_UHdr")
  let (frames, flags) :=
    if what.contains "SAMPLER_USTACK" then
      match hdrSub with
      | h :: _ =>
        let words := ((events.filter (namedIs env "PERF_STK_UData")).map (·.values)).flatten
        (some (words.take (arg h 1)), some (enumNamesOf env "CallstackFlag" (arg h 0)))
      | [] => (none, none)
    else (none, none)
  let rep := s!"PERF_Event, sample_what: {" | ".intercalate what}, actionid: {arg e 1}"
  let rep := match frames with
    | some f => rep ++ s!", frames count: {f.length}"
    | none => rep
  .ok (some (mk "PERF_Event" events rep (.perf thInfo frames flags)), t')

/-! ### mach.py / dyld.py composites -/

def enumNameOfValue (env : Env) (enumName : String) (x : Nat) : Option String :=
  match env.tables.enums.find? (·.name == enumName) with
  | some d => (d.ofValue x).map (·.name)
  | none => none

def vmProtNames (env : Env) (x : Nat) : List String :=
  if x = 0 then ["VM_PROT_NONE"] else enumNamesOf env "VmProtection" x

def realFaultClasses : List String :=
  ["RealFaultAddressInternal", "RealFaultAddressExternal", "RealFaultAddressSharedCache"]

/-- `vm_fault_real.pid` and `vm_fault_real.caller_prot` on the object the nested handler returned: only the three
    `RealFaultAddress*` dataclasses (fields after `ktraces`: vaddr, user_tag, caller_prot, fault_type, offset, pid)
    and `MachVmfault` itself have both attributes; anything else raises AttributeError. -/
def pidProtOf (out : TraceOut) : Except PyErr (Option Nat × Option (List String)) :=
  match out.extra with
  | .vmfault _ _ pid prot => .ok (pid, prot)
  | _ =>
    match out.obj with
    | some (cls, fs) =>
      if realFaultClasses.contains cls then
        match (fs[5]? : Option Val), (fs[2]? : Option Val) with
        | some (.int p), some (.members l) => .ok (some p.toNat, some (l.map (·.name)))
        | _, _ => .error .unmodelled
      else .error .attributeError
    | none => .error .attributeError

/-- `[e for e in events[1:-1] if 0x1320008 <= e.eventid <= 0x1320014]` -/
def realEvents (events : List Kevent) : List Kevent :=
  ((events.drop 1).dropLast).filter fun x => decide (0x1320008 ≤ x.eventid ∧ x.eventid ≤ 0x1320014)

/-- The fields `handle_mach_vmfault` computes from `events[0]` (`s`), `events[-1]` (`e`) and the in-range records of
    `events[1:-1]` (`inner`): `str(trace)` and the payload.  `nested` is `parser.parse_event_list`: the WHOLE list
    of in-range records goes to whatever handler the code table names for the first of them (the generated
    RealFaultAddress* decoders, whose enum lookup may raise ValueError; under another code table any handler,
    including this one). -/
def vmfaultCore (nested : Tabs → List Kevent → Except PyErr (Option TraceOut × Tabs))
    (env : Env) (t : Tabs) (s e : Kevent) (inner : List Kevent) : Except PyErr ((String × Extra) × Tabs) :=
  let result := arg e 2
  let head := s!"MachVmfault, addr: {pyHex (arg s 1)}, is_kernel: {if arg s 2 = 0 then "False" else "True"}, result: {result}"
  if result ≠ 0 then .ok ((head, .vmfault result none none none), t) else
  match enumNameOfValue env "DbgVmFaultType" (arg e 3) with
  | none => .error .valueError
  | some ft =>
    let plain (t' : Tabs) : Except PyErr ((String × Extra) × Tabs) :=
      .ok ((head ++ s!", type: {ft}", .vmfault 0 (some ft) none none), t')
    if inner.isEmpty then plain t else
    match nested t inner with
    | .error err => .error err
    | .ok (none, t') => plain t'                    -- `if vm_fault_real is not None`
    | .ok (some out, t') =>
      match pidProtOf out with
      | .error err =>
        -- the attribute read raises after the nested handler ran: tables it changed stay changed, which the error
        -- channel cannot carry (only a nested PERF_THD_Data / PERF_Event under a custom code table can do that)
        if t'.same t then .error err else .error .unmodelled
      | .ok (some pid, some prot) =>
        .ok ((head ++ s!", type: {ft}, vm_prot: {" | ".intercalate prot}, pid: {pid}",
              .vmfault 0 (some ft) (some pid) (some prot)), t')
      | .ok (pid, prot) => .ok ((head ++ s!", type: {ft}", .vmfault 0 (some ft) pid prot), t')

/-- `handle_mach_vmfault`. -/
def hMachVmfault (nested : Tabs → List Kevent → Except PyErr (Option TraceOut × Tabs))
    (env : Env) (t : Tabs) (events : List Kevent) : Except PyErr (Option TraceOut × Tabs) :=
  (vmfaultCore nested env t (firstOf events) (lastOf events) (realEvents events)).map
    fun r => (some (mk "MACH_vmfault" events r.1.1 r.1.2), r.2)

/-- `UUID(bytes=events[0].data[:16])` raises ValueError unless it gets 16 bytes. -/
def uuidBytes (e : Kevent) : Except PyErr Bytes :=
  let b := e.data.take 16
  if b.length = 16 then .ok b else .error .valueError

def namedExactly (env : Env) (n : String) (e : Kevent) : Bool := env.nameOf e == some n

def insertStable (x : Nat × Bytes) : List (Nat × Bytes) → List (Nat × Bytes)
  | [] => [x]
  | y :: ys => if x.1 ≤ y.1 then x :: y :: ys else y :: insertStable x ys

/-- `sorted(l, key=lambda x: x.load_addr)` (stable). -/
def sortStable (l : List (Nat × Bytes)) : List (Nat × Bytes) := l.foldr insertStable []

/-- `handle_timing_launch_executable`. -/
def hDyldLaunch (env : Env) (t : Tabs) (events : List Kevent) : Except PyErr (Option TraceOut × Tabs) := do
  let recs := events.filter (namedExactly env "DYLD_uuid_map_a") ++ events.filter (namedExactly env "DYLD_uuid_shared_cache_a")
  let imgs ← recs.mapM fun e => do let u ← uuidBytes e; pure (arg e 2, u)
  let s := firstOf events
  pure (some (mk "DBG_DYLD_TIMING_LAUNCH_EXECUTABLE" events
        s!"DBG_DYLD_TIMING_LAUNCH_EXECUTABLE, main_executable_mh: {pyHex (arg s 1)}" (.launch (sortStable imgs))), t)

/-- `self.handlers[trace_name](self, events)`; `nested` = `parser.parse_event_list` for the handlers that call it. -/
def handleWith (nested : Tabs → List Kevent → Except PyErr (Option TraceOut × Tabs))
    (env : Env) (t : Tabs) (name : String) (events : List Kevent) : HRes :=
  match name with
  | "TRACE_DATA_NEWTHREAD" => hDataNewthread env t events
  | "TRACE_DATA_EXEC" => hDataExec env t events
  | "TRACE_DATA_THREAD_TERMINATE" => hDataThreadTerminate env t events
  | "TRACE_DATA_THREAD_TERMINATE_PID" => hDataThreadTerminatePid env t events
  | "TRACE_STRING_GLOBAL" => hStringGlobal env t events
  | "TRACE_STRING_NEWTHREAD" => hStringNewthread env t events
  | "TRACE_STRING_EXEC" => hStringExec env t events
  | "TRACE_STRING_PROC_EXIT" => hStringProcExit env t events
  | "TRACE_STRING_THREADNAME" => hStringThreadname "TRACE_STRING_THREADNAME" "New thread name: " env t events
  | "TRACE_STRING_THREADNAME_PREV" =>
    hStringThreadname "TRACE_STRING_THREADNAME_PREV" "Thread terminated name: " env t events
  | "VFS_LOOKUP" => hVfsLookup env t events
  | "PERF_Event" => hPerfEvent env t events
  | "PERF_THD_Data" => hPerfThdData env t events
  | "MACH_vmfault" => hMachVmfault nested env t events
  | "DBG_DYLD_TIMING_LAUNCH_EXECUTABLE" => hDyldLaunch env t events
  | _ =>
    match findDecoder env name with
    | some d =>
      if !d.supported then .error .unmodelled else do
      let (fs, text) ← runGeneratedObj env t d events
      pure (some { name := name, events := events, text := text, obj := some (d.cls, fs) }, t)
    | none => .ok (none, t)

def isHandled (env : Env) (name : String) : Bool := handNames.contains name || (findDecoder env name).isSome

/-- `parse_event_list` around a given meaning of the recursive call. -/
def parseEventListWith (nested : Tabs → List Kevent → Except PyErr (Option TraceOut × Tabs))
    (env : Env) (t : Tabs) (events : List Kevent) : HRes :=
  match events with
  | [] => .error .indexError
  | e :: _ =>
    match env.codes e.eventid with
    | none => .ok (none, t)
    | some name => if isHandled env name then handleWith nested env t name events else .ok (none, t)

/-- `parse_event_list` with the recursion (MACH_vmfault -> parse_event_list on a list at least two records shorter)
    unrolled `fuel` times; `fuel > events.length` is never exhausted (`C20.parseFuel_stable`). -/
def parseFuel : Nat → Env → Tabs → List Kevent → HRes
  | 0, _, _, _ => .error .unmodelled
  | fuel + 1, env, t, events => parseEventListWith (parseFuel fuel env) env t events

/-- `parse_event_list`. -/
def parseEventList (env : Env) (t : Tabs) (events : List Kevent) : HRes :=
  parseFuel (events.length + 1) env t events

/-- `self.handlers[trace_name](self, events)` -/
def handle (env : Env) (t : Tabs) (name : String) (events : List Kevent) : HRes :=
  handleWith (parseFuel events.length env) env t name events

structure PState where
  pairing : Pairing.PState
  tabs : Tabs

/-- One `feed(event)`. -/
def feed (env : Env) (s : PState) (e : Kevent) : Except PyErr (Option TraceOut × PState) :=
  let (p', o) := Pairing.step env.domOf s.pairing e
  match o with
  | none => .ok (none, { s with pairing := p' })
  | some w => do
    let (r, t') ← parseEventList env s.tabs w
    pure (r, { pairing := p', tabs := t' })

/-- `feed_generator`: traces delivered before the first exception, the exception (if any), the final state. -/
def run (env : Env) : PState → List Kevent → List TraceOut × Option PyErr × PState
  | s, [] => ([], none, s)
  | s, e :: es =>
    match feed env s e with
    | .error err => ([], some err, s)
    | .ok (r, s') =>
      let (outs, err, sf) := run env s' es
      (match r with | some t => t :: outs | none => outs, err, sf)

end KdVerif.Trace
