import KdVerif.Proofs.Projection
/-
  C13: START/END pairing of an event stream filtered by a predicate on the EVENT ID (a class / subclass filter).
  The windows delivered for the filtered stream are exactly the windows delivered for the unfiltered stream whose first
  record satisfies the predicate, each with the records that do not satisfy it removed (`run_filter`).  Core Lean only.
-/
namespace KdVerif.Pairing
section
variable (domOf : Nat → Bool) (P : Nat → Bool)

/-- The event-level filter. -/
def Pe (e : Kevent) : Bool := P e.eventid

/-- The first record of a window satisfies the filter. -/
def headP (w : List Kevent) : Bool :=
  match w with
  | [] => false
  | x :: _ => P x.eventid

/-- Every stored list starts with a record of the key's own event id. -/
def HeadInv (s : PState) : Prop := ∀ k w, s k = some w → ∃ x rest, w = x :: rest ∧ x.eventid = k.eid

/-- The tables of the run over the filtered stream (`s'`) against those of the run over the whole stream (`s`). -/
def FRel (s s' : PState) : Prop := ∀ k, s' k = if P k.eid then (s k).map (List.filter (Pe P)) else none

theorem headInv_empty : HeadInv PState.empty := by
  intro k w h; simp [PState.empty] at h

theorem fRel_empty : FRel P PState.empty PState.empty := by
  intro k; simp [PState.empty]

theorem headInv_appendAll (s : PState) (d : Bool) (tid : Nat) (e : Kevent) (hs : HeadInv s) :
    HeadInv (appendAll s d tid e) := by
  intro k w hw
  rw [appendAll_apply] at hw
  by_cases hc : k.dom = d ∧ k.tid = tid
  · simp only [hc, and_self, if_true, Option.map_eq_some_iff] at hw
    obtain ⟨w', hw', rfl⟩ := hw
    obtain ⟨x, rest, rfl, hx⟩ := hs k w' hw'
    exact ⟨x, rest ++ [e], rfl, hx⟩
  · simp only [hc, if_false] at hw
    exact hs k w hw

theorem step_headInv (s : PState) (e : Kevent) (hs : HeadInv s) : HeadInv (step domOf s e).1 := by
  by_cases h1 : e.qual = 1
  · rw [step_start domOf s e h1]
    intro k w hw
    simp only at hw
    rw [appendAll_apply] at hw
    by_cases hk : k = keyOf domOf e
    · subst hk
      simp [set_apply] at hw
      exact ⟨e, [], hw.symm, rfl⟩
    · by_cases hc : k.dom = domOf e.eventid ∧ k.tid = e.tid
      · simp only [hc, and_self, if_true, set_apply, hk, if_false, Option.map_eq_some_iff] at hw
        obtain ⟨w', hw', rfl⟩ := hw
        obtain ⟨x, rest, rfl, hx⟩ := hs k w' hw'
        exact ⟨x, rest ++ [e], rfl, hx⟩
      · simp only [hc, if_false, set_apply, hk] at hw
        exact hs k w hw
  · by_cases h2 : e.qual = 2
    · cases hst : s (keyOf domOf e) with
      | none => rw [step_end_closed domOf s e h2 hst]; exact hs
      | some w =>
        rw [step_end_open domOf s e w h2 hst]
        intro k w' hw'
        simp only at hw'
        rw [set_apply] at hw'
        by_cases hk : k = keyOf domOf e
        · simp [hk] at hw'
        · simp only [hk, if_false] at hw'
          exact headInv_appendAll _ _ _ _ hs k w' hw'
    · rw [step_single domOf s e h1 h2]; exact headInv_appendAll _ _ _ _ hs

theorem filter_snoc_true (w : List Kevent) (e : Kevent) (h : Pe P e = true) :
    (w ++ [e]).filter (Pe P) = w.filter (Pe P) ++ [e] := by
  simp [List.filter_append, h]

theorem filter_snoc_false (w : List Kevent) (e : Kevent) (h : Pe P e = false) :
    (w ++ [e]).filter (Pe P) = w.filter (Pe P) := by
  simp [List.filter_append, h]

/-- `appendAll` on both sides with a record that passes the filter. -/
theorem fRel_appendAll_true (s s' : PState) (d : Bool) (tid : Nat) (e : Kevent) (h : Pe P e = true)
    (hr : FRel P s s') : FRel P (appendAll s d tid e) (appendAll s' d tid e) := by
  intro k
  rw [appendAll_apply, appendAll_apply, hr k]
  by_cases hc : k.dom = d ∧ k.tid = tid
  · simp only [hc, and_self, if_true]
    by_cases hp : P k.eid = true
    · simp only [hp, if_true, Option.map_map]
      congr 1
      funext w
      exact (filter_snoc_true P w e h).symm
    · simp [hp]
  · simp only [hc, if_false]

/-- `appendAll` on the unfiltered side only, with a record the filter removes. -/
theorem fRel_appendAll_false (s s' : PState) (d : Bool) (tid : Nat) (e : Kevent) (h : Pe P e = false)
    (hr : FRel P s s') : FRel P (appendAll s d tid e) s' := by
  intro k
  rw [appendAll_apply, hr k]
  by_cases hc : k.dom = d ∧ k.tid = tid
  · simp only [hc, and_self, if_true]
    by_cases hp : P k.eid = true
    · simp only [hp, if_true, Option.map_map]
      congr 1
      funext w
      exact (filter_snoc_false P w e h).symm
    · simp [hp]
  · simp only [hc, if_false]

theorem fRel_set_both (s s' : PState) (k : Key) (v : Option (List Kevent)) (hk : P k.eid = true) (hr : FRel P s s') :
    FRel P (set s k v) (set s' k (v.map (List.filter (Pe P)))) := by
  intro j
  rw [set_apply, set_apply]
  by_cases hj : j = k
  · subst hj; simp [hk]
  · simp only [hj, if_false]; exact hr j

theorem fRel_set_left (s s' : PState) (k : Key) (v : Option (List Kevent)) (hk : P k.eid = false) (hr : FRel P s s') :
    FRel P (set s k v) s' := by
  intro j
  rw [set_apply]
  by_cases hj : j = k
  · subst hj; simp [hk, hr j]
  · simp only [hj, if_false]; exact hr j

/-- A record that passes the filter: both runs step, the filtered run delivers the filtered window. -/
theorem step_fRel_true (s s' : PState) (e : Kevent) (h : Pe P e = true) (hi : HeadInv s) (hr : FRel P s s') :
    FRel P (step domOf s e).1 (step domOf s' e).1 ∧
    (step domOf s' e).2 = (step domOf s e).2.map (List.filter (Pe P)) ∧
    (∀ w, (step domOf s e).2 = some w → headP P w = true) := by
  have hk : P (keyOf domOf e).eid = true := h
  by_cases h1 : e.qual = 1
  · rw [step_start domOf s e h1, step_start domOf s' e h1]
    refine ⟨?_, rfl, fun w hw => by cases hw⟩
    exact fRel_appendAll_true P _ _ _ _ e h (by simpa using fRel_set_both P s s' (keyOf domOf e) (some []) hk hr)
  · by_cases h2 : e.qual = 2
    · have hke := hr (keyOf domOf e)
      simp only [hk, if_true] at hke
      cases hst : s (keyOf domOf e) with
      | none =>
        rw [hst] at hke
        rw [step_end_closed domOf s e h2 hst, step_end_closed domOf s' e h2 hke]
        exact ⟨hr, rfl, fun w hw => by cases hw⟩
      | some w =>
        rw [hst] at hke
        rw [step_end_open domOf s e w h2 hst, step_end_open domOf s' e _ h2 hke]
        refine ⟨?_, ?_, ?_⟩
        · simpa using fRel_set_both P _ _ (keyOf domOf e) none hk (fRel_appendAll_true P _ _ _ _ e h hr)
        · simp [filter_snoc_true P w e h]
        · intro w' hw'
          simp only [Option.some.injEq] at hw'
          subst hw'
          obtain ⟨x, rest, rfl, hx⟩ := hi _ w hst
          simp only [List.cons_append, headP, hx]
          exact hk
    · rw [step_single domOf s e h1 h2, step_single domOf s' e h1 h2]
      refine ⟨fRel_appendAll_true P _ _ _ _ e h hr, ?_, ?_⟩
      · simp [h]
      · intro w hw
        simp only [Option.some.injEq] at hw
        subst hw
        exact h

/-- A record the filter removes: only the unfiltered run steps; whatever it delivers starts with a removed record. -/
theorem step_fRel_false (s s' : PState) (e : Kevent) (h : Pe P e = false) (hi : HeadInv s) (hr : FRel P s s') :
    FRel P (step domOf s e).1 s' ∧ (∀ w, (step domOf s e).2 = some w → headP P w = false) := by
  have hk : P (keyOf domOf e).eid = false := h
  by_cases h1 : e.qual = 1
  · rw [step_start domOf s e h1]
    refine ⟨?_, fun w hw => by cases hw⟩
    exact fRel_appendAll_false P _ _ _ _ e h (fRel_set_left P s s' (keyOf domOf e) (some []) hk hr)
  · by_cases h2 : e.qual = 2
    · cases hst : s (keyOf domOf e) with
      | none =>
        rw [step_end_closed domOf s e h2 hst]
        exact ⟨hr, fun w hw => by cases hw⟩
      | some w =>
        rw [step_end_open domOf s e w h2 hst]
        refine ⟨fRel_set_left P _ _ (keyOf domOf e) none hk (fRel_appendAll_false P _ _ _ _ e h hr), ?_⟩
        intro w' hw'
        simp only [Option.some.injEq] at hw'
        subst hw'
        obtain ⟨x, rest, rfl, hx⟩ := hi _ w hst
        simp only [List.cons_append, headP, hx]
        exact hk
    · rw [step_single domOf s e h1 h2]
      refine ⟨fRel_appendAll_false P _ _ _ _ e h hr, ?_⟩
      intro w hw
      simp only [Option.some.injEq] at hw
      subst hw
      exact h

/-- Pairing of a filtered stream, from related tables. -/
theorem runFrom_filter (m : List Kevent) (s s' : PState) (hi : HeadInv s) (hr : FRel P s s') :
    (runFrom domOf s' (m.filter (Pe P))).2
      = (((runFrom domOf s m).2.filter (headP P)).map (List.filter (Pe P))) := by
  induction m generalizing s s' with
  | nil => rfl
  | cons e es ih =>
    have hi' := step_headInv domOf s e hi
    rw [runFrom_cons domOf s e es, List.filter_append, List.map_append]
    by_cases h : Pe P e = true
    · obtain ⟨hr', ho, hh⟩ := step_fRel_true domOf P s s' e h hi hr
      have hf : (e :: es).filter (Pe P) = e :: es.filter (Pe P) := by simp [h]
      rw [hf, runFrom_cons, ih _ _ hi' hr', ho]
      congr 1
      cases hw : (step domOf s e).2 with
      | none => rfl
      | some w => simp [hh w hw]
    · have h' : Pe P e = false := by simpa using h
      obtain ⟨hr', hh⟩ := step_fRel_false domOf P s s' e h' hi hr
      have hf : (e :: es).filter (Pe P) = es.filter (Pe P) := by simp [h']
      rw [hf, ih _ _ hi' hr']
      cases hw : (step domOf s e).2 with
      | none => rfl
      | some w => simp [hh w hw]

/-- **run_filter.**  The windows delivered for a stream filtered by a predicate on the event id are the windows of the
    unfiltered stream whose first record passes the filter, in the same order, each with the records that do not pass
    removed. -/
theorem run_filter (m : List Kevent) :
    run domOf (m.filter (Pe P)) = ((run domOf m).filter (headP P)).map (List.filter (Pe P)) :=
  runFrom_filter domOf P m _ _ headInv_empty (fRel_empty P)

end
end KdVerif.Pairing
