import KdVerif.Model.Kevent
import KdVerif.Model.Enum
import KdVerif.Model.Filters
/-
  L6: the four line builders of `PyKdebugParser` (pykdebugparser.py):
  `_format_timestamp` (tick branch only), `_format_process`, `_format_kevent`, `_format_trace`,
  `_format_callstack`, `_format_log`, with Python's format specifications modelled exactly.

  Out of the model (stated, not hidden):
  * the wall-clock branch of `_format_timestamp` (taken only when all five of `mach_absolute_time`,
    `numer`, `denom`, `usecs_since_epoch`, `timezone` are set; float division + `datetime`).  The
    command-line tool never sets them, so every line it prints uses the modelled branch;
  * `str(trace)` (the body of a trace line: other slices), `str(uuid)` and `strftime` (opaque texts);
  * pygments `highlight` and termcolor `colored`: parameters of the model (`Colour`).

  Texts are `String` (sequences of code points, like Python `str`; `String.length` = `len`).
-/
namespace KdVerif.Format
open KdVerif.Filters (LogRec)

/-! ### Python format specifications -/

def spaces (n : Nat) : String := String.ofList (List.replicate n ' ')

/-- `f'{s:<w}'` for a `str`: left-justify, pad with spaces to `w`, never truncate. -/
def padRight (w : Nat) (s : String) : String := s ++ spaces (w - s.length)

/-- `f'{s:>w}'` (also the layout of `f'{n:>w}'` for an `int` whose decimal text is `s`). -/
def padLeft (w : Nat) (s : String) : String := spaces (w - s.length) ++ s

/-- `f'{n:016x}'`: lower-case hex digits, zero-filled on the left to 16 (longer if needed). -/
def hex016 (n : Nat) : String :=
  let d := pyHexDigits (n + 1) n
  String.ofList (List.replicate (16 - d.length) '0' ++ d)

/-- One byte inside `bytes.__repr__` with quote character `q`. -/
def reprByte (q : Char) (b : Nat) : List Char :=
  if b = q.toNat ∨ b = 92 then ['\\', Char.ofNat b]
  else if b = 9 then ['\\', 't']
  else if b = 10 then ['\\', 'n']
  else if b = 13 then ['\\', 'r']
  else if b < 32 ∨ 127 ≤ b then ['\\', 'x', hexDigit (b / 16 % 16), hexDigit (b % 16)]
  else [Char.ofNat b]

/-- The quote `bytes.__repr__` chooses: `"` when the bytes contain `'` and no `"`, else `'`. -/
def reprQuote (bs : Bytes) : Char := if bs.contains 39 ∧ ¬ bs.contains 34 then '"' else '\''

/-- `str(b)` / `repr(b)` for a `bytes` object. -/
def bytesRepr (bs : Bytes) : String :=
  let q := reprQuote bs
  String.ofList (['b', q] ++ bs.flatMap (reprByte q) ++ [q])

/-! ### configuration, tables, colour -/

/-- The six `show_*` switches. -/
structure Show where
  timestamp : Bool := true
  name : Bool := true
  funcQual : Bool := true
  tid : Bool := false
  process : Bool := true
  args : Bool := true
  deriving DecidableEq, Repr, Inhabited

/-- `threads_pids` and `pids_names` as association lists (`dict.get` = first match). -/
structure Tables where
  threadsPids : List (Nat × Int) := []
  pidsNames : List (Int × String) := []
  deriving Repr, Inhabited

/-- The colour machinery: `on` = `self.color`; `hlTrace s` stands for
    `highlight(s, c_lexer, color_formatter).strip()`; `colored s c` for termcolor's `colored(s, c)`. -/
structure Colour where
  on : Bool
  hlTrace : String → String
  colored : String → String → String

/-- `self.color = False`. -/
def Colour.off : Colour := ⟨false, id, fun s _ => s⟩

/-- termcolor 2.x when it decides to emit colour: `"\x1b[%dm%s" % (COLORS[c], s) + "\x1b[0m"`
    (green 32, magenta 35, white 97); the trace highlighter left abstract (`id`). -/
def Colour.termcolor : Colour :=
  ⟨true, id, fun s c =>
    let code := if c = "green" then "32" else if c = "magenta" then "35" else if c = "white" then "97" else "0"
    "\x1b[" ++ code ++ "m" ++ s ++ "\x1b[0m"⟩

/-! ### the builders -/

/-- `_format_timestamp(ts)` when any of the five time parameters is `None`: `str(ts) + ' '`. -/
def formatTimestamp (ts : Nat) : String := toString ts ++ " "

/-- `_format_process(tid)`:
    `pid = threads_pids.get(tid, -1); name = pids_names.get(pid, '')`;
    `f'{name}({pid})' if pid != -1 else f'Error: tid {tid}'`. -/
def formatProcess (t : Tables) (tid : Nat) : String :=
  let pid : Int := (t.threadsPids.lookup tid).getD (-1)
  let name := (t.pidsNames.lookup pid).getD ""
  if pid ≠ -1 then name ++ "(" ++ toString pid ++ ")" else "Error: tid " ++ toString tid

/-- `_format_kevent(event, trace_codes_map)`; `qe` is the `DgbFuncQual` enum (reflected in
    `Gen/Enums`), `codes` the trace-code map. -/
def formatKevent (sh : Show) (qe : EnumDef) (codes : List (Nat × String)) (t : Tables) (e : Kevent) : String :=
  let tid := e.tid
  let name := match codes.lookup e.eventid with
    | some n => n ++ (" (" ++ pyHex e.eventid ++ ")")          -- trace_codes_map[eid] + f' ({hex(eid)})'
    | none => pyHex e.eventid
  let s := ""
  let s := if sh.timestamp then s ++ formatTimestamp e.timestamp else s
  let s := s ++ (if sh.name then padRight 58 name else "")
  let s := if sh.funcQual then
      (match qe.ofValue e.qual with
       | some m => s ++ padRight 15 m.name                      -- f'{DgbFuncQual(q).name:<15}'
       | none => s ++ padRight 16 "Error")                      -- except ValueError: f'{"Error":<16}'
    else s
  let s := s ++ (if sh.tid then padRight 12 (pyHex tid) else "")
  let s := if sh.process then s ++ padRight 27 (formatProcess t tid) else s
  let s := s ++ (if sh.args then padRight 34 (bytesRepr e.data) else "")
  s

/-- `formatted_kevents(kdebug, trace_codes)`:
    `map(lambda e: self._format_kevent(e, trace_codes_map), self.kevents(kdebug))`. -/
def formattedKevents (cfg : Filters.Cfg) (sh : Show) (qe : EnumDef) (codes : List (Nat × String)) (t : Tables)
    (items : List Filters.Item) : List String :=
  (Filters.kevents cfg none items).map (formatKevent sh qe codes t)

/-- What `_format_trace` reads of a trace: `ktraces[0].timestamp`, `ktraces[0].tid`, `str(trace)`. -/
structure TraceRec where
  timestamp : Nat
  tid : Nat
  body : String
  deriving DecidableEq, Repr, Inhabited

/-- `_format_trace(trace)`. -/
def formatTrace (sh : Show) (c : Colour) (t : Tables) (tr : TraceRec) : String :=
  let tid := tr.tid
  let s := ""
  let s := if sh.timestamp then s ++ formatTimestamp tr.timestamp else s
  let s := s ++ (if sh.tid then padLeft 11 (toString tid) ++ " " else "")   -- f'{tid:>11} '
  let s := if sh.process then s ++ padRight 34 (formatProcess t tid) else s
  let rep := tr.body
  let rep := if c.on then c.hlTrace rep else rep
  s ++ rep

/-- A `Frame`: `uuid` is `str(frame.uuid)` when the frame was attributed to an image. -/
structure Frame where
  address : Nat
  uuid : Option String
  offset : Nat
  deriving DecidableEq, Repr, Inhabited

structure Callstack where
  timestamp : Nat
  tid : Nat
  frames : List Frame
  deriving DecidableEq, Repr, Inhabited

/-- `f'{frame.uuid}:0x{frame.offset:016x}' if frame.uuid is not None else f'0x{frame.address:016x}'`. -/
def frameText (f : Frame) : String :=
  match f.uuid with
  | some u => u ++ ":0x" ++ hex016 f.offset
  | none => "0x" ++ hex016 f.address

/-- `for i, frame in enumerate(frames): ret.append(' ' * i + line)` starting at index `i`. -/
def frameLines : Nat → List Frame → List String
  | _, [] => []
  | i, f :: fs => (spaces i ++ frameText f) :: frameLines (i + 1) fs

/-- `_format_callstack(callstack)`: `'\n'.join([header] + frame lines)`. -/
def formatCallstack (sh : Show) (t : Tables) (cs : Callstack) : String :=
  let tid := cs.tid
  let s := ""
  let s := if sh.timestamp then s ++ formatTimestamp cs.timestamp else s
  let s := s ++ (if sh.tid then padLeft 11 (toString tid) ++ " " else "")
  let s := if sh.process then s ++ padRight 34 (formatProcess t tid) else s
  "\n".intercalate (s :: frameLines 0 cs.frames)

/-- `_format_log(os_log)`; `timeString` is `os_log.unix_date.strftime('%Y-%m-%d %H:%M:%S.%f')`.
    None of the `show_*` switches is consulted. -/
def formatLog (c : Colour) (t : Tables) (timeString : String) (l : LogRec) : String :=
  let timestamp := padRight 27 timeString
  let rep := if c.on then c.colored timestamp "green" else timestamp
  let rep := if l.process ≠ "" then                                        -- if os_log.process:
      let process := padRight 27 (formatProcess t l.threadIdentifier)
      let process := if c.on then c.colored process "magenta" else process
      rep ++ (" " ++ process ++ " ")
    else rep
  rep ++ (if c.on then c.colored l.message "white" else l.message)

end KdVerif.Format
