import KdVerif.Model.Pipeline
import KdVerif.Props.C01
import KdVerif.Proofs.Trunc
import KdVerif.Proofs.Final
import KdVerif.Proofs.EndToEnd
import KdVerif.Proofs.PyIRRdKd
import KdVerif.Gen.PyIRCli
import KdVerif.Proofs.PyIRCli
/-
  C06 — truncated dumps: parsing terminates and reports a prefix of the full result.

  Subject: `parse plist fromKdBuf prior data` for EVERY byte string `data` (well-formed or not) and its
  cuts `data.take k`.  Termination: every model function is total; the three `while True` loops
  and the two `GreedyRange`s carry fuel derived from the unread length, and `never_hangs` proves the
  fuel is never exhausted — which is exactly the statement that each iteration makes progress.
  `seek_until` is structural recursion on the unread suffix; that is faithful only because the
  loop raises `EOFError` on an empty read (`seekUntil_fuel_hang_old` is the pre-fix loop).
-/
namespace KdVerif.C06
open KdVerif Reader

theorem fromKdBuf_rejectsShort : RejectsShort fromKdBuf :=
  fun x hx => ⟨_, C01.decode_rejects_other_lengths x hx⟩

/-- **Prefix, any container.**  For every byte string, every cut offset, every prior parser state
    (also different ones on the two sides): the events delivered for the cut dump are a prefix of
    those delivered for the whole dump. -/
theorem truncation_prefix (plist : Bytes → Option PView) (prior prior' : PState) (f : Bytes) (k : Nat) :
    (parse plist fromKdBuf prior' (f.take k)).events <+: (parse plist fromKdBuf prior f).events :=
  parse_trunc plist fromKdBuf fromKdBuf_rejectsShort prior prior' f k

/-- **v2**: `f` is any byte string behind the v2 magic. -/
theorem v2_truncation_prefix (plist : Bytes → Option PView) (prior : PState) (body : Bytes) (k : Nat) :
    (parse plist fromKdBuf prior ((Gen.Consts.RAW_VERSION2_BYTES ++ body).take k)).events <+:
      (parse plist fromKdBuf prior (Gen.Consts.RAW_VERSION2_BYTES ++ body)).events :=
  truncation_prefix plist prior prior _ k

/-- **v3**: `f` is any byte string behind the v3 magic (the claim is on events; metadata and logs
    exist only once the sections behind the events have been read). -/
theorem v3_truncation_prefix (plist : Bytes → Option PView) (prior : PState) (body : Bytes) (k : Nat) :
    (parse plist fromKdBuf prior ((Gen.Consts.RAW_VERSION3_BYTES ++ body).take k)).events <+:
      (parse plist fromKdBuf prior (Gen.Consts.RAW_VERSION3_BYTES ++ body)).events :=
  truncation_prefix plist prior prior _ k

theorem structUnpack_err {fmt : List FieldSpec} {bs : Bytes} {e : PyErr} (h : structUnpack fmt bs = .error e) :
    e = .structError := by
  unfold structUnpack at h
  split at h <;> simp_all

theorem decodeWith_err {fmt : List FieldSpec} {a b : Nat} {x : Bytes} {e : PyErr}
    (h : decodeWith fmt a b x = .error e) : e = .structError ∨ e = .valueError := by
  unfold decodeWith at h
  split at h
  · rename_i e1 h1
    simp only [Except.error.injEq] at h; subst h; exact Or.inl (structUnpack_err h1)
  · split at h
    · rename_i e1 h1
      simp only [Except.error.injEq] at h; subst h; exact Or.inl (structUnpack_err h1)
    · simp at h
    · simp only [Except.error.injEq] at h; exact Or.inr h.symm
  · simp only [Except.error.injEq] at h; exact Or.inr h.symm

theorem fromKdBuf_noHang : NoHangDec fromKdBuf := by
  intro x h
  rcases decodeWith_err h with h' | h' <;> simp at h'

/-- **Nothing is fabricated.**  For every byte string (well-formed or not) the delivered events are,
    in order, decodings of 64-byte windows `data[p : p+64]` that lie entirely inside the input, are
    pairwise disjoint and ascending (`Slices`: each next window starts at or behind the end of the
    previous one) — the positions being those of the record loops (behind the v2 header and padding;
    behind each v3 chunk header).  No event comes from a partial record or from bytes outside the file. -/
theorem no_fabrication (plist : Bytes → Option PView) (prior : PState) (data : Bytes) :
    Slices fromKdBuf data 0 data.length (parse plist fromKdBuf prior data).events :=
  (parse_final plist fromKdBuf fromKdBuf_rejectsShort fromKdBuf_noHang prior data).2.1

/-- … in particular every event is the decoding of 64 consecutive input bytes, i.e. (C01) the
    little-endian reading of that window. -/
theorem no_fabrication_mem (plist : Bytes → Option PView) (prior : PState) (data : Bytes) (hb : IsBytes data)
    (e : Kevent) (he : e ∈ (parse plist fromKdBuf prior data).events) :
    ∃ p, p + 64 ≤ data.length ∧ e = specDecode ((data.drop p).take 64) := by
  obtain ⟨p, h2, h3⟩ := (no_fabrication plist prior data).mem he
  refine ⟨p, h2, ?_⟩
  have hl : ((data.drop p).take 64).length = 64 := by simp; omega
  rw [C01.decode_eq_spec _ hl ((hb.drop p).take 64)] at h3
  simpa using h3.symm

/-- **Termination.**  The model's loops carry fuel (`unread length / minimal progress + 2`); for
    every byte string the fuel is never exhausted: each iteration of the record loop consumes 64 bytes,
    of the chunk loop at least 24, of the zero skipper 1, of the additional-data range at least 16. -/
theorem never_hangs (plist : Bytes → Option PView) (prior : PState) (data : Bytes) :
    (parse plist fromKdBuf prior data).err ≠ some .hang :=
  (parse_final plist fromKdBuf fromKdBuf_rejectsShort fromKdBuf_noHang prior data).2.2

/-- **Linear reading.**  For every byte string: the work done on the reader — number of `read` calls
    plus number of bytes returned (bytes are re-read only behind a `Select`/`GreedyRange` fallback and
    the `seek(-8, 1)`) — is at most `5·len + 67`.  In particular the v3 chunk loop, which runs
    `size // 64` times with `size` taken from the file, stops at the first short record, and
    `seek_until` consumes a byte per iteration and raises at end of file.
    (Bytes REQUESTED are not bounded by the length: `Prefixed(Int64ul, …)` asks for whatever the file's
    length field says, up to 2^64−1, in a single `read`.) -/
theorem reads_linear (plist : Bytes → Option PView) (prior : PState) (data : Bytes) :
    (parse plist fromKdBuf prior data).rd.calls + (parse plist fromKdBuf prior data).rd.got ≤ 5 * data.length + 67 :=
  (parse_final plist fromKdBuf fromKdBuf_rejectsShort fromKdBuf_noHang prior data).1

/-- whenever the cut dump delivers an event at all, the tables the formatter sees while events are
    delivered (the thread map) are the same for the cut and the whole dump. -/
theorem trunc_same_threadmap (plist : Bytes → Option PView) (prior : PState) (f : Bytes) (k : Nat)
    (hne : (parse plist fromKdBuf prior (f.take k)).events ≠ []) :
    (parse plist fromKdBuf prior (f.take k)).tmTables = (parse plist fromKdBuf prior f).tmTables :=
  parse_trunc_tables plist fromKdBuf prior prior f k hne

/-! ### the lazy stages behind the parser -/

theorem filterMap_prefix {α β : Type} (g : α → Option β) {l₁ l₂ : List α} (h : l₁ <+: l₂) :
    l₁.filterMap g <+: l₂.filterMap g := by
  obtain ⟨t, rfl⟩ := h
  rw [List.filterMap_append]; exact List.prefix_append _ _

theorem filter_prefix {α : Type} (p : α → Bool) {l₁ l₂ : List α} (h : l₁ <+: l₂) :
    l₁.filter p <+: l₂.filter p := by
  obtain ⟨t, rfl⟩ := h
  rw [List.filter_append]; exact List.prefix_append _ _

theorem map_prefix {α β : Type} (g : α → β) {l₁ l₂ : List α} (h : l₁ <+: l₂) : l₁.map g <+: l₂.map g := by
  obtain ⟨t, rfl⟩ := h
  rw [List.map_append]; exact List.prefix_append _ _

/-- **Causality of the formatted event stream.**  The stages between the container parser and the
    printed lines (`not isinstance(e, OsLogEvent)`, thread filter, class filter, `_format_kevent`)
    are per-item, so the lines for a cut dump are a prefix of the lines for the whole dump — for any
    filter settings and any formatter (the formatter reads the shared tables as they are while the
    events are delivered, i.e. the thread map; `trunc_same_threadmap` below shows it is the same
    table on both sides whenever the cut dump delivers an event at all). -/
theorem pipeline_causal {τ : Type} (plist : Bytes → Option PView) (prior : PState) (f : Bytes) (k : Nat)
    (fmt : Kevent → τ) (tidOk classOk : Kevent → Bool) :
    formattedKevents fmt tidOk classOk (parse plist fromKdBuf prior (f.take k)).outs <+:
      formattedKevents fmt tidOk classOk (parse plist fromKdBuf prior f).outs :=
  map_prefix _ (filter_prefix _ (filter_prefix _ (truncation_prefix plist prior prior f k)))

/-- a `feed_generator` stage (the trace parser, the callstack parser) is causal as well: what it has
    delivered after a prefix of its input is a prefix of what it delivers for the whole input. -/
theorem feedGen_prefix {σ ε τ : Type} (feed : σ → ε → Except PyErr (σ × Option τ)) (s : σ) (h₁ h₂ : List ε) :
    (feedGen feed s h₁).1 <+: (feedGen feed s (h₁ ++ h₂)).1 := by
  induction h₁ generalizing s with
  | nil => exact List.nil_prefix
  | cons e es ih =>
    simp only [List.cons_append, feedGen]
    cases feed s e with
    | error err => exact List.prefix_refl _
    | ok p =>
      obtain ⟨s', o⟩ := p
      cases o with
      | none => exact ih s'
      | some t => simp only [List.cons_prefix_cons, true_and]; exact ih s'

/-- hence traces / formatted traces for a cut dump are a prefix of those for the whole dump. -/
theorem traces_causal {σ τ : Type} (plist : Bytes → Option PView) (prior : PState) (f : Bytes) (k : Nat)
    (feed : σ → Kevent → Except PyErr (σ × Option τ)) (s : σ) (tidOk classOk : Kevent → Bool) :
    (feedGen feed s (kevents tidOk classOk (parse plist fromKdBuf prior (f.take k)).outs)).1 <+:
      (feedGen feed s (kevents tidOk classOk (parse plist fromKdBuf prior f).outs)).1 := by
  obtain ⟨t, ht⟩ := filter_prefix classOk (filter_prefix tidOk (truncation_prefix plist prior prior f k))
  unfold kevents
  simp only [Run3.events] at ht
  rw [← ht]
  exact feedGen_prefix feed s _ _

theorem printWithCountAux_eq {α : Type} (count : Int) (i : Int) (l : List α) (hi : i ≤ count) :
    printWithCountAux count i l = l.take (count - i).toNat := by
  induction l generalizing i with
  | nil => simp [printWithCountAux]
  | cons a l ih =>
    simp only [printWithCountAux]
    by_cases h : i = count
    · subst h; simp
    · have hlt : i < count := by omega
      have : (count - i).toNat = (count - (i + 1)).toNat + 1 := by omega
      rw [if_neg h, this, List.take_succ_cons, ih (i + 1) (by omega)]

theorem printWithCountAux_neg {α : Type} (count : Int) (i : Int) (l : List α) (hi : count < i) :
    printWithCountAux count i l = l := by
  induction l generalizing i with
  | nil => rfl
  | cons a l ih =>
    have : ¬ i = count := by omega
    simp only [printWithCountAux, this, if_false, ih (i + 1) (by omega)]

/-- **Limiting the output count never changes the lines that are printed.**  `print_with_count`,
    modelled literally: for `n ≥ 0` exactly the first `n` lines, for `n = −1` (the default, and
    likewise every negative `n`) all lines. -/
theorem count_prefix {α : Type} (lines : List α) (n : Int) :
    (0 ≤ n → printWithCount lines n = lines.take n.toNat) ∧
    (n < 0 → printWithCount lines n = lines) ∧
    printWithCount lines (-1) = lines ∧
    printWithCount lines n <+: lines := by
  have h1 : 0 ≤ n → printWithCount lines n = lines.take n.toNat := fun h => by
    unfold printWithCount; rw [printWithCountAux_eq n 0 lines h]; simp
  have h2 : n < 0 → printWithCount lines n = lines := fun h => printWithCountAux_neg n 0 lines h
  refine ⟨h1, h2, printWithCountAux_neg (-1) 0 lines (by omega), ?_⟩
  by_cases h : 0 ≤ n
  · rw [h1 h]; exact List.take_prefix _ _
  · rw [h2 (by omega)]; exact List.prefix_refl _

/-! ### the pre-fix loop -/

/-- **Regression witness for F1.**  The loop shape before the end-of-file fix
    (`found = found[1:] + reader.read(1)` with no exit): at end of file, for a window that is not the
    tag and is no longer than it, NO amount of fuel terminates it. -/
theorem seekUntil_fuel_hang_old (tag found : Bytes) (hlen : found.length ≤ tag.length) (hne : found ≠ tag)
    (htag : tag ≠ []) : ∀ fuel, seekAuxOld tag fuel [] found = .error .hang := by
  intro fuel
  induction fuel generalizing found with
  | zero => rfl
  | succ fuel ih =>
    have hd : found.drop 1 ≠ tag := by
      intro e
      have : (found.drop 1).length = tag.length := by rw [e]
      rw [List.length_drop] at this
      have : tag.length = 0 := by omega
      exact htag (List.eq_nil_of_length_eq_zero this)
    simp only [seekAuxOld, hne, if_false]
    rw [ih (found.drop 1) (by rw [List.length_drop]; omega) hd]
    rfl

/-! ### non-vacuity -/

example : printWithCount [10, 20, 30] 2 = [10, 20] ∧ printWithCount [10, 20, 30] 0 = [] ∧
    printWithCount [10, 20, 30] (-1) = [10, 20, 30] ∧ printWithCount [10, 20, 30] (-7) = [10, 20, 30] ∧
    printWithCount [10, 20, 30] 5 = [10, 20, 30] := by decide

/-- a v2 dump of two records cut inside the second one: one event, then `struct.error` — a strict prefix. -/
example :
    let f := Gen.Consts.RAW_VERSION2_BYTES ++ List.replicate 284 0 ++ List.replicate 64 1 ++ List.replicate 64 2
    (parse (fun _ => none) fromKdBuf ⟨Tables.empty, {}⟩ f).events.length = 2 ∧
    (parse (fun _ => none) fromKdBuf ⟨Tables.empty, {}⟩ (f.take 400)).events.length = 1 ∧
    (parse (fun _ => none) fromKdBuf ⟨Tables.empty, {}⟩ (f.take 400)).err = some .structError ∧
    (parse (fun _ => none) fromKdBuf ⟨Tables.empty, {}⟩ (f.take 100)).err = some .streamError := by
  decide +kernel

/-- a v3 prefix that ends inside the stackshot: the scan stops with EOFError (and does not spin). -/
example :
    (parse (fun _ => some ⟨false, [], none, none, none⟩) fromKdBuf ⟨Tables.empty, {}⟩
      (Gen.Consts.RAW_VERSION3_BYTES ++ List.replicate 60 0 ++ [0, 0, 0, 0, 0, 0, 0, 0] ++ List.replicate 40 7)).err
      = some .eof := by
  decide +kernel

/-! ### end to end: bytes of a dump -> formatted trace lines (`Model/EndToEnd.lean`) -/

/-- **The cut dump as the trace layer sees it.**  For every byte string and every cut: when the container reader gets
    through the header of the cut dump at all (version 2: `kd_header_v2`; version 3: the header, both scans and the
    thread-map chunk), it gets through the header of the whole dump, hands the trace layer the SAME thread map, and the
    events of the cut dump are a prefix of the events of the whole dump.  (Version 2: the greedy zero skipper `_pad` looks
    one byte ahead: a cut inside the padding — or inside leading zero bytes of the first record — ends the padding earlier
    than in the whole dump; but then the cut dump ends there too and delivers no event.  Version 3: every read of the
    header part is exact or a scan that raises at end of file; the chunk loop is `chunkLoop_trunc`.)  `plist` is
    `plistlib.loads` as far as the container parser looks at the result; the version-2 branch ignores it. -/
theorem e2e_truncated_dump (plist : Bytes → Option PView) (file : Bytes) (k : Nat) (d' : TracePipeline.Dump)
    (c' : Option PyErr) (h : EndToEnd.dumpOf plist (file.take k) = .ok (d', c')) :
    ∃ d c, EndToEnd.dumpOf plist file = .ok (d, c) ∧ d'.threadMap = d.threadMap ∧ d'.events <+: d.events :=
  EndToEnd.dumpOf_trunc plist file k d' c' h

/-- The container step of the composition is the container parser the theorems above are about: the same events and
    the same final exception as `KdBufParser.parse` on the same bytes (whatever the parser object held before), and the
    shared tables while the events are delivered are `set_thread_map` of the thread map the trace layer receives — so
    `no_fabrication`, `never_hangs`, `reads_linear` speak about the events `formattedTraces` is computed from. -/
theorem e2e_dump_is_parse (plist : Bytes → Option PView) (prior : PState) (file : Bytes) (d : TracePipeline.Dump)
    (c : Option PyErr) (h : EndToEnd.dumpOf plist file = .ok (d, c)) :
    (parse plist fromKdBuf prior file).events = d.events ∧ (parse plist fromKdBuf prior file).err = c ∧
    ∃ tm, d.threadMap = EndToEnd.threadMapOf tm ∧
      (parse plist fromKdBuf prior file).tmTables = setThreadMap prior.tables tm :=
  EndToEnd.dumpOf_is_parse plist prior file d c h

/-- **Truncation, end to end.**  For EVERY byte string `file` (version-2 or version-3 dump, well formed or not, or
    neither), every reading `plist` of the property lists, every cut offset `k`, every
    filter configuration of the parser object (thread, process, class, subclass), every trace-code table / decoder
    environment and every setting of the column switches: the formatted trace lines reported for the cut dump — the
    lines `formatted_traces` yields before it stops, normally or with an exception — are a prefix of the lines reported
    for the complete dump.  Ingredients: `e2e_truncated_dump` (same thread map, events a prefix); the event filter is
    per item; `feed_generator` is causal; each post-filter decides from the trace and the tables at the trace's own
    yield; the line builder is mapped lazily and the list ends at the first trace whose text raises. -/
theorem e2e_truncation_prefix (env : Trace.Env) (obj : TracePipeline.Obj) (sh : Format.Show)
    (plist : Bytes → Option PView) (file : Bytes) (k : Nat) :
    (EndToEnd.formattedTraces env obj sh plist (file.take k)).1 <+: (EndToEnd.formattedTraces env obj sh plist file).1 :=
  EndToEnd.formattedTraces_trunc env obj sh plist file k

/-- … hence nothing already reported is later changed or withdrawn: the lines grow monotonically with the cut offset. -/
theorem e2e_truncation_monotone (env : Trace.Env) (obj : TracePipeline.Obj) (sh : Format.Show)
    (plist : Bytes → Option PView) (file : Bytes) (k₁ k₂ : Nat) (h : k₁ ≤ k₂) :
    (EndToEnd.formattedTraces env obj sh plist (file.take k₁)).1 <+:
      (EndToEnd.formattedTraces env obj sh plist (file.take k₂)).1 := by
  have := e2e_truncation_prefix env obj sh plist (file.take k₂) k₁
  rwa [List.take_take, Nat.min_eq_left h] at this

/-- the same for the traces themselves (with the tables at their yield), before the line builder. -/
theorem e2e_traces_prefix (env : Trace.Env) (obj : TracePipeline.Obj) (plist : Bytes → Option PView) (file : Bytes)
    (k : Nat) (d' d : TracePipeline.Dump) (c' c : Option PyErr)
    (h' : EndToEnd.dumpOf plist (file.take k) = .ok (d', c')) (h : EndToEnd.dumpOf plist file = .ok (d, c)) :
    (TracePipeline.traces env obj d').1.traces <+: (TracePipeline.traces env obj d).1.traces := by
  obtain ⟨d₂, c₂, h₂, htm, hev⟩ := e2e_truncated_dump plist file k d' c' h'
  rw [h] at h₂
  simp only [Except.ok.injEq, Prod.mk.injEq] at h₂
  obtain ⟨rfl, _⟩ := h₂
  exact EndToEnd.traces_prefix env obj htm hev

theorem take_prefix_take {α : Type} (n : Nat) {l₁ l₂ : List α} (h : l₁ <+: l₂) : l₁.take n <+: l₂.take n := by
  obtain ⟨t, rfl⟩ := h
  rw [List.take_append]
  exact List.prefix_append _ _

/-- **Limiting the output count, end to end.**  `print_with_count(formatted_traces(…), n)` prints, for `n ≥ 0`, exactly
    the first `n` of the lines (all of them for a negative `n`), and what it prints for a cut dump is a prefix of what
    it prints for the complete dump — for every `n`. -/
theorem e2e_count_prefix (env : Trace.Env) (obj : TracePipeline.Obj) (sh : Format.Show) (plist : Bytes → Option PView)
    (file : Bytes) (k : Nat) (n : Int) :
    (0 ≤ n → printWithCount (EndToEnd.formattedTraces env obj sh plist file).1 n
              = (EndToEnd.formattedTraces env obj sh plist file).1.take n.toNat) ∧
    printWithCount (EndToEnd.formattedTraces env obj sh plist (file.take k)).1 n <+:
      printWithCount (EndToEnd.formattedTraces env obj sh plist file).1 n := by
  refine ⟨(count_prefix _ n).1, ?_⟩
  by_cases hn : 0 ≤ n
  · rw [(count_prefix _ n).1 hn, (count_prefix _ n).1 hn]
    exact take_prefix_take _ (e2e_truncation_prefix env obj sh plist file k)
  · rw [(count_prefix _ n).2.1 (by omega), (count_prefix _ n).2.1 (by omega)]
    exact e2e_truncation_prefix env obj sh plist file k

/-! #### non-vacuity: a 740-byte dump (thread map of two entries, padding, six records) at four cuts -/

/-- whole: six lines, no exception; cut inside the fourth record: three lines, then `struct.error`; cut inside the
    padding: the header parses, no line, no exception; cut inside the thread map: no line, `StreamError`. -/
example :
    let file := Spec.encodeV2 EndToEnd.exFile
    (EndToEnd.formattedTraces EndToEnd.exEnv {} {} EndToEnd.noPlist file).1.length = 6 ∧
    (EndToEnd.formattedTraces EndToEnd.exEnv {} {} EndToEnd.noPlist file).2 = none ∧
    EndToEnd.formattedTraces EndToEnd.exEnv {} {} EndToEnd.noPlist (file.take 600) =
      (["1 launchd(42)                       Process exit name: x",
        "2 launchd(42)                       New thread 9 of parent: 50",
        "3 (50)                              Process exit name: y"], some .structError) ∧
    EndToEnd.formattedTraces EndToEnd.exEnv {} {} EndToEnd.noPlist (file.take 354) = ([], none) ∧
    EndToEnd.formattedTraces EndToEnd.exEnv {} {} EndToEnd.noPlist (file.take 300) = ([], some .streamError) ∧
    printWithCount (EndToEnd.formattedTraces EndToEnd.exEnv {} {} EndToEnd.noPlist (file.take 600)).1 2 =
      ["1 launchd(42)                       Process exit name: x",
       "2 launchd(42)                       New thread 9 of parent: 50"] := by
  decide +kernel

/-- a process filter and a class filter on the same dump, cut and whole. -/
example :
    let file := Spec.encodeV2 EndToEnd.exFile
    let obj : TracePipeline.Obj := { cfg := { filterProcess := some "50", filterClass := [7] } }
    (EndToEnd.formattedTraces EndToEnd.exEnv obj { process := false } EndToEnd.noPlist file).1 =
      ["3 Process exit name: y", "5 Process exit name: z"] ∧
    (EndToEnd.formattedTraces EndToEnd.exEnv obj { process := false } EndToEnd.noPlist (file.take 560)).1 = ["3 Process exit name: y"] := by
  decide +kernel

/-! ### Translation tie: the loops whose termination and prefix behaviour C06 is about

  (`tools/gen_pyir_rd.py` → `Gen/PyIRRd.lean`, IR and interpreter `Model/PyIRRd`; see `Props/C02`.)  The interpreter gives
  every `while` loop `unread bytes + 2` iterations; `parse_is_interpreted_source` + `never_hangs` say that the translated
  loops never use them up. -/

/-- **The translated source is the program the refinement lemmas were proved for.** -/
theorem source_is_expected_ir : Gen.PyIRRd.prog = PyIRRd.Expected.prog ∧ Gen.PyIRRd.notes = [] := by decide

/-- **The subject of every C06 theorem is the interpreted source**: `parse plist fromKdBuf prior data` — for EVERY byte
    string, truncated or not — is the translated `parse` / `parse_v2` / `parse_v3` (whole) /
    `seek_until` / `set_thread_map` run by the interpreter. -/
theorem parse_is_interpreted_source (plist : Bytes → Option PView) (prior : PState) (data : Bytes) :
    parse plist fromKdBuf prior data = PyIRRd.parseVia Gen.PyIRRd.prog plist fromKdBuf prior data :=
  PyIRRd.parse_eq_parseVia_gen source_is_expected_ir plist prior data

/-- … hence the interpreted source terminates on every byte string (no loop runs out of its fuel), -/
theorem interpreted_source_never_hangs (plist : Bytes → Option PView) (prior : PState) (data : Bytes) :
    (PyIRRd.parseVia Gen.PyIRRd.prog plist fromKdBuf prior data).err ≠ some .hang := by
  rw [← parse_is_interpreted_source]; exact never_hangs plist prior data

/-- … and its events for a cut dump are a prefix of its events for the whole dump. -/
theorem interpreted_source_truncation_prefix (plist : Bytes → Option PView) (prior prior' : PState) (f : Bytes) (k : Nat) :
    (PyIRRd.parseVia Gen.PyIRRd.prog plist fromKdBuf prior' (f.take k)).events <+:
      (PyIRRd.parseVia Gen.PyIRRd.prog plist fromKdBuf prior f).events := by
  rw [← parse_is_interpreted_source, ← parse_is_interpreted_source]; exact truncation_prefix plist prior prior' f k

/-- **`seek_until`, interpreted, ends in `EOFError` at end of file** (the pre-fix loop did not: `seekUntil_fuel_hang_old`). -/
theorem seek_until_ir_eof (tag : Bytes) (ht : tag ≠ []) (r : Reader) (hr : r.rest = []) :
    ∃ r1, PyIRRd.runSeek Gen.PyIRRd.prog.seekUntil tag r = (.error .eof, r1) := by
  rw [source_is_expected_ir.1]
  show ∃ r1, PyIRRd.runSeek PyIRRd.Expected.seekUntil tag r = (.error .eof, r1)
  rw [PyIRRd.runSeek_expected]; exact seekUntil_nil_fails tag ht r hr

end KdVerif.C06

/-! ### Translation tie: `print_with_count` itself

  (`tools/gen_pyir_cli.py` → `Gen/PyIRCli.lean`, IR and interpreter `Model/PyIRCli`, expected term `Spec/PyIRCliExpected`.)
  `count_prefix` / `e2e_count_prefix` speak about the hand model `printWithCount`; here the loop of `__main__.py` —
  `i = 0; for obj in generator: if i == count: break; print(obj); i += 1` — is translated from the source text on every run
  and interpreted: a generator is the items it will deliver and the exception it ends with, if any (one `next()` per round of
  the loop).  The loop asks for item number `count` BEFORE it compares: an exception the generator raises while producing
  that item surfaces although `count` lines have been printed; once the item is there the loop breaks and the generator is
  never asked again. -/
namespace KdVerif.C06
open KdVerif.PyIRCli

/-- **The translated loop is the term the theorems below were proved for**, and the translator met nothing outside the
    subset in `print_with_count`. -/
theorem cli_source_is_expected_ir :
    Gen.PyIRCli.printWithCount = PyIRCli.Expected.printWithCount ∧ Gen.PyIRCli.pwcNotes = [] := by decide

/-- **`print_with_count` of the source, interpreted, is the hand model** — for every list of items, every way the
    generator ends and every integer `count`: it prints exactly `printWithCount items count`, and the generator's exception
    leaves the call unless the loop broke, i.e. unless `0 ≤ count < number of items` (item number `count` was pulled, the
    loop broke on it, nothing was asked of the generator afterwards). -/
theorem print_with_count_ir_eq_model {α : Type} (items : List α) (err : Option PyErr) (count : Int) :
    runPwc Gen.PyIRCli.printWithCount (items, err) count =
      (printWithCount items count, if 0 ≤ count ∧ count < items.length then none else err) := by
  rw [cli_source_is_expected_ir.1]; exact runPwc_expected items err count

/-- `count = -1` (the default of `-c`; any negative `count`): everything the generator delivers is printed, and its
    exception — if it ends with one — surfaces. -/
theorem print_with_count_ir_negative {α : Type} (items : List α) (err : Option PyErr) (count : Int) (h : count < 0) :
    runPwc Gen.PyIRCli.printWithCount (items, err) count = (items, err) := by
  rw [print_with_count_ir_eq_model, (count_prefix items count).2.1 h]
  have : ¬ (0 ≤ count ∧ count < (items.length : Int)) := by omega
  simp only [this, if_false]

/-- … in particular for the default. -/
theorem print_with_count_ir_all {α : Type} (items : List α) (err : Option PyErr) :
    runPwc Gen.PyIRCli.printWithCount (items, err) (-1) = (items, err) :=
  print_with_count_ir_negative items err (-1) (by omega)

/-- `0 ≤ count`: the first `count` items are printed; the generator's exception surfaces exactly when it has no item
    number `count` to deliver (`items.length ≤ count`: the loop ran into the end). -/
theorem print_with_count_ir_take {α : Type} (items : List α) (err : Option PyErr) (count : Int) (h : 0 ≤ count) :
    runPwc Gen.PyIRCli.printWithCount (items, err) count =
      (items.take count.toNat, if count < items.length then none else err) := by
  rw [print_with_count_ir_eq_model, (count_prefix items count).1 h]
  simp only [h, true_and]

/-- **An exception raised while producing item number `count` surfaces although `count` items were printed**: the loop
    pulls before it compares. -/
theorem print_with_count_ir_raise_at_count {α : Type} (items : List α) (e : PyErr) :
    runPwc Gen.PyIRCli.printWithCount (items, some e) items.length = (items, some e) := by
  rw [print_with_count_ir_take items (some e) items.length (by omega)]
  simp

/-- … and one item later it does not: the loop broke on item number `count` and never asked again. -/
theorem print_with_count_ir_no_raise_behind_count {α : Type} (items : List α) (x : α) (rest : List α) (e : PyErr) :
    runPwc Gen.PyIRCli.printWithCount (items ++ x :: rest, some e) items.length = (items, none) := by
  rw [print_with_count_ir_take (items ++ x :: rest) (some e) items.length (by omega)]
  simp
  omega

-- non-vacuity: the translated loop on concrete generators
example : runPwc Gen.PyIRCli.printWithCount ([10, 20, 30], some .eof) 2 = ([10, 20], none) := by decide
example : runPwc Gen.PyIRCli.printWithCount ([10, 20, 30], some .eof) 3 = ([10, 20, 30], some .eof) := by decide
example : runPwc Gen.PyIRCli.printWithCount ([10, 20, 30], some .eof) 0 = ([], none) := by decide
example : runPwc Gen.PyIRCli.printWithCount (([] : List Nat), some .eof) 0 = ([], some .eof) := by decide
example : runPwc Gen.PyIRCli.printWithCount ([10, 20, 30], some .eof) (-1) = ([10, 20, 30], some .eof) := by decide
example : runPwc Gen.PyIRCli.printWithCount ([10, 20, 30], none) 7 = ([10, 20, 30], none) := by decide

end KdVerif.C06
