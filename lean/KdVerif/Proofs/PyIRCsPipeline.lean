import KdVerif.Proofs.PyIRCs
import KdVerif.Model.TracePipeline
/-
  The request-level model of C13 (`TracePipeline.callstacks`: both image lists cleared, then `callstackFeed` over the
  traces of the request) is the expected IR of `PyKdebugParser.callstacks` + `CallstacksParser.feed_generator`
  (`Spec/PyIRCsExpected`) run by the interpreter of `Model/PyIRCs` on the trace objects of the yielded traces.
  Core Lean only.
-/
namespace KdVerif.PyIRCs
open Callstacks KdVerif.Trace KdVerif.TracePipeline

/-- The trace object `CallstacksParser.feed_generator` sees for a trace of the pipeline model, by the same tests
    `TracePipeline.callstackStep` makes: a `PerfEvent` with frames, a `DyldLaunchExecutable` with its (sorted) images, a
    `DyldUuidMapA` (by its handler name; load address = third word, identity = `data[:16]` of the first record), a
    `PerfEvent` without frames, anything else.  `ktraces` are the records of the trace (`TracesParser` never yields a
    trace without records). -/
def csTraceOf (o : TraceOut) : Trace :=
  let kts : List KT := (firstOf o.events :: o.events.drop 1).map fun e => ⟨e.timestamp, e.tid⟩
  match o.extra with
  | .perf _ (some frames) _ => .sample kts (some frames)
  | .launch imgs => .launch imgs
  | .perf _ Option.none _ =>
    if o.name == "DYLD_uuid_map_a" then .image (arg (firstOf o.events) 2) ((firstOf o.events).data.take 16)
    else .sample kts Option.none
  | _ =>
    if o.name == "DYLD_uuid_map_a" then .image (arg (firstOf o.events) 2) ((firstOf o.events).data.take 16)
    else .other

theorem csTraceOf_ktraces (o : TraceOut) (h : o.events ≠ []) :
    (firstOf o.events :: o.events.drop 1) = o.events := by
  cases he : o.events with
  | nil => exact absurd he h
  | cons e r => simp [firstOf]

/-- one trace: `stepTrace` on the trace object is `callstackStep` -/
theorem stepTrace_csTraceOf (st : Images) (o : TraceOut) :
    stepTrace st (csTraceOf o) =
      match callstackStep st o with
      | .error e => .error e
      | .ok (st', c) => .ok (st', c.map ofCallstack) := by
  unfold csTraceOf callstackStep
  cases hx : o.extra with
  | perf th fr fl =>
    cases fr with
    | some frames =>
      simp only [stepTrace, List.map_cons]
      cases lookupAll st frames <;> simp [ofCallstack, TraceOut.tid]
    | none =>
      by_cases hn : (o.name == "DYLD_uuid_map_a") = true
      · simp only [hn, if_true, stepTrace]
        cases Callstacks.insertImage st _ _ <;> simp
      · simp [hn, stepTrace]
  | launch imgs =>
    simp only [stepTrace]
    cases insertAll st imgs <;> simp
  | none =>
    by_cases hn : (o.name == "DYLD_uuid_map_a") = true
    · simp only [hn, if_true, stepTrace]
      cases Callstacks.insertImage st _ _ <;> simp
    · simp [hn, stepTrace]
  | vmfault a b c d =>
    by_cases hn : (o.name == "DYLD_uuid_map_a") = true
    · simp only [hn, if_true, stepTrace]
      cases Callstacks.insertImage st _ _ <;> simp
    · simp [hn, stepTrace]

/-- the whole stream: `feedTrace` on the trace objects is `callstackFeed` (callstacks delivered before an exception
    included) -/
theorem feedTrace_csTraceOf (l : List TraceOut) : ∀ (st : Images),
    feedTrace st (l.map csTraceOf) =
      ((callstackFeed st l).1.map (fun c => Val.callstack (ofCallstack c)),
       match (callstackFeed st l).2.1 with
       | some e => .error e
       | Option.none => .ok (callstackFeed st l).2.2) := by
  induction l with
  | nil => intro st; rfl
  | cons o rest ih =>
    intro st
    have hs := stepTrace_csTraceOf st o
    cases hc : callstackStep st o with
    | error e =>
      rw [hc] at hs
      simp [feedTrace, hs, callstackFeed, hc]
    | ok p =>
      obtain ⟨st1, c⟩ := p
      rw [hc] at hs
      simp only [List.map_cons, feedTrace, hs, ih st1, callstackFeed, hc]
      cases c <;> simp

/-- **The request.**  The expected `callstacks()` (two `clear()`s, the parser on the object's two lists, the expected
    `feed_generator` over the traces of the request) interpreted on an object whose image lists hold anything, is
    `TracePipeline.callstacks`: the same callstacks, the same exception (the callstack parser's first, else the trace
    generator's), the object's two lists afterwards. -/
theorem runRequest_expected_pipeline (env : Trace.Env) (obj : Obj) (d : Dump) :
    runRequest Expected.prog ((traces env obj d).1.traces.map (fun p => csTraceOf p.1)) (traces env obj d).1.err obj.images =
      ((callstacks env obj d).1.callstacks.map (fun c => Val.callstack (ofCallstack c)),
       match (callstacks env obj d).1.err with
       | some e => .error e
       | Option.none => .ok (callstacks env obj d).2.images) := by
  rw [runRequest_expected, runFeed_expected]
  have h := feedTrace_csTraceOf ((traces env obj d).1.traces.map (·.1)) Images.empty
  rw [List.map_map] at h
  have ht : (traces env { obj with images := Images.empty } d).1 = (traces env obj d).1 := rfl
  simp only [callstacks, ht]
  rw [show ((fun p => csTraceOf p.1) : TraceOut × Tabs → Trace) = csTraceOf ∘ (·.1) from rfl, h]
  unfold thenRaise
  cases he : (callstackFeed Images.empty ((traces env obj d).1.traces.map (·.1))).2.1 with
  | some e => simp
  | none => cases (traces env obj d).1.err <;> simp

end KdVerif.PyIRCs
