"""Access to the real implementation (from REPO_DIR) plus small builders shared by the harness."""
import os
import struct
import sys

from . import core

if core.REPO not in sys.path or sys.path[0] != core.REPO:
    sys.path.insert(0, core.REPO)

import pykdebugparser  # noqa: E402

if not os.path.abspath(pykdebugparser.__file__).startswith(os.path.abspath(core.REPO) + os.sep):
    raise core.Infra('pykdebugparser imported from %s, not from %s' % (pykdebugparser.__file__, core.REPO))


def record(timestamp=0, data=b'\x00' * 32, tid=0, debugid=0, cpuid=0, unused=0):
    """A 64-byte kd_buf record written independently of the repository's format string."""
    assert len(data) == 32
    return (timestamp.to_bytes(8, 'little') + data + tid.to_bytes(8, 'little') + debugid.to_bytes(4, 'little')
            + cpuid.to_bytes(4, 'little') + unused.to_bytes(8, 'little'))


def record_args(timestamp, args, tid, debugid, cpuid=0):
    return record(timestamp, b''.join(a.to_bytes(8, 'little') for a in args), tid, debugid, cpuid)


def show_kevent(e):
    return 'ok %d %s %s %d %d %d %d' % (e.timestamp, bytes(e.data).hex(), ' '.join(str(v) for v in e.values),
                                         e.tid, e.debugid, e.eventid, e.func_qualifier)
