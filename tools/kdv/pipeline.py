"""Whole-`TracesParser` harness: scenario builders (kernel-side encoders), the real pipeline runner and the
canonical answer format of the driver command `traces`."""
from . import core, impl
from .core import hs
from . import decoders as D

from pykdebugparser.kevent import from_kd_buf
from pykdebugparser.traces_parser import TracesParser

CODES = D.CODES
IDS = D.IDS
NONE, START, END, ALL = 0, 1, 2, 3


class Stream:
    """Builds event records with increasing unique timestamps."""

    def __init__(self, rng=None):
        self.ts = 100
        self.rng = rng
        self.recs = []

    def ev(self, name, q, tid, args=None, data=None, eid=None):
        eid = IDS[name] if eid is None else eid
        self.ts += 1
        if data is None:
            data = b''.join(a.to_bytes(8, 'little') for a in (args or [0, 0, 0, 0]))
        r = impl.record(self.ts, data, tid, eid | q)
        self.recs.append(r)
        return r

    # kernel-side encoders -------------------------------------------------------------------------------
    def lookup(self, tid, path, vnode, between=None):
        raw = path if isinstance(path, bytes) else path.encode()
        chunks = [vnode.to_bytes(8, 'little') + raw[:24].ljust(24, b'\0')]
        raw = raw[24:]
        while raw:
            chunks.append(raw[:32].ljust(32, b'\0'))
            raw = raw[32:]
        out = []
        for i, c in enumerate(chunks):
            if i and between:                       # an unrelated record of the same thread falls between two chunks
                between()
            out.append(self.ev('VFS_LOOKUP', (START if i == 0 else 0) | (END if i == len(chunks) - 1 else 0), tid, data=c))
        return out

    def chunks_string(self, name, tid, first_prefix, text, between=None):
        raw = text if isinstance(text, bytes) else text.encode()
        room = 32 - len(first_prefix)
        chunks = [first_prefix + raw[:room].ljust(room, b'\0')]
        raw = raw[room:]
        while raw:
            chunks.append(raw[:32].ljust(32, b'\0'))
            raw = raw[32:]
        out = []
        for i, c in enumerate(chunks):
            if i and between:
                between()
            out.append(self.ev(name, (START if i == 0 else 0) | (END if i == len(chunks) - 1 else 0), tid, data=c))
        return out

    def gstring(self, tid, str_id, text, debugid=0, between=None):
        return self.chunks_string('TRACE_STRING_GLOBAL', tid, debugid.to_bytes(8, 'little') + str_id.to_bytes(8, 'little'),
                                  text, between)

    def threadname(self, tid, text, prev=False, between=None):
        return self.chunks_string('TRACE_STRING_THREADNAME_PREV' if prev else 'TRACE_STRING_THREADNAME', tid, b'', text,
                                  between)

    def name32(self, text):
        raw = text if isinstance(text, bytes) else text.encode()
        return raw[:32].ljust(32, b'\0')

    def newthread(self, tid, new_tid, pid, name, with_data=True, with_string=True):
        out = []
        if with_data:
            out.append(self.ev('TRACE_DATA_NEWTHREAD', NONE, tid, [new_tid, pid, 0, 0]))
        if with_string:
            out.append(self.ev('TRACE_STRING_NEWTHREAD', NONE, tid, data=self.name32(name)))
        return out

    def exec_(self, tid, pid, name, with_data=True, with_string=True):
        out = []
        if with_data:
            out.append(self.ev('TRACE_DATA_EXEC', NONE, tid, [pid, 1, 2, 0]))
        if with_string:
            out.append(self.ev('TRACE_STRING_EXEC', NONE, tid, data=self.name32(name)))
        return out

    def syscall(self, name, tid, start, end, lookups=(), inner=(), lookup_between=None):
        out = [self.ev(name, START, tid, start)]
        for path, vn in lookups:
            out += self.lookup(tid, path, vn, between=lookup_between)
        for f in inner:
            out += f()
        out.append(self.ev(name, END, tid, end))
        return out

    def sample(self, tid, flags, thd=None, hdr=None, data=(), actionid=1):
        out = [self.ev('PERF_Event', START, tid, [flags, actionid, 0, 0])]
        if thd is not None:
            out.append(self.ev('PERF_THD_Data', NONE, tid, [thd[0], thd[1], 0x1000, thd[2] if len(thd) > 2 else 1]))
        if hdr is not None:
            out.append(self.ev('PERF_STK_UHdr', NONE, tid, [hdr[0], hdr[1], 0, 0]))
        for words in data:
            out.append(self.ev('PERF_STK_UData', NONE, tid, list(words)))
        out.append(self.ev('PERF_Event', END, tid, [flags, actionid, 0, 0]))
        return out


def restricted_codes(recs, extra=()):
    """The sub-table of the bundled codes that names the ids occurring in the stream."""
    out = {}
    for r in recs:
        eid = int.from_bytes(r[48:52], 'little') & 0xfffffffc
        if eid in CODES:
            out[eid] = CODES[eid]
    for n in extra:
        out[IDS[n]] = n
    return out


def codes_arg(codes):
    return ';'.join('%d:%s' % (k, hs(v)) for k, v in sorted(codes.items())) or '-'


def line(case):
    codes = {int(k): v for k, v in case['codes'].items()}
    return 'traces %s %s' % (codes_arg(codes), ' '.join(case['events']))


def extra_of(t):
    cls = type(t).__name__
    if cls == 'MachVmfault':
        return 'vmfault:%d:%s:%s:%s' % (t.result, t.fault_type.name if t.fault_type is not None else 'None',
                                        t.pid if t.pid is not None else 'None',
                                        '+'.join(p.name for p in t.caller_prot) if t.caller_prot is not None else 'None')
    if cls == 'DyldLaunchExecutable':
        return 'launch:' + '+'.join('%d=%s' % (i.load_addr, i.uuid.bytes.hex()) for i in t.uuid_map_a)
    if cls == 'PerfEvent':
        th = '%d/%d' % (t.th_info.pid, t.th_info.tid) if t.th_info is not None else 'None'
        fr = '[' + ','.join(map(str, t.cs_frames)) + ']' if t.cs_frames is not None else 'None'
        fl = '[' + '+'.join(f.name for f in t.cs_flags) + ']' if t.cs_flags is not None else 'None'
        return 'perf:%s:%s:%s' % (th, fr, fl)
    return '-'


def show_nat_dict(d):
    return ','.join('%d:%d' % (k, v) for k, v in sorted(d.items())) or '-'


def show_str_dict(d):
    return ','.join('%d:%s' % (k, hs(v)) for k, v in sorted(d.items())) or '-'


def run_traces(case, parser_hook=None):
    """The real pipeline on the case; returns (list of per-trace dicts, error name or '-', parser).
    case['prepop'] (optional): thread table the parser is CONSTRUCTED with, as in the second request on a reused
    PyKdebugParser."""
    codes = {int(k): v for k, v in case['codes'].items()}
    tp, pn = {int(k): v for k, v in (case.get('prepop') or {}).items()}, {}
    parser = TracesParser(codes, tp, pn)
    if parser_hook:
        parser_hook(parser)
    events = [from_kd_buf(bytes.fromhex(h)) for h in case['events']]
    outs, err, kept = [], '-', []
    try:
        for t in parser.feed_generator(iter(events)):
            name = codes.get(t.ktraces[0].eventid, '?')
            try:
                txt = hs(str(t))
            except Exception as e:
                txt = '!' + core.err_name(e)
            outs.append({'name': name, 'ts': [k.timestamp for k in t.ktraces], 'text': txt, 'extra': extra_of(t)})
            kept.append(t)
    except Exception as e:
        err = core.err_name(e)
    # a trace that has been reported stays as reported: rendered again after the rest of the stream was read
    for o, t in zip(outs, kept):
        try:
            late = hs(str(t))
        except Exception as e:
            late = '!' + core.err_name(e)
        if (late, extra_of(t), [k.timestamp for k in t.ktraces]) != (o['text'], o['extra'], o['ts']):
            o['text'] = '!' + CHANGED + ':' + o['text'] + ':' + late
    return outs, err, parser


CHANGED = 'ChangedAfterYield'


def changed_after_yield(got):
    """Oracle shared by every user of the pipeline harness: (signature, text) when a reported trace object was
    modified while later records were read."""
    if CHANGED not in got:
        return None
    for item in got.split(' '):
        if CHANGED in item:
            parts = item.split('|')
            bits = parts[2].split(':') if len(parts) > 2 else []
            first = hs_decode(bits[1]) if len(bits) > 1 else '?'
            late = hs_decode(bits[2]) if len(bits) > 2 else '?'
            return ('trace:changed-after-yield', 'a %s trace read %r when it was reported and %r after the rest of the stream '
                    'had been read' % (parts[0], first, late))
    return ('trace:changed-after-yield', 'a reported trace changed while later records were read')


def answer(outs, err, parser):
    body = ' '.join('%s|%s|%s|%s' % (o['name'], ','.join(map(str, o['ts'])), o['text'], o['extra']) for o in outs) or '-'
    return 'ok %s ;err=%s ;tp=%s ;pn=%s ;tn=%s ;gs=%s' % (
        body, err, show_nat_dict(parser.threads_pids), show_str_dict(parser.pids_names), show_str_dict(parser.tids_names),
        show_str_dict(parser.global_strings))


def impl_fn(case):
    return answer(*run_traces(case))


def impl_dump_fn(case, version=2):
    """The same records through another ROUTE: packed into a version-2 / version-3 dump (empty thread map) and read through
    PyKdebugParser.traces with the case's code table; the TracesParser it builds is observed for the two tables of the
    answer format that PyKdebugParser does not keep.  Same canonical answer as `impl_fn`."""
    import io
    import pykdebugparser.pykdebugparser as M
    codes = {int(k): v for k, v in case['codes'].items()}
    recs = [bytes.fromhex(h) for h in case['events']]
    if version == 2:
        dump = v2_bytes([], recs)
    else:
        from . import streams
        dump = streams.v3_file([], recs)
    made = []
    real = M.TracesParser

    class Observed(real):
        def __init__(self, *a, **kw):
            super().__init__(*a, **kw)
            made.append(self)
    outs, err, kept = [], '-', []
    M.TracesParser = Observed
    try:
        p = M.PyKdebugParser()
        try:
            for t in p.traces(io.BytesIO(dump), codes):
                try:
                    txt = hs(str(t))
                except Exception as e:
                    txt = '!' + core.err_name(e)
                outs.append({'name': codes.get(t.ktraces[0].eventid, '?'), 'ts': [k.timestamp for k in t.ktraces], 'text': txt,
                             'extra': extra_of(t)})
                kept.append(t)
        except Exception as e:
            err = core.err_name(e)
    finally:
        M.TracesParser = real
    for o, t in zip(outs, kept):
        try:
            late = hs(str(t))
        except Exception as e:
            late = '!' + core.err_name(e)
        if (late, extra_of(t), [k.timestamp for k in t.ktraces]) != (o['text'], o['extra'], o['ts']):
            o['text'] = '!' + CHANGED + ':' + o['text'] + ':' + late
    parser = made[0] if made else real(codes, {}, {})
    return answer(outs, err, parser)


ROUTES = ('parser', 'dump', 'dump3')


def impl_route_fn(case):
    """case['route']: parser (default: TracesParser.feed_generator) | dump (version-2 file through PyKdebugParser.traces) |
    dump3 (version-3 file)."""
    r = case.get('route') or 'parser'
    if r == 'parser':
        return impl_fn(case)
    return impl_dump_fn(case, 2 if r == 'dump' else 3)


def parse_answer(ans):
    """Inverse of `answer` (for oracles): (traces, err, tables)."""
    assert ans.startswith('ok ')
    body, *rest = ans[3:].split(' ;')
    tabs = dict(x.split('=', 1) for x in rest)
    traces = []
    if body != '-':
        for item in body.split(' '):
            name, ts, txt, extra = item.split('|')
            text = None
            if not txt.startswith('!'):
                text = '' if txt == '-' else bytes.fromhex(txt).decode('utf-8', 'surrogatepass')
            traces.append({'name': name, 'ts': [int(x) for x in ts.split(',')] if ts else [], 'text': text,
                           'raw': txt, 'extra': extra})
    return traces, tabs.get('err', '-'), tabs


# ---------------------------------------------------------------------------------------------------------
# in-domain argument tuples for the generated decoders (found by search on the real handler, cached)

_ARGS_CACHE = {}


def good_args(name, rng=None):
    """A START tuple on which decoder `name` renders (enum-valued positions hold members)."""
    if name not in _ARGS_CACHE:
        from .props.C09 import find_base
        _ARGS_CACHE[name] = find_base(name, [['/a', 1], ['/b', 2], ['/c', 3], ['/d', 4], ['/e', 5], ['/f', 6]], [0, 1, 0, 0])
    return _ARGS_CACHE[name]


# ---------------------------------------------------------------------------------------------------------
# random scenarios: complete operations of every kind, then perturbed (dropped / duplicated records)

SYSCALLS = ['BSC_open', 'BSC_read', 'BSC_rename', 'BSC_link', 'BSC_getpid', 'BSC_stat64', 'BSC_posix_spawn',
            'BSC_renameat', 'BSC_symlinkat', 'BSC_kill', 'BSC_lseek', 'BSC_sys_fcntl', 'MSC_mach_vm_allocate_trap',
            'DBG_DYLD_TIMING_DLOPEN', 'DBG_DYLD_TIMING_MAP_IMAGE', 'DBG_DYLD_TIMING_DLSYM', 'BSC_fsgetpath', 'BSC_pipe',
            'BSC_linkat', 'BSC_fs_snapshot', 'BSC_pivot_root', 'BSC_access', 'BSC_chmod', 'BSC_sigaction', 'BSC_socket']
SINGLES = ['MACH_SCHED', 'MACH_MKRUNNABLE', 'MACH_STKHANDOFF', 'DecrSet', 'PERF_THD_CSwitch', 'DYLD_uuid_map_a',
           'TURNSTILE_thread_added_to_turnstile_waitq']
REAL_FAULTS = ['RealFaultAddressInternal', 'RealFaultAddressExternal', 'RealFaultAddressSharedCache',
               'RealFaultAddressPurgeable']


def unrelated_trace_record(s, rng, tid):
    """Sometimes: an unrelated kernel trace record of the same thread falls between a string's chunks."""
    if rng.random() < 0.75:
        return None

    def emit():
        r = rng.random()
        if r < 0.4:
            s.ev('TRACE_DATA_THREAD_TERMINATE', NONE, tid, [0x41424344, 0, 0, 0])
        elif r < 0.7:
            s.ev('TRACE_STRING_PROC_EXIT', NONE, tid, data=s.name32('xyz'))
        else:
            s.ev('TRACE_DATA_EXEC', ALL, tid, [rng.randrange(1, 50), 1, 2, 0])
    return emit


def add_operation(s, rng, tids, syscalls=SYSCALLS):
    tid = rng.choice(tids)
    k = rng.random()
    if k < 0.30:
        name = rng.choice(syscalls)
        a = good_args(name) or [1, 2, 3, 4]
        lk = [(D.rand_path(rng), rng.randrange(1, 1 << 40)) for _ in range(rng.choice([0, 1, 2, 2, 3, 6]))]
        end = [rng.choice([0, 0, 2, 35, 9999]), rng.randrange(0, 1000), rng.randrange(0, 9), 4]
        s.syscall(name, tid, a, end, lk)
    elif k < 0.36:
        name = rng.choice(SINGLES)
        s.ev(name, NONE, tid, good_args(name) or [1, 2, 3, 4])
    elif k < 0.46:
        s.newthread(tid, rng.randrange(100, 200), rng.randrange(1, 50), D.rand_path(rng)[:20], rng.random() < 0.85,
                    rng.random() < 0.85)
    elif k < 0.52:
        s.exec_(tid, rng.randrange(1, 50), 'proc%d' % rng.randrange(9), rng.random() < 0.85, rng.random() < 0.85)
    elif k < 0.62:
        s.gstring(tid, rng.randrange(0, 6), D.rand_path(rng), between=unrelated_trace_record(s, rng, tid))
    elif k < 0.70:
        s.threadname(tid, D.rand_path(rng)[:70], rng.random() < 0.3, between=unrelated_trace_record(s, rng, tid))
    elif k < 0.75:
        s.ev('TRACE_DATA_THREAD_TERMINATE', NONE, tid, [rng.choice(tids + [150]), 0, 0, 0])
        if rng.random() < 0.5:                         # the kernel's thread exit: the pid record follows on the same thread
            s.ev('TRACE_DATA_THREAD_TERMINATE_PID', NONE, tid, [rng.randrange(1, 50), 7, 0, 0])
    elif k < 0.79:
        s.ev('TRACE_DATA_THREAD_TERMINATE_PID', NONE, tid, [rng.randrange(1, 50), 7, 0, 0])
    elif k < 0.82:
        s.ev('TRACE_STRING_PROC_EXIT', NONE, tid, data=s.name32('exit%d' % rng.randrange(9)))
    elif k < 0.91:
        fl = rng.choice([0, 1, 8, 9, 0xb, 0x3fff])
        s.sample(tid, fl,
                 thd=(rng.randrange(1, 50), rng.randrange(100, 120), rng.randrange(0, 200)) if rng.random() < 0.6 else None,
                 hdr=(rng.randrange(0, 0x200), rng.randrange(0, 12)) if rng.random() < 0.7 else None,
                 data=[[rng.randrange(1 << 40) for _ in range(4)] for _ in range(rng.randrange(0, 3))])
    elif k < 0.96:
        def inner():
            for _ in range(rng.randrange(0, 3)):
                nm = rng.choice(REAL_FAULTS + ['MACH_SCHED'])
                s.ev(nm, NONE, tid, [0x1000 + rng.randrange(9), (rng.randrange(0, 8) << 8) | rng.randrange(1, 11) | (5 << 16),
                                     rng.randrange(1, 50), rng.randrange(1, 50)])
            return []
        s.syscall('MACH_vmfault', tid, [0, 0x7000, rng.choice([0, 1]), 0],
                  [0, 0, rng.choice([0, 0, 1]), rng.randrange(1, 11)], inner=[inner])
    else:
        def inner():
            for _ in range(rng.randrange(0, 4)):
                nm = rng.choice(['DYLD_uuid_map_a', 'DYLD_uuid_shared_cache_a', 'DYLD_uuid_map_b'])
                s.ev(nm, NONE, tid, data=rng.randbytes(16) + rng.choice([0x1000, 0x2000, 0x2000, 0x3000]).to_bytes(8, 'little')
                     + (7).to_bytes(8, 'little'))
            return []
        s.syscall('DBG_DYLD_TIMING_LAUNCH_EXECUTABLE', tid, [0, 0x10000, 0, 0], [0, 0, 0, 0], inner=[inner])


def make_case_from(recs, extra=('VFS_LOOKUP',)):
    return {'codes': {str(k): v for k, v in restricted_codes(recs, extra=extra).items()},
            'events': [r.hex() for r in recs]}


def random_scenario(rng, perturb=True):
    s = Stream(rng)
    tids = [rng.choice([5, 6, 7, 99]) for _ in range(3)]
    for _ in range(rng.randrange(1, 8)):
        add_operation(s, rng, tids)
    recs = s.recs
    if perturb and recs:
        r = rng.random()
        if r < 0.35:
            i = rng.randrange(len(recs))
            recs = recs[:i] + recs[i + 1:]
        elif r < 0.5:
            i = rng.randrange(len(recs))
            recs = recs[i:]                     # the dump starts in the middle
        elif r < 0.6:
            i = rng.randrange(len(recs))
            recs = recs[:i] + [recs[i]] + recs[i:]
    return make_case_from(recs)


def unmodelled(ans):
    return 'err=Unmodelled' in ans


def section_pipeline(rep, rng, tier, n=None, oracle_fn=None, name='pipeline'):
    n = n or (300 if tier == 'quick' else 12000)
    cases = [random_scenario(rng) for _ in range(n)]

    def oracle(case, got):
        return changed_after_yield(got) or (oracle_fn(case, got) if oracle_fn else None)
    core.run_section(
        rep, name, cases, line_fn=line, impl_fn=impl_fn, oracle_fn=oracle, skip_fn=unmodelled,
        nontrivial_fn=lambda c, got: ' ' in got.split(' ;')[0][3:] or '|' in got,
        kind_fn=lambda c, got: 'err=' + parse_answer(got)[1],
        rule='random streams of complete operations (syscalls with kernel-encoded lookups, new-thread/exec pairs, global '
             'strings, thread names, terminate records, sampler windows, page faults with nested records, launch windows) on '
             '1-3 threads, then one record dropped / the prefix dropped / one record duplicated; the Lean `Trace.run` vs the '
             'real TracesParser.feed_generator: per trace (handler name, ktraces, str() or exception kind, composite payload), '
             'the aborting exception and the four context tables',
        sample_fn=lambda c: {'events': len(c['events']), 'codes': sorted(c['codes'].values())})


# ---------------------------------------------------------------------------------------------------------
# "matching START / END" search (C09, C10): streams with unterminated, repeated and nested syscalls

MATCH_DECODERS = ['BSC_read', 'BSC_pread', 'BSC_lseek', 'BSC_kill', 'BSC_mmap', 'BSC_workq_kernreturn', 'BSC_sys_fcntl',
                  'MSC_mach_vm_allocate_trap', 'BSC_getpid', 'BSC_ioctl', 'BSC_write', 'BSC_sendto']


LONG_DECODERS = ['BSC_pread', 'BSC_read', 'MSC_mach_vm_allocate_trap', 'BSC_mmap', 'BSC_lseek', 'BSC_open', 'BSC_rename']
STD_LOOKUPS = [['/a', 1], ['/b', 2], ['/c', 3], ['/d', 4], ['/e', 5], ['/f', 6]]      # those `good_args` searches with


def prop_part(prop, text):
    """The part of a rendering the property speaks about: C09 the call part `name(p0, ...)`, C10 the result part."""
    sp = D.split_call(text) if text is not None and not text.startswith('!') else None
    if sp is None:
        return text
    return text[:len(text) - len(sp[2])] if prop == 'C09' else sp[2]


def undecoded_filler():
    """A code of the bundled table that no handler is registered for (feeding it costs no decoder call)."""
    hn = set(D.all_handler_names())
    return next(n for n in sorted(IDS) if n not in hn and n != 'VFS_LOOKUP')


_FILLERS = {}


def filler_events(tid, n):
    """n pairwise distinct NONE-qualified records of thread `tid`: every 64th a MACH_SCHED (a decodable single), the others
    of an undecoded code; word 0 is non-zero and no word repeats a START / END word used by the long-window search, so a
    window that lost its START or its END to one of them shows it."""
    have = _FILLERS.setdefault(tid, [])
    und = IDS[undecoded_filler()]
    sched = IDS['MACH_SCHED']
    for i in range(len(have), n):
        if i % 64 == 63:
            r = impl.record_args(1000 + i, [0, 0x100000 + i, i % 2, 1], tid, sched)
        else:
            r = impl.record_args(1000 + i, [0x5000000 + i, 0x6000000 + i, 0x7000000 + i, 0x8000000 + i], tid, und)
        have.append(from_kd_buf(r))
    return have[:n]


def feed_collect(events, eid, codes=None, keep_handlers=None):
    """Feed the records to a fresh real TracesParser; the traces whose first record carries code `eid`, as texts.
    A record whose own decoder raises is skipped (the record is a filler here: the search is not about its decoder), unless it
    is a record of `eid`: then the exception is the answer."""
    parser = TracesParser(dict(CODES) if codes is None else codes, {}, {})
    out = []
    for ev in events:
        try:
            t = parser.feed(ev)
        except Exception as e:
            if ev.eventid == eid:
                out.append('!' + core.err_name(e))
            continue
        if t is not None and t.ktraces and t.ktraces[0].eventid == eid:
            try:
                out.append(str(t))
            except Exception as e:
                out.append('!' + core.err_name(e))
    return out


def isolated_text(name, start, end, tid, lookups):
    """The decoder called directly on [START, lookups..., END] (no pairing involved)."""
    c = {'name': name, 'start': start, 'end': end, 'tid': tid, 'lookups': lookups, 'gs': {}, 'tp': {}, 'tn': {}}
    try:
        return D.text_of(D.impl_fn(c))
    except Exception as e:
        return '!' + core.err_name(e)


def long_window_events(name, start, end, tid, lookups, nested, layout):
    """START, `nested` filler records, END of one thread; the looked-up paths right behind the START (layout 'early') or
    right before the END (layout 'late': behind all fillers)."""
    eid = IDS[name]
    lk = []
    for i, (path, vn) in enumerate(lookups):
        lk += [from_kd_buf(r) for r in D.lookup_events(path, vn, tid, 10 + 8 * i)]
    fill = filler_events(tid, nested)
    evs = [from_kd_buf(impl.record_args(1, start, tid, eid | START))]
    evs += (lk + fill) if layout == 'early' else (fill + lk)
    evs.append(from_kd_buf(impl.record_args(10 ** 7, end, tid, eid | END)))
    return evs


def long_window_check(prop, name, start, end, tid, lookups, nested, layout):
    """None, or the description of the failure."""
    eid = IDS[name]
    got = [prop_part(prop, t) for t in feed_collect(long_window_events(name, start, end, tid, lookups, nested, layout), eid)]
    exp = [prop_part(prop, isolated_text(name, start, end, tid, lookups))]
    if got != exp:
        return ('%s enclosing %d other records of its thread (lookups %s): %s part(s) %r, from its START / lookups / END '
                'alone %r' % (name, nested, layout, 'call' if prop == 'C09' else 'result', got, exp))
    return None


def long_window_search(rep, rng, tier, prop, sec):
    """A call that encloses thousands of records of its thread is still rendered from its own START, its own lookups and its
    own END.  Lengths from tools/kdv/mined.py (around 1024 and 4096; on a changed source / in the thorough tier around every
    number the pairing and reader files and the changed files mention, and the powers of two up to 2^16)."""
    from . import mined
    changed = mined.changed_files()
    wide = tier != 'quick' or bool(changed)
    lengths = mined.window_lengths(tier, changed)
    budget = 6000000 if wide else 260000                 # records fed in all
    tid = 11
    spent = 0
    done = skipped = 0
    bad = set()
    for li, nested in enumerate(lengths):
        # every decoder for windows up to ~4100 records, two of them (rotating) beyond
        names = LONG_DECODERS if nested <= 4200 else [LONG_DECODERS[(li + k) % len(LONG_DECODERS)] for k in (0, 3)]
        for name in names:
            base = good_args(name)
            if base is None:
                continue
            start = [x + 3 for x in base] if name not in ('BSC_open', 'BSC_rename') else list(base)
            if isolated_text(name, start, [0, 1, 0, 0], tid, STD_LOOKUPS[:2]).startswith('!'):
                start = list(base)
            end = [0, 4592, 0, 0] if (li + len(name)) % 3 else [13, 4592, 0, 0]
            pathy = isolated_text(name, start, end, tid, STD_LOOKUPS[:2]) != isolated_text(name, start, end, tid, [])
            lookups = [['/long/window/one', 0x41], ['/long/window/two-%d' % nested, 0x42]] if pathy else []
            for layout in (('late', 'early') if pathy and nested <= 4200 else ('late',)):
                if spent + nested > budget:
                    skipped += 1
                    continue
                spent += nested
                sec['cases'] += 1
                done += 1
                why = long_window_check(prop, name, start, end, tid, lookups, nested, layout)
                if why is None:
                    sec['distinct_nontrivial'] += 1
                elif (name, layout) not in bad:
                    bad.add((name, layout))
                    rep.add_failure('matching:%s:long-window' % prop, why,
                                    {'section': 'matching-records', 'kind': 'long-window', 'decoder': name, 'nested': nested,
                                     'start': start, 'end': end, 'tid': tid, 'lookups': lookups, 'layout': layout})
    sec['dist']['long-windows'] = done
    sec['dist']['long-windows-beyond-budget'] = skipped
    sec['dist']['longest-window'] = max([n for n in lengths] or [0])


def matching_search(rep, rng, tier, prop, decoders=None):
    """Every emitted syscall trace must be rendered from the most recent START of its thread and code that is
    still open, and from the END that closed it; nothing else in the stream may influence it."""
    sec = rep.section('matching-records')
    sec['rule'] = ('failing-input search on the real pipeline: 2-3 threads, syscalls whose START never ends, is repeated, or '
                   'encloses other records (interrupt-like singles, other syscalls), every START/END with its own words; each '
                   'trace text must equal the isolated rendering of its matching (START, END) pair; long windows: %s enclosing n '
                   'pairwise distinct records of their thread for the lengths n of mined.window_lengths (around 1024 and 4096; '
                   'on a changed source or in the thorough tier around every number the pairing / reader / changed files '
                   'mention and the powers of two up to 2^16), path decoders with their lookups behind the START and behind '
                   'the fillers' % ', '.join(LONG_DECODERS))
    n = 150 if tier == 'quick' else 4000
    names = decoders or MATCH_DECODERS
    long_window_search(rep, rng, tier, prop, sec)
    for _ in range(n):
        s = Stream(rng)
        tids = [11, 12, 13][:rng.choice([1, 1, 2, 3])]
        log = []          # (kind, name, tid, words)
        stream_names = [rng.choice(names) for _ in range(rng.choice([1, 2, 2, 3]))]   # few keys: collisions are the point
        for _ in range(rng.randrange(3, 12)):
            tid = rng.choice(tids)
            name = rng.choice(stream_names)
            base = good_args(name) or [1, 2, 3, 4]
            k = rng.random()
            if k < 0.45:
                a = [base[0], base[1], base[2], base[3]]
                a[rng.randrange(4)] = base[rng.randrange(4)] if name == 'BSC_sys_fcntl' else a[0]
                a = list(base)
                for i in range(4):
                    if name not in ('BSC_sys_fcntl', 'BSC_ioctl') or i != 1:
                        a[i] = base[i] + rng.randrange(0, 50)
                s.ev(name, START, tid, a)
                log.append(('S', name, tid, a))
            elif k < 0.8:
                e = [rng.choice([0, 0, 0, 2, 9, 35, 1000]), rng.randrange(0, 5000), rng.randrange(0, 50), 77]
                s.ev(name, END, tid, e)
                log.append(('E', name, tid, e))
            else:
                w = [0, rng.randrange(1 << 40), rng.randrange(2), 1]
                s.ev('MACH_SCHED', NONE, tid, w)
                log.append(('N', 'MACH_SCHED', tid, w))
        case = make_case_from(s.recs)
        if rng.random() < 0.5:                         # the parser is built with the threads already in its table
            case['prepop'] = {str(t): 40 + j for j, t in enumerate(tids)}
        got, exp, err = matching_stream_check(case, log, prop)
        sec['cases'] += 1
        if got != exp or err != '-':
            sec['mismatches'] = sec.get('mismatches', 0)
            rep.add_failure('matching:%s' % prop,
                            'stream %s: traces %r, expected from the matching START/END pairs %r (exception: %s)'
                            % ([(k, nm, t) for k, nm, t, _ in log], got, exp, err),
                            {'section': 'matching-records', 'case': case, 'log': log})
        else:
            sec['distinct_nontrivial'] += 1 if exp else 0


def matching_stream_check(case, log, prop):
    """(parts of the traces the real pipeline emits, parts expected from the declaratively matched START/END pairs, exception)."""
    outs, err, parser = run_traces(case)
    expected = []
    for i, (kind, name, tid, words) in enumerate(log):
        if kind == 'N':
            expected.append(None)
            continue
        if kind != 'E':
            continue
        j = None
        for m in range(i - 1, -1, -1):
            if log[m][1] == name and log[m][2] == tid and log[m][0] in 'SE':
                j = m if log[m][0] == 'S' else None
                break
        if j is None:
            continue
        expected.append(isolated_text(name, log[j][3], words, tid, []))
    # C09 looks at the call part only, C10 at the result part only
    got = [prop_part(prop, hs_decode(o['text'])) for o in outs if o['name'] != 'MACH_SCHED']
    exp = [prop_part(prop, e) for e in expected if e is not None]
    return got, exp, err


# ---------------------------------------------------------------------------------------------------------
# "window-content independence" search (C09, C10): what else lies between a call's START and END may not change its text

def nested_pool(rng, tid):
    """One NONE-qualified record of EVERY code of the bundled table except VFS_LOOKUP (looked-up paths ARE part of a call's
    text: the one kind of nested record a syscall decoder legitimately reads), same thread, pairwise distinct random words.
    [[name, eid, qualifier, words], ...]"""
    seen = set()
    out = []
    for eid in sorted(CODES):
        if CODES[eid] == 'VFS_LOOKUP':
            continue
        words = []
        while len(words) < 4:
            w = rng.getrandbits(64)
            if w not in seen and w > 0xffffffff:
                seen.add(w)
                words.append(w)
        out.append([CODES[eid], eid, NONE, words])
    return out


def paired(nested):
    """The same records as START/END pairs of their codes (the END with its own distinct words)."""
    out = []
    for name, eid, _q, words in nested:
        out.append([name, eid, START, words])
        out.append([name, eid, END, [w ^ 0x5a5a5a5a for w in words]])
    return out


def window_events(name, start, end, tid, lookups, nested):
    eid = IDS[name]
    evs = [from_kd_buf(impl.record_args(1, start, tid, eid | START))]
    for i, (path, vn) in enumerate(lookups):
        evs += [from_kd_buf(r) for r in D.lookup_events(path, vn, tid, 10 + 8 * i)]
    for i, (_n, neid, q, words) in enumerate(nested):
        evs.append(from_kd_buf(impl.record_args(1000 + i, words, tid, neid | q)))
    evs.append(from_kd_buf(impl.record_args(10 ** 7, end, tid, eid | END)))
    return evs


def window_text(name, start, end, tid, lookups, nested, prebuilt=None):
    """Text of the LAST trace of code `name` the real TracesParser delivers for START, lookups, nested records, END — the
    call closed by the END (a nested record of the same code may deliver traces of its own before)."""
    eid = IDS[name]
    if prebuilt is None:
        evs = window_events(name, start, end, tid, lookups, nested)
    else:
        bare = window_events(name, start, end, tid, lookups, [])
        evs = bare[:-1] + prebuilt + bare[-1:]
    parser = TracesParser(dict(CODES), {}, {})
    for ev in evs[:-1]:
        try:
            parser.feed(ev)
        except Exception:                 # a nested record its own decoder cannot render: the record is still in the windows
            pass
    try:
        t = parser.feed(evs[-1])
        return '!nothing-delivered' if t is None else str(t)
    except Exception as e:
        return '!' + core.err_name(e)


def minimise_nested(nested, fails, budget=60):
    """A small sub-list of the nested records that still changes the text: halving, then dropping single records."""
    cur = list(nested)
    while len(cur) > 1 and budget > 0:
        half = len(cur) // 2
        budget -= 2
        if fails(cur[:half]):
            cur = cur[:half]
        elif fails(cur[half:]):
            cur = cur[half:]
        else:
            break
    i = 0
    while i < len(cur) and len(cur) > 1 and budget > 0:
        budget -= 1
        cand = cur[:i] + cur[i + 1:]
        if fails(cand):
            cur = cand
        else:
            i += 1
    return cur


WINDOW_ENDS = ([0, 0x51f3, 0x6a2d, 0x7b1c], [13, 0x51f3, 0x6a2d, 0x7b1c])
FALLBACK_STARTS = ([3, 0x40087468, 0x7000, 5], [3, 0x20007401, 0x7000, 5], [3, 0x80047601, 0x7000, 5], [3, 0xc0206911, 0x7000, 5],
                   [3, 0, 0, 0], [1, 1, 1, 1])


def window_content_search(rep, rng, tier, prop, decoders):
    """For every decoder of `decoders`: the text of the call [START, lookups, <a record of every other code>, END] delivered by
    the real TracesParser must read — in the part the property speaks about — like the call [START, lookups, END]."""
    sec = rep.section('window-content')
    sec['rule'] = ('failing-input search on the real code: every registered decoder of the property (%d, translated or not) on '
                   'in-domain START words: ONE window START + its lookups + a NONE-qualified record of EVERY code of the bundled '
                   'table except VFS_LOOKUP (%d records, same thread, pairwise distinct random words) + END through the real '
                   'TracesParser.feed; the %s part must equal that of the bare START + lookups + END window (END with error word '
                   '0 and with error word 13); for a sample (all decoders '
                   'in the thorough tier) also with every nested record as a START/END pair of its code and as an ALL-qualified record; a difference is bisected '
                   'down to the nested record(s) that cause it' % (len(decoders), len(CODES) - 1,
                                                                  'call' if prop == 'C09' else 'result'))
    tid = 0x1c5f
    pool = nested_pool(rng, tid)
    pool_events = [from_kd_buf(impl.record_args(1000 + i, w, tid, eid | q)) for i, (_n, eid, q, w) in enumerate(pool)]
    pairs = paired(pool)
    pair_events = [from_kd_buf(impl.record_args(1000 + i, w, tid, eid | q)) for i, (_n, eid, q, w) in enumerate(pairs)]
    alls = [[n, eid, ALL, [w ^ 0x3c3c3c3c for w in ws]] for n, eid, _q, ws in pool]
    all_events = [from_kd_buf(impl.record_args(1000 + i, w, tid, eid | q)) for i, (_n, eid, q, w) in enumerate(alls)]
    wide = tier != 'quick'
    sample = set(decoders if wide else rng.sample(decoders, min(24, len(decoders))))
    skipped = 0
    failing = set()
    for di, name in enumerate(decoders):
        start = good_args(name)
        if start is None:                  # packed request words (ioctl): a few shapes the generic search does not try
            start = next((a for a in FALLBACK_STARTS
                          if not window_text(name, a, WINDOW_ENDS[0], tid, STD_LOOKUPS, []).startswith('!')), None)
        if start is None:
            skipped += 1
            continue
        ends = WINDOW_ENDS
        found = False
        for end in ends:
            bare = window_text(name, start, end, tid, STD_LOOKUPS, [])
            if bare.startswith('!'):
                skipped += 1
                continue
            for kind, nested, prebuilt in (('single', pool, pool_events), ('paired', pairs, pair_events),
                                           ('all-qualified', alls, all_events)):
                if kind != 'single' and name not in sample:
                    continue
                if kind == 'paired':         # not the code's own START/END pair: a re-START of the call is another claim (C04)
                    keep = [i for i, x in enumerate(nested) if x[1] != IDS[name]]
                    nested, prebuilt = [nested[i] for i in keep], [prebuilt[i] for i in keep]
                sec['cases'] += 1
                full = window_text(name, start, end, tid, STD_LOOKUPS, nested, prebuilt)
                if prop_part(prop, full) == prop_part(prop, bare):
                    sec['distinct_nontrivial'] += 1
                    continue
                failing.add(name)
                if found or len(failing) > 6:      # the first few failing decoders are minimised and reported, the rest counted
                    continue
                found = True

                def fails(sub):
                    return prop_part(prop, window_text(name, start, end, tid, STD_LOOKUPS, sub)) != prop_part(prop, bare)
                small = minimise_nested(nested, fails)
                text = window_text(name, start, end, tid, STD_LOOKUPS, small)
                rep.add_failure('window:%s:%s:nested-record-changes-text' % (prop, name),
                                '%s with START words %s and END words %s reads %r; with %s between START and END it reads %r: the '
                                '%s part changed' % (name, start, end, bare,
                                                     ', '.join('a %s record of %s (words %s)'
                                                               % ({0: 'NONE', 1: 'START', 2: 'END', 3: 'ALL'}[q], n, w)
                                                               for n, _e, q, w in small[:4])
                                                     + (' ... (%d records)' % len(small) if len(small) > 4 else ''),
                                                     text, 'call' if prop == 'C09' else 'result'),
                                {'section': 'window-content', 'decoder': name, 'start': start, 'end': end, 'tid': tid,
                                 'lookups': STD_LOOKUPS, 'nested': small, 'bare': bare, 'with': text})
    sec['dist'] = {'decoders': len(decoders), 'no-in-domain-window-found': skipped, 'nested-records': len(pool),
                   'with-paired-nested-records': len(sample), 'decoders-whose-text-changed': len(failing)}


def replay_search(rp, prop, path):
    """Replay of a failure recorded by `matching_search` / `window_content_search`; returns the exit code, or None when the
    replay record belongs to another section."""
    sec = rp.get('section')
    if sec == 'window-content':
        name, start, end, tid, lookups, nested = (rp[k] for k in ('decoder', 'start', 'end', 'tid', 'lookups', 'nested'))
        bare = window_text(name, start, end, tid, lookups, [])
        full = window_text(name, start, end, tid, lookups, nested)
        print('decoder:', name, ' START words:', start, ' END words:', end, ' thread:', tid, ' lookups:', lookups)
        for n, eid, q, w in nested:
            print('nested record: %s (%#x) qualifier %d words %s' % (n, eid, q, w))
        print('bare window  [START, lookups, END]        :', bare)
        print('whole window [START, lookups, nested, END]:', full)
        if prop_part(prop, bare) != prop_part(prop, full):
            print('oracle: window:%s:%s:nested-record-changes-text - the %s part %r became %r'
                  % (prop, name, 'call' if prop == 'C09' else 'result', prop_part(prop, bare), prop_part(prop, full)))
            print(f'VIOLATION property={prop} replay={path}')
            return 1
        print('oracle: property holds on this input')
        return 0
    if sec == 'matching-records' and rp.get('kind') == 'long-window':
        args = [rp[k] for k in ('decoder', 'start', 'end', 'tid', 'lookups', 'nested', 'layout')]
        print('decoder: %s  START words: %s  END words: %s  thread: %s  lookups: %s  nested records: %d (lookups %s)' % tuple(args))
        why = long_window_check(prop, *args)
        if why:
            print('oracle: matching:%s:long-window - %s' % (prop, why))
            print(f'VIOLATION property={prop} replay={path}')
            return 1
        print('oracle: property holds on this input')
        return 0
    if sec == 'matching-records' and 'log' in rp:
        log = [tuple(x) for x in rp['log']]
        got, exp, err = matching_stream_check(rp['case'], log, prop)
        for k, nm, t, w in log:
            print('   %s %s tid=%s words=%s' % ({'S': 'START', 'E': 'END  ', 'N': 'NONE '}[k], nm, t, w))
        print('traces  :', got, ' exception:', err)
        print('expected:', exp)
        if got != exp or err != '-':
            print('oracle: matching:%s - the traces are not those of the matching START/END pairs' % prop)
            print(f'VIOLATION property={prop} replay={path}')
            return 1
        print('oracle: property holds on this input')
        return 0
    return None


def hs_decode(txt):
    if txt.startswith('!'):
        return txt
    return '' if txt == '-' else bytes.fromhex(txt).decode('utf-8', 'surrogatepass')


# ---------------------------------------------------------------------------------------------------------
# end to end: bytes of a version-2 / version-3 dump -> PyKdebugParser.formatted_traces lines (driver command `e2e`)
#
# A case: the whole dump (`whole`), the bytes actually parsed (`file` = whole[:cut], or the whole dump when `cut` is
# None), the offset of the first record (`hdr`), the thread map (`tmap`), whether the first record begins with a zero
# byte (`k1`: the padding skipper eats it — known finding K1 of C02; the truncation claims hold for such dumps too),
# filter settings and the six show_* switches.
# A version-3 case has moreover: `v3` (the description `containers.gen_v3` produces: header fields, cpu_info, stackshot
# filler and gaps with near-miss tag prefixes, thread-map chunk with trailing bytes, the records split into 1..4 chunks
# with size remainders, additional-data blocks), `plists` (what plistlib gives for each payload that loads — the `plist`
# parameter of the model), `recpos` (offset of every record in the dump, computed from the grammar), `marks` (the
# structural offsets) and `tailerr` (the exception the blocks behind the last chunk are built to raise, '-' for none).

E2E_NAMES = ['launchd', 'kernel_task', 'a', '', 'naïve', 'x' * 19]
E2E_CONFIGS = [
    {'tid': None, 'classes': [], 'subs': [], 'proc': None},
    {'tid': None, 'classes': [], 'subs': [], 'proc': '42'},
    {'tid': None, 'classes': [4], 'subs': [], 'proc': None},
    {'tid': None, 'classes': [], 'subs': [], 'proc': 'launchd'},
    {'tid': 5, 'classes': [], 'subs': [0x040c], 'proc': None},
    {'tid': None, 'classes': [7], 'subs': [], 'proc': '77'},
]


def v2_bytes(tmap, recs, pad=0, is64=1, tick=24000000):
    """magic, header, thread map, `pad` zero bytes, records (written independently of the repository's layout)."""
    import struct
    out = [b'\x00\x02\xaa\x55', struct.pack('<I', len(tmap)), b'\x00' * 12, struct.pack('<I', is64),
           struct.pack('<Q', tick), b'\x00' * 0x100]
    for tid, pid, name in tmap:
        nb = name.encode('utf-8')
        assert len(nb) <= 19
        out.append(struct.pack('<QI', tid, pid) + nb.ljust(20, b'\x00'))
    out.append(b'\x00' * pad)
    out += list(recs)
    return b''.join(out)


def v3_layout(f):
    """Structural offsets of `containers.v3_bytes(f)` computed from the grammar (not from the encoder): (marks, recpos)."""
    from . import containers as CT
    off = 4
    marks = [0, off]
    body = 60 + 8 + len(f['cpu']) // 2
    marks += [off + 60, off + 68, off + body]
    off += body + (-body % 8)
    marks.append(off)
    off += 4
    marks.append(off)
    off += len(f['filler']) // 2
    marks.append(off)
    off += len(CT.STACKSHOT_END)
    marks.append(off)
    off += len(f['gap1']) // 2
    marks.append(off)
    off += 8
    marks.append(off)
    off += 8
    for _ in f['threads']:
        marks.append(off)
        off += 32
    marks.append(off)
    off += len(f['tmtrail']) // 2
    recpos = []
    for i, c in enumerate(f['chunks']):
        if i > 0:
            marks.append(off)
            off += 8
        marks.append(off)
        off += len(c['gap']) // 2
        marks += [off, off + 8, off + 16, off + 24]
        off += 24
        for _ in c['recs']:
            recpos.append(off)
            off += 64
    for b in f['blocks']:
        n = len(b['payload']) // 2
        marks += [off, off + 8, off + 16, off + 16 + n]
        off += 16 + n
        if b['padded']:
            off += -(8 + n) % 8
    marks.append(off)
    return sorted(set(marks)), recpos


def e2e_v3_file(rng, tmap, recs, tail=None):
    """A version-3 dump description around the given thread map and records (`containers.gen_v3` supplies header, cpu_info,
    filler, gaps and blocks).  tail: None | 'badplist' | 'nostring' | 'badcodes' — a block that makes the reader raise
    behind the last chunk."""
    from . import containers as CT
    f = CT.gen_v3(rng, small=True)
    f['threads'] = [[t, p, n.encode('utf-8').hex()] for t, p, n in tmap]
    nrec = len(recs)
    nch = rng.randrange(1, min(4, nrec + 1) + 1)
    cuts = sorted(rng.randrange(nrec + 1) for _ in range(nch - 1))
    chunks, prev = [], 0
    for c in cuts + [nrec]:
        chunks.append({'gap': CT.gen_scan_gap(rng, CT.TAG_EVENTS, 24).hex(), 'extra': rng.choice([0, 0, 1, 63, rng.randrange(64)]),
                       'unk': rng.choice([bytes(8), rng.randbytes(8)]).hex(), 'recs': [r.hex() for r in recs[prev:c]]})
        prev = c
    f['chunks'] = chunks
    tailerr = '-'
    if tail is not None:
        if tail == 'badplist':
            blk, tailerr = [rng.choice([CT.TAG_PROCS, CT.TAG_IMAGES, CT.TAG_KEXTS, CT.TAG_DYLD, CT.TAG_LOGS, CT.TAG_STRINGS]),
                            rng.choice([b'\x01\x02\x03', b'bplist00', b'', b'<plist'])], 'ValueError'
        elif tail == 'nostring':
            blk, tailerr = [CT.TAG_LOGS, CT.bplist({'Events': [CT.gen_raw_log(rng, [424242], rng.random() < 0.5, True, 7)]})], 'KeyError'
        else:
            blk, tailerr = [CT.TAG_CODES, b'0x1\tA\n\xff\xfe'], 'UnicodeError'
        at = len(f['blocks']) if tail == 'nostring' else rng.randrange(len(f['blocks']) + 1)
        for b in f['blocks']:
            b['padded'] = True
        f['blocks'].insert(at, {'tag': blk[0].hex(), 'payload': blk[1].hex(), 'padded': True})
        f['blocks'][-1]['padded'] = rng.random() < 0.5
    return f, tailerr


def e2e_random_config(rng, tids):
    r = rng.random()
    classes = [] if r < 0.5 else rng.choice([[4], [4, 7], [7], [3, 4], [1], [0x25], [4, 1], [0x1f]])
    subs = [] if rng.random() < 0.7 else rng.choice([[0x040c], [0x0140], [0x0701], [0x040c, 0x0140], [0x040e]])
    tid = None if rng.random() < 0.6 else rng.choice(tids + [0, 12345])
    proc = None if rng.random() < 0.7 else rng.choice(['launchd', '42', '77', '', '-1', 'a', 'nope'])
    return {'tid': tid, 'classes': classes, 'subs': subs, 'proc': proc}


def e2e_case(rng, cut='random', config=None, ops=None, k1=False, plain=0.0, v3=False, tail=None):
    s = Stream(rng)
    s.ts = 256 * rng.randrange(1, 1000)           # the first record must not begin with a zero byte (K1)
    tids = [rng.choice([5, 6, 7, 99, 1000]) for _ in range(3)]
    for _ in range(ops if ops is not None else rng.randrange(1, 8)):
        add_operation(s, rng, tids)
    recs = s.recs
    if recs and recs[0][0] == 0:
        recs = [bytes([1]) + recs[0][1:]] + recs[1:]
    if v3 and recs and rng.random() < 0.3:        # version 3 has no padding skipper: leading zero bytes are just a timestamp
        z = rng.randrange(1, 4)
        recs = [bytes(z) + recs[0][z:]] + recs[1:]
    if k1 and recs:                               # timestamp with 1..3 low zero bytes: eaten by the padding skipper
        z = rng.randrange(1, 4)
        recs = [bytes(z) + bytes([rng.randrange(1, 256)]) + recs[0][z + 1:]] + recs[1:]
    tmap = [(t, rng.choice([1, 42, 77]), rng.choice(E2E_NAMES))
            for t in rng.sample(sorted(set(tids)), rng.randrange(0, len(set(tids)) + 1))]
    if rng.random() < 0.2 and tmap:               # a later entry for the same thread / the same pid wins
        tmap.append((tmap[0][0], rng.choice([1, 42, 77, 78]), rng.choice(E2E_NAMES)))
    extra = {}
    if v3:
        from . import containers as CT
        f, tailerr = e2e_v3_file(rng, tmap, recs, tail)
        whole = CT.v3_bytes(f)
        marks, recpos = v3_layout(f)
        assert marks[-1] == len(whole) and all(whole[q:q + 64] == r for q, r in zip(recpos, recs)), 'v3 layout'
        hdr = recpos[0] if recpos else len(whole)
        extra = {'v3': f, 'plists': CT.v3_plists(f), 'recpos': recpos, 'marks': marks, 'tailerr': tailerr}
    else:
        pad = rng.choice([0, 0, 0, 1, 4, 7, 12])
        whole = v2_bytes(tmap, recs, pad)
        hdr = len(whole) - 64 * len(recs)
    k = None
    if cut == 'random' and rng.random() < 0.25:
        k = rng.randrange(0, len(whole) + 1)
    if config is None:
        config = E2E_CONFIGS[0] if rng.random() < plain else e2e_random_config(rng, tids)
    bits = ''.join(rng.choice('01') for _ in range(6))
    codes = restricted_codes(recs, extra=('VFS_LOOKUP',))
    c = {'codes': {str(kk): v for kk, v in codes.items()}, 'whole': whole.hex(), 'hdr': hdr, 'k1': bool(k1 and recs),
         'tmap': [list(x) for x in tmap], 'bits': bits, 'cut': k}
    c.update(extra)
    c.update(config)
    c['file'] = (whole if k is None else whole[:k]).hex()
    return c


def e2e_cut_offsets(c, every):
    n, hdr = len(c['whole']) // 2, c['hdr']
    if every:
        return list(range(n + 1))
    if c.get('v3'):
        ks = {0, 1, 3, 4, 5, 8, 20, n - 1, n}
        for m in c['marks']:                                                    # every structural boundary of the grammar
            ks |= {m - 1, m, m + 1, m + 7}
        for b in c['recpos'] + [q + 64 for q in c['recpos'][-1:]]:
            ks |= {b - 13, b - 1, b, b + 1, b + 7, b + 8, b + 40, b + 47, b + 48, b + 50, b + 52, b + 63}
        return sorted(k for k in ks if 0 <= k <= n)
    tm_end = 4 + 284 + 32 * len(c['tmap'])
    ks = {0, 1, 3, 4, 5, 8, 20, 287, 288, 289, 300, tm_end - 33, tm_end - 1, tm_end, tm_end + 1, hdr - 1, hdr, hdr + 1, n - 1, n}
    ks |= set(range(tm_end, hdr + 1))                                        # every cut inside the padding
    for b in range(hdr, n + 1, 64):
        ks |= {b - 13, b - 1, b, b + 1, b + 7, b + 8, b + 40, b + 47, b + 48, b + 50, b + 52, b + 63}
    return sorted(k for k in ks if 0 <= k <= n)


def e2e_cut_cases(rng, tier):
    """A few small dumps cut at EVERY offset (thorough) / at every structural offset (quick): inside the magic, the header
    fields, the thread map, the padding, and around every record boundary and field boundary of a record."""
    out = []
    ndumps = 3 if tier == 'quick' else 8
    n3 = 2 if tier == 'quick' else 4                                            # version-3 dumps behind the version-2 ones
    for j in range(ndumps + n3):
        cfg = E2E_CONFIGS[j % ndumps] if j % ndumps < len(E2E_CONFIGS) else None
        if j < ndumps:
            base = e2e_case(rng, cut=None, config=cfg, ops=rng.randrange(1, 4), k1=(j % 3 == 2))
        else:
            base = e2e_case(rng, cut=None, config=cfg, ops=rng.randrange(1, 4), v3=True,
                            tail=[None, 'badplist', 'nostring', None][j - ndumps])
        whole = bytes.fromhex(base['whole'])
        for k in e2e_cut_offsets(base, every=(tier != 'quick')):
            c = dict(base)
            c['cut'], c['file'] = k, whole[:k].hex()
            out.append(c)
    return out


def e2e_line(c):
    codes = {int(k): v for k, v in c['codes'].items()}
    return 'e2e %s %s %s %s %s %s %s%s' % (
        codes_arg(codes), 'N' if c['tid'] is None else c['tid'], ','.join(map(str, c['classes'])) or '-',
        ','.join(map(str, c['subs'])) or '-', 'N' if c['proc'] is None else hs(c['proc']), c['bits'],
        (c['plists'] + ' ') if c.get('plists') is not None else '', c['file'] or '-')


def e2e_parser(c, proc='case'):
    from pykdebugparser.pykdebugparser import PyKdebugParser
    p = PyKdebugParser()
    p.color = False
    p.filter_tid, p.filter_process = c['tid'], (c['proc'] if proc == 'case' else proc)
    p.filter_class, p.filter_subclass = list(c['classes']), list(c['subs'])
    (p.show_timestamp, p.show_name, p.show_func_qual, p.show_tid, p.show_process, p.show_args) = [b == '1' for b in c['bits']]
    return p


def e2e_err_name(e):
    """plistlib's own failures (property list of a version-3 dump that does not load) are the model's ValueError."""
    from . import containers as CT
    return CT.out_err(e)


def e2e_lines(c, data):
    """(lines formatted_traces yields for `data` before it stops, name of the exception that stopped it or '-')."""
    import io
    p = e2e_parser(c)
    codes = {int(k): v for k, v in c['codes'].items()}
    lines, err = [], '-'
    try:
        for ln in p.formatted_traces(io.BytesIO(data), codes):
            lines.append(ln)
    except Exception as e:
        err = e2e_err_name(e)
    return lines, err


def e2e_impl(c):
    lines, err = e2e_lines(c, bytes.fromhex(c['file']))
    return 'ok %s ;err=%s' % (' '.join(hs(ln) for ln in lines) or '-', err)


def e2e_parse_answer(got):
    body, err = got[3:].rsplit(' ;err=', 1)
    return ([] if body == '-' else [hs_decode(x) for x in body.split(' ')]), err


def e2e_header_text(c, p, tid, ts):
    """The header columns of a trace line, written from the property (not from `_format_trace`)."""
    show_ts, _, _, show_tid, show_proc, _ = [b == '1' for b in c['bits']]
    s = ''
    if show_ts:
        s += str(ts) + ' '
    if show_tid:
        s += str(tid).rjust(11) + ' '
    if show_proc:
        pid = p.threads_pids.get(tid)
        txt = 'Error: tid %d' % tid if pid is None else '%s(%d)' % (p.pids_names.get(pid, ''), pid)
        s += txt.ljust(34)
    return s


def e2e_expected_from_traces(c, data, proc='case', keep=None):
    """Lines rebuilt from `traces()` consumed lazily: header from the first record and the tables at the yield + str(trace)."""
    import io
    p = e2e_parser(c, proc)
    codes = {int(k): v for k, v in c['codes'].items()}
    exp, err = [], '-'
    try:
        for t in p.traces(io.BytesIO(data), codes):
            k0 = t.ktraces[0]
            if keep is not None and not keep(p, k0.tid):
                continue
            exp.append(e2e_header_text(c, p, k0.tid, k0.timestamp) + str(t))
    except Exception as e:
        err = e2e_err_name(e)
    return exp, err


def e2e_record_offsets(c):
    """where the grammar puts the records: behind the padding (version 2) / in the chunks (version 3)."""
    if c.get('v3'):
        return list(c['recpos'])
    return list(range(c['hdr'], len(c['whole']) // 2, 64))


def e2e_expected_from_records(c):
    """Lines rebuilt WITHOUT the container parser and without `traces()`: thread map -> tables (later entry wins), records
    decoded field by field, fed to a TracesParser one by one, header + str(trace) after each feed.  No filters."""
    whole = bytes.fromhex(c['whole'])
    codes = {int(k): v for k, v in c['codes'].items()}
    from pykdebugparser.kevent import Kevent

    class Tabs:
        threads_pids, pids_names = {}, {}
    for tid, pid, name in c['tmap']:
        Tabs.threads_pids[tid] = pid
        Tabs.pids_names[pid] = name
    tp = TracesParser(codes, Tabs.threads_pids, Tabs.pids_names)
    exp, err = [], '-'
    try:
        for off in e2e_record_offsets(c):
            r = whole[off:off + 64]
            dbg = int.from_bytes(r[48:52], 'little')
            ev = Kevent(int.from_bytes(r[0:8], 'little'), r[8:40],
                        tuple(int.from_bytes(r[8 + 8 * i:16 + 8 * i], 'little') for i in range(4)),
                        int.from_bytes(r[40:48], 'little'), dbg, dbg - dbg % 4, dbg % 4)
            t = tp.feed(ev)
            if t is not None:
                k0 = t.ktraces[0]
                exp.append(e2e_header_text(c, Tabs, k0.tid, k0.timestamp) + str(t))
    except Exception as e:
        err = core.err_name(e)
    return exp, err


_E2E_CACHE = {}


def e2e_cached_lines(c, k):
    """lines of whole[:k] under the case's settings (the every-offset sweep asks for the same few prefixes again and again)."""
    key = (c['whole'], k, c['tid'], tuple(c['classes']), tuple(c['subs']), c['proc'], c['bits'])
    if key not in _E2E_CACHE:
        if len(_E2E_CACHE) > 4000:
            _E2E_CACHE.clear()
        whole = bytes.fromhex(c['whole'])
        _E2E_CACHE[key] = e2e_lines(c, whole if k is None else whole[:k])
    return _E2E_CACHE[key]


_E2E_MAT = {}


def e2e_materialised(c, k):
    """The observer that keeps the trace OBJECTS: list(traces(whole[:k])) up to the end or the exception, then str() of each
    object — (texts taken at the yield, texts taken after the stream was read)."""
    import io
    key = (c['whole'], k, c['tid'], tuple(c['classes']), tuple(c['subs']), c['proc'])
    if key not in _E2E_MAT:
        if len(_E2E_MAT) > 4000:
            _E2E_MAT.clear()
        whole = bytes.fromhex(c['whole'])
        p = e2e_parser(c, 'case')
        codes = {int(kk): v for kk, v in c['codes'].items()}
        kept, early = [], []
        try:
            for t in p.traces(io.BytesIO(whole if k is None else whole[:k]), codes):
                kept.append(t)
                early.append(str(t))
        except Exception:
            pass
        _E2E_MAT[key] = (early, [str(t) for t in kept])
    return _E2E_MAT[key]


def e2e_show(lines, n=3):
    return '%d lines %r' % (len(lines), [x[:60] for x in lines[:n]])


def e2e_oracle(c, got):
    """The composition properties stated on the real code alone (the Lean model is not consulted)."""
    if not got.startswith('ok '):
        return ('e2e:harness', 'formatted_traces could not be run: ' + got[:200])
    lines, err = e2e_parse_answer(got)
    data = bytes.fromhex(c['file'])
    k, hdr = c['cut'], c['hdr']
    # C06: truncation
    if k is not None:
        full, _ = e2e_cached_lines(c, None)
        if lines != full[:len(lines)]:
            return ('e2e:cut-not-prefix', 'cut at %d of %d: %s are not a prefix of the complete dump\'s %s'
                    % (k, len(c['whole']) // 2, e2e_show(lines), e2e_show(full)))
        if k >= hdr:
            # the last offset <= k at which only complete records have been read
            kb = max([hdr] + [q + 64 for q in e2e_record_offsets(c) if q + 64 <= k])
            at_b, _ = e2e_cached_lines(c, kb)
            if at_b != lines[:len(at_b)]:
                return ('e2e:cut-not-monotone', 'the lines reported for the cut at %d (%s) are withdrawn by the longer cut at %d (%s)'
                        % (kb, e2e_show(at_b), k, e2e_show(lines)))
            if not c['k1'] and len(lines) != len(at_b):
                return ('e2e:line-from-partial-record', 'cut at %d = record boundary %d + %d bytes: %d lines, but %d lines for '
                        'the complete records alone' % (k, kb, k - kb, len(lines), len(at_b)))
        elif lines and not c['k1']:
            return ('e2e:line-before-first-record', 'cut at %d, first record at %d: %s' % (k, hdr, e2e_show(lines)))
        # the same for an observer that keeps the trace objects and prints them afterwards
        _, cut_late = e2e_materialised(c, k)
        _, full_late = e2e_materialised(c, None)
        if cut_late != full_late[:len(cut_late)]:
            i = next((j for j, (a, b) in enumerate(zip(cut_late, full_late)) if a != b), min(len(cut_late), len(full_late)))
            return ('e2e:cut-not-prefix-materialised', 'cut at %d: trace %d of list(traces(cut)) reads %r, of list(traces(whole)) '
                    '%r' % (k, i, cut_late[i][:100] if i < len(cut_late) else None,
                            full_late[i][:100] if i < len(full_late) else None))
    early, late = e2e_materialised(c, k)
    if early != late:
        i = next(j for j, (a, b) in enumerate(zip(early, late)) if a != b)
        return ('e2e:trace-changed-after-yield', 'trace %d read %r when traces() reported it and %r after the rest of the dump had '
                'been read' % (i, early[i][:100], late[i][:100]))
    # C14: formatted_traces adds nothing to / drops nothing from traces(); header = first record + tables at the yield
    exp, exp_err = e2e_expected_from_traces(c, data)
    if exp != lines or exp_err != err:
        i = next((j for j, (a, b) in enumerate(zip(exp, lines)) if a != b), min(len(exp), len(lines)))
        return ('e2e:line-shape', 'line %d of formatted_traces is %r, the trace\'s first record, the tables at its yield and '
                'its text give %r (%d vs %d lines, exceptions %s / %s)'
                % (i, lines[i][:120] if i < len(lines) else None, exp[i][:120] if i < len(exp) else None, len(lines),
                   len(exp), err, exp_err))
    plain = c['tid'] is None and not c['classes'] and not c['subs']
    # C13: the process filter selects among the traces of the same request without it, judged at their yield
    if c['proc'] is not None and plain:
        fp = c['proc']

        def keep(p, tid):
            pid = p.threads_pids.get(tid, -1)
            return fp == str(pid) or fp == p.pids_names.get(pid, '')
        exp, exp_err = e2e_expected_from_traces(c, data, proc=None, keep=keep)
        if exp != lines or exp_err != err:
            return ('e2e:process-filter', 'process filter %r: %s, the matching traces of the unfiltered request: %s (exceptions %s / %s)'
                    % (fp, e2e_show(lines), e2e_show(exp), err, exp_err))
    # C02 (+C01): the container hands the trace layer exactly the thread map and the decoded records
    if k is None and plain and c['proc'] is None and not c['k1']:
        exp, exp_err = e2e_expected_from_records(c)
        if exp_err == '-' and c.get('v3'):
            # version 3: what the blocks behind the last chunk raise surfaces after every line
            exp_err = c['tailerr']
        if exp != lines or exp_err != err:
            return ('e2e:container-glue', 'whole dump: %s, but its thread map and its records fed to the decoders directly give %s '
                    '(exceptions %s / %s)' % (e2e_show(lines), e2e_show(exp), err, exp_err))
    return None


def section_e2e(rep, rng, tier, n=None, oracle_fn=None, cuts=False, plain=0.0, only_v3=False):
    n = n or (250 if tier == 'quick' else 8000)
    cases = [] if only_v3 else [e2e_case(rng, plain=plain) for _ in range(n)]
    cases += [] if only_v3 else [e2e_case(rng, k1=True) for _ in range(max(4, n // 25))]
    cases += [e2e_case(rng, plain=plain, v3=True) for _ in range(n if only_v3 else max(20, n // 3))]
    cases += [e2e_case(rng, plain=max(plain, 0.5), v3=True, tail=rng.choice(['badplist', 'nostring', 'badcodes']))
              for _ in range(max(6, n // 20))]
    if cuts:
        cases += e2e_cut_cases(rng, tier)

    def oracle(c, got):
        return e2e_oracle(c, got) or (oracle_fn(c, got) if oracle_fn else None)
    core.run_section(
        rep, 'end-to-end', cases, line_fn=e2e_line, impl_fn=e2e_impl, oracle_fn=oracle, skip_fn=lambda m: 'Unmodelled' in m,
        nontrivial_fn=lambda c, got: not got.startswith('ok - '),
        kind_fn=lambda c, got: ('v3:' if c.get('v3') else '') + ('cut' if c['cut'] is not None else 'whole')
        + (':k1' if c['k1'] else '') + ':' + got.rsplit(';err=', 1)[1],
        rule='bytes of a version-2 dump (thread map with duplicate keys, 0..12 bytes of padding, random operations, sometimes '
             'truncated; with cuts=True a few small dumps cut at EVERY offset incl. magic, header, thread map, padding, and dumps '
             'whose first record begins with zero bytes) and of a version-3 dump (random header and cpu_info, stackshot filler '
             'and gaps with near-miss tag prefixes, thread-map chunk with trailing bytes, the records split into 1..4 chunks with '
             'size remainders, additional-data blocks incl. log records naming processes, and blocks that make the reader raise '
             'behind the last chunk: property list that does not load, unknown string id, undecodable trace codes; cut at '
             'random / every structural / every offset) x tid / process / class / subclass filters x the six show_* switches: the '
             'lines of PyKdebugParser.formatted_traces(BytesIO(file), codes) with colour off vs the composition of the layer models '
             '(container -> event filter -> TracesParser -> post-filters -> line builder), including the exception that ends the '
             'iteration; oracles on the code alone: lines of the cut are a prefix of the lines of the whole dump, never withdrawn by '
             'a longer cut, none from a partial record; every line = first record + tables at the yield + text of its trace; the '
             'process filter selects among the unfiltered traces; the whole unfiltered dump = its records (version 3: of all '
             'chunks) fed to the decoders, and an exception of the blocks behind the last chunk surfaces after every line',
        sample_fn=lambda c: {kk: c.get(kk) for kk in ('tid', 'classes', 'subs', 'proc', 'bits', 'cut', 'tailerr')})


def replay_e2e(case, prop, path):
    """Replay of a recorded end-to-end case (used by the check modules whose correspondence runs `section_e2e`)."""
    got = e2e_impl(case)
    model = core.drive([e2e_line(case)])[0]
    res = e2e_oracle(case, got)
    print('section: end-to-end')
    print('settings:', {kk: case.get(kk) for kk in ('tid', 'classes', 'subs', 'proc', 'bits', 'cut', 'hdr', 'k1', 'tmap', 'recpos',
                                                  'tailerr')})
    if case.get('v3'):
        print('v3   :', {kk: vv for kk, vv in case['v3'].items() if kk != 'chunks'},
              [(c['gap'], c['extra'], len(c['recs'])) for c in case['v3']['chunks']])
    print('file :', case['file'][:600] + ('…' if len(case['file']) > 600 else ''))
    print('impl :', e2e_parse_answer(got) if got.startswith('ok ') else got[:2000])
    print('model:', e2e_parse_answer(model) if model.startswith('ok ') else model[:2000])
    if res:
        print('oracle:', res[0], '-', res[1])
        print(f'VIOLATION property={prop} replay={path}')
        return 1
    if got != model:
        print('model and implementation differ on this input (no property oracle fires)')
        return 1
    print('no violation on this input')
    return 0
