import KdVerif.Proofs.OsLog
import KdVerif.Proofs.TraceId
/-
  Lemmas for C16: a well-shaped value (Spec/OsLogFormat) is accepted by its transform, with the
  value the format prescribes.
-/
namespace KdVerif.OsLog
open Spec.OsLogFormat Spec.Firehose

/-! ### optional members of a dict -/

theorem optKey_dict_none {d : Dict} {k : String} {f : PVal → Except PyErr α} {x : α}
    (h : d.lookup k = none) : optKey (.dict d) k f x = .ok x := by
  simp [optKey, contains, andThen, h]

theorem optKey_dict_some {d : Dict} {k : String} {f : PVal → Except PyErr α} {x : α} {v : PVal}
    (h : d.lookup k = some v) : optKey (.dict d) k f x = f v := by
  simp [optKey, contains, subscr, andThen, h]

theorem optKey_ok {d : Dict} {k : String} {f : PVal → Except PyErr α} {x : α} {p : PVal → Bool}
    (hs : optOk d k p = true) (hf : ∀ v, p v = true → ∃ r, f v = .ok r) :
    ∃ r, optKey (.dict d) k f x = .ok r := by
  unfold optOk at hs
  cases hl : d.lookup k with
  | none => exact ⟨x, optKey_dict_none hl⟩
  | some v =>
    rw [hl] at hs
    obtain ⟨r, hr⟩ := hf v hs
    exact ⟨r, by rw [optKey_dict_some hl, hr]⟩

theorem optKey_plain (d : Dict) (k n : String) :
    optKey (.dict d) k (plainField n) [] =
      .ok (match d.lookup k with | some v => [(n, v)] | none => []) := by
  cases hl : d.lookup k with
  | none => rw [optKey_dict_none hl]
  | some v => rw [optKey_dict_some hl]; rfl

/-! ### string-table indices -/

theorem strIndex_of_isIdx {S : Strings} {v : PVal} (h : isIdx S v = true) :
    ∃ n s, v = .int n ∧ S.lookup n = some s ∧ strIndex S v = .ok (.str s) := by
  cases v with
  | int n =>
    simp only [isIdx] at h
    cases hl : S.lookup n with
    | none => simp [hl] at h
    | some s => exact ⟨n, s, rfl, hl, by simp [strIndex, numOf, hl]⟩
  | _ => simp [isIdx] at h

theorem strField_ok {S : Strings} (name : String) {v : PVal} (h : isIdx S v = true) :
    ∃ r, strField S name v = .ok r := by
  obtain ⟨_, s, _, _, hs⟩ := strIndex_of_isIdx h
  exact ⟨[(name, .str s)], by simp [strField, andThen, hs]⟩

/-! ### decomposed messages -/

theorem parseTokens_ok {S : Strings} {t : PVal} (h : tokensShaped S t = true) :
    ∃ r, parseTokens S t = .ok r := by
  cases t with
  | list xs =>
    simp only [tokensShaped, List.all_eq_true] at h
    unfold parseTokens
    by_cases ht : truthy (.list xs) = true
    · obtain ⟨ys, hys⟩ := mapE_ok_exists (f := strIndex S) xs (fun a ha => by
        obtain ⟨_, s, _, _, hs⟩ := strIndex_of_isIdx (h a ha)
        exact ⟨_, hs⟩)
      simp only [ht, if_true, iter, andThen, hys]
      exact ⟨_, rfl⟩
    · simp only [ht]
      exact ⟨_, rfl⟩
  | _ => simp [tokensShaped] at h

theorem parsePlaceholder_ok {S : Strings} {p : PVal} (h : placeholderShaped S p = true) :
    ∃ r, parsePlaceholder S p = .ok r := by
  cases p with
  | dict d =>
    simp only [placeholderShaped, Bool.and_eq_true] at h
    obtain ⟨⟨⟨⟨⟨h1, h2⟩, h3⟩, h4⟩, hw⟩, hp⟩ := h
    obtain ⟨a1, e1⟩ := optKey_ok (x := []) h1 (fun v hv => strField_ok "raw_string" hv)
    obtain ⟨a2, e2⟩ := optKey_ok (x := []) h2 (fun v hv => parseTokens_ok hv)
    obtain ⟨a3, e3⟩ := optKey_ok (x := []) h3 (fun v hv => strField_ok "type_namespace" hv)
    obtain ⟨a4, e4⟩ := optKey_ok (x := []) h4 (fun v hv => strField_ok "type" hv)
    cases hlw : d.lookup "w" with
    | none => simp [hlw] at hw
    | some w =>
      cases hlp : d.lookup "p" with
      | none => simp [hlp] at hp
      | some pr =>
        simp only [parsePlaceholder, andThen, e1, e2, e3, e4, subscr, hlw, hlp]
        exact ⟨_, rfl⟩
  | _ => simp [placeholderShaped] at h

theorem getEq_category (d : Dict) (n : Int) :
    getEq (match d.lookup "c" with | some v => [("category", v)] | none => []) "category" n = categoryIs d n := by
  unfold getEq categoryIs
  cases d.lookup "c" <;> simp [List.lookup]

theorem parseArg_ok {S : Strings} {a : PVal} (h : argShaped S a = true) : ∃ r, parseArg S a = .ok r := by
  cases a with
  | dict d =>
    simp only [argShaped] at h
    unfold parseArg
    simp only [optKey_plain, andThen, getEq_category]
    have h4 : ∀ c : Bool, ∃ b4, (if c = true then
        (match (Except.ok (match d.lookup "sc" with | some v => [("scalar_category", v)] | none => []) :
            Except PyErr Dict) with
          | .error e => .error e
          | .ok c1 =>
            match (Except.ok (match d.lookup "st" with | some v => [("scalar_type", v)] | none => []) :
                Except PyErr Dict) with
            | .error e => .error e
            | .ok c2 => .ok (c1 ++ c2))
        else (.ok [] : Except PyErr Dict)) = .ok b4 := by
      intro c
      cases c <;> exact ⟨_, rfl⟩
    obtain ⟨b4, e4⟩ := h4 (categoryIs d 1)
    rw [e4]
    have h5 : ∀ c : Bool, ∃ b5, (if c = true then
        optKey (.dict d) "or" (fun v => if categoryIs d 2 = true then strField S "object_representation" v
                                        else plainField "object_representation" v) []
        else (.ok [] : Except PyErr Dict)) = .ok b5 := by
      intro c
      cases c
      · exact ⟨_, rfl⟩
      · simp only [if_true]
        apply optKey_ok h
        intro v hv
        by_cases hc : categoryIs d 2 = true
        · simp only [hc, Bool.not_true, Bool.false_or] at hv
          simpa [hc] using strField_ok "object_representation" hv
        · simp only [hc]
          exact ⟨_, rfl⟩
    obtain ⟨b5, e5⟩ := h5 _
    rw [e5]
    exact ⟨_, rfl⟩
  | _ => simp [argShaped] at h

/-- A segment with any subset of `lp`, `p`, `a` (and any subset of their optional members) decodes. -/
theorem parseSegment_ok {S : Strings} {seg : PVal} (h : segmentShaped S seg = true) :
    ∃ r, parseSegment S seg = .ok r := by
  cases seg with
  | dict d =>
    simp only [segmentShaped, Bool.and_eq_true] at h
    obtain ⟨⟨h1, h2⟩, h3⟩ := h
    obtain ⟨l, e1⟩ := optKey_ok (x := []) h1 (fun v hv => strField_ok "literal_prefix" hv)
    obtain ⟨p, e2⟩ := optKey_ok (x := ([] : Dict))
      (f := fun v => parsePlaceholder S v >>=? fun r => .ok [("placeholder", r)]) h2 (fun v hv => by
        obtain ⟨r, hr⟩ := parsePlaceholder_ok hv
        simp only [hr, andThen_ok]
        exact ⟨_, rfl⟩)
    obtain ⟨a, e3⟩ := optKey_ok (x := ([] : Dict))
      (f := fun v => parseArg S v >>=? fun r => .ok [("arg", r)]) h3 (fun v hv => by
        obtain ⟨r, hr⟩ := parseArg_ok hv
        simp only [hr, andThen_ok]
        exact ⟨_, rfl⟩)
    simp only [parseSegment, e1, e2, e3, andThen_ok]
    exact ⟨_, rfl⟩
  | _ => simp [segmentShaped] at h

theorem parseDecomposed_ok {S : Strings} {dm : PVal} (h : decomposedShaped S dm = true) :
    ∃ r, parseDecomposed S dm = .ok r := by
  cases dm with
  | dict d =>
    simp only [decomposedShaped, Bool.and_eq_true] at h
    obtain ⟨hs, hpc⟩ := h
    cases hls : d.lookup "s" with
    | none => simp [hls] at hs
    | some st =>
      cases hlp : d.lookup "pc" with
      | none => simp [hlp] at hpc
      | some pc =>
        rw [hlp] at hpc
        by_cases ht : truthy pc = true
        · simp only [ht, Bool.not_true, Bool.false_or] at hpc
          cases hlg : d.lookup "seg" with
          | none => simp [hlg, segmentsShaped] at hpc
          | some sg =>
            rw [hlg] at hpc
            cases sg with
            | list segs =>
              simp only [segmentsShaped, List.all_eq_true] at hpc
              obtain ⟨outs, ho⟩ := mapE_ok_exists (f := parseSegment S) segs
                (fun a ha => parseSegment_ok (hpc a ha))
              simp only [parseDecomposed, subscr, andThen, hls, hlp, hlg, ht, if_true, iter, ho]
              exact ⟨_, rfl⟩
            | _ => simp [segmentsShaped] at hpc
        · simp only [parseDecomposed, subscr, andThen, hls, hlp, ht]
          exact ⟨_, rfl⟩
  | _ => simp [decomposedShaped] at h

/-- Message segments map one-to-one and in order. -/
theorem parseDecomposed_segments {S : Strings} {dm r pc : PVal} (h : parseDecomposed S dm = .ok r)
    (hpc : subscr dm "pc" = .ok pc) (ht : truthy pc = true) :
    ∃ st sg segs outs, subscr dm "s" = .ok st ∧ subscr dm "seg" = .ok sg ∧ iter sg = .ok segs ∧
      r = .dict [("placeholder_count", pc), ("state", st), ("segments", .list outs)] ∧
      outs.length = segs.length ∧
      ∀ (i : Nat) (h1 : i < segs.length) (h2 : i < outs.length), parseSegment S segs[i] = .ok outs[i] := by
  unfold parseDecomposed at h
  simp only [hpc, andThen] at h
  cases hs : subscr dm "s" with
  | error e => simp [hs] at h
  | ok st =>
    simp only [hs, ht, if_true] at h
    cases hg : subscr dm "seg" with
    | error e => simp [hg] at h
    | ok sg =>
      simp only [hg] at h
      cases hi : iter sg with
      | error e => simp [hi] at h
      | ok segs =>
        simp only [hi] at h
        cases hm : mapE (parseSegment S) segs with
        | error e => simp [hm] at h
        | ok outs =>
          simp only [hm, Except.ok.injEq] at h
          obtain ⟨hl, hall⟩ := mapE_ok_inv segs outs hm
          exact ⟨st, sg, segs, outs, rfl, rfl, hi, h.symm, hl, hall⟩

/-! ### the other transforms -/

theorem dictShape_ok {pairs : List (String × String)} {v : PVal} (h : hasKeys (pairs.map (·.2)) v = true) :
    ∃ d, v = .dict d ∧
      dictShape pairs v = .ok (.dict (pairs.map fun p => (p.1, (d.lookup p.2).getD PVal.none))) := by
  cases v with
  | dict d =>
    refine ⟨d, rfl, ?_⟩
    simp only [hasKeys, List.all_eq_true, List.mem_map] at h
    have := mapE_ok_of_forall (f := fun p : String × String => subscr (.dict d) p.2 >>=? fun x => .ok (p.1, x))
      (g := fun p => (p.1, (d.lookup p.2).getD PVal.none)) pairs (by
        intro p hp
        have hk := h p.2 ⟨p, hp, rfl⟩
        cases hl : d.lookup p.2 with
        | none => simp [hl] at hk
        | some x => simp [subscr, andThen, hl])
    simp only [dictShape, this, andThen_ok]
  | _ => simp [hasKeys] at h

/-- `unix_date` (PARTIAL, see the file header of Props/C16): the model's instant is exact. -/
theorem timestamp_exact {d : Dict} {ks ku : String} {s u : Int}
    (hs : d.lookup ks = some (.int s)) (hu : d.lookup ku = some (.int u))
    (hs0 : 0 ≤ s) (hs1 : s < 2 ^ 32) (hu0 : 0 ≤ u) (hu1 : u < 1000000) :
    timestamp (.dict d) ks ku = .ok (.datetime s u.toNat) := by
  have e1 : (s * 1000000 + u) / 1000000 = s := by omega
  have e2 : (s * 1000000 + u) % 1000000 = u := by omega
  have e3 : ¬ (s < minSec ∨ maxSec < s) := by
    unfold minSec maxSec
    omega
  simp only [timestamp, subscr, hs, hu, andThen, numOf, e1, e2, e3, if_false]

theorem intIn_spec {d : Dict} {k : String} {b : Int} (h : intIn d k b = true) :
    ∃ n, d.lookup k = some (.int n) ∧ 0 ≤ n ∧ n < b := by
  unfold intIn at h
  split at h
  · rename_i n hl
    simp only [Bool.and_eq_true, decide_eq_true_eq] at h
    exact ⟨n, hl, h.1, h.2⟩
  · cases h

theorem enumOfVal_ok {e : EnumRef} {n : Int} (h0 : 0 ≤ n) (h : refAccepts e n.toNat = true) :
    ∃ r, enumOfVal e (.int n) = .ok r := by
  obtain ⟨v, hv, _⟩ := enumCall_of_accepts e _ h
  have : ¬ n < 0 := by omega
  simp only [enumOfVal, numOf, this, if_false, andThen, hv]
  exact ⟨_, rfl⟩


theorem parseTraceIdentifier_ok {w : Int} (h0 : 0 ≤ w) (h1 : w < 2 ^ 64)
    (h : inDomain Gen.OsLog.idTables (unpackId w.toNat) = true) :
    ∃ r, parseTraceIdentifier Gen.OsLog.idTables (.int w) = .ok r := by
  have hw : w.toNat < 2 ^ 64 := by omega
  obtain ⟨d, hd, _⟩ := decodeId_unpack w.toNat hw h
  have : ¬ w < 0 := by omega
  simp only [parseTraceIdentifier, numOf, this, if_false, hd, andThen_ok]
  exact ⟨_, rfl⟩

/-- Every well-shaped value is accepted by its transform (tables of the current source). -/
theorem transform_ok (S : Strings) (tr : Transform) (v : PVal)
    (h : Shaped Gen.OsLog.idTables S tr v = true) :
    ∃ r, applyTransform Gen.OsLog.idTables S tr v = .ok r := by
  cases tr with
  | plain => exact ⟨v, rfl⟩
  | strIndex =>
    obtain ⟨_, s, _, _, hs⟩ := strIndex_of_isIdx (by simpa [Shaped] using h)
    exact ⟨_, hs⟩
  | enumOf e =>
    cases v with
    | int n =>
      simp only [Shaped, Bool.and_eq_true, decide_eq_true_eq] at h
      exact enumOfVal_ok h.1 h.2
    | _ => simp [Shaped] at h
  | dictShape pairs =>
    obtain ⟨d, _, hd⟩ := dictShape_ok (pairs := pairs) (by simpa [Shaped] using h)
    exact ⟨_, hd⟩
  | listDictShape pairs =>
    cases v with
    | list xs =>
      simp only [Shaped, List.all_eq_true] at h
      obtain ⟨ys, hys⟩ := mapE_ok_exists (f := dictShape pairs) xs (fun a ha => by
        obtain ⟨d, _, hd⟩ := dictShape_ok (pairs := pairs) (h a ha)
        exact ⟨_, hd⟩)
      simp only [applyTransform, iter, hys, andThen_ok]
      exact ⟨_, rfl⟩
    | _ => simp [Shaped] at h
  | timestamp ks ku =>
    cases v with
    | dict d =>
      simp only [Shaped, Bool.and_eq_true] at h
      obtain ⟨s, hs, hs0, hs1⟩ := intIn_spec h.1
      obtain ⟨u, hu, hu0, hu1⟩ := intIn_spec h.2
      exact ⟨_, timestamp_exact hs hu hs0 hs1 hu0 hu1⟩
    | _ => simp [Shaped] at h
  | decomposed => exact parseDecomposed_ok (by simpa [Shaped] using h)
  | traceId =>
    cases v with
    | int w =>
      simp only [Shaped, Bool.and_eq_true, decide_eq_true_eq] at h
      exact parseTraceIdentifier_ok h.1.1 h.1.2 h.2
    | _ => simp [Shaped] at h
  | unsupported src => simp [Shaped] at h

end KdVerif.OsLog
