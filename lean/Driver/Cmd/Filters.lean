import Driver.Util
import KdVerif.Model.Filters
open KdVerif KdVerif.Filters
namespace Driver.Filters

/-- `N` = Python `None`. -/
def optNat (s : String) : Option (Option Nat) :=
  if s = "N" then some none else s.toNat?.map some

def optNatList (s : String) : Option (Option (List Nat)) :=
  if s = "N" then some none else (parseNatList s).map some

def optText (s : String) : Option (Option String) :=
  if s = "N" then some none else (stringOfHex s).map some

/-- `E<record hex>` or `L<tid>:<pid>:<process hex>:<message hex>`. -/
def parseItem (s : String) : Option Item :=
  match s.toList with
  | 'E' :: rest => do
    let bs ← ofHex (String.ofList rest)
    let e ← (fromKdBuf bs).toOption
    pure (.event e)
  | 'L' :: rest =>
    match (String.ofList rest).splitOn ":" with
    | [tid, pid, proc, msg] => do
      let tid ← tid.toNat?
      let pid ← pid.toInt?
      let proc ← stringOfHex proc
      let msg ← stringOfHex msg
      pure (.log ⟨tid, proc, pid, msg⟩)
    | _ => none
  | _ => none

def showEvent (e : Kevent) : String := s!"{e.timestamp}:{e.tid}:{e.debugid}"
def showLog (l : LogRec) : String :=
  s!"{l.threadIdentifier}:{l.processIdentifier}:{hexOfString l.process}:{hexOfString l.message}"

/-- `filter <tid|N> <filter_class argument: N | - | csv> <filter_class> <filter_subclass> <process hex|N> <item>…`
    answers the event listing and the log listing of the same stream. -/
def cmdFilter : Cmd
  | tid :: fcArg :: cls :: subs :: proc :: items =>
    match optNat tid, optNatList fcArg, parseNatList cls, parseNatList subs, optText proc, items.mapM parseItem with
    | some tid, some fcArg, some cls, some subs, some proc, some items =>
      let cfg : Cfg := { filterTid := tid, filterClass := cls, filterSubclass := subs, filterProcess := proc }
      "ok " ++ " ".intercalate ((kevents cfg fcArg items).map showEvent) ++ " | "
        ++ " ".intercalate ((osLogEvents cfg items).map showLog)
    | _, _, _, _, _, _ => "bad-op"
  | _ => "bad-op"

def commands : List (String × Cmd) := [("filter", cmdFilter)]

end Driver.Filters
