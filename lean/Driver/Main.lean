import Driver.Cmd.Kevent
import Driver.Cmd.Pairing
import Driver.Cmd.Render
import Driver.Cmd.Callstacks
import Driver.Cmd.TraceCodes
import Driver.Cmd.Filters
import Driver.Cmd.Format
import Driver.Cmd.OsLog
import Driver.Cmd.Flags
import Driver.Cmd.Trace
import Driver.Cmd.Container
import Driver.Cmd.TracePipeline
import Driver.Cmd.EndToEnd
import Driver.Cmd.PyIR
import Driver.Cmd.PyIRRd
import Driver.Cmd.PyIRVn
import Driver.Cmd.PyIRFl
import Driver.Cmd.PyIRFm
import Driver.Cmd.PyIRTr
import Driver.Cmd.PyIRCo
import Driver.Cmd.PyIROl
import Driver.Cmd.PyIRCli
import Driver.Cmd.PyIRCn
/-
  Line-protocol driver: one operation per line on stdin, one canonical answer per line on
  stdout.  Byte strings and texts travel as hex.  Imports no Mathlib (so it links).
  Each `Driver/Cmd/*.lean` exports `commands : List (String × Cmd)`.
-/
open Driver

def allCommands : List (String × Cmd) :=
  Driver.Kevent.commands ++ Driver.Pairing.commands ++ Driver.Render.commands ++ Driver.Callstacks.commands ++ Driver.TraceCodes.commands ++ Driver.Filters.commands ++ Driver.Format.commands ++ Driver.OsLog.commands ++ Driver.Flags.commands ++ Driver.Trace.commands ++ Driver.Container.commands ++ Driver.TracePipeline.commands ++ Driver.EndToEnd.commands ++ Driver.PyIR.commands ++ Driver.PyIRRd.commands ++
  Driver.PyIRVn.commands ++ Driver.PyIRFl.commands ++ Driver.PyIRFm.commands ++ Driver.PyIRTr.commands ++ Driver.PyIRCo.commands ++ Driver.PyIROl.commands ++ Driver.PyIRCli.commands ++ Driver.PyIRCn.commands

def dispatch (line : String) : String :=
  match (line.trimAscii.toString.splitOn " ").filter (· ≠ "") with
  | c :: args =>
    match allCommands.lookup c with
    | some f => f args
    | none => "bad-op"
  | [] => "bad-op"

partial def loop (h : IO.FS.Stream) (out : IO.FS.Stream) : IO Unit := do
  let line ← h.getLine
  if line.isEmpty then return ()
  out.putStrLn (dispatch line)
  loop h out

def main : IO Unit := do
  let out ← IO.getStdout
  loop (← IO.getStdin) out
  out.flush
