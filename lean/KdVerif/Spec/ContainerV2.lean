import KdVerif.Model.Construct
/-
  The RAW_VERSION2 file grammar, written as an encoder (the specification `parse` is proved
  against).  Independent of the reader model: only `toLE` and list operations.
  Thread names are kept as their UTF-8 BYTES (the parser's `str` is their decoding; decoding is
  injective on valid UTF-8, so comparing bytes is comparing names).  The only thing taken from the
  model files is the UTF-8 validity predicate `validUtf8` (tied to CPython by correspondence `utf8`).
-/
namespace KdVerif.Spec

structure V2Thread where
  tid : Nat
  pid : Nat
  name : Bytes
  /-- bytes left in the 20-byte command field BEHIND the name's terminator (a reused kernel slot: the field is a C
      string, what follows the first NUL is not part of the name); the rest of the field is NUL. -/
  junk : Bytes := []
  deriving Repr, DecidableEq

structure V2File where
  threads : List V2Thread
  pad : Nat                 -- zero bytes between thread map and first record
  recs : List Bytes         -- the 64-byte records
  is64 : Nat
  tick : Nat
  deriving Repr

def zeros (n : Nat) : Bytes := List.replicate n 0

/-- what follows the name in the 20-byte command field: the terminator, the junk, NUL padding. -/
def V2Thread.fieldTail (t : V2Thread) : Bytes :=
  0 :: (t.junk ++ zeros (19 - t.name.length - t.junk.length))

/-- one 32-byte `kd_threadmap` entry: tid, pid, and the 20-byte command field = name, NUL, arbitrary bytes, NUL padding
    (with `junk = []`: the name NUL-padded to 20 bytes). -/
def encodeThread (t : V2Thread) : Bytes :=
  toLE 8 t.tid ++ (toLE 4 t.pid ++ (t.name ++ t.fieldTail))

def v2Magic : Bytes := [0x00, 0x02, 0xaa, 0x55]

def encodeV2 (f : V2File) : Bytes :=
  v2Magic ++ (toLE 4 f.threads.length ++ (zeros 8 ++ (zeros 4 ++ (toLE 4 f.is64 ++ (toLE 8 f.tick ++
    (zeros 0x100 ++ ((f.threads.map encodeThread).flatten ++ (zeros f.pad ++ f.recs.flatten))))))))

/-- a thread-map entry the 20-byte name field can hold: NUL-free valid UTF-8 of at most 19 bytes
    (a 20-byte name leaves no room for the terminator and is rejected by the real `CString`). -/
def V2Thread.WF (t : V2Thread) : Prop :=
  t.tid < 2 ^ 64 ∧ t.pid < 2 ^ 32 ∧ (∀ b ∈ t.name, b ≠ 0) ∧ t.name.length + t.junk.length ≤ 19 ∧ validUtf8 t.name = true

def V2File.WF (f : V2File) : Prop :=
  f.threads.length < 2 ^ 32 ∧ (∀ t ∈ f.threads, t.WF) ∧ f.is64 < 2 ^ 32 ∧ f.tick < 2 ^ 64 ∧
  (∀ r ∈ f.recs, r.length = 64 ∧ IsBytes r)

end KdVerif.Spec
