import Driver.Cmd.Container
import KdVerif.Model.PyIRRd
import KdVerif.Gen.PyIRRd
import KdVerif.Spec.PyIRRdExpected
/-
  Commands for the translation tie of the reader code (C02, C03, C06): the program GENERATED from kd_buf_parser.py
  (`Gen/PyIRRd`) run by the interpreter of `Model/PyIRRd`.

  rdircheck                                          `same` | `differs <parts>` (`C02/C03/C06.source_is_expected_ir`)
  rdparse / rdparsen / rdparseseq / rdparseseqn / rdtrunc   the commands `parse` … `trunc` of Driver/Cmd/Container, through
                                                     `PyIRRd.parseVia Gen.PyIRRd.prog` instead of the hand model `parse`
  rdseek <tag hex> <data hex> <pos>                  `seek_until` interpreted on a reader standing at `pos`
  rdinit <given>                                     `KdBufParser.__init__` interpreted (which dicts the tables are, metadata)
  `unsupported` when the translation contains a node outside the IR.
-/
open KdVerif
namespace Driver.PyIRRd
open Driver.Container KdVerif.PyIRRd

def unsupported : Bool := Gen.PyIRRd.prog.hasUnsupported || !Gen.PyIRRd.notes.isEmpty

def cmdCheck : Cmd := fun _ =>
  let g := Gen.PyIRRd.prog
  let x := KdVerif.PyIRRd.Expected.prog
  let d : List String :=
    (if g.seekUntil = x.seekUntil then [] else ["seek_until"]) ++
    (if g.setThreadMap = x.setThreadMap then [] else ["set_thread_map"]) ++
    (if g.parseV2 = x.parseV2 then [] else ["parse_v2"]) ++
    (if g.parseV3 = x.parseV3 then [] else ["parse_v3"]) ++
    (if g.parse = x.parse then [] else ["parse"]) ++
    (if g.init = x.init then [] else ["__init__"]) ++
    (if Gen.PyIRRd.notes.isEmpty then [] else ["notes"])
  if d.isEmpty then "same" else
    "differs " ++ ",".intercalate d ++ (if unsupported then " unsupported" else "")

def showTableRef : Option TableRef → String
  | none => "unbound"
  | some (.arg k) => s!"arg{k}"
  | some .fresh => "new"

/-- `rdinit <given>` : the GENERATED `KdBufParser.__init__` run on the positional arguments `<given>` (one character per
    argument: `1` a dict, `0` `None`; `-` no argument), the metadata attributes holding junk before: which object the two
    tables are (`arg<k>` = the caller's dict itself, `new` = a new empty dict), then the metadata as `parse…` prints it. -/
def cmdInit : Cmd
  | [g] =>
    if Gen.PyIRRd.prog.init.hasUnsupported || !Gen.PyIRRd.notes.isEmpty then "unsupported" else
    let given := (unDash g).toList.map (· == '1')
    let junk : V3Meta := ⟨some ([1], [2]), [3], [4], some [5], false, some [6], some [7], some [8]⟩
    match runCtor Gen.PyIRRd.prog.init given junk with
    | .error e => "err " ++ e.name
    | .ok o => s!"ok tp={showTableRef o.threadsPids} pn={showTableRef o.pidsNames} {showMeta o.md}"
  | _ => "bad-op"

def via (tbl : List (Bytes × PView)) (prior : PState) (data : Bytes) : Run3 Kevent :=
  parseVia Gen.PyIRRd.prog (plistOf tbl) fromKdBuf prior data

def runOf (tp pn pl h : String) : Option (Run3 Kevent) := do
  let tp ← parsePairs tp
  let pn ← parseNames pn
  let tbl ← parsePlists pl
  let data ← ofHex (unDash h)
  pure (via tbl ⟨⟨tp, pn⟩, {}⟩ data)

def cmdParse : Cmd
  | [tp, pn, pl, h] =>
    if unsupported then "unsupported" else
    match runOf tp pn pl h with
    | some x => showRun x
    | none => "bad-op"
  | _ => "bad-op"

def cmdParseN : Cmd
  | [tp, pn, pl, h] =>
    if unsupported then "unsupported" else
    match runOf tp pn pl h with
    | some x => showRunCore x
    | none => "bad-op"
  | _ => "bad-op"

def seqWith (sh : Run3 Kevent → String) : Cmd
  | tp :: pn :: pl :: files =>
    if unsupported then "unsupported" else
    match parsePairs tp, parseNames pn, parsePlists pl, files.mapM (fun h => ofHex (unDash h)) with
    | some tp, some pn, some tbl, some datas =>
      let step := fun (acc : PState × List String) (data : Bytes) =>
        let x := via tbl acc.1 data
        (⟨x.tables, x.md⟩, acc.2 ++ [sh x])
      " || ".intercalate (datas.foldl step (⟨⟨tp, pn⟩, {}⟩, [])).2
    | _, _, _, _ => "bad-op"
  | _ => "bad-op"

def cmdTrunc : Cmd
  | [tp, pn, pl, h, ks] =>
    if unsupported then "unsupported" else
    match parsePairs tp, parseNames pn, parsePlists pl, ofHex (unDash h), parseNatList ks with
    | some tp, some pn, some tbl, some data, some ks =>
      " ".intercalate (ks.map fun k =>
        let x := via tbl ⟨⟨tp, pn⟩, {}⟩ (data.take k)
        let es := x.events
        s!"{k}:{showErr x.err}:{es.length}:{evSum es}:{x.rd.calls}:{x.rd.got}:{x.rd.req}")
    | _, _, _, _, _ => "bad-op"
  | _ => "bad-op"

def cmdSeek : Cmd
  | [tag, data, pos] =>
    if unsupported then "unsupported" else
    match ofHex (unDash tag), ofHex (unDash data), pos.toNat? with
    | some t, some d, some p =>
      match runSeek Gen.PyIRRd.prog.seekUntil t { data := d, pos := p } with
      | (.ok _, r) => s!"ok {showReads r}"
      | (.error e, r) => s!"err {e.name} {showReads r}"
    | _, _, _ => "bad-op"
  | _ => "bad-op"

def commands : List (String × Cmd) :=
  [("rdircheck", cmdCheck), ("rdinit", cmdInit), ("rdparse", cmdParse), ("rdparsen", cmdParseN), ("rdparseseq", seqWith showRun),
   ("rdparseseqn", seqWith showRunCore), ("rdtrunc", cmdTrunc), ("rdseek", cmdSeek)]

end Driver.PyIRRd
