import KdVerif.Model.IRAnalysis
/-
  A small type discipline for the decoder IR (C07).  Everything here is executable and core-only, so that
  the kernel can run the checker over the generated decoder table (`decide +kernel`) and the driver can
  evaluate the collected side conditions on concrete events (command `indomain`).

  `infer Γ e = some (τ, cs)` means: in every context that satisfies `Γ` (field types, a lower bound of the
  lookup count, `x in errno.errorcode` facts established by enclosing guards) and in which the side
  conditions `cs` hold, `eval` succeeds on `e` with a value of type `τ` (`Proofs/IRTyping.infer_sound`).
  The side conditions are the nodes whose success depends on the value of an operand, not on its type:
  `E(x)` (member?), `Signals(x)` (host member?), `DICT[x]` (key?), `chr(x)` (code point?), plus the
  existence of the enum / dict a node refers to by index.  Nodes that can raise because of *missing
  context* are rejected: `global_strings[x]`, `parse_vnodes(events)[i]` outside a guard that proves
  `i` in range, `unsupported`.
-/
namespace KdVerif.IR

inductive Ty
  | int        -- any Python int
  | nat        -- a non-negative int (START/END words, masks, lengths)
  | str | bool | none | member | members | ints
  | dyn        -- any value (`int or str` of the sockopt level, `str or None` of posix_spawn's stdio paths)
  deriving DecidableEq, Repr, Inhabited

def hasTy : Val → Ty → Bool
  | .int _, .int => true
  | .int i, .nat => decide (0 ≤ i)
  | .str _, .str => true
  | .bool _, .bool => true
  | .none, .none => true
  | .member _ _, .member => true
  | .members _, .members => true
  | .ints _, .ints => true
  | _, .dyn => true
  | _, _ => false

/-- Types whose values `asNat` accepts. -/
def Ty.intLike : Ty → Bool
  | .int | .nat | .bool => true
  | _ => false

/-- … and yields a non-negative number for. -/
def Ty.natLike : Ty → Bool
  | .nat | .bool => true
  | _ => false

/-- Type of `t if c else e`. -/
def Ty.join (a b : Ty) : Ty :=
  if a = b then a
  else if (a = .nat ∧ b = .int) ∨ (a = .int ∧ b = .nat) then .int
  else .dyn

/-- What a side condition asserts. -/
inductive Atom
  | enumDefined (e : Nat)                    -- the tables define enum number `e`
  | memberDefined (e i : Nat)                -- … and its `i`-th member
  | isMember (e : Nat) (x : Expr)            -- `E(x)` succeeds: `x` is the value of a member
  | hostMember (t : HostTable) (x : Expr)    -- `Signals(x)` … succeeds on this host
  | hostKey (t : HostTable) (x : Expr)       -- `errno.errorcode[x]` succeeds (outside a `x in …` guard)
  | dictKey (d : Nat) (x : Expr)             -- `DICT[x]` succeeds
  | chrRange (x : Expr)                      -- `chr(x)` succeeds
  deriving DecidableEq, Repr, Inhabited

/-- A side condition under the path condition of the enclosing conditionals: the atom must hold when
    every guard evaluates to the stated truth value. -/
structure Cond where
  guards : List (Expr × Bool)
  atom : Atom
  deriving DecidableEq, Repr, Inhabited

def Cond.under (g : Expr) (b : Bool) (cd : Cond) : Cond := { cd with guards := (g, b) :: cd.guards }

def evalNat (c : Ctx) (x : Expr) : Option Int :=
  match eval c x with
  | .ok v => match asNat v with
    | .ok i => some i
    | .error _ => none
  | .error _ => none

def Atom.ok (c : Ctx) : Atom → Bool
  | .enumDefined e => (c.tables.enums[e]?).isSome
  | .memberDefined e i => match c.tables.enums[e]? with
    | some d => (d.members[i]?).isSome
    | none => false
  | .isMember e x => match evalNat c x, c.tables.enums[e]? with
    | some i, some d => (d.ofValue i).isSome
    | _, _ => false
  | .hostMember t x => match evalNat c x with
    | some i => decide (0 ≤ i) && (c.host.table t i.toNat).isSome
    | none => false
  | .hostKey t x => match evalNat c x with
    | some i => decide (0 ≤ i) && (c.host.table t i.toNat).isSome
    | none => false
  | .dictKey d x => match evalNat c x, c.tables.dicts[d]? with
    | some i, some l => decide (0 ≤ i) && (l.lookup i.toNat).isSome
    | _, _ => false
  | .chrRange x => match evalNat c x with
    | some i => decide (0 ≤ i ∧ i < 0x110000)
    | none => false

def guardHolds (c : Ctx) (g : Expr × Bool) : Bool :=
  match eval c g.1 with
  | .ok v => truthy v == g.2
  | .error _ => false

def Cond.ok (c : Ctx) (cd : Cond) : Bool := !(cd.guards.all (guardHolds c)) || cd.atom.ok c

/-- What the checker knows at a node. -/
structure TEnv where
  fts : List Ty := []                          -- types of `self.<field i>` (in `__str__`)
  bound : Nat := 0                             -- known lower bound of `len(parse_vnodes(events))`
  facts : List (HostTable × Expr) := []        -- enclosing `x in errno.errorcode` guards
  deriving Repr, Inhabited

/-- The lower bound of `len(parse_vnodes(events))` that a comparison establishes when its truth value is `b`. -/
def cmpBound : Bool → CmpOp → Expr → Expr → Nat
  | true, .gt, .lookupCount, .int k => (k + 1).toNat        -- len(nodes) > k   (`if nodes` is k = 0)
  | true, .ge, .lookupCount, .int k => k.toNat
  | true, .eq, .lookupCount, .int k => k.toNat
  | true, .ne, .lookupCount, .int 0 => 1
  | true, .lt, .int k, .lookupCount => (k + 1).toNat        -- k < len(nodes)
  | true, .le, .int k, .lookupCount => k.toNat
  | false, .lt, .lookupCount, .int k => k.toNat             -- not (len(nodes) < k)
  | false, .le, .lookupCount, .int k => (k + 1).toNat
  | false, .eq, .lookupCount, .int 0 => 1
  | false, .gt, .int k, .lookupCount => k.toNat
  | false, .ge, .int k, .lookupCount => (k + 1).toNat
  | _, _, _, _ => 0

/-- … that a guard establishes when its truthiness is `b` (through `not`, `bool()`, `and` / `or`). -/
def boundIf : Bool → Expr → Nat
  | b, .notE g => boundIf (!b) g
  | b, .toBool g => boundIf b g
  | b, .andE x y => if b then max (boundIf true x) (boundIf true y) else 0
  | b, .orE x y => if b then 0 else max (boundIf false x) (boundIf false y)
  | b, .cmp op x y => cmpBound b op x y
  | _, _ => 0

/-- The `x in table` facts a guard establishes when its truthiness is `b`. -/
def factsIf : Bool → Expr → List (HostTable × Expr)
  | b, .notE g => factsIf (!b) g
  | b, .toBool g => factsIf b g
  | b, .andE x y => if b then factsIf true x ++ factsIf true y else []
  | b, .orE x y => if b then [] else factsIf false x ++ factsIf false y
  | b, .hostHas t x => if b then [(t, x)] else []
  | _, _ => []

def TEnv.assume (Γ : TEnv) (b : Bool) (g : Expr) : TEnv :=
  { Γ with bound := max Γ.bound (boundIf b g), facts := factsIf b g ++ Γ.facts }

/-- `parse_vnodes(events)[i]` is in range whenever at least `bound` lookups exist. -/
def selInRange (bound : Nat) : LookupSel → Bool
  | .first => true
  | .rest => true
  | .idx i => if 0 ≤ i then decide (i.toNat < bound) else decide ((-i).toNat ≤ bound)

def under (g : Expr) (b : Bool) (cs : List Cond) : List Cond := cs.map (Cond.under g b)

def infer (Γ : TEnv) : Expr → Option (Ty × List Cond)
  | .startArg k => if k < 4 then some (.nat, []) else none
  | .endArg k => if k < 4 then some (.nat, []) else none
  | .startTid => some (.nat, [])
  | .field i => match Γ.fts[i]? with
    | some τ => some (τ, [])
    | none => none
  | .int i => some (if 0 ≤ i then .nat else .int, [])
  | .strLit _ => some (.str, [])
  | .bool _ => some (.bool, [])
  | .none => some (.none, [])
  | .memberConst e i => some (.member, [⟨[], .memberDefined e i⟩])
  | .cInt64 e | .cInt32 e => match infer Γ e with
    | some (τ, cs) => if τ.intLike then some (.int, cs) else none
    | none => none
  | .band a b => match infer Γ a, infer Γ b with
    | some (τa, ca), some (τb, cb) => if τa.intLike && τb.natLike then some (.nat, ca ++ cb) else none
    | _, _ => none
  | .bor a b => match infer Γ a, infer Γ b with
    | some (τa, ca), some (τb, cb) => if τa.natLike && τb.natLike then some (.nat, ca ++ cb) else none
    | _, _ => none
  | .shr a b | .shl a b => match infer Γ a, infer Γ b with
    | some (τa, ca), some (τb, cb) =>
      if τa.intLike && τb.natLike then some (if τa.natLike then .nat else .int, ca ++ cb) else none
    | _, _ => none
  | .toBool e | .notE e | .isNone e => match infer Γ e with
    | some (_, cs) => some (.bool, cs)
    | none => none
  | .cmp op a b => match infer Γ a, infer Γ b with
    | some (τa, ca), some (τb, cb) =>
      if op = .eq || op = .ne || (τa.intLike && τb.intLike) then some (.bool, ca ++ cb) else none
    | _, _ => none
  | .andE a b => match infer Γ a, infer (Γ.assume true a) b with
    | some (τa, ca), some (τb, cb) => some (τa.join τb, ca ++ under a true cb)
    | _, _ => none
  | .orE a b => match infer Γ a, infer (Γ.assume false a) b with
    | some (τa, ca), some (τb, cb) => some (τa.join τb, ca ++ under a false cb)
    | _, _ => none
  | .ite c t e => match infer Γ c, infer (Γ.assume true c) t, infer (Γ.assume false c) e with
    | some (_, cc), some (τt, ct), some (τe, ce) => some (τt.join τe, cc ++ under c true ct ++ under c false ce)
    | _, _, _ => none
  | .inList x l => match infer Γ x, infer Γ l with
    | some (τx, cx), some (τl, cl) => if τx = .member && τl = .members then some (.bool, cx ++ cl) else none
    | _, _ => none
  | .enumOf e x => match infer Γ x with
    | some (τ, cs) => if τ.intLike then some (.member, cs ++ [⟨[], .isMember e x⟩]) else none
    | none => none
  | .enumNameOr e x => match infer Γ x with
    | some (τ, cs) => if τ.intLike then some (.dyn, cs ++ [⟨[], .enumDefined e⟩]) else none
    | none => none
  | .flagsOf e x => match infer Γ x with
    | some (τ, cs) => if τ.intLike then some (.members, cs ++ [⟨[], .enumDefined e⟩]) else none
    | none => none
  | .singleton e => match infer Γ e with
    | some (τ, cs) => if τ = .member then some (.members, cs) else none
    | none => none
  | .nilList => some (.members, [])
  | .startArgsList => some (.ints, [])
  | .helper _ x => match infer Γ x with
    | some (τ, cs) => if τ.natLike then some (.members, cs) else none
    | none => none
  | .hostEnum t x => match infer Γ x with
    | some (τ, cs) => if τ.intLike then some (.member, cs ++ [⟨[], .hostMember t x⟩]) else none
    | none => none
  | .hostHas _ x => match infer Γ x with
    | some (_, cs) => some (.bool, cs)
    | none => none
  | .hostGet t x => match infer Γ x with
    | some (τ, cs) =>
      if Γ.facts.contains (t, x) then some (.str, cs)
      else if τ.intLike then some (.str, cs ++ [⟨[], .hostKey t x⟩]) else none
    | none => none
  | .hostSolSocket => some (.nat, [])
  | .lookupCount => some (.nat, [])
  | .lookupPath sel => if selInRange Γ.bound sel then some (.str, []) else none
  | .lookupVnode sel => if selInRange Γ.bound sel then some (.nat, []) else none
  | .lookupPathOrEmpty | .lookupRestPathOrEmpty => some (.str, [])
  | .lookupVnodeOrZero => some (.nat, [])
  | .globalStr _ => none                     -- `parser.global_strings[x]`: KeyError when never announced
  | .globalStrGet x d => match infer Γ x, infer Γ d with
    | some (τx, cx), some (τd, cd) => if τx.intLike then some (Ty.join .str τd, cx ++ cd) else none
    | _, _ => none
  | .threadsPidsGet x => match infer Γ x with
    | some (τ, cs) => if τ.intLike then some (.dyn, cs) else none
    | none => none
  | .tidsNamesGet x d => match infer Γ x, infer Γ d with
    | some (τx, cx), some (τd, cd) => if τx.intLike then some (Ty.join .str τd, cx ++ cd) else none
    | _, _ => none
  | .uuidOfData => some (.str, [])
  | .constDict d x => match infer Γ x with
    | some (τ, cs) => if τ.intLike then some (.str, cs ++ [⟨[], .dictKey d x⟩]) else none
    | none => none
  | .cat a b => match infer Γ a, infer Γ b with
    | some (τa, ca), some (τb, cb) => if τa = .str && τb = .str then some (.str, ca ++ cb) else none
    | _, _ => none
  | .strOf e => match infer Γ e with
    | some (_, cs) => some (.str, cs)
    | none => none
  | .hexOf e => match infer Γ e with
    | some (τ, cs) => if τ.intLike then some (.str, cs) else none
    | none => none
  | .nameOf e => match infer Γ e with
    | some (τ, cs) => if τ = .member then some (.str, cs) else none
    | none => none
  | .joinNames _ e => match infer Γ e with
    | some (τ, cs) => if τ = .members then some (.str, cs) else none
    | none => none
  | .joinHex _ e => match infer Γ e with
    | some (τ, cs) => if τ = .ints then some (.str, cs) else none
    | none => none
  | .lower e => match infer Γ e with
    | some (τ, cs) => if τ = .str then some (.str, cs) else none
    | none => none
  | .chrOf x => match infer Γ x with
    | some (τ, cs) => if τ.intLike then some (.str, cs ++ [⟨[], .chrRange x⟩]) else none
    | none => none
  | .lenOf e => match infer Γ e with
    | some (τ, cs) => if τ = .members || τ = .ints || τ = .str then some (.nat, cs) else none
    | none => none
  | .unsupported _ => none

/-- The checker of the task statement: type of `e` under field types `fts` and lookup bound `bound`. -/
def wt (fts : List Ty) (bound : Nat) (e : Expr) : Option Ty := (infer { fts := fts, bound := bound } e).map (·.1)

/-- … and the side conditions it collects. -/
def conds (fts : List Ty) (bound : Nat) (e : Expr) : List Cond :=
  ((infer { fts := fts, bound := bound } e).map (·.2)).getD []

/-- Constructor arguments: each checked on its own with no field in scope and no lookup known to exist. -/
def inferFields : List Expr → Option (List Ty × List Cond)
  | [] => some ([], [])
  | e :: es => match infer {} e, inferFields es with
    | some (τ, cs), some (τs, css) => some (τ :: τs, cs ++ css)
    | _, _ => none

/-! ### side conditions as expressions over the event's own words -/

def Atom.subst (fs : List Expr) : Atom → Atom
  | .isMember e x => .isMember e (IR.subst fs x)
  | .hostMember t x => .hostMember t (IR.subst fs x)
  | .hostKey t x => .hostKey t (IR.subst fs x)
  | .dictKey d x => .dictKey d (IR.subst fs x)
  | .chrRange x => .chrRange (IR.subst fs x)
  | a => a

def Cond.subst (fs : List Expr) (cd : Cond) : Cond :=
  { guards := cd.guards.map fun g => (IR.subst fs g.1, g.2), atom := cd.atom.subst fs }

def Atom.within (s : Sel) : Atom → Bool
  | .isMember _ x | .dictKey _ x | .chrRange x => IR.within s x
  | .hostMember t x | .hostKey t x => (if t = .errno then s.hostErrno else s.host) && IR.within s x
  | _ => true

def Cond.within (s : Sel) (cd : Cond) : Bool := cd.guards.all (fun g => IR.within s g.1) && cd.atom.within s

/-- What a condition on the START record may read / on the END record. -/
def startSel : Sel := { startAll := true, tid := true, data := true, host := true, hostErrno := true }
def endSel : Sel := { endA := true, host := true, hostErrno := true }

/-- Result of checking a decoder: the side conditions of the handler call and of `__str__`, the latter with
    the constructor arguments inlined (so that they are expressions over the window, like the former). -/
structure Checked where
  fieldTys : List Ty
  fieldConds : List Cond
  strConds : List Cond
  deriving Repr, Inhabited

def checkDecoder (d : Decoder) : Option Checked :=
  match inferFields d.fields with
  | some (fts, fc) =>
    match infer { fts := fts } d.str with
    | some (τ, sc) => if τ = .str then some ⟨fts, fc, sc.map (Cond.subst d.fields)⟩ else none
    | none => none
  | none => none

/-- The decoder passes the checker. -/
def typed (d : Decoder) : Bool := (checkDecoder d).isSome

def Checked.conds (k : Checked) : List Cond := k.fieldConds ++ k.strConds

/-- Every side condition reads the START record only or the END record only (never a lookup, never a
    context table): it is a condition on ONE event's own words. -/
def condsOwn (d : Decoder) : Bool :=
  match checkDecoder d with
  | some k => k.conds.all fun cd => cd.within startSel || cd.within endSel
  | none => false

def ctxOf (h : Host) (t : Tables) (w : Window) : Ctx := { host := h, tables := t, win := w }

/-- The decoder's side conditions hold on the window. -/
def condsHold (h : Host) (t : Tables) (d : Decoder) (w : Window) : Bool :=
  match checkDecoder d with
  | some k => k.conds.all (Cond.ok (ctxOf h t w))
  | none => false

/-- The part a record plays in its window: the START record supplies `events[0]`, the END record `events[-1]`. -/
inductive Role | start | end_
  deriving DecidableEq, Repr

/-- The side conditions that read the START record (resp. the others, which read the END record only,
    `condsOwn`) hold on the window. -/
def condsHoldAs (r : Role) (h : Host) (t : Tables) (d : Decoder) (w : Window) : Bool :=
  match checkDecoder d with
  | some k => k.conds.all fun cd =>
      (match r with | .start => !cd.within startSel | .end_ => cd.within startSel) || cd.ok (ctxOf h t w)
  | none => false

end KdVerif.IR
